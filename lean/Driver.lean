import PyaisVerif.Model.Codec
import PyaisVerif.Model.Armor
import PyaisVerif.Model.CommState
import PyaisVerif.Generated.Tables
import PyaisVerif.Generated.Consts
/-!
# Line-protocol driver: one operation per input line, one canonical output line

Run as a compiled executable (`.lake/build/bin/driver`) or with `lake env lean --run Driver.lean`.
The Python harness (`harness/impl_driver.py`) answers the same lines with the real pyais and the
two output streams are diffed (tie 2, DESIGN §4.2).
-/
open Model Py

namespace Drv

def hexDigit (n : Nat) : Char := if n < 10 then Char.ofNat (48 + n) else Char.ofNat (87 + n)
def hexOfBytes (bs : List Nat) : String :=
  String.ofList (bs.flatMap fun b => [hexDigit (b / 16 % 16), hexDigit (b % 16)])

def hexVal? (c : Char) : Option Nat := Py.hexVal c.toNat
def bytesOfHex (s : String) : List Nat :=
  let rec go : List Char → List Nat
    | a :: b :: r => (match hexVal? a, hexVal? b with
        | some x, some y => (x * 16 + y) :: go r
        | _, _ => go r)
    | _ => []
  if s = "-" then [] else go s.toList

def showVal : Val → String
  | .none => "N"
  | .int i => s!"i:{i}"
  | .bool b => if b then "b:1" else "b:0"
  | .flt m => s!"f:{m}"
  | .str s => s!"s:{hexOfBytes s}"
  | .bytes b => s!"y:{hexOfBytes b}"
  | .enum c v => s!"e:{c}:{v}"

def showMsg (m : Msg) : String :=
  m.cls ++ "|" ++ ";".intercalate (m.fields.map fun (k, v) => k ++ "=" ++ showVal v)

def showErr (e : Err) : String := "ERR:" ++ e.name

def showExcept {α} (f : α → String) : Except Err α → String
  | .ok a => f a
  | .error e => showErr e

def parseBits (s : String) : Bits := if s = "-" then [] else bitsOfString s
def showBits (b : Bits) : String := if b.isEmpty then "-" else bitsToString b

def showOptNat : Option Nat → String
  | some n => toString n
  | none => "N"

def showCS (c : CommState) : String :=
  ",".intercalate [
    "rs=" ++ showOptNat c.received_stations, "sn=" ++ showOptNat c.slot_number,
    "uh=" ++ showOptNat c.utc_hour, "um=" ++ showOptNat c.utc_minute,
    "so=" ++ showOptNat c.slot_offset, "st=" ++ showOptNat c.slot_timeout,
    "ss=" ++ showOptNat c.sync_state, "kf=" ++ showOptNat c.keep_flag,
    "si=" ++ showOptNat c.slot_increment, "ns=" ++ showOptNat c.num_slots]

def showOptCS : Option CommState → String
  | some c => showCS c
  | none => "ERR:ValueError"

def parseInt (s : String) : Int :=
  match s.toInt? with
  | some i => i
  | none => 0

def env := Generated.env
def cs := Generated.csConsts

def step (line : String) : String :=
  match (line.trimAscii.toString.splitOn " ").filter (· ≠ "") with
  | ["frombits", b] => showExcept showMsg (decodeBits env (parseBits b))
  | ["frombits_cls", c, b] => showExcept showMsg (fromBitarray env c (parseBits b))
  | ["dearmor", p, f] => showExcept showBits (dearmor (bytesOfHex p) (parseInt f))
  | ["armor", b] => let (cs, f) := encodeAscii6 (parseBits b); s!"{hexOfBytes cs} {f}"
  | ["sotdma", r] => showOptCS (sotdma cs r.toNat!)
  | ["itdma", r] => showCS (itdma cs r.toNat!)
  | ["commstate", t, r] =>
      let t := t.toNat!; let r := r.toNat!
      s!"{isSotdma cs t r} {isItdma cs t r} {commStateRaw cs r} " ++ showOptCS (getCommState cs t r)
  | _ => "BAD-OP"

partial def loop (h : IO.FS.Stream) (out : IO.FS.Stream) : IO Unit := do
  let line ← h.getLine
  if line.isEmpty then return ()
  out.putStrLn (step line)
  loop h out

end Drv

def main : IO Unit := do
  let stdin ← IO.getStdin
  let stdout ← IO.getStdout
  Drv.loop stdin stdout
