import PyaisVerif.Model.Codec
import PyaisVerif.Model.Armor
import PyaisVerif.Model.CommState
import PyaisVerif.Model.Nmea
import PyaisVerif.Model.TagBlock
import PyaisVerif.Model.Assemble
import PyaisVerif.Model.Socket
import PyaisVerif.Model.Encode
import PyaisVerif.Model.Filter
import PyaisVerif.Model.Tracker
import PyaisVerif.Model.Broker
import PyaisVerif.Spec.Layout
import PyaisVerif.Generated.Tables
import PyaisVerif.Generated.Consts
/-!
# Line-protocol driver: one operation per input line, one canonical output line

Run as a compiled executable (`.lake/build/bin/driver`) or with `lake env lean --run Driver.lean`.
The Python harness (`harness/impl.py`) answers the same lines with the real pyais and the two output
streams are diffed (tie 2, DESIGN §4.2).
-/
open Model Py

namespace Drv

def hexDigit (n : Nat) : Char := if n < 10 then Char.ofNat (48 + n) else Char.ofNat (87 + n)
def hexOfBytes (bs : List Nat) : String :=
  String.ofList (bs.flatMap fun b => [hexDigit (b / 16 % 16), hexDigit (b % 16)])
def hexOrDash (bs : List Nat) : String := if bs.isEmpty then "-" else hexOfBytes bs

def hexVal? (c : Char) : Option Nat := Py.hexVal c.toNat
def bytesOfHex (s : String) : List Nat :=
  let rec go : List Char → List Nat
    | a :: b :: r => (match hexVal? a, hexVal? b with
        | some x, some y => (x * 16 + y) :: go r
        | _, _ => go r)
    | _ => []
  if s = "-" then [] else go s.toList

def showVal : Val → String
  | .none => "N"
  | .int i => s!"i:{i}"
  | .bool b => if b then "b:1" else "b:0"
  | .flt m => s!"f:{m}"
  | .str s => s!"s:{hexOfBytes s}"
  | .bytes b => s!"y:{hexOfBytes b}"
  | .enum c v => s!"e:{c}:{v}"

def parseInt (s : String) : Int :=
  match s.toInt? with
  | some i => i
  | none => 0

def parseVal (s : String) : Val :=
  if s = "N" then .none else
  match s.splitOn ":" with
  | ["i", n] => .int (parseInt n)
  | ["b", n] => .bool (n = "1")
  | ["f", n] => .flt (parseInt n)
  | ["s", h] => .str (bytesOfHex h)
  | ["y", h] => .bytes (bytesOfHex h)
  | ["e", c, n] => .enum c (parseInt n)
  | _ => .none

def parseKw (s : String) : List (String × Val) :=
  if s = "-" then [] else
  (s.splitOn ";").filterMap fun kv =>
    match kv.splitOn "=" with
    | [k, v] => some (k, parseVal v)
    | _ => none

def showMsg (m : Msg) : String :=
  m.cls ++ "|" ++ ";".intercalate (m.fields.map fun (k, v) => k ++ "=" ++ showVal v)

def showErr (e : Err) : String := "ERR:" ++ e.name

def showExcept {α} (f : α → String) : Except Err α → String
  | .ok a => f a
  | .error e => showErr e

def parseBits (s : String) : Bits := if s = "-" then [] else bitsOfString s
def showBits (b : Bits) : String := if b.isEmpty then "-" else bitsToString b

def showOptNat : Option Nat → String
  | some n => toString n
  | none => "N"

def showOptInt : Option Int → String
  | some n => toString n
  | none => "N"

def showCS (c : CommState) : String :=
  ",".intercalate [
    "rs=" ++ showOptNat c.received_stations, "sn=" ++ showOptNat c.slot_number,
    "uh=" ++ showOptNat c.utc_hour, "um=" ++ showOptNat c.utc_minute,
    "so=" ++ showOptNat c.slot_offset, "st=" ++ showOptNat c.slot_timeout,
    "ss=" ++ showOptNat c.sync_state, "kf=" ++ showOptNat c.keep_flag,
    "si=" ++ showOptNat c.slot_increment, "ns=" ++ showOptNat c.num_slots]

def showOptCS : Option CommState → String
  | some c => showCS c
  | none => "ERR:ValueError"

def env := Generated.env
def cs := Generated.csConsts
def nk : NmeaConsts := { maxFragCnt := Generated.MAX_FRAG_CNT, maxPayloadLen := Generated.MAX_PAYLOAD_LEN }
def akStream : AsmConsts := { nmea := nk, bufSize := Generated.STREAM_BUF_SIZE, tagCodes := Generated.TAG_FIELD_CODES }
def akQueue : AsmConsts := { nmea := nk, bufSize := Generated.QUEUE_BUF_SIZE, tagCodes := Generated.TAG_FIELD_CODES }

def showGH (g : GH) : String :=
  s!"{hexOfBytes g.raw}/{",".intercalate (g.ts.map toString)}/{hexOrDash g.country}/{hexOrDash g.region}/{hexOrDash g.pss}/{g.online}"

def showOptGH : Option GH → String
  | some g => showGH g
  | none => "N"

def showOptBytes : Option Bytes → String
  | some b => hexOrDash b
  | none => "N"

/-- everything observable about a parsed sentence -/
def showSentence (s : Sentence) : String :=
  " ".intercalate [
    "raw=" ++ hexOrDash s.raw, "ais=" ++ (if s.isAIS then "1" else "0"),
    "delim=" ++ hexOrDash s.delimiter, "talker=" ++ hexOrDash s.talker, "typ=" ++ hexOrDash s.typ,
    "chk=" ++ toString s.checksum, "fill=" ++ toString s.fillBits,
    "valid=" ++ (if s.isValid then "1" else "0"),
    "df=" ++ ",".intercalate (s.dataFields.map hexOrDash),
    "tb=" ++ showOptBytes s.tagBlock, "w=" ++ showOptGH s.wrapper,
    (if s.isAIS then
      s!"fc={s.fragCnt} fn={s.fragNum} seq={showOptInt s.seqId} ch={hexOrDash s.channel} pl={hexOrDash s.payload} bits={showBits s.bits} id={s.aisId}"
     else "gh=" ++ showOptGH s.gh)]

def showDelivered (i : Nat) (s : Sentence) : String := s!"D{i}:[" ++ showSentence s ++ "]"

def showTbqList (i : Nat) (l : List Sentence) : String :=
  s!"T{i}:[" ++ "|".intercalate (l.map fun s => hexOrDash s.raw) ++ "]"

def showRun (idx : Bool) (r : AsmState × List StepOut) : String :=
  let outs :=
    if idx then
      r.2.zipIdx.flatMap fun (o, i) => (o.delivered.map (showDelivered i)) ++ (o.tbqOut.map (showTbqList i))
    else
      -- front-ends without input positions: all deliveries, then all tag-block-queue lists
      (r.2.flatMap fun o => o.delivered.map (showDelivered 0)) ++ (r.2.flatMap fun o => o.tbqOut.map (showTbqList 0))
  let crash := match r.1.crash with
    | some e => ["CRASH:" ++ e.name]
    | none => []
  let all := outs ++ crash
  if all.isEmpty then "-" else " ; ".intercalate all

def splitLFKeep (s : Bytes) : List Bytes :=
  let rec go : Bytes → Bytes → List Bytes
    | acc, [] => if acc.isEmpty then [] else [acc]
    | acc, b :: bs => if b = 10 then (acc ++ [b]) :: go [] bs else go (acc ++ [b]) bs
  go [] s

def sfilter (l : Bytes) : Bool := streamFilter Generated.STREAM_MIN_LEN Generated.SHOULD_PARSE_FIRST l

def showTB (t : TagBlock) : String :=
  " ".intercalate [
    "valid=" ++ (if t.isValid then "1" else "0"), s!"actual={t.actual}", s!"expected={t.expected}",
    "c=" ++ showOptBytes t.receiver_timestamp, "d=" ++ showOptBytes t.destination_station,
    "n=" ++ showOptBytes t.line_count, "r=" ++ showOptBytes t.relative_time,
    "s=" ++ showOptBytes t.source_station, "t=" ++ showOptBytes t.text,
    "g=" ++ (match t.group with
      | some g => s!"{g.num}-{g.tot}-{g.gid}"
      | none => "N")]

def trackFieldNames : List String :=
  Generated.TRACK_FIELDS.filter fun n => n ≠ "mmsi" ∧ n ≠ "last_updated"

def showTrack (t : Track) : String :=
  s!"{t.mmsi}@{t.lu}(" ++ ",".intercalate ((t.attrs.filter fun p => p.2 ≠ .none).map fun (k, v) => k ++ "=" ++ showVal v) ++ ")"

def showEv : Ev × Int → String
  | (.created, m) => s!"C{m}"
  | (.updated, m) => s!"U{m}"
  | (.deleted, m) => s!"D{m}"

/-- DELETED events of one operation are reported as a sorted set (the code iterates a Python set) -/
def showEvs (evs : List (Ev × Int)) : String :=
  let dels := (evs.filter fun e => e.1 = .deleted).map (·.2)
  let others := evs.filter fun e => e.1 ≠ .deleted
  let delsSorted := dels.toArray.qsort (· < ·) |>.toList
  ",".intercalate (others.map showEv ++ delsSorted.map fun m => s!"D{m}")

def showTrkState (s : TrkState) : String := "{" ++ " ".intercalate (s.tracks.map showTrack) ++ "}"

/-- the observers of the harness: callbacks 4, 5, 6 (one per event), 7 (one callable for all three events), and
1, 2, 3 (one per event; they unsubscribe and subscribe again during the history) -/
def initialSubs : Subs :=
  [SubOp.attach .created 4, .attach .updated 5, .attach .deleted 6, .attach .created 7, .attach .updated 7,
   .attach .deleted 7, .attach .created 1, .attach .updated 2, .attach .deleted 3].foldl subStep []

structure TrkRun where
  st : TrkState
  now : Int := 0
  out : List String := []
  subs : Subs := initialSubs
  scale : Int := 1        -- time unit = 1/scale second (op `s:<k>`); the TTL is given in seconds
  quiet : Bool := false   -- op `z:1`: the table is printed with the n_latest queries only

def evOfKey (k : String) : Ev × Nat :=
  if k = "C" then (.created, 1) else if k = "U" then (.updated, 2) else (.deleted, 3)

/-- calls per observed callback for the events of one operation -/
def showCalls (subs : Subs) (evs : List (Ev × Int)) : String :=
  let calls := deliver subs evs
  "~" ++ ",".intercalate ([1, 2, 3, 7].map fun cb => toString ((calls.filter (·.1 = cb)).length))

def trkOp (r : TrkRun) (op : String) : TrkRun :=
  let showSt (st : TrkState) (full : Bool) : String :=
    if r.quiet && !full then "{~" ++ toString st.tracks.length ++ "}" else showTrkState st
  let emit (st : TrkState) (s : String) : TrkRun := { r with st := st, out := r.out ++ [s ++ " " ++ showSt st false] }
  match op.splitOn ":" with
  | ["t", n] => { r with now := parseInt n }
  | ["l", n] => { r with st := { r.st with ttl := if n = "N" then none else some (parseInt n * r.scale) } }
  | ["s", k] => { r with scale := parseInt k, st := { r.st with ttl := r.st.ttl.map (· / r.scale * parseInt k) } }
  | ["c"] => let (st, evs) := cleanup r.st r.now; emit st ("c[" ++ showEvs evs ++ "]" ++ showCalls r.subs evs)
  | ["p", m] =>
    let (st, evs, t) := popTrack r.st (parseInt m)
    emit st ("p[" ++ showEvs evs ++ "]" ++ showCalls r.subs evs ++ (match t with | some t => showTrack t | none => "N"))
  | ["g", m] => emit r.st ("g" ++ (match getTrack r.st (parseInt m) with | some t => showTrack t | none => "N"))
  | ["r", k] => { r with subs := detach r.subs (evOfKey k).1 (evOfKey k).2 }
  | ["a", k] => { r with subs := attach r.subs (evOfKey k).1 (evOfKey k).2 }
  | ["z", b] => { r with quiet := b = "1" }
  | ["n", k] => (fun (s : String) => { r with out := r.out ++ [s ++ " " ++ showSt r.st true] }) ("n[" ++ " ".intercalate ((nLatest r.st (parseInt k)).map fun t => toString t.mmsi) ++ "]")
  | ["u", line, ts] =>
    match decodeArgs nk env false [bytesOfHex line] with
    | .error e => emit r.st ("u" ++ showErr e)
    | .ok m =>
      match m.fields.lookup "mmsi" with
      | some (.int mmsi) =>
        let ts := if ts = "N" then r.now else parseInt ts
        let (st, evs, ok) := update r.st mmsi (msgAttrs trackFieldNames m) ts r.now
        emit st ((if ok then "u+[" else "u-[") ++ showEvs evs ++ "]" ++ showCalls r.subs evs)
      | _ => emit r.st "uERR:TypeError"
  | _ => { r with out := r.out ++ ["BAD-OP"] }

def parseFilt (s : String) : Option Filt :=
  match s.splitOn ":" with
  | ["A", "always"] => some (.attr .always)
  | ["A", "never"] => some (.attr .never)
  | ["A", "has", n] => some (.attr (.hasField n))
  | ["A", "truthy", n] => some (.attr (.truthy n))
  | ["A", "lt", n, b] => some (.attr (.fieldLt n (parseInt b)))
  | "A" :: "eq" :: n :: rest => some (.attr (.fieldEq n (parseVal (":".intercalate rest))))
  | ["N", attrs] => some (.noneF (if attrs = "-" then [] else attrs.splitOn ","))
  | ["T", ts] => some (.mtype (if ts = "-" then [] else (ts.splitOn ",").map parseInt))
  | ["D", la, lo, km] => some (.dist (parseInt la) (parseInt lo) (parseInt km))
  | ["G", a, b, c, d] => some (.grid (parseInt a) (parseInt b) (parseInt c) (parseInt d))
  | _ => none

/-- distance table given on the command line: `rla,rlo,la,lo,d;…` -/
def parseDist (s : String) : Int × Int → Int × Int → Int :=
  let rows : List ((Int × Int) × (Int × Int) × Int) :=
    if s = "-" then [] else
    (s.splitOn ";").filterMap fun r =>
      match r.splitOn "," with
      | [a, b, c, d, e] => some ((parseInt a, parseInt b), (parseInt c, parseInt d), parseInt e)
      | _ => none
  fun ref p => match rows.find? (fun r => r.1 = ref ∧ r.2.1 = p) with
    | some r => r.2.2
    | none => 0

def membersOf (cls : String) : List Int :=
  match Generated.enumMembers.lookup cls with
  | some l => l
  | none => []

/-- C01 oracle: does the decoded message `m` (as printed by the implementation) agree with the
published layout that the payload's own bits select? -/
def specCheck (bits : Bits) (m : String) : String :=
  match Spec.select bits with
  | .error e => "REJECT:" ++ e.name
  | .ok cls =>
    match Spec.layouts.lookup cls, m.splitOn "|" with
    | some L, [cls', kv] =>
      if cls ≠ cls' then s!"FAIL class expected={cls}"
      else
        let fields := parseKw kv
        if fields.map (·.1) ≠ L.map (·.name) then "FAIL field-names"
        else
          let bad := ((Spec.offsets 0 L).zip fields).filter fun (lo, nv) =>
            !(Spec.check membersOf lo.1.kind ((bits.drop lo.2).take lo.1.width) nv.2)
          if bad.isEmpty then "OK" else "FAIL " ++ ",".intercalate (bad.map fun (lo, _) => lo.1.name)
    | _, _ => "FAIL unparsable"

def step (line : String) : String :=
  match (line.trimAscii.toString.splitOn " ").filter (· ≠ "") with
  | ["spec.check", b, m] => specCheck (parseBits b) m
  | ["frombits", b] => showExcept showMsg (decodeBits env (parseBits b))
  | ["frombits_cls", c, b] => showExcept showMsg (fromBitarray env c (parseBits b))
  | ["dearmor", p, f] => showExcept showBits (dearmor (bytesOfHex p) (parseInt f))
  | ["armor", b] => let (cs, f) := encodeAscii6 (parseBits b); s!"{hexOrDash cs} {f}"
  | ["sotdma", r] => showOptCS (sotdma cs r.toNat!)
  | ["itdma", r] => showCS (itdma cs r.toNat!)
  | ["commstate", t, r] =>
      let t := t.toNat!; let r := r.toNat!
      s!"{isSotdma cs t r} {isItdma cs t r} {commStateRaw cs r} " ++ showOptCS (getCommState cs t r)
  | ["parse", l] => showExcept showSentence (produce nk (bytesOfHex l))
  | "decode" :: strict :: ls => showExcept showMsg (decodeArgs nk env (strict = "1") (ls.map bytesOfHex))
  | "assemble" :: strict :: ls => showExcept showSentence (oneShotAssemble nk (strict = "1") (ls.map bytesOfHex))
  | "stream" :: fe :: tbq :: ls =>
      let lines := ls.map bytesOfHex
      let st := initState (tbq = "1")
      if fe = "iter" then showRun true (runLoop (streamStep akStream) st lines)
      else if fe = "bytestream" then
        -- index = position in the unfiltered input
        let r := runLoop (fun s l => if sfilter l then streamStep akStream s l else (s, {})) st lines
        showRun true r
      else if fe = "queue" then showRun true (runLoop (queueStep akQueue) st lines)
      else "BAD-OP"
  | ["file", tbq, content] =>
      let lines := (splitLFKeep (bytesOfHex content)).filter sfilter
      showRun false (runLoop (streamStep akStream) (initState (tbq = "1")) lines)
  | "socket" :: tbq :: chunks =>
      let lines := (sockRead [] (chunks.map bytesOfHex)).filter sfilter
      showRun false (runLoop (streamStep akStream) (initState (tbq = "1")) lines)
  | "sock" :: chunks => "[" ++ ",".intercalate ((sockRead [] (chunks.map bytesOfHex)).map hexOrDash) ++ "]"
  | "tbq" :: ls =>
      -- sentences parsed with the factory and put into a TagBlockQueue directly
      let rec go (st : TbqState Sentence) (i : Nat) : List String → List String
        | [] => []
        | l :: rest =>
          match produce nk (bytesOfHex l) with
          | .error e => ("T" ++ toString i ++ ":" ++ showErr e) :: go st (i+1) rest
          | .ok s =>
            match tbqPut Generated.TAG_FIELD_CODES st s s.tagBlock with
            | .error e => ("T" ++ toString i ++ ":" ++ showErr e) :: go st (i+1) rest
            | .ok (st', out) => out.map (showTbqList i) ++ go st' (i+1) rest
      let o := go TbqState.empty 0 ls
      if o.isEmpty then "-" else " ; ".intercalate o
  | ["tagblock.parse", h] => showExcept showTB (tbInit Generated.TAG_FIELD_CODES (bytesOfHex h))
  | ["tagblock.create", kv] =>
      let fields := if kv = "-" then [] else (kv.splitOn ";").filterMap fun p =>
        match p.splitOn "=" with
        | [k, v] => some (k, if v = "N" then none else some (bytesOfHex v))
        | _ => none
      showExcept hexOrDash (tbCreate Generated.TAG_FIELD_CODES fields)
  | ["reencode", c, b] =>
      showExcept showBits (do let m ← fromBitarray env c (parseBits b); msgToBits env m)
  | ["create", c, kw] => showExcept showMsg (create env c (parseKw kw))
  | ["tobits", c, kw] => showExcept showBits (do let m ← create env c (parseKw kw); msgToBits env m)
  | ["encode_dict", t, c, kw] =>
      showExcept (fun l => ",".intercalate (l.map hexOrDash))
        (encodeDict env Generated.ENCODE_MAX_LEN (parseKw kw) (bytesOfHex t) (bytesOfHex c))
  | ["encode_msg", cl, t, c, kw] =>
      showExcept (fun l => ",".intercalate (l.map hexOrDash))
        (do let m ← create env cl (parseKw kw)
            encodeMsg env Generated.ENCODE_MAX_LEN m (bytesOfHex t) (bytesOfHex c))
  | ["nmea", p, t, c, f] =>
      showExcept (fun l => if l.isEmpty then "-" else ",".intercalate (l.map hexOrDash))
        (aisToNmea Generated.ENCODE_MAX_LEN (bytesOfHex p) (bytesOfHex t) (bytesOfHex c) f.toNat!)
  | "tracker" :: ordered :: ttl :: ops =>
      let st : TrkState := { ordered := ordered = "1", ttl := if ttl = "N" then none else some (parseInt ttl) }
      let r := ops.foldl trkOp { st := st }
      " ; ".intercalate r.out
  | "chain" :: fs :: dist :: ms =>
      match (fs.splitOn "+").mapM parseFilt with
      | none => "BAD-OP"
      | some filts =>
        let decoded := ms.zipIdx.filterMap fun (l, i) =>
          match decodeArgs nk env false [bytesOfHex l] with
          | .ok m => some (i, m)
          | .error _ => none
        -- tag each message with its index through a marker field
        let tagged := decoded.map fun (i, m) => { m with fields := m.fields ++ [("__idx", .int i)] }
        let out := chain (parseDist dist) filts tagged
        "[" ++ ",".intercalate (out.map fun m => match m.fields.lookup "__idx" with
          | some (.int i) => toString i
          | _ => "?") ++ "]"
  | _ => "BAD-OP"

partial def loop (h : IO.FS.Stream) (out : IO.FS.Stream) : IO Unit := do
  let line ← h.getLine
  if line.isEmpty then return ()
  out.putStrLn (step line)
  loop h out

end Drv

def main : IO Unit := do
  let stdin ← IO.getStdin
  let stdout ← IO.getStdout
  Drv.loop stdin stdout
