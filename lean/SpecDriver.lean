import PyaisVerif.Model.Codec
import PyaisVerif.Spec.Layout
/-!
# Specification-side driver (independent of the generated tables)

Answers `spec.check <bits> <decoded message> <enum members>` with the layout specification only, so
that the failing-input search of C01 keeps working when the tables regenerated from a changed source
no longer build or no longer translate.
-/
open Model Py

namespace SpecDrv

def hexVal? (c : Char) : Option Nat := Py.hexVal c.toNat
def bytesOfHex (s : String) : List Nat :=
  let rec go : List Char → List Nat
    | a :: b :: r => (match hexVal? a, hexVal? b with
        | some x, some y => (x * 16 + y) :: go r
        | _, _ => go r)
    | _ => []
  if s = "-" then [] else go s.toList

def parseInt (s : String) : Int := match s.toInt? with | some i => i | none => 0

def parseVal (s : String) : Val :=
  if s = "N" then .none else
  match s.splitOn ":" with
  | ["i", n] => .int (parseInt n)
  | ["b", n] => .bool (n = "1")
  | ["f", n] => .flt (parseInt n)
  | ["s", h] => .str (bytesOfHex h)
  | ["y", h] => .bytes (bytesOfHex h)
  | ["e", c, n] => .enum c (parseInt n)
  | _ => .none

def parseKw (s : String) : List (String × Val) :=
  if s = "-" then [] else
  (s.splitOn ";").filterMap fun kv =>
    match kv.splitOn "=" with
    | [k, v] => some (k, parseVal v)
    | _ => none

/-- `Cls:1,2,3;Cls2:…` -/
def parseMembers (s : String) : String → List Int :=
  let tbl := if s = "-" then [] else (s.splitOn ";").filterMap fun e =>
    match e.splitOn ":" with
    | [c, vs] => some (c, (vs.splitOn ",").map parseInt)
    | _ => none
  fun c => match tbl.lookup c with
    | some l => l
    | none => []

def parseBits (s : String) : Bits := if s = "-" then [] else bitsOfString s

def specCheck (bits : Bits) (m : String) (members : String → List Int) : String :=
  match Spec.select bits with
  | .error e => "REJECT:" ++ e.name
  | .ok cls =>
    match Spec.layouts.lookup cls, m.splitOn "|" with
    | some L, [cls', kv] =>
      if cls ≠ cls' then s!"FAIL class expected={cls}"
      else
        let fields := parseKw kv
        if fields.map (·.1) ≠ L.map (·.name) then "FAIL field-names"
        else
          let bad := ((Spec.offsets 0 L).zip fields).filter fun (lo, nv) =>
            !(Spec.check members lo.1.kind ((bits.drop lo.2).take lo.1.width) nv.2)
          if bad.isEmpty then "OK" else "FAIL " ++ ",".intercalate (bad.map fun (lo, _) => lo.1.name)
    | _, _ => "FAIL unparsable"

def kindTag : Spec.Kind → String
  | .u => "u" | .uf => "uf" | .b => "b" | .e c => "e/" ++ c | .t => "t" | .d => "d" | .U1 => "U1"
  | .I4 => "I4" | .I1 => "I1" | .I600 => "I600" | .ROT => "ROT"

def step (line : String) : String :=
  match (line.trimAscii.toString.splitOn " ").filter (· ≠ "") with
  | ["spec.check", b, m, mem] => specCheck (parseBits b) m (parseMembers mem)
  | ["spec.layout", cls] =>
    match Spec.layouts.lookup cls with
    | some L => ";".intercalate (L.map fun f => s!"{f.name}:{f.width}:" ++ kindTag f.kind)
    | none => "UNKNOWN"
  | _ => "BAD-OP"

partial def loop (h : IO.FS.Stream) (out : IO.FS.Stream) : IO Unit := do
  let line ← h.getLine
  if line.isEmpty then return ()
  out.putStrLn (step line)
  loop h out

end SpecDrv

def main : IO Unit := do
  SpecDrv.loop (← IO.getStdin) (← IO.getStdout)
