import PyaisVerif.Model.Codec
/-!
# Independent layout specification for C01 (DESIGN.md, Appendix A)

Source: gpsd "AIVDM/AIVDO protocol decoding" / ITU-R M.1371-5 Annex 8.  Field *names* are the keys of
pyais' decoded messages (its public API); widths, order, signedness, scale factors and kinds are
from the standard.  Offsets are cumulative from bit 0.  This file does not look at
`Generated/Tables.lean`; the property file proves that the tables read from the source agree with it.
-/
namespace Spec
open Model Py

/-- ITU / gpsd field kinds -/
inductive Kind
  | u                    -- unsigned integer
  | uf                   -- unsigned integer quantity that pyais reports as a float (knots, degrees)
  | b                    -- boolean flag
  | e (cls : String)     -- enumeration (members of the library's enum class `cls`)
  | t                    -- six-bit text
  | d                    -- binary data / spare bits, reported as octets (left-aligned)
  | U1                   -- unsigned, unit 0.1
  | I4                   -- signed, 1/10000 minute: degrees = raw / 600000, six decimal places
  | I1                   -- signed, unit 0.1 (tenths of minutes)
  | I600                 -- signed, 1/10 minute as degrees: raw / 600, six decimal places
  | ROT                  -- rate of turn
  deriving DecidableEq, Repr, Inhabited

structure LField where
  name : String
  width : Nat
  kind : Kind
  deriving DecidableEq, Repr, Inhabited

/-- cumulative offsets -/
def offsets : Nat → List LField → List (LField × Nat)
  | _, [] => []
  | o, f :: fs => (f, o) :: offsets (o + f.width) fs

def totalWidth (l : List LField) : Nat := (l.map (·.width)).sum

/-- six-bit character code → ASCII (gpsd table): 0–31 ↦ `@A…_`, 32–63 ↦ space…`?` -/
def sixToAscii (v : Nat) : Nat := if v < 32 then v + 64 else v

/-- six-bit text: characters up to (not including) the first `@`, outer ASCII whitespace stripped
(the library's documented normalisation) -/
def text (bits : Bits) : List Nat :=
  strip (((chunks 6 bits).map fun c => sixToAscii (toNat c)).takeWhile (· ≠ 64))

/-- rate of turn: 0 ↦ 0.0; ±127 and −128 are the "no turn information" sentinels (enum members);
otherwise `sign · round((raw / 4.733)²)` degrees per minute -/
def rot (r : Int) : Val :=
  if r = 0 then .flt 0
  else if r = 127 ∨ r = -127 then .enum "TurnRate" r
  else if r = 128 ∨ r = -128 then .enum "TurnRate" (-128)
  else
    let mag := roundHalfEvenDiv (r * r * 1000000) (4733 * 4733)
    .flt ((if r < 0 then -mag else mag) * MICRO)

/-- Codes the standard sets aside as a block ("regional use", "reserved for future use", "spare"): a
code of such a block that is not itself a member of the library's enumeration is reported as the
block's representative member.  ITU-R M.1371-5: ship and cargo types (Table 53: second digit 5–8
reserved for future use, 56–57 spare) and the station type of message 23 (6–9 regional use, 10–15
for future use). -/
def reservedBlocks (cls : String) : List (Int × Int × Int) :=
  if cls = "StationType" then [(6, 9, 6), (10, 15, 1)]
  else if cls = "ShipType" then
    [(25, 28, 25), (45, 48, 45), (56, 57, 56), (65, 68, 65), (75, 78, 75), (85, 88, 85), (95, 98, 95)]
  else []

/-- the code the standard gives as "not available / undefined = default" for an enumeration: what a code
without a name (and outside the reserved blocks) is reported as -/
def defaultMember (cls : String) : Option Int :=
  if cls = "ShipType" then some 0
  else if cls = "NavigationStatus" then some 15
  else if cls = "EpfdType" then some 0
  else if cls = "NavAid" then some 0
  else none

/-- a non-member code inside a reserved block is reported as the block's representative, any other
non-member code as the enumeration's default member (where the standard names one) -/
def blockOK (members : String → List Int) (cls : String) (raw m : Int) : Bool :=
  ((reservedBlocks cls).all fun (lo, hi, rep) =>
    !(decide (lo ≤ raw) && decide (raw ≤ hi) && !(members cls).contains raw) || m == rep) &&
  (match defaultMember cls with
   | some d => (members cls).contains raw ||
       (reservedBlocks cls).any (fun (lo, hi, _) => decide (lo ≤ raw) && decide (raw ≤ hi)) || m == d
   | none => true)

/-- Does the decoded value `v` agree with what the standard assigns to a field of kind `k` holding
the bits `bits`?  `members cls` is the member list of the library's enumeration `cls`: an
enumeration value is the member with the raw code if there is one, the representative of the
standard's reserved block the code lies in (`reservedBlocks`), otherwise the enumeration's default
member (`defaultMember`), and only where the standard names none *some* member. -/
def check (members : String → List Int) (k : Kind) (bits : Bits) (v : Val) : Bool :=
  match k with
  | .u => v == .int (toNat bits)
  | .uf => v == .flt ((toNat bits : Int) * MICRO)
  | .b => v == .bool (toNat bits != 0)
  | .e cls =>
    match v with
    | .enum c m => c == cls && (members cls).contains m &&
        (!(members cls).contains (toNat bits : Int) || m == (toNat bits : Int)) &&
        blockOK members cls (toNat bits : Int) m
    | _ => false
  | .t => v == .str (text bits)
  | .d => v == .bytes (toBytes bits)
  | .U1 => v == .flt ((toNat bits : Int) * 100000)
  | .I4 => v == .flt (roundHalfEvenDiv (toInt bits * 1000000) 600000)
  | .I1 => v == .flt (toInt bits * 100000)
  | .I600 => v == .flt (roundHalfEvenDiv (toInt bits * 1000000) 600)
  | .ROT => v == rot (toInt bits)

/-- one bit of the payload as a number (0 when the payload is too short) -/
def bitAt (bits : Bits) (i : Nat) : Nat := toNat ((bits.drop i).take 1)

/-- The layout selected by the payload's own type and discriminator bits:
22: bit 139 (addressed); 24: bits 38–39 (part number 0 / 1, others rejected);
25, 26: bit 38 (addressed) and bit 39 (structured).  Type 0 is treated like type 1 by the library. -/
def select (bits : Bits) : Except Err String :=
  let t := toNat (bits.take 6)
  let pick (p : String) : String :=
    p ++ (if bitAt bits 38 = 1 then "Addressed" else "Broadcast")
      ++ (if bitAt bits 39 = 1 then "Structured" else "Unstructured")
  if t = 0 then .ok "MessageType1"
  else if t = 22 then .ok (if bitAt bits 139 = 1 then "MessageType22Addressed" else "MessageType22Broadcast")
  else if t = 24 then
    let p := toNat ((bits.drop 38).take 2)
    if p = 0 then .ok "MessageType24PartA" else if p = 1 then .ok "MessageType24PartB"
    else .error .unknownPartNo
  else if t = 25 then .ok (pick "MessageType25")
  else if t = 26 then .ok (pick "MessageType26")
  else if 1 ≤ t ∧ t ≤ 27 then .ok ("MessageType" ++ toString t)
  else .error .unknownMessage

def L_MessageType1 : List LField := [
  ⟨"msg_type", 6, .u⟩, ⟨"repeat", 2, .u⟩, ⟨"mmsi", 30, .u⟩, ⟨"status", 4, .e "NavigationStatus"⟩,
  ⟨"turn", 8, .ROT⟩, ⟨"speed", 10, .U1⟩, ⟨"accuracy", 1, .b⟩, ⟨"lon", 28, .I4⟩,
  ⟨"lat", 27, .I4⟩, ⟨"course", 12, .U1⟩, ⟨"heading", 9, .u⟩, ⟨"second", 6, .u⟩,
  ⟨"maneuver", 2, .e "ManeuverIndicator"⟩, ⟨"spare_1", 3, .d⟩, ⟨"raim", 1, .b⟩, ⟨"radio", 19, .u⟩]

def L_MessageType2 : List LField := [
  ⟨"msg_type", 6, .u⟩, ⟨"repeat", 2, .u⟩, ⟨"mmsi", 30, .u⟩, ⟨"status", 4, .e "NavigationStatus"⟩,
  ⟨"turn", 8, .ROT⟩, ⟨"speed", 10, .U1⟩, ⟨"accuracy", 1, .b⟩, ⟨"lon", 28, .I4⟩,
  ⟨"lat", 27, .I4⟩, ⟨"course", 12, .U1⟩, ⟨"heading", 9, .u⟩, ⟨"second", 6, .u⟩,
  ⟨"maneuver", 2, .e "ManeuverIndicator"⟩, ⟨"spare_1", 3, .d⟩, ⟨"raim", 1, .b⟩, ⟨"radio", 19, .u⟩]

def L_MessageType3 : List LField := [
  ⟨"msg_type", 6, .u⟩, ⟨"repeat", 2, .u⟩, ⟨"mmsi", 30, .u⟩, ⟨"status", 4, .e "NavigationStatus"⟩,
  ⟨"turn", 8, .ROT⟩, ⟨"speed", 10, .U1⟩, ⟨"accuracy", 1, .b⟩, ⟨"lon", 28, .I4⟩,
  ⟨"lat", 27, .I4⟩, ⟨"course", 12, .U1⟩, ⟨"heading", 9, .u⟩, ⟨"second", 6, .u⟩,
  ⟨"maneuver", 2, .e "ManeuverIndicator"⟩, ⟨"spare_1", 3, .d⟩, ⟨"raim", 1, .b⟩, ⟨"radio", 19, .u⟩]

def L_MessageType4 : List LField := [
  ⟨"msg_type", 6, .u⟩, ⟨"repeat", 2, .u⟩, ⟨"mmsi", 30, .u⟩, ⟨"year", 14, .u⟩,
  ⟨"month", 4, .u⟩, ⟨"day", 5, .u⟩, ⟨"hour", 5, .u⟩, ⟨"minute", 6, .u⟩,
  ⟨"second", 6, .u⟩, ⟨"accuracy", 1, .b⟩, ⟨"lon", 28, .I4⟩, ⟨"lat", 27, .I4⟩,
  ⟨"epfd", 4, .e "EpfdType"⟩, ⟨"spare_1", 10, .d⟩, ⟨"raim", 1, .b⟩, ⟨"radio", 19, .u⟩]

def L_MessageType11 : List LField := [
  ⟨"msg_type", 6, .u⟩, ⟨"repeat", 2, .u⟩, ⟨"mmsi", 30, .u⟩, ⟨"year", 14, .u⟩,
  ⟨"month", 4, .u⟩, ⟨"day", 5, .u⟩, ⟨"hour", 5, .u⟩, ⟨"minute", 6, .u⟩,
  ⟨"second", 6, .u⟩, ⟨"accuracy", 1, .b⟩, ⟨"lon", 28, .I4⟩, ⟨"lat", 27, .I4⟩,
  ⟨"epfd", 4, .e "EpfdType"⟩, ⟨"spare_1", 10, .d⟩, ⟨"raim", 1, .b⟩, ⟨"radio", 19, .u⟩]

def L_MessageType5 : List LField := [
  ⟨"msg_type", 6, .u⟩, ⟨"repeat", 2, .u⟩, ⟨"mmsi", 30, .u⟩, ⟨"ais_version", 2, .u⟩,
  ⟨"imo", 30, .u⟩, ⟨"callsign", 42, .t⟩, ⟨"shipname", 120, .t⟩, ⟨"ship_type", 8, .e "ShipType"⟩,
  ⟨"to_bow", 9, .u⟩, ⟨"to_stern", 9, .u⟩, ⟨"to_port", 6, .u⟩, ⟨"to_starboard", 6, .u⟩,
  ⟨"epfd", 4, .e "EpfdType"⟩, ⟨"month", 4, .u⟩, ⟨"day", 5, .u⟩, ⟨"hour", 5, .u⟩,
  ⟨"minute", 6, .u⟩, ⟨"draught", 8, .U1⟩, ⟨"destination", 120, .t⟩, ⟨"dte", 1, .b⟩,
  ⟨"spare_1", 1, .d⟩]

def L_MessageType6 : List LField := [
  ⟨"msg_type", 6, .u⟩, ⟨"repeat", 2, .u⟩, ⟨"mmsi", 30, .u⟩, ⟨"seqno", 2, .u⟩,
  ⟨"dest_mmsi", 30, .u⟩, ⟨"retransmit", 1, .b⟩, ⟨"spare_1", 1, .d⟩, ⟨"dac", 10, .u⟩,
  ⟨"fid", 6, .u⟩, ⟨"data", 920, .d⟩]

def L_MessageType7 : List LField := [
  ⟨"msg_type", 6, .u⟩, ⟨"repeat", 2, .u⟩, ⟨"mmsi", 30, .u⟩, ⟨"spare_1", 2, .d⟩,
  ⟨"mmsi1", 30, .u⟩, ⟨"mmsiseq1", 2, .u⟩, ⟨"mmsi2", 30, .u⟩, ⟨"mmsiseq2", 2, .u⟩,
  ⟨"mmsi3", 30, .u⟩, ⟨"mmsiseq3", 2, .u⟩, ⟨"mmsi4", 30, .u⟩, ⟨"mmsiseq4", 2, .u⟩]

def L_MessageType13 : List LField := [
  ⟨"msg_type", 6, .u⟩, ⟨"repeat", 2, .u⟩, ⟨"mmsi", 30, .u⟩, ⟨"spare_1", 2, .d⟩,
  ⟨"mmsi1", 30, .u⟩, ⟨"mmsiseq1", 2, .u⟩, ⟨"mmsi2", 30, .u⟩, ⟨"mmsiseq2", 2, .u⟩,
  ⟨"mmsi3", 30, .u⟩, ⟨"mmsiseq3", 2, .u⟩, ⟨"mmsi4", 30, .u⟩, ⟨"mmsiseq4", 2, .u⟩]

def L_MessageType8 : List LField := [
  ⟨"msg_type", 6, .u⟩, ⟨"repeat", 2, .u⟩, ⟨"mmsi", 30, .u⟩, ⟨"spare_1", 2, .d⟩,
  ⟨"dac", 10, .u⟩, ⟨"fid", 6, .u⟩, ⟨"data", 952, .d⟩]

def L_MessageType9 : List LField := [
  ⟨"msg_type", 6, .u⟩, ⟨"repeat", 2, .u⟩, ⟨"mmsi", 30, .u⟩, ⟨"alt", 12, .u⟩,
  ⟨"speed", 10, .uf⟩, ⟨"accuracy", 1, .b⟩, ⟨"lon", 28, .I4⟩, ⟨"lat", 27, .I4⟩,
  ⟨"course", 12, .U1⟩, ⟨"second", 6, .u⟩, ⟨"reserved_1", 8, .u⟩, ⟨"dte", 1, .b⟩,
  ⟨"spare_1", 3, .d⟩, ⟨"assigned", 1, .b⟩, ⟨"raim", 1, .b⟩, ⟨"radio", 20, .u⟩]

def L_MessageType10 : List LField := [
  ⟨"msg_type", 6, .u⟩, ⟨"repeat", 2, .u⟩, ⟨"mmsi", 30, .u⟩, ⟨"spare_1", 2, .d⟩,
  ⟨"dest_mmsi", 30, .u⟩, ⟨"spare_2", 2, .d⟩]

def L_MessageType12 : List LField := [
  ⟨"msg_type", 6, .u⟩, ⟨"repeat", 2, .u⟩, ⟨"mmsi", 30, .u⟩, ⟨"seqno", 2, .u⟩,
  ⟨"dest_mmsi", 30, .u⟩, ⟨"retransmit", 1, .b⟩, ⟨"spare_1", 1, .d⟩, ⟨"text", 936, .t⟩]

def L_MessageType14 : List LField := [
  ⟨"msg_type", 6, .u⟩, ⟨"repeat", 2, .u⟩, ⟨"mmsi", 30, .u⟩, ⟨"spare_1", 2, .d⟩,
  ⟨"text", 968, .t⟩]

def L_MessageType15 : List LField := [
  ⟨"msg_type", 6, .u⟩, ⟨"repeat", 2, .u⟩, ⟨"mmsi", 30, .u⟩, ⟨"spare_1", 2, .d⟩,
  ⟨"mmsi1", 30, .u⟩, ⟨"type1_1", 6, .u⟩, ⟨"offset1_1", 12, .u⟩, ⟨"spare_2", 2, .d⟩,
  ⟨"type1_2", 6, .u⟩, ⟨"offset1_2", 12, .u⟩, ⟨"spare_3", 2, .d⟩, ⟨"mmsi2", 30, .u⟩,
  ⟨"type2_1", 6, .u⟩, ⟨"offset2_1", 12, .u⟩, ⟨"spare_4", 2, .d⟩]

def L_MessageType16 : List LField := [
  ⟨"msg_type", 6, .u⟩, ⟨"repeat", 2, .u⟩, ⟨"mmsi", 30, .u⟩, ⟨"spare_1", 2, .d⟩,
  ⟨"mmsi1", 30, .u⟩, ⟨"offset1", 12, .u⟩, ⟨"increment1", 10, .u⟩, ⟨"mmsi2", 30, .u⟩,
  ⟨"offset2", 12, .u⟩, ⟨"increment2", 10, .u⟩]

def L_MessageType17 : List LField := [
  ⟨"msg_type", 6, .u⟩, ⟨"repeat", 2, .u⟩, ⟨"mmsi", 30, .u⟩, ⟨"spare_1", 2, .d⟩,
  ⟨"lon", 18, .I1⟩, ⟨"lat", 17, .I1⟩, ⟨"spare_2", 5, .d⟩, ⟨"data", 736, .d⟩]

def L_MessageType18 : List LField := [
  ⟨"msg_type", 6, .u⟩, ⟨"repeat", 2, .u⟩, ⟨"mmsi", 30, .u⟩, ⟨"reserved_1", 8, .u⟩,
  ⟨"speed", 10, .U1⟩, ⟨"accuracy", 1, .b⟩, ⟨"lon", 28, .I4⟩, ⟨"lat", 27, .I4⟩,
  ⟨"course", 12, .U1⟩, ⟨"heading", 9, .u⟩, ⟨"second", 6, .u⟩, ⟨"reserved_2", 2, .u⟩,
  ⟨"cs", 1, .b⟩, ⟨"display", 1, .b⟩, ⟨"dsc", 1, .b⟩, ⟨"band", 1, .b⟩,
  ⟨"msg22", 1, .b⟩, ⟨"assigned", 1, .b⟩, ⟨"raim", 1, .b⟩, ⟨"radio", 20, .u⟩]

def L_MessageType19 : List LField := [
  ⟨"msg_type", 6, .u⟩, ⟨"repeat", 2, .u⟩, ⟨"mmsi", 30, .u⟩, ⟨"reserved_1", 8, .u⟩,
  ⟨"speed", 10, .U1⟩, ⟨"accuracy", 1, .b⟩, ⟨"lon", 28, .I4⟩, ⟨"lat", 27, .I4⟩,
  ⟨"course", 12, .U1⟩, ⟨"heading", 9, .u⟩, ⟨"second", 6, .u⟩, ⟨"reserved_2", 4, .u⟩,
  ⟨"shipname", 120, .t⟩, ⟨"ship_type", 8, .e "ShipType"⟩, ⟨"to_bow", 9, .u⟩, ⟨"to_stern", 9, .u⟩,
  ⟨"to_port", 6, .u⟩, ⟨"to_starboard", 6, .u⟩, ⟨"epfd", 4, .e "EpfdType"⟩, ⟨"raim", 1, .b⟩,
  ⟨"dte", 1, .b⟩, ⟨"assigned", 1, .b⟩, ⟨"spare_1", 4, .d⟩]

def L_MessageType20 : List LField := [
  ⟨"msg_type", 6, .u⟩, ⟨"repeat", 2, .u⟩, ⟨"mmsi", 30, .u⟩, ⟨"spare_1", 2, .d⟩,
  ⟨"offset1", 12, .u⟩, ⟨"number1", 4, .u⟩, ⟨"timeout1", 3, .u⟩, ⟨"increment1", 11, .u⟩,
  ⟨"offset2", 12, .u⟩, ⟨"number2", 4, .u⟩, ⟨"timeout2", 3, .u⟩, ⟨"increment2", 11, .u⟩,
  ⟨"offset3", 12, .u⟩, ⟨"number3", 4, .u⟩, ⟨"timeout3", 3, .u⟩, ⟨"increment3", 11, .u⟩,
  ⟨"offset4", 12, .u⟩, ⟨"number4", 4, .u⟩, ⟨"timeout4", 3, .u⟩, ⟨"increment4", 11, .u⟩]

def L_MessageType21 : List LField := [
  ⟨"msg_type", 6, .u⟩, ⟨"repeat", 2, .u⟩, ⟨"mmsi", 30, .u⟩, ⟨"aid_type", 5, .e "NavAid"⟩,
  ⟨"name", 120, .t⟩, ⟨"accuracy", 1, .b⟩, ⟨"lon", 28, .I4⟩, ⟨"lat", 27, .I4⟩,
  ⟨"to_bow", 9, .u⟩, ⟨"to_stern", 9, .u⟩, ⟨"to_port", 6, .u⟩, ⟨"to_starboard", 6, .u⟩,
  ⟨"epfd", 4, .e "EpfdType"⟩, ⟨"second", 6, .u⟩, ⟨"off_position", 1, .b⟩, ⟨"reserved_1", 8, .u⟩,
  ⟨"raim", 1, .b⟩, ⟨"virtual_aid", 1, .b⟩, ⟨"assigned", 1, .b⟩, ⟨"spare_1", 1, .d⟩,
  ⟨"name_ext", 88, .t⟩]

def L_MessageType22Addressed : List LField := [
  ⟨"msg_type", 6, .u⟩, ⟨"repeat", 2, .u⟩, ⟨"mmsi", 30, .u⟩, ⟨"spare_1", 2, .d⟩,
  ⟨"channel_a", 12, .u⟩, ⟨"channel_b", 12, .u⟩, ⟨"txrx", 4, .u⟩, ⟨"power", 1, .b⟩,
  ⟨"dest1", 30, .u⟩, ⟨"empty_1", 5, .u⟩, ⟨"dest2", 30, .u⟩, ⟨"empty_2", 5, .u⟩,
  ⟨"addressed", 1, .b⟩, ⟨"band_a", 1, .b⟩, ⟨"band_b", 1, .b⟩, ⟨"zonesize", 3, .u⟩,
  ⟨"spare_2", 23, .d⟩]

def L_MessageType22Broadcast : List LField := [
  ⟨"msg_type", 6, .u⟩, ⟨"repeat", 2, .u⟩, ⟨"mmsi", 30, .u⟩, ⟨"spare_1", 2, .d⟩,
  ⟨"channel_a", 12, .u⟩, ⟨"channel_b", 12, .u⟩, ⟨"txrx", 4, .u⟩, ⟨"power", 1, .b⟩,
  ⟨"ne_lon", 18, .I1⟩, ⟨"ne_lat", 17, .I1⟩, ⟨"sw_lon", 18, .I1⟩, ⟨"sw_lat", 17, .I1⟩,
  ⟨"addressed", 1, .b⟩, ⟨"band_a", 1, .b⟩, ⟨"band_b", 1, .b⟩, ⟨"zonesize", 3, .u⟩,
  ⟨"spare_2", 23, .d⟩]

def L_MessageType23 : List LField := [
  ⟨"msg_type", 6, .u⟩, ⟨"repeat", 2, .u⟩, ⟨"mmsi", 30, .u⟩, ⟨"spare_1", 2, .d⟩,
  ⟨"ne_lon", 18, .I1⟩, ⟨"ne_lat", 17, .I1⟩, ⟨"sw_lon", 18, .I1⟩, ⟨"sw_lat", 17, .I1⟩,
  ⟨"station_type", 4, .e "StationType"⟩, ⟨"ship_type", 8, .e "ShipType"⟩, ⟨"spare_2", 22, .d⟩, ⟨"txrx", 2, .e "TransmitMode"⟩,
  ⟨"interval", 4, .e "StationIntervals"⟩, ⟨"quiet", 4, .u⟩, ⟨"spare_3", 6, .d⟩]

def L_MessageType24PartA : List LField := [
  ⟨"msg_type", 6, .u⟩, ⟨"repeat", 2, .u⟩, ⟨"mmsi", 30, .u⟩, ⟨"partno", 2, .u⟩,
  ⟨"shipname", 120, .t⟩, ⟨"spare_1", 8, .d⟩]

def L_MessageType24PartB : List LField := [
  ⟨"msg_type", 6, .u⟩, ⟨"repeat", 2, .u⟩, ⟨"mmsi", 30, .u⟩, ⟨"partno", 2, .u⟩,
  ⟨"ship_type", 8, .u⟩, ⟨"vendorid", 18, .t⟩, ⟨"model", 4, .u⟩, ⟨"serial", 20, .u⟩,
  ⟨"callsign", 42, .t⟩, ⟨"to_bow", 9, .u⟩, ⟨"to_stern", 9, .u⟩, ⟨"to_port", 6, .u⟩,
  ⟨"to_starboard", 6, .u⟩, ⟨"spare_1", 6, .d⟩]

def L_MessageType25AddressedStructured : List LField := [
  ⟨"msg_type", 6, .u⟩, ⟨"repeat", 2, .u⟩, ⟨"mmsi", 30, .u⟩, ⟨"addressed", 1, .b⟩,
  ⟨"structured", 1, .b⟩, ⟨"dest_mmsi", 30, .u⟩, ⟨"app_id", 16, .u⟩, ⟨"data", 82, .d⟩]

def L_MessageType25AddressedUnstructured : List LField := [
  ⟨"msg_type", 6, .u⟩, ⟨"repeat", 2, .u⟩, ⟨"mmsi", 30, .u⟩, ⟨"addressed", 1, .b⟩,
  ⟨"structured", 1, .b⟩, ⟨"dest_mmsi", 30, .u⟩, ⟨"data", 98, .d⟩]

def L_MessageType25BroadcastStructured : List LField := [
  ⟨"msg_type", 6, .u⟩, ⟨"repeat", 2, .u⟩, ⟨"mmsi", 30, .u⟩, ⟨"addressed", 1, .b⟩,
  ⟨"structured", 1, .b⟩, ⟨"app_id", 16, .u⟩, ⟨"data", 112, .d⟩]

def L_MessageType25BroadcastUnstructured : List LField := [
  ⟨"msg_type", 6, .u⟩, ⟨"repeat", 2, .u⟩, ⟨"mmsi", 30, .u⟩, ⟨"addressed", 1, .b⟩,
  ⟨"structured", 1, .b⟩, ⟨"data", 128, .d⟩]

def L_MessageType26AddressedStructured : List LField := [
  ⟨"msg_type", 6, .u⟩, ⟨"repeat", 2, .u⟩, ⟨"mmsi", 30, .u⟩, ⟨"addressed", 1, .b⟩,
  ⟨"structured", 1, .b⟩, ⟨"dest_mmsi", 30, .u⟩, ⟨"app_id", 16, .u⟩, ⟨"data", 958, .d⟩,
  ⟨"radio", 20, .u⟩]

def L_MessageType26AddressedUnstructured : List LField := [
  ⟨"msg_type", 6, .u⟩, ⟨"repeat", 2, .u⟩, ⟨"mmsi", 30, .u⟩, ⟨"addressed", 1, .b⟩,
  ⟨"structured", 1, .b⟩, ⟨"dest_mmsi", 30, .u⟩, ⟨"data", 974, .d⟩, ⟨"radio", 20, .u⟩]

def L_MessageType26BroadcastStructured : List LField := [
  ⟨"msg_type", 6, .u⟩, ⟨"repeat", 2, .u⟩, ⟨"mmsi", 30, .u⟩, ⟨"addressed", 1, .b⟩,
  ⟨"structured", 1, .b⟩, ⟨"app_id", 16, .u⟩, ⟨"data", 988, .d⟩, ⟨"radio", 20, .u⟩]

def L_MessageType26BroadcastUnstructured : List LField := [
  ⟨"msg_type", 6, .u⟩, ⟨"repeat", 2, .u⟩, ⟨"mmsi", 30, .u⟩, ⟨"addressed", 1, .b⟩,
  ⟨"structured", 1, .b⟩, ⟨"data", 1004, .d⟩, ⟨"radio", 20, .u⟩]

def L_MessageType27 : List LField := [
  ⟨"msg_type", 6, .u⟩, ⟨"repeat", 2, .u⟩, ⟨"mmsi", 30, .u⟩, ⟨"accuracy", 1, .b⟩,
  ⟨"raim", 1, .b⟩, ⟨"status", 4, .e "NavigationStatus"⟩, ⟨"lon", 18, .I600⟩, ⟨"lat", 17, .I600⟩,
  ⟨"speed", 6, .uf⟩, ⟨"course", 9, .uf⟩, ⟨"gnss", 1, .b⟩, ⟨"spare_1", 1, .d⟩]

def layouts : List (String × List LField) := [
  ("MessageType1", L_MessageType1),
  ("MessageType2", L_MessageType2),
  ("MessageType3", L_MessageType3),
  ("MessageType4", L_MessageType4),
  ("MessageType11", L_MessageType11),
  ("MessageType5", L_MessageType5),
  ("MessageType6", L_MessageType6),
  ("MessageType7", L_MessageType7),
  ("MessageType13", L_MessageType13),
  ("MessageType8", L_MessageType8),
  ("MessageType9", L_MessageType9),
  ("MessageType10", L_MessageType10),
  ("MessageType12", L_MessageType12),
  ("MessageType14", L_MessageType14),
  ("MessageType15", L_MessageType15),
  ("MessageType16", L_MessageType16),
  ("MessageType17", L_MessageType17),
  ("MessageType18", L_MessageType18),
  ("MessageType19", L_MessageType19),
  ("MessageType20", L_MessageType20),
  ("MessageType21", L_MessageType21),
  ("MessageType22Addressed", L_MessageType22Addressed),
  ("MessageType22Broadcast", L_MessageType22Broadcast),
  ("MessageType23", L_MessageType23),
  ("MessageType24PartA", L_MessageType24PartA),
  ("MessageType24PartB", L_MessageType24PartB),
  ("MessageType25AddressedStructured", L_MessageType25AddressedStructured),
  ("MessageType25AddressedUnstructured", L_MessageType25AddressedUnstructured),
  ("MessageType25BroadcastStructured", L_MessageType25BroadcastStructured),
  ("MessageType25BroadcastUnstructured", L_MessageType25BroadcastUnstructured),
  ("MessageType26AddressedStructured", L_MessageType26AddressedStructured),
  ("MessageType26AddressedUnstructured", L_MessageType26AddressedUnstructured),
  ("MessageType26BroadcastStructured", L_MessageType26BroadcastStructured),
  ("MessageType26BroadcastUnstructured", L_MessageType26BroadcastUnstructured),
  ("MessageType27", L_MessageType27)]


/-- A decoded message agrees with layout `L` on the payload `bits`: same field names in the same
order, and every value is what the standard assigns to the bits at the field's offset. -/
def Agrees (members : String → List Int) (L : List LField) (bits : Bits)
    (fields : List (String × Val)) : Prop :=
  fields.map (·.1) = L.map (·.name) ∧
  ∀ p ∈ (offsets 0 L).zip fields,
    check members p.1.1.kind ((bits.drop p.1.2).take p.1.1.width) p.2.2 = true

end Spec
