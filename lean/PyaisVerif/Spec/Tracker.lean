import PyaisVerif.Model.Tracker
/-!
# Abstract tracker (specification side of C12, C13, C15)

The simplest machine that says what the properties say: a finite map MMSI ↦ (attributes,
last_updated), no dict order, no cached `oldest_timestamp`; expiry is the exact filter
"age ≥ TTL"; acceptance is "not older than the vessel's own track, and in ordered mode not older than
any track".
-/
namespace Spec
open Model

structure ATrack where
  attrs : List (String × Val)
  lu : Int
  deriving DecidableEq, Repr, Inhabited

structure AState where
  keys : List Int                       -- MMSIs that currently have a track (no duplicates)
  get : Int → Option ATrack             -- defined exactly on `keys`
  ttl : Option Int
  ordered : Bool
  now : Int

def AState.init (ordered : Bool) (ttl : Option Int) : AState :=
  { keys := [], get := fun _ => none, ttl := ttl, ordered := ordered, now := 0 }

/-- a track is stale at time `now` when its age has reached the TTL -/
def staleAt (ttl : Option Int) (now lu : Int) : Bool :=
  match ttl with
  | some d => !(decide (now - lu < d))
  | none => false

def AState.isStale (s : AState) (m : Int) : Bool :=
  match s.get m with
  | some t => staleAt s.ttl s.now t.lu
  | none => false

/-- expiry: remove exactly the stale tracks -/
def AState.expire (s : AState) : AState :=
  { s with keys := s.keys.filter (fun m => !s.isStale m),
           get := fun m => if s.isStale m then none else s.get m }

def AState.remove (s : AState) (m : Int) : AState :=
  { s with keys := s.keys.filter (· ≠ m), get := fun k => if k = m then none else s.get k }

/-- is an update with timestamp `ts` for vessel `m` accepted? -/
def AState.accepts (s : AState) (m : Int) (ts : Int) : Bool :=
  (match s.get m with
   | some t => !(decide (ts < t.lu))
   | none => true) &&
  (!s.ordered || s.keys.all fun k => match s.get k with
      | some t => !(decide (ts < t.lu))
      | none => true)

/-- override-merge: the most recent non-`None` value of every attribute wins -/
def mergeA (old new : List (String × Val)) : List (String × Val) := mergeAttrs old new

def AState.step (s : AState) : TrkOp → AState
  | .update m attrs ts =>
    let ts := ts.getD s.now
    if s.accepts m ts then
      let t : ATrack := match s.get m with
        | some old => { attrs := mergeA old.attrs attrs, lu := ts }
        | none => { attrs := attrs, lu := ts }
      let s1 : AState := { s with keys := if s.keys.contains m then s.keys else s.keys ++ [m],
                                  get := fun k => if k = m then some t else s.get k }
      s1.expire
    else s
  | .pop m => s.remove m
  | .cleanup => s.expire
  | .tick t => { s with now := t }
  | .setTtl ttl => { s with ttl := ttl }

def AState.run (ordered : Bool) (ttl : Option Int) (ops : List TrkOp) : AState :=
  ops.foldl AState.step (AState.init ordered ttl)

/-- life-cycle acceptor for one MMSI: CREATED only when dead, UPDATED and DELETED only when alive -/
def lifeStep (alive : Option Bool) (e : Ev) : Option Bool :=
  match alive, e with
  | some false, .created => some true
  | some true, .updated => some true
  | some true, .deleted => some false
  | _, _ => none                       -- protocol violation

/-- run the acceptor over the events of MMSI `m`; `none` = the sequence is not of the form
(CREATED UPDATED* DELETED)* (CREATED UPDATED*)? -/
def lifeRun (m : Int) (evs : List (Ev × Int)) : Option Bool :=
  (evs.filter (·.2 = m)).foldl (fun a e => lifeStep a e.1) (some false)

end Spec
