import PyaisVerif.Model.Nmea
/-!
# NMEA carrier rendering (specification side of C04 / C09 / C16)

`renderFrag` writes one `!xxVDM` sentence for a fragment of an armored payload, with an arbitrary
talker, sentence type, fragment numbering, sequence id, channel and fill-bit count, and the correct
checksum.  It is written from the NMEA 0183 / AIVDM description, not from `pyais.encode`.
-/
namespace Spec
open Model Py

structure FragSpec where
  talker : Bytes           -- two characters, e.g. "AI"
  kind : Bytes             -- "VDM" or "VDO"
  cnt : Nat                -- number of fragments
  num : Nat                -- this fragment (1-based)
  seq : Option Nat         -- sequential message id (one digit) or empty
  chan : Bytes             -- radio channel: "", "A", "B", "1", "2"
  chunk : Bytes            -- armored payload characters of this fragment
  fill : Nat               -- fill bits (0 except possibly on the last fragment)
  deriving DecidableEq, Repr, Inhabited

def seqBytes : Option Nat → Bytes
  | none => []
  | some n => natToDec n

/-- the bytes between `!` and `*` -/
def fragBody (f : FragSpec) : Bytes :=
  f.talker ++ f.kind ++ [COMMA] ++ natToDec f.cnt ++ [COMMA] ++ natToDec f.num ++ [COMMA] ++ seqBytes f.seq
    ++ [COMMA] ++ f.chan ++ [COMMA] ++ f.chunk ++ [COMMA] ++ natToDec f.fill

def renderFrag (f : FragSpec) : Bytes := [33] ++ fragBody f ++ [STAR] ++ hex2 (xorAll (fragBody f))

/-- characters of the AIVDM armoring alphabet: `0`–`W` and `` ` ``–`w` -/
def isArmorChar (c : Nat) : Bool := (48 ≤ c && c ≤ 87) || (96 ≤ c && c ≤ 119)

def isAlnum (c : Nat) : Bool := (48 ≤ c && c ≤ 57) || (65 ≤ c && c ≤ 90) || (97 ≤ c && c ≤ 122)

/-- well-formedness of a fragment description (decidable) -/
def FragOK (k : NmeaConsts) (f : FragSpec) : Bool :=
  f.talker.length == 2 && f.talker.all isAlnum &&
  (f.kind == strBytes "VDM" || f.kind == strBytes "VDO") &&
  decide (1 ≤ f.cnt) && decide (f.cnt ≤ k.maxFragCnt) && decide (f.cnt ≤ 100) &&
  decide (1 ≤ f.num) && decide (f.num ≤ k.maxFragCnt) && decide (f.num ≤ 100) &&
  (match f.seq with
   | none => true
   | some n => decide (n ≤ 9)) &&
  f.chan.all isAlnum &&
  f.chunk.all isArmorChar && decide (f.chunk.length ≤ k.maxPayloadLen) &&
  decide (f.fill ≤ 5)

/-- the sentence object the parser must produce for a rendered fragment -/
def expectedSentence (f : FragSpec) (bits : Bits) : Sentence :=
  { raw := renderFrag f, isAIS := true, delimiter := [33], talker := f.talker, typ := f.kind,
    checksum := xorAll (fragBody f), fillBits := f.fill, isValid := true,
    dataFields := [natToDec f.cnt, natToDec f.num, seqBytes f.seq, f.chan, f.chunk],
    fragCnt := f.cnt, fragNum := f.num, seqId := f.seq.map Int.ofNat, channel := f.chan,
    payload := f.chunk, bits := bits, aisId := getInt bits 0 6 }

end Spec
