import PyaisVerif.Lemmas.Reassembly
import PyaisVerif.Generated.Consts
/-!
# C03 — multipart reassembly is correct under any interleaving and arrival order

`Model.coreStep` / `bufferStep` / `assemble` follow the reassembly branch of
`AssembleMessages._assemble_messages` and `NMEAQueue.put_line` (slot key = (sequence id or −1,
channel), buffer list of `max(frag_cnt, 0xff)` entries indexed by `frag_num − 1`, completeness test,
`assemble_from_iterable`, `del buffer[slot]`).  Unbounded: number of messages in flight, number of
slots, stream length; fragment counts up to the buffer size (which the parser's `MAX_FRAG_CNT`
respects: `bounds_ok`).
-/
namespace C03
open Model

/-- constants of the source: every fragment number the parser lets through fits the buffers of both
loops -/
theorem bounds_ok : Generated.MAX_FRAG_CNT ≤ Generated.STREAM_BUF_SIZE ∧
    Generated.MAX_FRAG_CNT ≤ Generated.QUEUE_BUF_SIZE ∧ 9 ≤ Generated.MAX_FRAG_CNT := by decide

/-- **Single-sentence messages are delivered immediately, unchanged, at their own position** (hence
in arrival order), whatever is in flight. -/
theorem C03_singles (bufSize : Nat) (xs : List Sentence) (i : Nat) (s : Sentence)
    (hok : (coreRun bufSize [] xs).2 = true) (hi : xs[i]? = some s) (h : s.isSingle = true) :
    (coreRun bufSize [] xs).1[i]? = some [s] :=
  coreRun_single bufSize [] xs i s hok hi h

/-- **Fragments of different (sequence id, channel) streams never mix**: what is delivered at the
positions of slot `k`'s fragments depends only on the subsequence of slot `k`'s fragments. -/
theorem C03_no_mixing (bufSize : Nat) (xs : List Sentence) (k : Slot)
    (hok : (coreRun bufSize [] xs).2 = true) :
    ((xs.zip (coreRun bufSize [] xs).1).filter (fun p => inSlot p.1 k)).map (·.2)
      = (slotRun bufSize none (xs.filter (fun s => inSlot s k))).1 := by
  have := coreRun_project bufSize [] xs k hok
  simpa using this

/-- a sequence of complete fragment sets through one free slot: block after block, the slot is free
again after each -/
theorem slotRun_blocks (bufSize : Nat) (msgs : List (Nat × (Nat → Sentence) × List Nat))
    (hmsgs : ∀ m ∈ msgs, 1 ≤ m.1 ∧ m.1 ≤ bufSize ∧
        (∀ j, (m.2.1 j).fragNum = (j : Int) ∧ (m.2.1 j).fragCnt = (m.1 : Int)) ∧
        m.2.2.Perm (List.range' 1 m.1)) :
    slotRun bufSize none (msgs.map fun m => m.2.2.map m.2.1).flatten
      = ((msgs.map fun m =>
          List.replicate (m.1 - 1) [] ++ [(assemble ((List.range' 1 m.1).map m.2.1)).toList]).flatten,
         none, true) := by
  induction msgs with
  | nil => simp [slotRun]
  | cons m ms ih =>
    obtain ⟨h1, h2, h3, h4⟩ := hmsgs m (by simp)
    rw [List.map_cons, List.flatten_cons, slotRun_append, slotRun_block bufSize m.1 h1 h2 m.2.1 h3 m.2.2 h4]
    dsimp only
    rw [ih (fun m' hm' => hmsgs m' (by simp [hm']))]
    simp only [List.map_cons, List.flatten_cons]

/-- **One assembled message per complete fragment set, at the moment its last fragment arrives.**
If the fragments of slot `k` in the input are a sequence of complete sets — set `j` being any
permutation of the fragments `1 … n j` of message `j` (slot reuse by later messages included) — then
at the positions of that slot's fragments nothing is delivered except, at the last fragment of each
set, exactly one message assembled from that set in fragment-number order. -/
theorem C03_delivery (bufSize : Nat) (xs : List Sentence) (k : Slot)
    (hok : (coreRun bufSize [] xs).2 = true)
    (msgs : List (Nat × (Nat → Sentence) × List Nat))        -- (n, fragments, arrival order) per message
    (hmsgs : ∀ m ∈ msgs, 1 ≤ m.1 ∧ m.1 ≤ bufSize ∧
        (∀ j, (m.2.1 j).fragNum = (j : Int) ∧ (m.2.1 j).fragCnt = (m.1 : Int)) ∧
        m.2.2.Perm (List.range' 1 m.1))
    (hproj : xs.filter (fun s => inSlot s k) = (msgs.map fun m => m.2.2.map m.2.1).flatten) :
    ((xs.zip (coreRun bufSize [] xs).1).filter (fun p => inSlot p.1 k)).map (·.2)
      = (msgs.map fun m =>
          List.replicate (m.1 - 1) [] ++ [(assemble ((List.range' 1 m.1).map m.2.1)).toList]).flatten := by
  rw [C03_no_mixing bufSize xs k hok, hproj, slotRun_blocks bufSize msgs hmsgs]

/-- **What is delivered**: the first fragment's carrier fields, payload and bits the fragments'
concatenated in fragment-number order, validity the conjunction of the parts' validity. -/
theorem C03_assembled (n : Nat) (hn1 : 1 ≤ n) (all : Nat → Sentence)
    (hall : ∀ j, (all j).fragNum = (j : Int)) :
    assemble ((List.range' 1 n).map all) =
      some { all 1 with
        raw := [10].intercalate ((List.range' 1 n).map fun j => (all j).raw),
        payload := ((List.range' 1 n).map fun j => (all j).payload).flatten,
        bits := ((List.range' 1 n).map fun j => (all j).bits).flatten,
        isValid := (List.range' 1 n).all fun j => (all j).isValid,
        aisId := getInt (((List.range' 1 n).map fun j => (all j).bits).flatten) 0 6 } :=
  assemble_canon n hn1 all hall

/-- **An incomplete set is never delivered.** -/
theorem C03_incomplete (bufSize n : Nat) (hn : n ≤ bufSize) (all : Nat → Sentence)
    (hall : ∀ j, (all j).fragNum = (j : Int) ∧ (all j).fragCnt = (n : Int))
    (ks : List Nat) (hsub : ∀ j ∈ ks, 1 ≤ j ∧ j ≤ n) (hnodup : ks.Nodup) (hlt : ks.length < n) :
    (slotRun bufSize none (ks.map all)).1 = List.replicate ks.length [] :=
  (slotRun_incomplete bufSize n hn all hall ks hsub hnodup hlt).1

/-- **No IndexError**: fragments as the parser lets them through (`1 ≤ frag_num ≤ MAX_FRAG_CNT`,
`1 ≤ frag_cnt`) never fall outside the buffer. -/
theorem C03_no_index_error (xs : List Sentence)
    (h : ∀ s ∈ xs, s.isSingle = false → 1 ≤ s.fragNum ∧ s.fragNum ≤ Generated.MAX_FRAG_CNT ∧ 1 ≤ s.fragCnt) :
    (coreRun Generated.STREAM_BUF_SIZE [] xs).2 = true ∧ (coreRun Generated.QUEUE_BUF_SIZE [] xs).2 = true := by
  obtain ⟨hs, hq, _⟩ := bounds_ok
  have hs' : ((Generated.MAX_FRAG_CNT : Nat) : Int) ≤ ((Generated.STREAM_BUF_SIZE : Nat) : Int) :=
    Int.ofNat_le.mpr hs
  have hq' : ((Generated.MAX_FRAG_CNT : Nat) : Int) ≤ ((Generated.QUEUE_BUF_SIZE : Nat) : Int) :=
    Int.ofNat_le.mpr hq
  constructor
  · refine (coreRun_ok Generated.STREAM_BUF_SIZE [] xs (fun k b hb => by simp at hb) ?_).1
    intro s hsx hm
    obtain ⟨a, b, c⟩ := h s hsx hm
    exact ⟨a, Int.le_trans b hs', c⟩
  · refine (coreRun_ok Generated.QUEUE_BUF_SIZE [] xs (fun k b hb => by simp at hb) ?_).1
    intro s hsx hm
    obtain ⟨a, b, c⟩ := h s hsx hm
    exact ⟨a, Int.le_trans b hq', c⟩

/-- what is delivered per input line, filtered by an arbitrary per-line choice (`keeps`): a sublist of
what is delivered -/
theorem filtered_sublist (outs : List StepOut) :
    ∀ keeps : List (Sentence → Bool),
      (List.zipWith (fun (o : StepOut) p => o.delivered.filter p) outs keeps).flatten.Sublist
        (outs.map (·.delivered)).flatten := by
  induction outs with
  | nil => intro keeps; simp
  | cons o outs ih =>
    intro keeps
    cases keeps with
    | nil => simp
    | cons p ps =>
      simp only [List.zipWith_cons_cons, List.flatten_cons, List.map_cons]
      exact List.Sublist.append List.filter_sublist (ih ps)

/-- **A bounded queue loses messages but delivers nothing else.** The reassembly state of
`NMEAQueue.put_line` (fragment buffer, pending wrapper) does not depend on whether the finished
sentence found room in the queue (`queue.Full` is raised after the slot was cleared and the wrapper
taken): whatever subset of the deliveries is lost, line by line, the sentences that do come out are,
in order, among those the unbounded queue delivers for the same lines. -/
theorem C03_bounded_queue (k : AsmConsts) (st : AsmState) (lines : List Py.Bytes) (keeps : List (Sentence → Bool)) :
    (List.zipWith (fun (o : StepOut) p => o.delivered.filter p) (runLoop (queueStep k) st lines).2 keeps).flatten.Sublist
      (((runLoop (queueStep k) st lines).2).map (·.delivered)).flatten :=
  filtered_sublist _ keeps

/-- non-vacuity: two interleaved two-part messages in different slots, fragments out of order, and a
single sentence in between -/
example :
    let f (seq : Int) (ch : Nat) (num cnt : Int) (pl : Nat) : Sentence :=
      { raw := [pl], isAIS := true, delimiter := [33], talker := [], typ := [], checksum := 0, fillBits := 0,
        isValid := true, dataFields := [], fragCnt := cnt, fragNum := num, seqId := some seq, channel := [ch],
        payload := [pl] }
    let single : Sentence :=
      { raw := [9], isAIS := true, delimiter := [33], talker := [], typ := [], checksum := 0, fillBits := 0,
        isValid := true, dataFields := [], fragCnt := 1, fragNum := 1, seqId := none, payload := [9] }
    ((coreRun 255 [] [f 1 65 2 2 12, f 2 66 1 2 21, single, f 1 65 1 2 11, f 2 66 2 2 22]).1.map
        fun l => l.map (·.payload)) = [[], [], [[9]], [[11, 12]], [[21, 22]]] := by decide +kernel

#print axioms bounds_ok
#print axioms C03_singles
#print axioms C03_no_mixing
#print axioms slotRun_blocks
#print axioms C03_delivery
#print axioms C03_assembled
#print axioms C03_incomplete
#print axioms C03_no_index_error
#print axioms C03_bounded_queue
end C03
