import PyaisVerif.Lemmas.TagBlockRT
import PyaisVerif.Lemmas.Render
import PyaisVerif.Generated.Consts
/-!
# C16 — tag blocks round-trip through create and parse and never alter the sentence

`Model.tbCreate` / `tbInit` / `tbField` follow `TagBlock.create`, `TagBlock.init`,
`TagBlock._parse_payload` and `TagBlockGroup.from_str`; the field-code table is read from the source.
All value strings, all subsets of the fields in any keyword order, all group triples.
-/
namespace C16
open Model Py

abbrev codes := Generated.TAG_FIELD_CODES
abbrev K : NmeaConsts := { maxFragCnt := Generated.MAX_FRAG_CNT, maxPayloadLen := Generated.MAX_PAYLOAD_LEN }

/-- the field-code table read from the source -/
theorem codes_expected :
    codes = [("receiver_timestamp", 99), ("destination_station", 100), ("line_count", 110),
      ("relative_time", 114), ("source_station", 115), ("text", 116), ("group", 103)] := by decide

/-- **Round trip.** A tag block built from any non-empty selection of the text fields (any keyword
order, separator-free values, including values containing `:` and checksums below 0x10) parses back
to exactly the textual form of those values with a matching checksum; fields not given are `None`. -/
theorem C16_roundtrip (fs : List (String × Bytes)) (hne : fs ≠ []) (hnodup : (fs.map (·.1)).Nodup)
    (hknown : ∀ p ∈ fs, p.1 ∈ textFieldNames) (hvals : ∀ p ∈ fs, ValueOK p.2) :
    ∃ raw tb, tbCreate codes (fs.map fun p => (p.1, some p.2)) = .ok raw ∧ tbInit codes raw = .ok tb ∧
      tb.isValid = true ∧ tb.actual = tb.expected ∧
      (∀ p ∈ fs, tb.get p.1 = some p.2) ∧
      (∀ n ∈ textFieldNames, n ∉ fs.map (·.1) → tb.get n = none) ∧ tb.group = none :=
  tb_roundtrip codes codes_expected fs hne hnodup hknown hvals

/-- **Round trip with a group**: every group triple parses back as its three integers. -/
theorem C16_roundtrip_group (n t i : Nat) (fs : List (String × Bytes)) (hnodup : (fs.map (·.1)).Nodup)
    (hknown : ∀ p ∈ fs, p.1 ∈ textFieldNames) (hvals : ∀ p ∈ fs, ValueOK p.2) :
    ∃ raw tb, tbCreate codes (("group", some (natToDec n ++ [DASH] ++ natToDec t ++ [DASH] ++ natToDec i))
        :: fs.map fun p => (p.1, some p.2)) = .ok raw ∧ tbInit codes raw = .ok tb ∧
      tb.isValid = true ∧ tb.group = some { num := n, tot := t, gid := i } ∧
      (∀ p ∈ fs, tb.get p.1 = some p.2) :=
  tb_roundtrip_group codes codes_expected n t i fs hnodup hknown hvals

/-- **Valid iff the checksum matches**: a parsed tag block reports valid iff the number after `*`
equals the XOR of its content. -/
theorem C16_valid_iff (content chk : Bytes) (tb : TagBlock) (hc : STAR ∉ content) (hk : STAR ∉ chk)
    (h : tbInit codes (content ++ [STAR] ++ chk) = .ok tb) :
    ∃ e, pyIntStr16 chk = some e ∧ tb.isValid = ((xorAll content : Int) == e) :=
  let ⟨e, h1, h2, _⟩ := tbInit_valid codes content chk tb hc hk h
  ⟨e, h1, h2⟩

/-- **Unknown or malformed fields are ignored** without affecting the known ones. -/
theorem C16_unknown_ignored (tb : TagBlock) (field : Bytes)
    (h : utf8Valid field = false ∨ COLON ∉ field ∨
      (∃ spec val, split1 COLON field = (spec, some val) ∧ spec ≠ [103] ∧ ∀ p ∈ codes, [p.2] ≠ spec)) :
    tbField codes tb field = .ok tb :=
  tbField_ignored codes tb field h

/-- **The sentence following a tag block is parsed exactly as it would be without it.** -/
theorem C16_sentence_unchanged (tb line : Bytes) (htb : BACKSLASH ∉ tb) (htb0 : tb ≠ [])
    (hline : ∀ b, line.head? = some b → isSpace b = false ∧ b ≠ BACKSLASH) (hne : line ≠ []) :
    produce K ([BACKSLASH] ++ tb ++ [BACKSLASH] ++ line) =
      (match produce K line with
       | .ok s => .ok { s with tagBlock := some tb }
       | .error e => .error e) :=
  produce_tagblock K tb line htb htb0 hline hne

/-- leading blanks / line terminators are stripped before anything else is looked at -/
theorem strip_prepend_space (t s : Bytes) (ht : t.all isSpace = true) : strip (t ++ s) = strip s := by
  unfold strip lstrip
  rw [List.dropWhile_append]
  have : t.dropWhile isSpace = [] := dropWhile_eq_nil_of_all isSpace t ht
  simp [this]

/-- **Whitespace around a (tag-blocked) line does not matter**: the factory strips the line first,
so a tag block is found and taken off whether or not blanks or line terminators surround the line. -/
theorem C16_surrounding_whitespace (lead line trail : Bytes) (hl : lead.all isSpace = true)
    (ht : trail.all isSpace = true) (hne : line ≠ []) :
    produce K (lead ++ line ++ trail) = produce K line := by
  rw [produce_trailer K (lead ++ line) trail ht]
  have hpp := preProcess_congr (lead ++ line) line (strip_prepend_space lead line hl)
  have e1 : (lead ++ line).isEmpty = false := by
    cases lead <;> cases line <;> simp_all
  have e2 : line.isEmpty = false := by cases line <;> simp_all
  unfold produce
  rw [hpp, e1, e2]

/-- non-vacuity: the documented example `TagBlock.create(source_station="STATION1", text="Hello")`,
a one-digit checksum, and a value containing `:` -/
example :
    (match tbCreate codes [("source_station", some (strBytes "STATION1")), ("text", some (strBytes "Hello"))] with
     | .ok raw => raw == strBytes "s:STATION1,t:Hello*2"
     | .error _ => false) = true ∧
    ValueOK (strBytes "a:b") := by
  refine ⟨by decide +kernel, by decide +kernel, ?_, ?_⟩ <;> decide

#print axioms codes_expected
#print axioms C16_roundtrip
#print axioms C16_roundtrip_group
#print axioms C16_valid_iff
#print axioms C16_unknown_ignored
#print axioms C16_sentence_unchanged
#print axioms strip_prepend_space
#print axioms C16_surrounding_whitespace
end C16
