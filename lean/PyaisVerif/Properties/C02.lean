import PyaisVerif.Lemmas.RoundTrip
import PyaisVerif.Lemmas.Prefix
import PyaisVerif.Lemmas.Values
import PyaisVerif.Properties.C01
import PyaisVerif.Properties.C04
import PyaisVerif.Properties.C08
import PyaisVerif.Properties.C09
/-!
# C02 — encode then decode returns the message that was encoded

Built on C01 (the class a payload selects and the table-driven decode), C08 (decoding, re-encoding
and decoding again is the identity on the decoded message), the prefix theorem (re-encoding keeps the
bits that select the class), C09 (the emitted sentences carry exactly the bits) and C04 (one-shot
decoding sees only the payload).
-/
namespace C02
open Model Spec Py

abbrev K : NmeaConsts := { maxFragCnt := Generated.MAX_FRAG_CNT, maxPayloadLen := Generated.MAX_PAYLOAD_LEN }
abbrev env := Generated.env
abbrev MAXLEN := Generated.ENCODE_MAX_LEN

/-- how many leading bits of a payload select its class: the type id, and for the multi-layout types
the discriminator bits -/
def sel140 : List String := ["MessageType22Addressed", "MessageType22Broadcast"]
def sel40 : List String := ["MessageType24PartA", "MessageType24PartB",
  "MessageType25AddressedStructured", "MessageType25AddressedUnstructured",
  "MessageType25BroadcastStructured", "MessageType25BroadcastUnstructured",
  "MessageType26AddressedStructured", "MessageType26AddressedUnstructured",
  "MessageType26BroadcastStructured", "MessageType26BroadcastUnstructured"]

def selLen (cls : String) : Nat :=
  if sel140.contains cls then 140 else if sel40.contains cls then 40 else 6

theorem selLen_ge (cls : String) : 6 ≤ selLen cls := by
  unfold selLen
  by_cases h1 : sel140.contains cls = true
  · rw [if_pos h1]; omega
  · rw [if_neg h1]
    by_cases h2 : sel40.contains cls = true
    · rw [if_pos h2]; omega
    · rw [if_neg h2]; omega

/-- number of fields of a table that start before bit `n` -/
def selFields (fs : List Field) (n : Nat) : Nat :=
  ((offsetsFrom 0 fs).takeWhile fun p => decide (p.2 < n)).length

/-- in every table of the source the fields in front of and including the discriminator bits are
never normalised by decoding (unsigned integers, flags, spare bits, scaled coordinates) and end
exactly at bit `selLen` -/
theorem prefix_tables :
    (Generated.classes.all fun (c, fs) =>
      ((fs.take (selFields fs (selLen c))).all (prefixField C08.E)) &&
      (widthSum (fs.take (selFields fs (selLen c))) == selLen c)) = true := by decide +kernel

theorem take_of_take {α} (l₁ l₂ : List α) (n m : Nat) (h : l₁.take n = l₂.take n) (hm : m ≤ n) :
    l₁.take m = l₂.take m := by
  have := congrArg (List.take m) h
  rwa [List.take_take, List.take_take, Nat.min_eq_left hm] at this

theorem slice_of_take {α} (l₁ l₂ : List α) (n i k : Nat) (h : l₁.take n = l₂.take n) (hik : i + k ≤ n) :
    (l₁.drop i).take k = (l₂.drop i).take k := by
  have h' := take_of_take l₁ l₂ n (i + k) h hik
  have := congrArg (List.drop i) h'
  rw [List.drop_take, List.drop_take] at this
  simpa using this

/-- `select` only looks at the first `selLen` bits -/
theorem select_congr (b1 b2 : Bits) (cls : String) (hsel : select b1 = .ok cls)
    (h : b1.take (selLen cls) = b2.take (selLen cls)) : select b2 = .ok cls := by
  have hge : 6 ≤ selLen cls := selLen_ge cls
  have h6 := take_of_take b1 b2 _ 6 h hge
  have hbit : ∀ i k, i + k ≤ selLen cls → (b1.drop i).take k = (b2.drop i).take k :=
    fun i k hik => slice_of_take b1 b2 _ i k h hik
  have hbitAt : ∀ i, i + 1 ≤ selLen cls → bitAt b2 i = bitAt b1 i := by
    intro i hi
    unfold bitAt
    rw [hbit i 1 hi]
  unfold select at hsel ⊢
  rw [← h6]
  generalize toNat (b1.take 6) = t at hsel ⊢
  by_cases h0 : t = 0
  · simp only [h0, if_true] at hsel ⊢; exact hsel
  simp only [h0, if_false] at hsel ⊢
  by_cases h22 : t = 22
  · simp only [h22, if_true] at hsel ⊢
    have hl : selLen cls = 140 := by
      split at hsel <;> (injection hsel with hsel; subst hsel; decide)
    rw [hbitAt 139 (by omega)]
    exact hsel
  simp only [h22, if_false] at hsel ⊢
  by_cases h24 : t = 24
  · simp only [h24, if_true] at hsel ⊢
    have hl : selLen cls = 40 := by
      split at hsel
      · injection hsel with hsel; subst hsel; decide
      · split at hsel
        · injection hsel with hsel; subst hsel; decide
        · cases hsel
    rw [← hbit 38 2 (by omega)]
    exact hsel
  simp only [h24, if_false] at hsel ⊢
  by_cases h25 : t = 25
  · simp only [h25, if_true] at hsel ⊢
    have hl : selLen cls = 40 := by
      injection hsel with hsel; subst hsel
      split <;> split <;> decide
    rw [hbitAt 38 (by omega), hbitAt 39 (by omega)]
    exact hsel
  simp only [h25, if_false] at hsel ⊢
  by_cases h26 : t = 26
  · simp only [h26, if_true] at hsel ⊢
    have hl : selLen cls = 40 := by
      injection hsel with hsel; subst hsel
      split <;> split <;> decide
    rw [hbitAt 38 (by omega), hbitAt 39 (by omega)]
    exact hsel
  simp only [h26, if_false] at hsel ⊢
  exact hsel

/-- the selected class determines how many bits were looked at -/
theorem selLen_of_select (bits : Bits) (cls : String) (hsel : select bits = .ok cls) :
    (toNat (bits.take 6) = 22 → selLen cls = 140) ∧
    (toNat (bits.take 6) ∈ [24, 25, 26] → selLen cls = 40) := by
  unfold select at hsel
  generalize toNat (bits.take 6) = t at hsel ⊢
  refine ⟨?_, ?_⟩
  · intro h22
    subst h22
    simp only [show ¬ (22 = 0) by decide, if_false, if_true] at hsel
    split at hsel <;> (injection hsel with hsel; subst hsel; decide)
  · intro hm
    simp only [List.mem_cons, List.mem_nil_iff, or_false] at hm
    rcases hm with rfl | rfl | rfl
    · simp only [show ¬ (24 = 0) by decide, show ¬ (24 = 22) by decide, if_false, if_true] at hsel
      split at hsel
      · injection hsel with hsel; subst hsel; decide
      · split at hsel
        · injection hsel with hsel; subst hsel; decide
        · cases hsel
    · simp only [show ¬ (25 = 0) by decide, show ¬ (25 = 22) by decide, show ¬ (25 = 24) by decide,
        if_false, if_true] at hsel
      injection hsel with hsel; subst hsel
      split <;> split <;> decide
    · simp only [show ¬ (26 = 0) by decide, show ¬ (26 = 22) by decide, show ¬ (26 = 24) by decide,
        show ¬ (26 = 25) by decide, if_false, if_true] at hsel
      injection hsel with hsel; subst hsel
      split <;> split <;> decide

/-- the encoder's fragment size keeps every message within nine fragments -/
theorem maxlen_ok : 20 ≤ MAXLEN := by decide

/-- **Round trip of every message that decoding can produce, through the whole NMEA path.**  Take any
payload `bits0` of a supported layout `cls` (its own type and discriminator bits select `cls`; it is
long enough to contain them) whose length ends on a field boundary or inside the variable-length
tail, sub-character padding zero, and let `m` be the decoded message.  Encoding `m` with
`encode_msg` (any admissible talker and channel) and decoding the produced sentences with `decode()`
yields exactly `m`: same class/variant, every field equal — also when decoding normalised some
field of `bits0` (enum fallbacks, text padding, rate of turn) and for shorter forms.  The one
exception is a variable-length text that decodes to the empty string (known findings F12/F13). -/
theorem C02_roundtrip (cls : String) (fs : List Field)
    (hfs : Generated.classes.lookup cls = some fs)
    (bits0 : Bits) (hsel : select bits0 = .ok cls) (hmin : selLen cls ≤ bits0.length)
    (hb : OnBoundary fs bits0.length) (hpad : PadZero C08.E fs bits0)
    (hne : ¬ EmptyTextTail C08.E fs bits0)
    (talker chan : Bytes) (ht : talkerOk talker = true) (hc : chanOk chan = true) :
    ∃ kv sents, seqDecode env bits0 0 fs = .ok kv ∧
      encodeMsg env MAXLEN { cls := cls, fields := kv } talker chan = .ok sents ∧
      decodeArgs K env false sents = .ok { cls := cls, fields := kv } := by
  obtain ⟨kv, bits', hdec, henc, hdec'⟩ := C08.C08_idempotent cls fs hfs bits0 hb hpad hne
  -- the prefix that selects the class survives re-encoding
  have hmem := lookup_mem _ _ _ hfs
  have hpt := List.all_eq_true.mp prefix_tables (cls, fs) hmem
  simp only [Bool.and_eq_true, beq_iff_eq, List.all_eq_true] at hpt
  obtain ⟨hpre, hw⟩ := hpt
  have hpfx := reencode_prefix env C08.E C08.fromRot C08.tables_ok C08.rot_tables_ok C08.enum_rt_ok
    cls fs (C08.table_rt cls fs hfs) (selFields fs (selLen cls)) hpre bits0 (by rw [hw]; exact hmin)
    kv bits' hdec henc
  rw [hw] at hpfx
  have hlen' : selLen cls ≤ bits'.length := by
    have := congrArg List.length hpfx
    simp only [List.length_take] at this
    omega
  have hge := selLen_ge cls
  have hsel' : select bits' = .ok cls := select_congr bits0 bits' cls hsel hpfx.symm
  -- lengths
  have hdom := List.all_eq_true.mp C09.C09_domain (cls, fs) hmem
  simp only [decide_eq_true_eq] at hdom
  have hle : bits'.length ≤ 6 * 9 * MAXLEN := by
    have := maxlen_ok
    rw [toBitarray_eq_fold] at henc
    have h2 := foldlM_encStep_length env _ fs [] bits' henc
    simp only [List.length_nil, Nat.zero_add] at h2
    have h3 : widthSum fs ≤ 1064 := hdom
    omega
  have hne' : bits' ≠ [] := by
    intro h0; rw [h0] at hlen'; simp at hlen'; omega
  -- the encoder
  have hmsg : msgToBits env { cls := cls, fields := kv } = .ok bits' := by
    unfold msgToBits
    have : env.classes.lookup cls = some fs := hfs
    simp only [this]
    exact henc
  have hlt : talker.length = 5 := C09.talker_length talker ht
  have hlc : chan.length = 1 := C09.chan_length chan hc
  have hout : ∃ out, aisToNmea MAXLEN (encodeAscii6 bits').1 talker chan (encodeAscii6 bits').2 = .ok out := by
    unfold aisToNmea
    simp only [hlt, hlc, ne_eq, not_true_eq_false, if_false]
    exact ⟨_, rfl⟩
  obtain ⟨out, hout⟩ := hout
  have hencm : encodeMsg env MAXLEN { cls := cls, fields := kv } talker chan = .ok out := by
    unfold encodeMsg
    simp only [ht, hc, not_true_eq_false, if_false, hmsg, bind, Except.bind]
    exact hout
  obtain ⟨s, hs, hsbits, hpay, _, hid⟩ := C09.C09_accepted bits' talker chan ht hc hne' hle out hout
  refine ⟨kv, out, hdec, hencm, ?_⟩
  -- the decoder
  have hnotempty : s.payload.isEmpty = false := by
    rw [hpay]
    have := (encodeAscii6_chars bits').2
    cases hp : (encodeAscii6 bits').1 with
    | nil => rw [hp] at this; simp at this; omega
    | cons _ _ => rfl
  have hselect := C01.C01_select bits' (by omega)
    (fun h => by
      have : selLen cls = 40 := (selLen_of_select bits' cls hsel').2 h
      omega)
    (fun h => by
      have : selLen cls = 140 := (selLen_of_select bits' cls hsel').1 h
      omega)
  have hdb : decodeBits env bits' = .ok { cls := cls, fields := kv } := by
    rw [C01.decodeBits_eq, hselect, hsel']
    have : Generated.env.classes.lookup cls = some fs := hfs
    simp only [bind, Except.bind, this, hdec']
  unfold decodeArgs
  rw [hs]
  simp only [bind, Except.bind, decodeSentence, hnotempty, Bool.false_eq_true, if_false, hid, hsbits]
  unfold decodeBits at hdb
  exact hdb

/-- **Round trip of every assignment of wire-representable field values.**  Give every field of a
class a value that the *standard* (`Spec.check`, the layout specification of C01) assigns to some
bit pattern of the field's width — any unsigned / signed / scaled number of the wire grid, any
member of an enumeration, any canonical six-bit text, any binary content; a variable-length last
field may be shorter than its maximum (`Model.Wire`) — such that the type id and discriminator
patterns select the class.  Then `encode_msg` of that message, decoded again with `decode()`, yields
exactly these values: same class/variant, every field equal. -/
theorem C02_roundtrip_values (cls : String) (fs : List Field)
    (hfs : Generated.classes.lookup cls = some fs)
    (slices : List Bits) (vals : List Val) (hwire : Wire C08.E fs slices vals)
    (hsel : select slices.flatten = .ok cls) (hmin : selLen cls ≤ slices.flatten.length)
    (talker chan : Bytes) (ht : talkerOk talker = true) (hc : chanOk chan = true) :
    ∃ sents,
      encodeMsg env MAXLEN { cls := cls, fields := (fs.map (·.name)).zip vals } talker chan = .ok sents ∧
      decodeArgs K env false sents = .ok { cls := cls, fields := (fs.map (·.name)).zip vals } := by
  obtain ⟨hdec, hpad, hb, hne, _⟩ := wire_decode env C08.E C08.tables_ok fs slices vals hwire
  obtain ⟨kv, sents, h1, h2, h3⟩ := C02_roundtrip cls fs hfs slices.flatten hsel hmin hb hpad hne
    talker chan ht hc
  rw [hdec] at h1
  cases h1
  exact ⟨sents, h2, h3⟩

/-! ### which values are wire-representable (explicit ranges for the common kinds) -/

/-- every unsigned integer below `2^w` -/
theorem wire_unsigned (w i : Nat) (h : i < 2 ^ w) :
    (ofNat w i).length = w ∧ SliceOK C08.E.membersOf .u (ofNat w i) ∧
      check C08.E.membersOf .u (ofNat w i) (.int i) = true := by
  refine ⟨ofNat_length w i, ⟨fun h => (by cases h), fun _ h => (by cases h)⟩, ?_⟩
  simp only [check, beq_iff_eq, toNat_ofNat, Nat.mod_eq_of_lt h]

/-- both flags -/
theorem wire_bool (b : Bool) :
    ([b] : Bits).length = 1 ∧ SliceOK C08.E.membersOf .b [b] ∧
      check C08.E.membersOf .b [b] (.bool b) = true := by
  refine ⟨rfl, ⟨fun h => (by cases h), fun _ h => (by cases h)⟩, ?_⟩
  cases b <;> decide

/-- every member of an enumeration whose code fits the field -/
theorem wire_enum (cls : String) (w m : Nat) (h : m < 2 ^ w)
    (hm : (C08.E.membersOf cls).contains (m : Int) = true) :
    (ofNat w m).length = w ∧ SliceOK C08.E.membersOf (.e cls) (ofNat w m) ∧
      check C08.E.membersOf (.e cls) (ofNat w m) (.enum cls m) = true := by
  have e : toNat (ofNat w m) = m := by rw [toNat_ofNat, Nat.mod_eq_of_lt h]
  refine ⟨ofNat_length w m, ⟨fun h => (by cases h), fun c hc => (by cases hc; rw [e]; exact hm)⟩, ?_⟩
  have hb : blockOK C08.E.membersOf cls (m : Int) (m : Int) = true := by
    unfold blockOK
    rw [Bool.and_eq_true]
    constructor
    · rw [List.all_eq_true]
      intro x _
      obtain ⟨lo, hi, rep⟩ := x
      simp only [hm, Bool.not_true, Bool.and_false, Bool.not_false, Bool.true_or]
    · cases defaultMember cls with
      | none => rfl
      | some d => simp only [hm, Bool.true_or]
  simp only [check, e, hm, hb, beq_self_eq_true, Bool.and_self, Bool.not_true, Bool.false_or]

/-- every multiple of 0.1 below `2^w` tenths (speed, course, draught) -/
theorem wire_tenths (w i : Nat) (h : i < 2 ^ w) :
    (ofNat w i).length = w ∧ SliceOK C08.E.membersOf .U1 (ofNat w i) ∧
      check C08.E.membersOf .U1 (ofNat w i) (.flt ((i : Int) * 100000)) = true := by
  refine ⟨ofNat_length w i, ⟨fun h => (by cases h), fun _ h => (by cases h)⟩, ?_⟩
  simp only [check, beq_iff_eq, toNat_ofNat, Nat.mod_eq_of_lt h]

/-- every position of the 1/10000-minute grid: the six-decimal number nearest to `r / 600000`
degrees, for every signed wire value `r` of the field -/
theorem wire_position (w : Nat) (r : Int) (hw : 0 < w) (h1 : -(2 : Int) ^ (w - 1) ≤ r) (h2 : r < 2 ^ (w - 1)) :
    (ofInt w r).length = w ∧ SliceOK C08.E.membersOf .I4 (ofInt w r) ∧
      check C08.E.membersOf .I4 (ofInt w r) (.flt (roundHalfEvenDiv (r * 1000000) 600000)) = true := by
  refine ⟨by simp [ofInt], ⟨fun h => (by cases h), fun _ h => (by cases h)⟩, ?_⟩
  simp only [check, beq_iff_eq, toInt_ofInt w r hw ⟨h1, h2⟩]

/-- every multiple of 0.1 of the signed range (tenths of minutes) -/
theorem wire_signed_tenths (w : Nat) (r : Int) (hw : 0 < w) (h1 : -(2 : Int) ^ (w - 1) ≤ r) (h2 : r < 2 ^ (w - 1)) :
    (ofInt w r).length = w ∧ SliceOK C08.E.membersOf .I1 (ofInt w r) ∧
      check C08.E.membersOf .I1 (ofInt w r) (.flt (r * 100000)) = true := by
  refine ⟨by simp [ofInt], ⟨fun h => (by cases h), fun _ h => (by cases h)⟩, ?_⟩
  simp only [check, beq_iff_eq, toInt_ofInt w r hw ⟨h1, h2⟩]

/-- every position of the 1/10-minute grid (type 27) -/
theorem wire_position600 (w : Nat) (r : Int) (hw : 0 < w) (h1 : -(2 : Int) ^ (w - 1) ≤ r) (h2 : r < 2 ^ (w - 1)) :
    (ofInt w r).length = w ∧ SliceOK C08.E.membersOf .I600 (ofInt w r) ∧
      check C08.E.membersOf .I600 (ofInt w r) (.flt (roundHalfEvenDiv (r * 1000000) 600)) = true := by
  refine ⟨by simp [ofInt], ⟨fun h => (by cases h), fun _ h => (by cases h)⟩, ?_⟩
  simp only [check, beq_iff_eq, toInt_ofInt w r hw ⟨h1, h2⟩]

/-- every whole number below `2^w` of a quantity reported as float (knots, degrees) -/
theorem wire_unsigned_float (w i : Nat) (h : i < 2 ^ w) :
    (ofNat w i).length = w ∧ SliceOK C08.E.membersOf .uf (ofNat w i) ∧
      check C08.E.membersOf .uf (ofNat w i) (.flt ((i : Int) * MICRO)) = true := by
  refine ⟨ofNat_length w i, ⟨fun h => (by cases h), fun _ h => (by cases h)⟩, ?_⟩
  simp only [check, beq_iff_eq, toNat_ofNat, Nat.mod_eq_of_lt h]

/-- every binary content of the field's width (reported as octets, left-aligned) -/
theorem wire_binary (b : Bits) :
    SliceOK C08.E.membersOf .d b ∧ check C08.E.membersOf .d b (.bytes (toBytes b)) = true := by
  refine ⟨⟨fun h => (by cases h), fun _ h => (by cases h)⟩, ?_⟩
  simp only [check, beq_self_eq_true]

/-- every rate of turn the standard assigns to one of the 256 raw values -/
theorem wire_rot (r : Int) (h1 : -128 ≤ r) (h2 : r ≤ 127) :
    (ofInt 8 r).length = 8 ∧ SliceOK C08.E.membersOf .ROT (ofInt 8 r) ∧
      check C08.E.membersOf .ROT (ofInt 8 r) (rot r) = true := by
  refine ⟨by simp [ofInt], ⟨fun h => (by cases h), fun _ h => (by cases h)⟩, ?_⟩
  have : toInt (ofInt 8 r) = r := toInt_ofInt 8 r (by decide) ⟨by simpa using h1, by
    have : (2 : Int) ^ (8 - 1) = 128 := by decide
    omega⟩
  simp only [check, this, beq_self_eq_true]

/-- every canonical text (characters of the six-bit alphabet other than `@`, no outer blanks) that
fits the field, padded with `@` -/
theorem wire_text (s : List Nat) (hs : CanonText s) (w : Nat) (hlen : s.length ≤ w / 6) :
    ∃ b : Bits, b.length = w ∧ SliceOK C08.E.membersOf .t b ∧
      check C08.E.membersOf .t b (.str s) = true := by
  obtain ⟨b0, _, hl, hd⟩ := strToBin_canon_padded s hs w hlen (w % 6)
  have hlen' : (b0 ++ zeros (w % 6)).length = w := by
    rw [List.length_append, hl, zeros_length]; omega
  have hpad : ∀ x ∈ (b0 ++ zeros (w % 6)).drop ((b0 ++ zeros (w % 6)).length / 6 * 6), x = false := by
    intro x hx
    rw [hlen'] at hx
    have e : w / 6 * 6 = b0.length := by rw [hl]; omega
    rw [e, List.drop_left] at hx
    exact (List.mem_replicate.mp hx).2
  refine ⟨b0 ++ zeros (w % 6), hlen', ⟨fun _ => hpad, fun _ h => (by cases h)⟩, ?_⟩
  simp only [check, beq_iff_eq]
  rw [← decodeAscii6_eq_text _ hpad, hd]

/-- a payload-sized bit string with the given bits set -/
def bitsWith (ones : List Nat) : Bits := (List.range 168).map fun i => ones.contains i

/-- the discriminator keywords of the four multi-layout types, with the bit position of each
(the most significant bit first for the two-bit part number) and the assignments to try -/
def variantCases : List (String × List (List (String × Val) × List Nat)) := [
  ("MessageType22", [([("addressed", .bool true)], [139]), ([("addressed", .bool false)], []), ([], []),
                     ([("addressed", .int 1)], [139]), ([("addressed", .int 0)], [])]),
  ("MessageType24", [([("partno", .int 0)], []), ([("partno", .int 1)], [39]), ([], []),
                     ([("partno", .int 2)], [38]), ([("partno", .int 3)], [38, 39])]),
  ("MessageType25", [([("addressed", .bool true), ("structured", .bool true)], [38, 39]),
                     ([("addressed", .bool true), ("structured", .bool false)], [38]),
                     ([("addressed", .bool false), ("structured", .bool true)], [39]),
                     ([("addressed", .bool false), ("structured", .bool false)], []),
                     ([("structured", .bool true)], [39]), ([("addressed", .bool true)], [38]), ([], [])]),
  ("MessageType26", [([("addressed", .bool true), ("structured", .bool true)], [38, 39]),
                     ([("addressed", .bool true), ("structured", .bool false)], [38]),
                     ([("addressed", .bool false), ("structured", .bool true)], [39]),
                     ([("addressed", .bool false), ("structured", .bool false)], []),
                     ([("structured", .bool true)], [39]), ([("addressed", .bool true)], [38]), ([], [])])]

/-- **Variant selection on `create` agrees with variant selection on decoding**: for every
multi-layout type and every assignment of its discriminator keywords (absent = the default), the
class `create()` chooses is the class the decoder chooses for a payload whose discriminator bits
carry those values (both trees are read from the source). -/
theorem variants_consistent :
    (variantCases.all fun (d, cases) =>
      match env.createTrees.lookup d, env.decodeTrees.lookup d with
      | some ct, some dt => cases.all fun (kw, ones) =>
          (match ct.run (fun t => t.evalKw kw), dt.run (fun t => .ok (t.evalBits (bitsWith ones))) with
           | .ok a, .ok b => a == b
           | .error e, .error e' => e == e'
           | _, _ => false)
      | _, _ => false) = true := by decide +kernel

/-- **Both entry points**: `encode_dict` (type given as `type` or as `msg_type`) is `create`
followed by `encode_msg`. -/
theorem C02_encode_dict (kw : List (String × Val)) (talker chan : Bytes) (t : Int) (cls : String) (m : Msg)
    (ht : getAisType kw = .ok t) (ht0 : 0 ≤ t) (hcls : env.msgClass.lookup t.toNat = some cls)
    (hm : create env cls kw = .ok m) :
    encodeDict env MAXLEN kw talker chan = encodeMsg env MAXLEN m talker chan :=
  encodeDict_eq env MAXLEN kw talker chan t cls m ht ht0 hcls hm

/-- `create()` with every field given builds the message with exactly those values -/
theorem C02_create (c : String) (fs : List Field) (kw : List (String × Val))
    (hall : ∀ f ∈ fs, ∃ v, kwGet kw f.name = some v ∧ forceType f v = .ok v ∧
      applyConv env f.attrConv v = .ok v) :
    createConcrete env c fs kw =
      .ok { cls := c, fields := fs.map fun f => (f.name, (kwGet kw f.name).getD .none) } :=
  createConcrete_full env c fs kw hall

/-- **Quantisation of scaled quantities** (exact arithmetic, values with six decimals): positions
are encoded to the nearest wire step (at most half a step away) and decoded to the nearest
six-decimal number; tenths are truncated toward zero (less than one step); wire-representable values
are encoded to exactly their wire value. -/
theorem C02_quantisation_positions (m : Int) (k : Nat) (hk : 0 < k) :
    2 * (roundHalfEvenDiv (m * k) MICRO * MICRO - m * k).natAbs ≤ MICRO.natAbs :=
  quant_round m k hk

theorem C02_quantisation_decode (wire : Int) (k : Nat) (hk : 0 < k) :
    2 * (roundHalfEvenDiv (wire * MICRO) k * k - wire * MICRO).natAbs ≤ k :=
  quant_round_back wire k hk

theorem C02_quantisation_tenths (m : Int) :
    (truncDiv (m * 10) MICRO * MICRO).natAbs ≤ (m * 10).natAbs ∧
    (m * 10).natAbs - (truncDiv (m * 10) MICRO * MICRO).natAbs < MICRO.natAbs :=
  ⟨(quant_trunc m).1, (quant_trunc m).2.1⟩

theorem C02_representable_fixed (r : Int) :
    roundHalfEvenDiv (roundHalfEvenDiv (r * MICRO) 600000 * 600000) MICRO = r ∧
    roundHalfEvenDiv (roundHalfEvenDiv (r * MICRO) 600 * 600) MICRO = r ∧
    truncDiv ((r * 100000) * 10) MICRO = r :=
  ⟨quant_round_fixed r 600000 (Or.inl rfl), quant_round_fixed r 600 (Or.inr rfl), quant_trunc_fixed r⟩

/-- **Encoding a position that is not on the wire grid** (any value with six decimals): a field of
the 1/10000-minute kind is written as the wire value nearest to `v · 600000` (round half to even), at
most half a wire step from `v`, and decoding that wire value yields the six-decimal number nearest to
it — the model's `to_bitarray` / `from_bitarray` of the field, not only arithmetic. -/
theorem C02_position_field (f : Field) (hk : kindOf C08.E f = some .I4) (hc : f.fromConv = .mulRound 600000)
    (hw : 0 < f.width) (m : Int)
    (h1 : -(2 : Int) ^ (f.width - 1) ≤ roundHalfEvenDiv (m * 600000) MICRO)
    (h2 : roundHalfEvenDiv (m * 600000) MICRO < 2 ^ (f.width - 1)) :
    let wire := roundHalfEvenDiv (m * 600000) MICRO
    encodeField env f (.flt m) = .ok (ofInt f.width wire) ∧
    decodeField env f (ofInt f.width wire) = .ok (.flt (roundHalfEvenDiv (wire * 1000000) 600000)) ∧
    2 * (wire * MICRO - m * 600000).natAbs ≤ MICRO.natAbs := by
  intro wire
  have hkind := hk
  unfold kindOf at hk
  split at hk <;> try (simp at hk; done)
  case h_8 hd hs ht ha =>
    refine ⟨?_, ?_, ?_⟩
    · have hconv : applyConv env f.fromConv (.flt m) = .ok (.int wire) := by
        rw [hc]; rfl
      have hcore : encodeCore f (.int wire) = .ok (ofInt f.width wire) := by
        unfold encodeCore
        simp only [hd, Val.micro]
        have : truncDiv (wire * MICRO) MICRO = wire := truncDiv_mul_micro wire
        rw [this, hs]
        exact intToBin_signed wire f.width hw ⟨h1, h2⟩
      have := encodeField_of env f (.flt m) (.int wire) _ hconv hcore
      rw [this, List.take_of_length_le (by simp [ofInt])]
    · obtain ⟨v, hv, hcheck⟩ := decodeField_spec env C08.E C08.tables_ok f .I4 hkind (ofInt f.width wire)
        (by simp [ofInt]) hw (fun h => by cases h)
      simp only [check, beq_iff_eq, toInt_ofInt f.width wire hw ⟨h1, h2⟩] at hcheck
      rw [hv, hcheck]
    · exact quant_round m 600000 (by decide)
  all_goals (exfalso; unfold tableKind at hk; split at hk <;> split at hk <;> simp at hk)

/-- **Encoding a tenths quantity that is not on the wire grid** (speed, course, draught): the field
is written as `v · 10` truncated toward zero — never beyond `v`, less than one step away — and decoded
as that many tenths. -/
theorem C02_tenths_field (f : Field) (hk : kindOf C08.E f = some .U1) (hc : f.fromConv = .mulK 10)
    (hw : 0 < f.width) (m : Int) (h0 : 0 ≤ m)
    (h2 : truncDiv (m * 10) MICRO < 2 ^ f.width) :
    let wire := truncDiv (m * 10) MICRO
    encodeField env f (.flt m) = .ok (ofNat f.width wire.toNat) ∧
    decodeField env f (ofNat f.width wire.toNat) = .ok (.flt (wire * 100000)) ∧
    (wire * MICRO).natAbs ≤ (m * 10).natAbs ∧ (m * 10).natAbs - (wire * MICRO).natAbs < MICRO.natAbs := by
  intro wire
  have hq := quant_trunc m
  have hw0 : 0 ≤ wire := hq.2.2.1 h0
  have hkind := hk
  unfold kindOf at hk
  split at hk <;> try (simp at hk; done)
  case h_6 hd hs ht ha =>
    refine ⟨?_, ?_, hq.1, hq.2.1⟩
    · have hconv : applyConv env f.fromConv (.flt m) = .ok (.flt (m * 10)) := by
        rw [hc]; rfl
      have hcore : encodeCore f (.flt (m * 10)) = .ok (ofNat f.width wire.toNat) := by
        unfold encodeCore
        simp only [hd, Val.micro, hs]
        exact intToBin_unsigned wire f.width hw0 h2
      have := encodeField_of env f (.flt m) (.flt (m * 10)) _ hconv hcore
      rw [this, List.take_of_length_le (by simp)]
    · obtain ⟨v, hv, hcheck⟩ := decodeField_spec env C08.E C08.tables_ok f .U1 hkind (ofNat f.width wire.toNat)
        (by simp) hw (fun h => by cases h)
      have hlt : wire.toNat < 2 ^ f.width := by
        have : ((wire.toNat : Nat) : Int) < ((2 ^ f.width : Nat) : Int) := by
          rw [Int.toNat_of_nonneg hw0]; simpa using h2
        exact_mod_cast this
      simp only [check, beq_iff_eq, toNat_ofNat, Nat.mod_eq_of_lt hlt, Int.toNat_of_nonneg hw0] at hcheck
      rw [hv, hcheck]
  all_goals (exfalso; unfold tableKind at hk; split at hk <;> split at hk <;> simp at hk)

/-- **Known findings F15–F22, as theorems about the model (negation witnesses).**  `MessageType3`
keeps its parent's default `msg_type` (the subclass redefines the field without `@attr.s`):
`create()` without an explicit `msg_type` builds a message whose type field is 1. -/
theorem C02_finding_default_msg_type :
    (match create env "MessageType3" [("mmsi", .int 1)] with
     | .ok m => m.get "msg_type" == .int 1
     | .error _ => false) = true ∧
    (match create env "MessageType2" [("mmsi", .int 1)] with
     | .ok m => m.get "msg_type" == .int 1
     | .error _ => false) = true ∧
    (match create env "MessageType11" [("mmsi", .int 1)] with
     | .ok m => m.get "msg_type" == .int 4
     | .error _ => false) = true ∧
    (match create env "MessageType13" [("mmsi", .int 1)] with
     | .ok m => m.get "msg_type" == .int 7
     | .error _ => false) = true := by decide +kernel

/-- **Known findings F23–F26 (negation witness).**  A type-26 message with one octet of binary data:
the radio status is emitted directly after the short data and decoded back as data. -/
theorem C02_finding_type26_short_data :
    (match create env "MessageType26BroadcastUnstructured" [("mmsi", .int 1), ("data", .bytes [255]), ("radio", .int 5)] with
     | .ok m => (match msgToBits env m with
        | .ok bits => (match fromBitarray env "MessageType26BroadcastUnstructured" bits with
          | .ok m' => m'.get "radio" == .none && m'.get "data" != .bytes [255]
          | .error _ => false)
        | .error _ => false)
     | .error _ => false) = true := by decide +kernel

/-- non-vacuity: a 72-bit type-8 payload (two octets of binary data — a shorter form) meets the
hypotheses of `C02_roundtrip`: it selects `MessageType8`, contains the bits that select the class,
ends inside the variable-length tail, and the table has no text field -/
example : (match select (ofNat 6 8 ++ ofNat 66 12345) with
      | .ok c => c == "MessageType8"
      | .error _ => false) = true ∧
    selLen "MessageType8" ≤ (ofNat 6 8 ++ ofNat 66 12345).length ∧
    OnBoundary Generated.T_MessageType8 (ofNat 6 8 ++ ofNat 66 12345).length := by
  refine ⟨by decide +kernel, by decide +kernel, Or.inr ⟨_, rfl, rfl, ?_, ?_⟩⟩ <;> decide +kernel

/-- … and so does a full-length (360-bit) type-21 payload, whose re-encoding is four bits shorter
(finding F27): the round trip of the *message* is unaffected -/
example : (match select (ofNat 6 21 ++ ofNat 354 0) with
      | .ok c => c == "MessageType21"
      | .error _ => false) = true ∧
    selLen "MessageType21" ≤ (ofNat 6 21 ++ ofNat 354 0).length ∧
    OnBoundary Generated.T_MessageType21 (ofNat 6 21 ++ ofNat 354 0).length := by
  refine ⟨by decide +kernel, by decide +kernel, Or.inl ⟨Generated.T_MessageType21.length, Nat.le_refl _, ?_⟩⟩
  decide +kernel

macro "wire_step" k:term : tactic =>
  `(tactic| refine Wire.cons _ $k _ _ _ _ _ (by decide +kernel) (by decide +kernel) (by decide +kernel)
      ⟨fun h => (by cases h), fun _ h => (by cases h)⟩ (by decide +kernel) (by decide +kernel) ?_)

/-- non-vacuity of `C02_roundtrip_values`: a type-10 message given by its field values (each the
standard's reading of a bit pattern of the field's width); its patterns select `MessageType10` -/
example : Wire C08.E Generated.T_MessageType10
      [ofNat 6 10, ofNat 2 1, ofNat 30 123456789, [false, false], ofNat 30 987654321, [false, false]]
      [.int 10, .int 1, .int 123456789, .bytes [0], .int 987654321, .bytes [0]] ∧
    (match select ([ofNat 6 10, ofNat 2 1, ofNat 30 123456789, [false, false], ofNat 30 987654321,
        [false, false]] : List Bits).flatten with
      | .ok c => c == "MessageType10"
      | .error _ => false) = true := by
  refine ⟨?_, by decide +kernel⟩
  unfold Generated.T_MessageType10
  wire_step .u
  wire_step .u
  wire_step .u
  wire_step .d
  wire_step .u
  wire_step .d
  exact Wire.nil

#print axioms prefix_tables
#print axioms select_congr
#print axioms selLen_of_select
#print axioms maxlen_ok
#print axioms C02_roundtrip
#print axioms C02_roundtrip_values
#print axioms wire_unsigned
#print axioms wire_bool
#print axioms wire_enum
#print axioms wire_tenths
#print axioms wire_position
#print axioms wire_text
#print axioms wire_signed_tenths
#print axioms wire_position600
#print axioms wire_unsigned_float
#print axioms wire_binary
#print axioms wire_rot
#print axioms variants_consistent
#print axioms C02_encode_dict
#print axioms C02_create
#print axioms C02_quantisation_positions
#print axioms C02_quantisation_decode
#print axioms C02_quantisation_tenths
#print axioms C02_representable_fixed
#print axioms C02_position_field
#print axioms C02_tenths_field
#print axioms C02_finding_default_msg_type
#print axioms C02_finding_type26_short_data
end C02
