import PyaisVerif.Lemmas.RoundTrip
import PyaisVerif.Properties.C01
import PyaisVerif.Properties.C04
import PyaisVerif.Properties.C08
import PyaisVerif.Properties.C09
/-!
# C02 — encode then decode returns the message that was encoded

Built on C01 (the class a payload selects and the table-driven decode), C08 (re-encoding a decoded
message is bit exact when nothing was normalised), C09 (the emitted sentences carry exactly the
bits) and C04 (one-shot decoding sees only the payload).
-/
namespace C02
open Model Spec Py

abbrev K : NmeaConsts := { maxFragCnt := Generated.MAX_FRAG_CNT, maxPayloadLen := Generated.MAX_PAYLOAD_LEN }
abbrev env := Generated.env
abbrev MAXLEN := Generated.ENCODE_MAX_LEN

/-- the encoder's fragment size keeps every message within nine fragments -/
theorem maxlen_ok : 20 ≤ MAXLEN := by decide

/-- a table of the source with the shape of a layout has the layout's total width -/
theorem widthSum_of_shape (fs : List Field) (L : List LField)
    (h : tableShape C08.E fs = layoutShape L) : widthSum fs = totalWidth L := by
  have := congrArg (List.map fun p => p.2.1) h
  simp only [tableShape, layoutShape, List.map_map, Function.comp_def] at this
  simp only [widthSum, totalWidth, this]

/-- **Round trip of every wire-representable message, through the whole NMEA path.**  Take any
payload `bits0` of a supported layout `cls` (its own type and discriminator bits select `cls`), on a
field boundary, in which no field is normalised by decoding, and let `m` be the decoded message —
i.e. `m` ranges over all messages whose field values are wire-representable.  Encoding `m` with
`encode_msg` (any admissible talker and channel) and decoding the produced sentences with `decode()`
yields exactly `m`: same class/variant, every field equal. -/
theorem C02_roundtrip_wire (cls : String) (L : List LField) (fs : List Field)
    (hL : (cls, L) ∈ layouts) (hfs : Generated.classes.lookup cls = some fs)
    (bits0 : Bits) (hsel : select bits0 = .ok cls) (hlen : bits0.length = totalWidth L)
    (hpad : PadZero C08.E fs bits0) (hex : AllExact env C08.E C08.fromRot fs bits0)
    (hr : ¬ RaggedTail C08.E fs bits0)
    (talker chan : Bytes) (ht : talkerOk talker = true) (hc : chanOk chan = true) :
    ∃ kv sents, seqDecode env bits0 0 fs = .ok kv ∧
      encodeMsg env MAXLEN { cls := cls, fields := kv } talker chan = .ok sents ∧
      decodeArgs K env false sents = .ok { cls := cls, fields := kv } := by
  -- the table has the layout's shape, hence its width
  have hshape : tableShape C08.E fs = layoutShape L := by
    have h := List.all_eq_true.mp C01.tables_match_layouts (cls, L) hL
    simp only at h
    rw [hfs] at h
    exact eq_of_beq h
  have hw : widthSum fs = totalWidth L := widthSum_of_shape fs L hshape
  have hb : OnBoundary fs bits0.length :=
    Or.inl ⟨fs.length, Nat.le_refl _, by rw [List.take_length, hlen, hw]⟩
  obtain ⟨kv, hdec, henc⟩ := C08.C08_bit_exact cls fs hfs bits0 hb hpad hex hr
  -- lengths
  have hfin := List.all_eq_true.mp C01.layouts_len_fin (cls, L) hL
  simp only [Bool.and_eq_true, decide_eq_true_eq, Bool.or_eq_true, Bool.not_eq_true',
    Bool.or_eq_false_iff, beq_eq_false_iff_ne] at hfin
  obtain ⟨h72, h22⟩ := hfin
  have hdom := List.all_eq_true.mp C09.C09_domain (cls, fs) (lookup_mem _ _ _ hfs)
  simp only [decide_eq_true_eq] at hdom
  have hle : bits0.length ≤ 6 * 9 * MAXLEN := by
    have := maxlen_ok
    have h2 : bits0.length ≤ 1064 := by rw [hlen, ← hw]; exact hdom
    omega
  have hne : bits0 ≠ [] := by
    intro h0; rw [h0] at hlen; simp at hlen; omega
  -- the encoder
  have hmsg : msgToBits env { cls := cls, fields := kv } = .ok bits0 := by
    unfold msgToBits
    have : env.classes.lookup cls = some fs := hfs
    simp only [this]
    exact henc
  have hlt : talker.length = 5 := C09.talker_length talker ht
  have hlc : chan.length = 1 := C09.chan_length chan hc
  have hout : ∃ out, aisToNmea MAXLEN (encodeAscii6 bits0).1 talker chan (encodeAscii6 bits0).2 = .ok out := by
    unfold aisToNmea
    simp only [hlt, hlc, ne_eq, not_true_eq_false, if_false]
    exact ⟨_, rfl⟩
  obtain ⟨out, hout⟩ := hout
  have hencm : encodeMsg env MAXLEN { cls := cls, fields := kv } talker chan = .ok out := by
    unfold encodeMsg
    simp only [ht, hc, not_true_eq_false, if_false, hmsg, bind, Except.bind]
    exact hout
  obtain ⟨s, hs, hsbits, hpay, _, hid⟩ := C09.C09_accepted bits0 talker chan ht hc hne hle out hout
  refine ⟨kv, out, hdec, hencm, ?_⟩
  -- the decoder
  have hnotempty : s.payload.isEmpty = false := by
    rw [hpay]
    have := (encodeAscii6_chars bits0).2
    cases hp : (encodeAscii6 bits0).1 with
    | nil => rw [hp] at this; simp at this; omega
    | cons _ _ => rfl
  have hselect := C01.C01_select bits0 (by omega) (fun _ => by omega) (fun h => by
    rcases h22 with h22 | h22
    · rcases C01.select_22 bits0 cls h hsel with hc | hc
      · exact absurd hc h22.1
      · exact absurd hc h22.2
    · omega)
  have hdb : decodeBits env bits0 = .ok { cls := cls, fields := kv } := by
    rw [C01.decodeBits_eq, hselect, hsel]
    have : Generated.env.classes.lookup cls = some fs := hfs
    simp only [bind, Except.bind, this, hdec]
  unfold decodeArgs
  rw [hs]
  simp only [bind, Except.bind, decodeSentence, hnotempty, Bool.false_eq_true, if_false, hid, hsbits]
  unfold decodeBits at hdb
  exact hdb

/-- **Both entry points**: `encode_dict` (type given as `type` or as `msg_type`) is `create`
followed by `encode_msg`. -/
theorem C02_encode_dict (kw : List (String × Val)) (talker chan : Bytes) (t : Int) (cls : String) (m : Msg)
    (ht : getAisType kw = .ok t) (ht0 : 0 ≤ t) (hcls : env.msgClass.lookup t.toNat = some cls)
    (hm : create env cls kw = .ok m) :
    encodeDict env MAXLEN kw talker chan = encodeMsg env MAXLEN m talker chan :=
  encodeDict_eq env MAXLEN kw talker chan t cls m ht ht0 hcls hm

/-- `create()` with every field given builds the message with exactly those values -/
theorem C02_create (c : String) (fs : List Field) (kw : List (String × Val))
    (hall : ∀ f ∈ fs, ∃ v, kwGet kw f.name = some v ∧ forceType f v = .ok v ∧
      applyConv env f.attrConv v = .ok v) :
    createConcrete env c fs kw =
      .ok { cls := c, fields := fs.map fun f => (f.name, (kwGet kw f.name).getD .none) } :=
  createConcrete_full env c fs kw hall

/-- **Quantisation of scaled quantities** (exact arithmetic, values with six decimals): positions
are encoded to the nearest wire step (at most half a step away) and decoded to the nearest
six-decimal number; tenths are truncated toward zero (less than one step); wire-representable values
are encoded to exactly their wire value. -/
theorem C02_quantisation_positions (m : Int) (k : Nat) (hk : 0 < k) :
    2 * (roundHalfEvenDiv (m * k) MICRO * MICRO - m * k).natAbs ≤ MICRO.natAbs :=
  quant_round m k hk

theorem C02_quantisation_decode (wire : Int) (k : Nat) (hk : 0 < k) :
    2 * (roundHalfEvenDiv (wire * MICRO) k * k - wire * MICRO).natAbs ≤ k :=
  quant_round_back wire k hk

theorem C02_quantisation_tenths (m : Int) :
    (truncDiv (m * 10) MICRO * MICRO).natAbs ≤ (m * 10).natAbs ∧
    (m * 10).natAbs - (truncDiv (m * 10) MICRO * MICRO).natAbs < MICRO.natAbs :=
  ⟨(quant_trunc m).1, (quant_trunc m).2.1⟩

theorem C02_representable_fixed (r : Int) :
    roundHalfEvenDiv (roundHalfEvenDiv (r * MICRO) 600000 * 600000) MICRO = r ∧
    roundHalfEvenDiv (roundHalfEvenDiv (r * MICRO) 600 * 600) MICRO = r ∧
    truncDiv ((r * 100000) * 10) MICRO = r :=
  ⟨quant_round_fixed r 600000 (Or.inl rfl), quant_round_fixed r 600 (Or.inr rfl), quant_trunc_fixed r⟩

/-- **Known findings F15–F22, as theorems about the model (negation witnesses).**  `MessageType3`
keeps its parent's default `msg_type` (the subclass redefines the field without `@attr.s`):
`create()` without an explicit `msg_type` builds a message whose type field is 1. -/
theorem C02_finding_default_msg_type :
    (match create env "MessageType3" [("mmsi", .int 1)] with
     | .ok m => m.get "msg_type" == .int 1
     | .error _ => false) = true ∧
    (match create env "MessageType2" [("mmsi", .int 1)] with
     | .ok m => m.get "msg_type" == .int 1
     | .error _ => false) = true ∧
    (match create env "MessageType11" [("mmsi", .int 1)] with
     | .ok m => m.get "msg_type" == .int 4
     | .error _ => false) = true ∧
    (match create env "MessageType13" [("mmsi", .int 1)] with
     | .ok m => m.get "msg_type" == .int 7
     | .error _ => false) = true := by decide +kernel

/-- **Known findings F23–F26 (negation witness).**  A type-26 message with one octet of binary data:
the radio status is emitted directly after the short data and decoded back as data. -/
theorem C02_finding_type26_short_data :
    (match create env "MessageType26BroadcastUnstructured" [("mmsi", .int 1), ("data", .bytes [255]), ("radio", .int 5)] with
     | .ok m => (match msgToBits env m with
        | .ok bits => (match fromBitarray env "MessageType26BroadcastUnstructured" bits with
          | .ok m' => m'.get "radio" == .none && m'.get "data" != .bytes [255]
          | .error _ => false)
        | .error _ => false)
     | .error _ => false) = true := by decide +kernel

/-- non-vacuity: the hypotheses of `C02_roundtrip_wire` are satisfiable (an all-zero type-1 payload
apart from the type bits) -/
example : (match select (ofNat 6 1 ++ ofNat 162 0) with
      | .ok c => c == "MessageType1"
      | .error _ => false) = true ∧
    (ofNat 6 1 ++ ofNat 162 0).length = totalWidth L_MessageType1 := by
  decide +kernel

#print axioms maxlen_ok
#print axioms C02_roundtrip_wire
#print axioms C02_encode_dict
#print axioms C02_create
#print axioms C02_quantisation_positions
#print axioms C02_quantisation_decode
#print axioms C02_quantisation_tenths
#print axioms C02_representable_fixed
#print axioms C02_finding_default_msg_type
#print axioms C02_finding_type26_short_data
end C02
