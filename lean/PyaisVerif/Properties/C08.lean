import PyaisVerif.Lemmas.MsgRT
import PyaisVerif.Generated.Tables
/-!
# C08 — re-encoding a decoded message is stable

`Model.seqDecode` / `toBitarray` / `encodeField` follow `Payload.from_bitarray` and
`Payload.to_bitarray` (`int_to_bin` with its saturation, two's complement via `to_bytes`,
`str_to_bin` padding rules, `bytes2bits`, the `bits[:width]` cut).  Every payload of every layout
whose length ends on a field boundary (full length and every shorter form, including the
variable-length tails of types 6, 8, 12, 14, 17), sub-character padding bits zero.
-/
namespace C08
open Model Spec Py

def E : EnumInfo :=
  { members := Generated.enumMembers, tables := Generated.enumTables, rotTables := Generated.rotTables }
abbrev env := Generated.env
abbrev fromRot := Generated.fromRotTables

/-- enum tables and the rate-of-turn tables (to_turn: ITU function; from_turn ∘ to_turn: identity on
the 256 decoded values) — kernel evaluation over the tables read from the source -/
theorem tables_ok : TablesOk env E = true := by decide +kernel
set_option maxRecDepth 1000000 in
theorem rot_tables_ok : RotTablesOk env E fromRot = true := by decide +kernel

/-- every enum converter maps into the raw range of its field and is the identity on its image -/
theorem enum_rt_ok : EnumRTOk env E = true := by decide +kernel

/-- all 35 field tables satisfy the side conditions of the re-encoding theorem (distinct names,
matching decode/encode converters per kind, one-bit booleans, only the last field unaligned, a
fixed-width text last field at least one character wide) -/
theorem tables_rt : (Generated.classes.all fun p => TableRT E fromRot p.2) = true := by decide +kernel

/-- the table of a class of the source satisfies the side conditions -/
theorem table_rt (cls : String) (fs : List Field) (h : Generated.classes.lookup cls = some fs) :
    TableRT E fromRot fs = true :=
  List.all_eq_true.mp tables_rt (cls, fs) (lookup_mem _ _ _ h)

/-- **C08 (idempotence).** For every class of the source and every payload on a field boundary:
decoding, encoding the result and decoding again yields an identical message — except when the
variable-length text of a type 12/14 message decodes to the empty string (known finding F12/F13:
it is re-encoded as zero bits and comes back as `None`; `C08_finding_empty_text`). -/
theorem C08_idempotent (cls : String) (fs : List Field) (h : Generated.classes.lookup cls = some fs)
    (bits : Bits) (hb : OnBoundary fs bits.length) (hpad : PadZero E fs bits)
    (hne : ¬ EmptyTextTail E fs bits) :
    ∃ kv bits', seqDecode env bits 0 fs = .ok kv ∧
      toBitarray env fs { cls := cls, fields := kv } = .ok bits' ∧
      seqDecode env bits' 0 fs = .ok kv := by
  obtain ⟨kv, bits', h1, h2, h3, _⟩ := msg_reencode env E fromRot tables_ok rot_tables_ok enum_rt_ok
    cls fs (table_rt cls fs h) bits hb hpad
  exact ⟨kv, bits', h1, h2, h3 hne⟩

/-- **C08 (bit exactness).** Whenever no field was normalised, the re-encoded payload is bit for bit
the received one — except for the four padding bits of type 21's 88-bit `name_ext` and ragged
variable-length tails (`RaggedTail`; known findings F27, F28). -/
theorem C08_bit_exact (cls : String) (fs : List Field) (h : Generated.classes.lookup cls = some fs)
    (bits : Bits) (hb : OnBoundary fs bits.length) (hpad : PadZero E fs bits)
    (hex : AllExact env E fromRot fs bits) (hr : ¬ RaggedTail E fs bits) :
    ∃ kv, seqDecode env bits 0 fs = .ok kv ∧ toBitarray env fs { cls := cls, fields := kv } = .ok bits := by
  obtain ⟨kv, bits', h1, h2, _, h4⟩ := msg_reencode env E fromRot tables_ok rot_tables_ok enum_rt_ok
    cls fs (table_rt cls fs h) bits hb hpad
  rw [h4 hex hr] at h2
  exact ⟨kv, h1, h2⟩

/-- **Known finding F13, as a theorem about the model (negation witness).** A 40-bit type-14 message
followed by one `@` character: the text decodes to `""`, is re-encoded as nothing, and the second
decode yields `None`. -/
theorem C08_finding_empty_text :
    let bits := ofNat 6 14 ++ ofNat 34 123456 ++ ofNat 6 0
    (match seqDecode env bits 0 Generated.T_MessageType14 with
     | .ok kv =>
       kv.lookup "text" == some (.str []) &&
       (match toBitarray env Generated.T_MessageType14 { cls := "MessageType14", fields := kv } with
        | .ok bits' => bits'.length == 40 &&
            (match seqDecode env bits' 0 Generated.T_MessageType14 with
             | .ok kv' => kv'.lookup "text" == some .none
             | .error _ => false)
        | .error _ => false)
     | .error _ => false) = true := by decide +kernel

/-- **Known finding F27 (negation witness).** A full-length (360-bit) type-21 message whose fields
are all canonical is re-encoded with 356 bits: the four padding bits of `name_ext` are dropped. -/
theorem C08_finding_type21_padding :
    let bits := ofNat 6 21 ++ ofNat 350 0 ++ ofNat 4 0
    (match seqDecode env bits 0 Generated.T_MessageType21 with
     | .ok kv => (match toBitarray env Generated.T_MessageType21 { cls := "MessageType21", fields := kv } with
        | .ok bits' => bits'.length == 356
        | .error _ => false)
     | .error _ => false) = true := by decide +kernel

/-- **Known finding F28 (negation witness).** A full-length (1008-bit) type-14 message whose text
field is completely filled (161 characters `A` and two zero padding bits) is re-encoded with 1006
bits. -/
theorem C08_finding_type14_padding :
    let bits := ofNat 6 14 ++ ofNat 34 1 ++ ((List.replicate 161 (ofNat 6 1)).flatten ++ [false, false])
    (bits.length == 1008 &&
     match seqDecode env bits 0 Generated.T_MessageType14 with
     | .ok kv => (match toBitarray env Generated.T_MessageType14 { cls := "MessageType14", fields := kv } with
        | .ok bits' => bits'.length == 1006 && bits' == bits.take 1006
        | .error _ => false)
     | .error _ => false) = true := by decide +kernel

/-- non-vacuity: a 168-bit type-1 payload is on a boundary of its table -/
example : OnBoundary Generated.T_MessageType1 168 :=
  Or.inl ⟨16, by decide, by decide⟩

#print axioms tables_ok
#print axioms rot_tables_ok
#print axioms enum_rt_ok
#print axioms tables_rt
#print axioms C08_idempotent
#print axioms C08_bit_exact
#print axioms C08_finding_empty_text
#print axioms C08_finding_type21_padding
#print axioms C08_finding_type14_padding
end C08
