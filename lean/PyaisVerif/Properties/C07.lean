import PyaisVerif.Lemmas.Readers
import PyaisVerif.Lemmas.Reassembly
import PyaisVerif.Generated.Consts
import PyaisVerif.Generated.Tables
/-!
# C07 — every ingestion path delivers the same messages for the same lines

The six front-ends as functions of the input lines: `IterMessages` (`runLoop streamStep`),
`ByteStream` / `BinaryIOStream` / `FileReaderStream` (the same loop behind the filter of
`Stream._iter_messages`, files split at LF), `SocketStream` (`sockRead`, then the same),
`NMEAQueue` (`runLoop queueStep`), and one-shot `decode()` (`oneShotAssemble`).
-/
namespace C07
open Model Py

abbrev K : NmeaConsts := { maxFragCnt := Generated.MAX_FRAG_CNT, maxPayloadLen := Generated.MAX_PAYLOAD_LEN }
abbrev AKS : AsmConsts := { nmea := K, bufSize := Generated.STREAM_BUF_SIZE, tagCodes := Generated.TAG_FIELD_CODES }
abbrev AKQ : AsmConsts := { nmea := K, bufSize := Generated.QUEUE_BUF_SIZE, tagCodes := Generated.TAG_FIELD_CODES }

/-- the two loops use the same buffer size and the filter constants are as documented -/
theorem consts_ok : Generated.STREAM_BUF_SIZE = Generated.QUEUE_BUF_SIZE ∧ Generated.STREAM_MIN_LEN = 10 ∧
    Generated.SHOULD_PARSE_FIRST = [33, 36, 92] := by decide

def sfilter (l : Bytes) : Bool := streamFilter Generated.STREAM_MIN_LEN Generated.SHOULD_PARSE_FIRST l

/-- **The in-memory iterator and the `NMEAQueue` deliver the same**: same sentences with the same
raw text, payload, bits, validity, wrapper and tag block, same tag-block-queue output, at the same
input positions, for every sequence of lines. -/
theorem C07_iter_eq_queue (withTbq : Bool) (lines : List Bytes) :
    runLoop (streamStep AKS) (initState withTbq) lines = runLoop (queueStep AKQ) (initState withTbq) lines := by
  have hk : AKS = AKQ := by
    unfold AKS AKQ
    rw [consts_ok.1]
  rw [hk]
  exact runLoop_stream_eq_queue AKQ _ lines

/-- **The byte stream delivers what the iterator delivers**, provided every line either passes the
heuristic of `Stream._iter_messages` or is rejected by the factory (the documented differences are
lines with leading whitespace or a start delimiter other than `$ ! \`). -/
theorem C07_bytestream (withTbq : Bool) (lines : List Bytes)
    (h : ∀ l ∈ lines, sfilter l = true ∨ ∃ e, produce K l = .error e) :
    deliveriesOf (runLoop (streamStep AKS) (initState withTbq) (lines.filter sfilter))
      = deliveriesOf (runLoop (streamStep AKS) (initState withTbq) lines) ∧
    tbqOutOf (runLoop (streamStep AKS) (initState withTbq) (lines.filter sfilter))
      = tbqOutOf (runLoop (streamStep AKS) (initState withTbq) lines) := by
  refine (runLoop_filter (streamStep AKS) sfilter (initState withTbq) lines ?_).2
  intro l hl hf s
  rcases h l hl with h1 | ⟨e, he⟩
  · rw [h1] at hf; cases hf
  · exact streamStep_error AKS s l e he

/-- the length heuristic never drops a line the factory accepts -/
theorem C07_length_filter (raw : Bytes) (s : Sentence) (h : produce K raw = .ok s) :
    Generated.STREAM_MIN_LEN < raw.length := by
  rw [consts_ok.2.1]
  exact produce_ok_length K raw s h

/-- the start-delimiter half of the filter -/
def startOk (l : Bytes) : Bool :=
  match l with
  | b :: _ => Generated.SHOULD_PARSE_FIRST.contains b
  | [] => false

theorem sfilter_eq (l : Bytes) : sfilter l = (decide (l.length > Generated.STREAM_MIN_LEN) && startOk l) := by
  unfold sfilter streamFilter startOk
  cases l <;> rfl

/-- **A preprocessor that undoes a decoration of the lines changes nothing.** Every line carries a
decoration (a log prefix, a time stamp suffix …) that makes it longer than the length bound and
that the preprocessor removes again: the reader delivers exactly what it delivers for the bare
lines (and leaves the same state behind).  A bare line of at most ten bytes, which the bare reader
drops unseen, reaches the factory in the decorated feed — and is rejected there. -/
theorem C07_preprocessor (withTbq : Bool) (lines : List Bytes) (deco pre : Bytes → Bytes)
    (hinv : ∀ l, pre (deco l) = l) (hlong : ∀ l, Generated.STREAM_MIN_LEN < (deco l).length) :
    deliveriesOf (runLoop (streamStep AKS) (initState withTbq)
        (streamLines Generated.STREAM_MIN_LEN Generated.SHOULD_PARSE_FIRST pre (lines.map deco)))
      = deliveriesOf (runLoop (streamStep AKS) (initState withTbq) (lines.filter sfilter)) ∧
    tbqOutOf (runLoop (streamStep AKS) (initState withTbq)
        (streamLines Generated.STREAM_MIN_LEN Generated.SHOULD_PARSE_FIRST pre (lines.map deco)))
      = tbqOutOf (runLoop (streamStep AKS) (initState withTbq) (lines.filter sfilter)) := by
  have h1 : streamLines Generated.STREAM_MIN_LEN Generated.SHOULD_PARSE_FIRST pre (lines.map deco)
      = lines.filter startOk := by
    unfold streamLines
    have ha : (lines.map deco).filter (fun l => decide (l.length > Generated.STREAM_MIN_LEN)) = lines.map deco := by
      apply List.filter_eq_self.mpr
      intro l hl
      obtain ⟨x, _, rfl⟩ := List.mem_map.mp hl
      simpa using hlong x
    rw [ha, List.map_map]
    have hb : (pre ∘ deco) = id := funext hinv
    rw [hb, List.map_id]
    rfl
  have h2 : (lines.filter startOk).filter sfilter = lines.filter sfilter := by
    rw [List.filter_filter]
    apply List.filter_congr
    intro l _
    rw [sfilter_eq]
    cases startOk l <;> simp
  rw [h1, ← h2]
  have := runLoop_filter (streamStep AKS) sfilter (initState withTbq) (lines.filter startOk) (by
    intro l hl hf s
    -- the line starts with a delimiter but is too short: the factory rejects it
    have hst : startOk l = true := (List.mem_filter.mp hl).2
    cases hp : produce K l with
    | error e => exact streamStep_error AKS s l e hp
    | ok sent =>
      exfalso
      have hlen := C07_length_filter l sent hp
      rw [sfilter_eq] at hf
      simp [hst, hlen] at hf)
  exact ⟨this.2.1.symm, this.2.2.symm⟩

/-- **File and socket readers**: a line handed on with its terminator (LF or CRLF) and trailing
blanks is processed exactly like the bare line (the readers' `raw` text is the stripped line). -/
theorem C07_terminators (st : AsmState) (l trailer : Bytes) (ht : trailer.all isSpace = true) :
    streamStep AKS st (l ++ trailer) = streamStep AKS st l :=
  streamStep_trailer AKS st l trailer ht

/-- **The socket reader hands on the lines of the stream** whatever the chunking (C06), hence
delivers what the file reader delivers for the same bytes. -/
theorem C07_socket (chunks : List Bytes) (hne : ∀ c ∈ chunks, c ≠ []) (hcr : CRLFOnly chunks.flatten) :
    sockRead [] chunks = (splitLF [] chunks.flatten).1 :=
  sockRead_eq [] chunks hne (chunks_noBareCR chunks hcr)

/-! ### the one-shot path -/

/-- the collection loop of `decode()` on arguments that all parse to AIS fragments of one message -/
theorem oneShotCollect_frags (k : NmeaConsts) (n : Int) (all : Nat → Sentence)
    (hall : ∀ j, (all j).fragCnt = n ∧ (all j).isAIS = true) (lines : List Bytes) (ks : List Nat)
    (hparse : lines.map (produce k) = ks.map fun j => .ok (all j)) (temp : List Sentence) (cnt : Int) :
    oneShotCollect k false lines temp cnt = .ok (temp ++ ks.map all, if ks = [] then cnt else n) := by
  induction lines generalizing ks temp cnt with
  | nil =>
    cases ks with
    | nil => simp [oneShotCollect]
    | cons j ks' => simp at hparse
  | cons a rest ih =>
    cases ks with
    | nil => simp at hparse
    | cons j ks' =>
      simp only [List.map_cons, List.cons.injEq] at hparse
      obtain ⟨hp, hrest⟩ := hparse
      unfold oneShotCollect
      rw [hp]
      simp only [(hall j).2, (hall j).1, if_true]
      rw [if_neg (by simp), ih ks' hrest]
      simp

theorem insertByNum_perm (x : Sentence) (l : List Sentence) : (insertByNum x l).Perm (x :: l) := by
  induction l with
  | nil => exact List.Perm.refl _
  | cons y ys ih =>
    unfold insertByNum
    split
    · exact ((List.Perm.cons y ih).trans (List.Perm.swap x y ys))
    · exact List.Perm.refl _

theorem sortByNum_perm (l : List Sentence) : (sortByNum l).Perm l := by
  induction l with
  | nil => exact List.Perm.refl _
  | cons x xs ih =>
    show (insertByNum x (sortByNum xs)).Perm (x :: xs)
    exact (insertByNum_perm x _).trans (List.Perm.cons x ih)

theorem insertByNum_le (x : Sentence) (l : List Sentence)
    (h : l.Pairwise (fun a b => a.fragNum ≤ b.fragNum)) :
    (insertByNum x l).Pairwise (fun a b => a.fragNum ≤ b.fragNum) := by
  induction l with
  | nil => simp [insertByNum]
  | cons y ys ih =>
    rw [List.pairwise_cons] at h
    unfold insertByNum
    split
    · rename_i hlt
      rw [List.pairwise_cons]
      refine ⟨fun b hb => ?_, ih h.2⟩
      rcases List.mem_cons.mp ((insertByNum_perm x ys).mem_iff.mp hb) with rfl | hb'
      · omega
      · exact h.1 b hb'
    · rename_i hge
      rw [List.pairwise_cons, List.pairwise_cons]
      refine ⟨fun b hb => ?_, h⟩
      rcases List.mem_cons.mp hb with rfl | hb'
      · omega
      · have := h.1 b hb'; omega

theorem sortByNum_le (l : List Sentence) : (sortByNum l).Pairwise (fun a b => a.fragNum ≤ b.fragNum) := by
  induction l with
  | nil => exact List.Pairwise.nil
  | cons x xs ih => exact insertByNum_le x _ ih

/-- sorting any arrangement of the fragments `1 … n` gives them in fragment-number order -/
theorem sortByNum_frags (n : Nat) (all : Nat → Sentence) (hall : ∀ j, (all j).fragNum = (j : Int))
    (ks : List Nat) (hperm : ks.Perm (List.range' 1 n)) :
    sortByNum (ks.map all) = (List.range' 1 n).map all := by
  have hp : (sortByNum (ks.map all)).Perm ((List.range' 1 n).map all) :=
    (sortByNum_perm _).trans (hperm.map all)
  refine List.Perm.eq_of_pairwise (le := fun a b => a.fragNum ≤ b.fragNum) ?_ (sortByNum_le _) ?_ hp
  · intro a b ha hb hab hba
    have ha' := hp.mem_iff.mp ha
    rw [List.mem_map] at ha' hb
    obtain ⟨i, -, rfl⟩ := ha'
    obtain ⟨j, -, rfl⟩ := hb
    rw [hall i, hall j] at hab hba
    have : i = j := by omega
    rw [this]
  · rw [List.pairwise_map]
    refine (List.pairwise_lt_range' 1).imp ?_
    intro a b hab
    rw [hall a, hall b]
    omega

/-- the content fields of an assembled message only depend on the sorted parts -/
theorem assemble_content (l : List Sentence) (s : Sentence) (h : assemble l = some s) :
    s.payload = ((sortByNum l).map (·.payload)).flatten ∧ s.bits = ((sortByNum l).map (·.bits)).flatten ∧
    s.isValid = (sortByNum l).all (·.isValid) ∧ s.aisId = getInt (((sortByNum l).map (·.bits)).flatten) 0 6 := by
  cases l with
  | nil => cases h
  | cons m0 rest =>
    simp only [assemble, Option.some.injEq] at h
    subst h
    exact ⟨rfl, rfl, rfl, rfl⟩

/-- **`decode()` of a message's parts agrees with the sentence the readers deliver**: if the
arguments parse to the fragments `1 … n` of one message in any order, the one-shot assembly has the
same payload, bits, validity and message id as the sentence assembled by the readers — and the
decoded message only depends on those. -/
theorem C07_oneshot (n : Nat) (hn1 : 1 ≤ n) (all : Nat → Sentence)
    (hall : ∀ j, (all j).fragNum = (j : Int) ∧ (all j).fragCnt = (n : Int) ∧ (all j).isAIS = true)
    (ks : List Nat) (hperm : ks.Perm (List.range' 1 n)) (lines : List Bytes)
    (hparse : lines.map (produce K) = ks.map fun j => .ok (all j)) :
    ∃ s d, oneShotAssemble K false lines = .ok s ∧ assemble ((List.range' 1 n).map all) = some d ∧
      s.payload = d.payload ∧ s.bits = d.bits ∧ s.isValid = d.isValid ∧ s.aisId = d.aisId ∧
      decodeSentence Generated.env s = decodeSentence Generated.env d := by
  have hlen : ks.length = n := by simpa using hperm.length_eq
  have hne : ks ≠ [] := by
    intro e
    rw [e] at hlen
    simp at hlen
    omega
  have hne1 : ks.map all ≠ [] := by simpa using hne
  have hne2 : (List.range' 1 n).map all ≠ [] := by
    intro e
    have := congrArg List.length e
    simp at this
    omega
  obtain ⟨s, hs⟩ := assemble_isSome_of_ne_nil _ hne1
  obtain ⟨d, hd⟩ := assemble_isSome_of_ne_nil _ hne2
  have hsort1 := sortByNum_frags n all (fun j => (hall j).1) ks hperm
  have hsort2 := sortByNum_frags n all (fun j => (hall j).1) (List.range' 1 n) (List.Perm.refl _)
  obtain ⟨s1, s2, s3, s4⟩ := assemble_content _ _ hs
  obtain ⟨d1, d2, d3, d4⟩ := assemble_content _ _ hd
  rw [hsort1] at s1 s2 s3 s4
  rw [hsort2] at d1 d2 d3 d4
  have e1 : s.payload = d.payload := s1.trans d1.symm
  have e2 : s.bits = d.bits := s2.trans d2.symm
  have e3 : s.isValid = d.isValid := s3.trans d3.symm
  have e4 : s.aisId = d.aisId := s4.trans d4.symm
  refine ⟨s, d, ?_, hd, e1, e2, e3, e4, ?_⟩
  · unfold oneShotAssemble
    rw [oneShotCollect_frags K n all (fun j => (hall j).2) lines ks hparse [] 1, if_neg hne]
    simp only [List.nil_append]
    unfold oneShotFinish
    have h1 : (ks.map all).isEmpty = false := by
      cases hk : ks.map all with
      | nil => exact absurd hk hne1
      | cons _ _ => rfl
    have h2 : ¬ (((ks.map all).length : Int) > (n : Int)) := by
      rw [List.length_map, hlen]; omega
    have h3 : ((List.range (n : Int).toNat).filter fun (i : Nat) =>
        ¬ ((ks.map all).map (·.fragNum)).contains ((i : Int) + 1)).isEmpty = true := by
      rw [List.isEmpty_iff, List.filter_eq_nil_iff]
      intro i hi
      rw [List.mem_range] at hi
      have hmem : i + 1 ∈ ks := hperm.mem_iff.mpr (by rw [List.mem_range'_1]; omega)
      have : ((i : Int) + 1) ∈ (ks.map all).map (·.fragNum) := by
        rw [List.mem_map]
        refine ⟨all (i + 1), List.mem_map.mpr ⟨i + 1, hmem, rfl⟩, ?_⟩
        rw [(hall (i + 1)).1]
        omega
      have hc : ((ks.map all).map (·.fragNum)).contains ((i : Int) + 1) = true :=
        List.contains_iff_mem.mpr this
      rw [hc]
      simp
    rw [h1]
    simp only [Bool.false_eq_true, if_false]
    rw [if_neg h2]
    rw [if_neg (by rw [h3]; simp), hs]
  · unfold decodeSentence
    rw [e1, e2, e4]

#print axioms consts_ok
#print axioms C07_iter_eq_queue
#print axioms C07_bytestream
#print axioms C07_length_filter
#print axioms C07_preprocessor
#print axioms C07_terminators
#print axioms C07_socket
#print axioms C07_oneshot
end C07
