import PyaisVerif.Lemmas.Carrier
import PyaisVerif.Generated.Consts
import PyaisVerif.Generated.Tables
/-!
# C04 — the decoded message depends only on the AIS payload, not on its NMEA carrier

Carrier = talker id, VDM or VDO, radio channel, sequence id, how the payload is cut into fragments,
the order in which the parts are handed to `decode()`, trailing CR/LF/blanks, leading tag blocks
(`Model.Carries`, `Model.Deco`).  Unbounded payload, any number of parts up to `MAX_FRAG_CNT`.
(`str` versus `bytes` input is the UTF-8 encoding step of `decode()`, identical on ASCII; it is
exercised by the harness, not modelled.)
-/
namespace C04
open Model Spec Py

abbrev K : NmeaConsts := { maxFragCnt := Generated.MAX_FRAG_CNT, maxPayloadLen := Generated.MAX_PAYLOAD_LEN }
abbrev env := Generated.env

/-- the limits the parser puts on one sentence leave room for every way of carrying a message: the
longest payload (1064 bits = 178 armored characters) fits into a single sentence, and nine fragments
are accepted -/
theorem limits_ok : 178 ≤ Generated.MAX_PAYLOAD_LEN ∧ 9 ≤ Generated.MAX_FRAG_CNT := by decide

/-! ### helpers -/

/-- being a carrier does not depend on the order in which the fragments are listed -/
theorem carries_perm {k : NmeaConsts} {payload : Bytes} {fill : Nat} {frags frags' : List FragSpec}
    (hperm : frags'.Perm frags) (hc : Carries k payload fill frags) : Carries k payload fill frags' where
  ok := fun f hf => hc.ok f (hperm.mem_iff.mp hf)
  ne := by
    intro h0
    rw [h0] at hperm
    exact hc.ne hperm.symm.eq_nil
  cnt := fun f hf => by rw [hperm.length_eq]; exact hc.cnt f (hperm.mem_iff.mp hf)
  perm := by rw [hperm.length_eq]; exact (hperm.map _).trans hc.perm
  chunks_ne := fun f hf => hc.chunks_ne f (hperm.mem_iff.mp hf)
  fills := fun f hf => by rw [hperm.length_eq]; exact hc.fills f (hperm.mem_iff.mp hf)
  concat := fun sorted hs hp => hc.concat sorted (hs.trans hperm) hp

theorem decoOK_default : DecoOK {} := ⟨rfl, trivial⟩

theorem map_renderLine_default (frags : List FragSpec) :
    (frags.map fun f => renderLine f {}) =
      List.zipWith renderLine frags (List.replicate frags.length {}) := by
  induction frags with
  | nil => rfl
  | cons f fs ih => simp only [List.map_cons, List.length_cons, List.replicate_succ, List.zipWith_cons_cons, ih]

/-- **`decode()` of any carrier is the decoding of the payload bits.** -/
theorem C04_is_payload_decode (payload : Bytes) (fill : Nat) (bits : Bits)
    (hbits : dearmor payload fill = .ok bits) (hfill : fill ≤ 5) (hne : payload ≠ [])
    (frags : List FragSpec) (decos : List Deco) (hlen : decos.length = frags.length)
    (hc : Carries K payload fill frags) (hd : ∀ d ∈ decos, DecoOK d) :
    decodeArgs K env false (List.zipWith renderLine frags decos) = decodeBits env bits := by
  obtain ⟨s, hs, hpay, hsbits, hid, _⟩ :=
    oneShot_carrier K payload fill bits hbits hfill frags decos hlen hc hd
  have hnotempty : s.payload.isEmpty = false := by
    rw [hpay]
    cases payload with
    | nil => exact absurd rfl hne
    | cons _ _ => rfl
  unfold decodeArgs
  rw [hs]
  simp only [bind, Except.bind, decodeSentence, hnotempty, Bool.false_eq_true, if_false, decodeBits,
    hid, hsbits]
  cases List.lookup (getInt bits 0 6) env.msgClass <;> rfl

/-- **Carrier independence**: two carriers of the same payload decode to the same result (message
or exception). -/
theorem C04_carrier_independent (payload : Bytes) (fill : Nat) (bits : Bits)
    (hbits : dearmor payload fill = .ok bits) (hfill : fill ≤ 5) (hne : payload ≠ [])
    (frags frags' : List FragSpec) (decos decos' : List Deco)
    (hlen : decos.length = frags.length) (hlen' : decos'.length = frags'.length)
    (hc : Carries K payload fill frags) (hc' : Carries K payload fill frags')
    (hd : ∀ d ∈ decos, DecoOK d) (hd' : ∀ d ∈ decos', DecoOK d) :
    decodeArgs K env false (List.zipWith renderLine frags decos)
      = decodeArgs K env false (List.zipWith renderLine frags' decos') := by
  rw [C04_is_payload_decode payload fill bits hbits hfill hne frags decos hlen hc hd,
      C04_is_payload_decode payload fill bits hbits hfill hne frags' decos' hlen' hc' hd']

/-- **`decode(part2, part1)` equals `decode(part1, part2)`** (any permutation of the parts). -/
theorem C04_swap (payload : Bytes) (fill : Nat) (bits : Bits)
    (hbits : dearmor payload fill = .ok bits) (hfill : fill ≤ 5) (hne : payload ≠ [])
    (frags frags' : List FragSpec) (hperm : frags'.Perm frags) (hc : Carries K payload fill frags) :
    decodeArgs K env false (frags'.map fun f => renderLine f {})
      = decodeArgs K env false (frags.map fun f => renderLine f {}) := by
  have hc' := carries_perm hperm hc
  rw [map_renderLine_default, map_renderLine_default]
  exact C04_carrier_independent payload fill bits hbits hfill hne frags' frags _ _
    (by simp) (by simp) hc' hc
    (fun d hd => by rw [List.eq_of_mem_replicate hd]; exact decoOK_default)
    (fun d hd => by rw [List.eq_of_mem_replicate hd]; exact decoOK_default)

/-- non-vacuity: a two-fragment carrier with different talkers, a tag block and CRLF -/
example :
    let f1 : FragSpec := { talker := strBytes "AI", kind := strBytes "VDM", cnt := 2, num := 1, seq := some 3,
                           chan := strBytes "A", chunk := strBytes "15M67FC000G?uf", fill := 0 }
    let f2 : FragSpec := { talker := strBytes "BS", kind := strBytes "VDO", cnt := 2, num := 2, seq := some 3,
                           chan := strBytes "A", chunk := strBytes "bE`FepT@3n00Sa", fill := 0 }
    (match decodeArgs K env false [renderLine f2 { tb := some (strBytes "s:x*11"), trailer := [13, 10] }, renderLine f1 {}],
           decodeArgs K env false [strBytes "!AIVDM,1,1,,B,15M67FC000G?ufbE`FepT@3n00Sa,0*5C"] with
     | .ok a, .ok b => a == b
     | _, _ => false) = true := by decide +kernel

#print axioms limits_ok
#print axioms C04_is_payload_decode
#print axioms C04_carrier_independent
#print axioms C04_swap
end C04
