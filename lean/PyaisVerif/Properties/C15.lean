import PyaisVerif.Lemmas.TrackerRefine
import PyaisVerif.Lemmas.Broker
/-!
# C15 — tracker events mirror the life cycle of each track
-/
namespace C15
open Model Spec

/-- **Life cycle.** For every history and every MMSI the delivered events form
(CREATED UPDATED* DELETED)* (CREATED UPDATED*)?, and the set of tracks equals the MMSIs created and
not yet deleted. -/
theorem C15_lifecycle (ordered : Bool) (ttl : Option Int) (ops : List TrkOp) (m : Int) :
    lifeRun m (trkRun ordered ttl ops).events =
      some ((trkRun ordered ttl ops).st.tracks.any (·.mmsi = m)) :=
  life_run ordered ttl ops m

/-- rejected updates emit nothing -/
theorem C15_rejected_silent (s : TrkState) (m : Int) (attrs : List (String × Val)) (ts now : Int)
    (h : (update s m attrs ts now).2.2 = false) : (update s m attrs ts now).2.1 = [] :=
  (update_rejected s m attrs ts now h).2

/-- an accepted update fires CREATED exactly when the MMSI gains a track and UPDATED exactly when it
already had one, followed by the DELETED events of the expiry -/
theorem C15_update_event (s : TrkState) (m : Int) (attrs : List (String × Val)) (ts now : Int)
    (h : (update s m attrs ts now).2.2 = true) :
    ∃ dels, (update s m attrs ts now).2.1 =
      ((if (s.tracks.find? (·.mmsi = m)).isSome then Ev.updated else Ev.created), m) :: dels ∧
      ∀ e ∈ dels, e.1 = Ev.deleted :=
  ⟨(cleanup (Refine.insertState s m attrs ts) now).2,
   (Refine.update_accepted' s m attrs ts now h).2,
   Refine.cleanup_events_deleted _ now⟩

/-- `pop_track` fires DELETED exactly once iff the track existed -/
theorem C15_pop_event (s : TrkState) (m : Int) :
    (popTrack s m).2.1 = if s.tracks.any (·.mmsi = m) then [(Ev.deleted, m)] else [] :=
  Refine.popTrack_events s m

/-- **Every subscriber is told exactly what happened, once.** Whatever sequence of
`register_callback` / `remove_callback` calls produced the subscriptions, a callback receives, in
order, exactly the events of the kinds it is subscribed to — each once, also when it was registered
twice for the same event. -/
theorem C15_delivery (sops : List SubOp) (ordered : Bool) (ttl : Option Int) (ops : List TrkOp) (cb : Nat) :
    ((deliver (sops.foldl subStep []) (trkRun ordered ttl ops).events).filter (·.1 = cb)).map (·.2) =
      (trkRun ordered ttl ops).events.filter fun (e, _) => decide ((e, cb) ∈ sops.foldl subStep []) :=
  deliver_calls _ (subs_nodup sops [] List.nodup_nil) _ cb

/-- registering twice is registering once; removing a registration restores the subscriptions -/
theorem C15_subscribe_idempotent (s : Subs) (e : Ev) (cb : Nat) :
    attach (attach s e cb) e cb = attach s e cb ∧
    ((e, cb) ∉ s → detach (attach s e cb) e cb = s) := by
  constructor
  · have hm : (attach s e cb).contains (e, cb) = true :=
      List.contains_iff_mem.mpr ((mem_attach s e cb (e, cb)).mpr (Or.inr rfl))
    generalize hs : attach s e cb = s' at hm ⊢
    unfold attach
    rw [hm]
    rfl
  · intro hn
    have hc : s.contains (e, cb) = false := by
      cases h : s.contains (e, cb) with
      | false => rfl
      | true => exact absurd (List.contains_iff_mem.mp h) hn
    unfold attach detach
    simp only [hc, Bool.false_eq_true, if_false]
    rw [List.erase_append_right _ hn]
    simp

/-- a subscription to one event does not touch the subscriptions to the others -/
theorem C15_subscriptions_independent (s : Subs) (h : s.Nodup) (e e' : Ev) (cb cb' : Nat)
    (hne : (e', cb') ≠ (e, cb)) :
    ((e', cb') ∈ attach s e cb ↔ (e', cb') ∈ s) ∧ ((e', cb') ∈ detach s e cb ↔ (e', cb') ∈ s) := by
  constructor
  · rw [mem_attach]; exact ⟨fun h => h.elim id (fun h => absurd h hne), Or.inl⟩
  · rw [mem_detach s h]; exact ⟨fun h => h.1, fun h => ⟨h, hne⟩⟩

/-- non-vacuity: one callable for two events, registered twice for one of them -/
example :
    deliver ([SubOp.attach .created 1, .attach .created 1, .attach .deleted 1, .attach .updated 2].foldl subStep [])
      [(.created, 7), (.updated, 7), (.deleted, 7)] = [(1, .created, 7), (2, .updated, 7), (1, .deleted, 7)] := by decide

/-- non-vacuity: create, update, expire inside an update call, re-create -/
example :
    (trkRun false (some 10) [.update 7 [] (some 0), .update 7 [] (some 1), .tick 50, .update 7 [] (some 2),
       .update 7 [] (some 45)]).events
      = [(.created, 7), (.updated, 7), (.updated, 7), (.deleted, 7), (.created, 7)] := by decide

#print axioms C15_lifecycle
#print axioms C15_rejected_silent
#print axioms C15_update_event
#print axioms C15_pop_event
#print axioms C15_delivery
#print axioms C15_subscribe_idempotent
#print axioms C15_subscriptions_independent
end C15
