import PyaisVerif.Lemmas.TrackerRefine
/-!
# C15 — tracker events mirror the life cycle of each track
-/
namespace C15
open Model Spec

/-- **Life cycle.** For every history and every MMSI the delivered events form
(CREATED UPDATED* DELETED)* (CREATED UPDATED*)?, and the set of tracks equals the MMSIs created and
not yet deleted. -/
theorem C15_lifecycle (ordered : Bool) (ttl : Option Int) (ops : List TrkOp) (m : Int) :
    lifeRun m (trkRun ordered ttl ops).events =
      some ((trkRun ordered ttl ops).st.tracks.any (·.mmsi = m)) :=
  life_run ordered ttl ops m

/-- rejected updates emit nothing -/
theorem C15_rejected_silent (s : TrkState) (m : Int) (attrs : List (String × Val)) (ts now : Int)
    (h : (update s m attrs ts now).2.2 = false) : (update s m attrs ts now).2.1 = [] :=
  (update_rejected s m attrs ts now h).2

/-- an accepted update fires CREATED exactly when the MMSI gains a track and UPDATED exactly when it
already had one, followed by the DELETED events of the expiry -/
theorem C15_update_event (s : TrkState) (m : Int) (attrs : List (String × Val)) (ts now : Int)
    (h : (update s m attrs ts now).2.2 = true) :
    ∃ dels, (update s m attrs ts now).2.1 =
      ((if (s.tracks.find? (·.mmsi = m)).isSome then Ev.updated else Ev.created), m) :: dels ∧
      ∀ e ∈ dels, e.1 = Ev.deleted :=
  ⟨(cleanup (Refine.insertState s m attrs ts) now).2,
   (Refine.update_accepted' s m attrs ts now h).2,
   Refine.cleanup_events_deleted _ now⟩

/-- `pop_track` fires DELETED exactly once iff the track existed -/
theorem C15_pop_event (s : TrkState) (m : Int) :
    (popTrack s m).2.1 = if s.tracks.any (·.mmsi = m) then [(Ev.deleted, m)] else [] :=
  Refine.popTrack_events s m

/-- non-vacuity: create, update, expire inside an update call, re-create -/
example :
    (trkRun false (some 10) [.update 7 [] (some 0), .update 7 [] (some 1), .tick 50, .update 7 [] (some 2),
       .update 7 [] (some 45)]).events
      = [(.created, 7), (.updated, 7), (.updated, 7), (.deleted, 7), (.created, 7)] := by decide

#print axioms C15_lifecycle
#print axioms C15_rejected_silent
#print axioms C15_update_event
#print axioms C15_pop_event
end C15
