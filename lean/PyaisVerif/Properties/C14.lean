import PyaisVerif.Lemmas.Tracker
/-!
# C14 — n_latest_tracks returns the most recently updated tracks
-/
namespace C14
open Model Spec

/-- **C14.** In every reachable state, for every `n ≥ 0`, with and without the ordered-stream
optimisation: `min(n, #tracks)` distinct tracks of the tracker, no track left out has a later
`last_updated` than a track returned, and in unordered mode the result is sorted newest first. -/
theorem C14 (ordered : Bool) (ttl : Option Int) (ops : List TrkOp) (n : Int) (hn : 0 ≤ n) :
    let s := (trkRun ordered ttl ops).st
    let r := nLatest s n
    r.length = min n.toNat s.tracks.length ∧
    r.Pairwise (fun a b => a.mmsi ≠ b.mmsi) ∧
    (∀ t ∈ r, t ∈ s.tracks) ∧
    (∀ a ∈ s.tracks, a ∉ r → ∀ b ∈ r, a.lu ≤ b.lu) ∧
    (s.ordered = false → r.Pairwise (fun a b => a.lu ≥ b.lu)) :=
  nLatest_spec _ (inv_run ordered ttl ops) n hn

/-- non-vacuity: ordered mode returns the newest, not the oldest -/
example :
    ((nLatest (trkRun true none [.update 1 [] (some 1), .update 2 [] (some 2), .update 3 [] (some 3)]).st 2).map (·.mmsi))
      = [2, 3] := by decide

#print axioms C14
end C14
