import PyaisVerif.Model.Filter
import PyaisVerif.Generated.Funcs
/-!
# C19 — a filter chain passes exactly the messages that satisfy every filter

`Model.chain` follows `FilterChain.filter` / `Filter.filter` (each filter's `filter_data`
generator feeds the next); `Filt.passes` follows the five `filter_data` bodies.  The great-circle
distance is an uninterpreted parameter `dist`: everything below holds for every `dist`.
-/
namespace C19
open Model

variable (dist : Int × Int → Int × Int → Int)

theorem foldl_filter (fs : List Filt) (ms : List Msg) :
    fs.foldl (fun data f => data.filter fun m => f.passes dist m) ms
      = ms.filter fun m => fs.all fun f => f.passes dist m := by
  induction fs generalizing ms with
  | nil =>
    simp only [List.foldl_nil, List.all_nil]
    exact (List.filter_eq_self.2 (fun _ _ => rfl)).symm
  | cons f fs ih =>
    simp only [List.foldl_cons, ih, List.filter_filter, List.all_cons]
    congr 1
    funext m
    exact Bool.and_comm _ _

/-- **Exactness.** The output is the order-preserving subsequence consisting of exactly the
messages that satisfy all filters. -/
theorem C19_exact (fs : List Filt) (ms : List Msg) :
    chain dist fs ms = ms.filter fun m => fs.all fun f => f.passes dist m :=
  foldl_filter dist fs ms

/-- the output is a subsequence of the input (order preserved, nothing invented or duplicated) -/
theorem C19_sublist (fs : List Filt) (ms : List Msg) : (chain dist fs ms).Sublist ms := by
  rw [C19_exact]; exact List.filter_sublist

/-- **Order independence.** Any permutation of the filters gives the same output. -/
theorem C19_order (fs fs' : List Filt) (h : fs.Perm fs') (ms : List Msg) :
    chain dist fs ms = chain dist fs' ms := by
  rw [C19_exact, C19_exact]
  congr 1
  funext m
  exact h.all_eq

/-- a message passes the chain iff it passes every filter -/
theorem C19_mem (fs : List Filt) (ms : List Msg) (m : Msg) :
    m ∈ chain dist fs ms ↔ m ∈ ms ∧ ∀ f ∈ fs, f.passes dist m = true := by
  rw [C19_exact]; simp [List.mem_filter, List.all_eq_true]

/-- **Geographic filters**: a message that reports no position passes; otherwise the distance filter
keeps it iff the distance is *strictly* below the threshold and the grid filter iff it lies in the
*closed* rectangle. -/
theorem C19_distance (la lo km : Int) (m : Msg) :
    (Filt.dist la lo km).passes dist m =
      (match m.pos with
       | none => true
       | some p => decide (dist (la, lo) p < km)) := by
  simp only [Filt.passes]
  cases m.pos with
  | none => rfl
  | some p =>
    show (!decide (dist (la, lo) p ≥ km)) = decide (dist (la, lo) p < km)
    by_cases h : dist (la, lo) p < km <;> simp [h] <;> omega

theorem C19_grid (la0 lo0 la1 lo1 : Int) (m : Msg) :
    (Filt.grid la0 lo0 la1 lo1).passes dist m =
      (match m.pos with
       | none => true
       | some p => decide (la0 ≤ p.1 ∧ p.1 ≤ la1 ∧ lo0 ≤ p.2 ∧ p.2 ≤ lo1)) := by
  simp only [Filt.passes]
  cases m.pos with
  | none => rfl
  | some p => obtain ⟨a, b⟩ := p; simp [Bool.and_assoc]

/-- **Tie 1 for the grid test.**  `Generated.isInGridFn` is the body of `filter.is_in_grid` as it is written
in /repo now (rendered by `harness/translate_fn.py` on every run): it is the closed box, bounds included. -/
theorem C19_src_grid (la lo la0 lo0 la1 lo1 : Int) :
    Generated.isInGridFn la lo la0 lo0 la1 lo1 = decide (la0 ≤ la ∧ la ≤ la1 ∧ lo0 ≤ lo ∧ lo ≤ lo1) := by
  simp [Generated.isInGridFn, Bool.and_assoc]

/-- the grid filter of the model is the source's `is_in_grid` applied to the message's position -/
theorem C19_source_grid (la0 lo0 la1 lo1 : Int) (m : Msg) :
    (Filt.grid la0 lo0 la1 lo1).passes dist m =
      (match m.pos with
       | none => true
       | some p => Generated.isInGridFn p.1 p.2 la0 lo0 la1 lo1) := by
  rw [C19_grid]
  cases m.pos with
  | none => rfl
  | some p => simp only [C19_src_grid]

/-- the other filters -/
theorem C19_none (attrs : List String) (m : Msg) :
    (Filt.noneF attrs).passes dist m = attrs.all fun a =>
      (match m.fields.lookup a with
       | some .none => false
       | some _ => true
       | none => false) := rfl

theorem C19_type (ts : List Int) (m : Msg) :
    (Filt.mtype ts).passes dist m =
      (match m.fields.lookup "msg_type" with
       | some (.int t) => ts.contains t
       | _ => false) := rfl

/-- **Totality**: `passes` and `chain` are total functions — no decoded message (including
truncated position reports whose `lat`/`lon` is `None`) makes a filter fail. -/
theorem C19_total (fs : List Filt) (ms : List Msg) : ∃ out, chain dist fs ms = out := ⟨_, rfl⟩

/-- non-vacuity: a truncated position report (lat = None) passes both geographic filters -/
example : (Filt.grid 0 0 1 1).passes (fun _ _ => 0) { cls := "MessageType1", fields := [("lat", .none), ("lon", .flt 5)] } = true ∧
    (Filt.dist 0 0 0).passes (fun _ _ => 0) { cls := "MessageType1", fields := [("lat", .flt 0), ("lon", .flt 0)] } = false := by
  decide

#print axioms C19_exact
#print axioms C19_sublist
#print axioms C19_order
#print axioms C19_mem
#print axioms C19_distance
#print axioms C19_grid
#print axioms C19_src_grid
#print axioms C19_source_grid
#print axioms C19_none
#print axioms C19_type
#print axioms C19_total
end C19
