import PyaisVerif.Model.CommState
import PyaisVerif.Generated.Consts
import PyaisVerif.Generated.Funcs
/-!
# C20 — communication state is decoded bit-exactly and classified SOTDMA or ITDMA

Specification written from ITU-R M.1371 §3.3.7.2.2 / §3.3.7.3.2: bit 18 is the most significant bit
of the 19-bit communication state; `bitsOf r lo w` is the `w`-bit field whose least significant bit
is bit `lo`.  The model (`Model.sotdma`, `Model.itdma`, …) follows `pyais/util.py`; its masks and
type sets are the generated constants of the current source (`Generated.csConsts`).
-/
namespace C20
open Model

abbrev K := Generated.csConsts

/-- the `w`-bit field of `r` whose least significant bit is bit `lo` -/
def bitsOf (r lo w : Nat) : Nat := r / 2 ^ lo % 2 ^ w

/-- ITU SOTDMA communication state -/
def specSotdma (r : Nat) : CommState :=
  let sync := bitsOf r 17 2
  let timeout := bitsOf r 14 3
  let sub := bitsOf r 0 14
  let base : CommState := { sync_state := some sync, slot_timeout := some timeout }
  match timeout with
  | 0 => { base with slot_offset := some sub }
  | 1 => { base with utc_hour := some (bitsOf sub 9 5), utc_minute := some (bitsOf sub 2 7) }
  | 2 | 4 | 6 => { base with slot_number := some sub }
  | _ => { base with received_stations := some sub }

/-- ITU ITDMA communication state -/
def specItdma (r : Nat) : CommState :=
  { sync_state := some (bitsOf r 17 2), slot_increment := some (bitsOf r 4 13),
    num_slots := some (bitsOf r 1 3), keep_flag := some (bitsOf r 0 1) }

theorem consts_expected :
    K = { syncMask := 3, timeoutMask := 7, msgMask := 0x3fff, slotIncMask := 0x1fff,
          maxCommState := 0x7ffff, sotdmaTypes := [1, 2, 4, 11], sotdmaItdmaTypes := [9, 18, 26] } := by
  decide

private theorem and3 (x : Nat) : x &&& 3 = x % 2 ^ 2 := Nat.and_two_pow_sub_one_eq_mod x 2
private theorem and7 (x : Nat) : x &&& 7 = x % 2 ^ 3 := Nat.and_two_pow_sub_one_eq_mod x 3
private theorem and1 (x : Nat) : x &&& 1 = x % 2 ^ 1 := Nat.and_two_pow_sub_one_eq_mod x 1
private theorem and1f (x : Nat) : x &&& 0x1f = x % 2 ^ 5 := Nat.and_two_pow_sub_one_eq_mod x 5
private theorem and3f (x : Nat) : x &&& 0x3f = x % 2 ^ 6 := Nat.and_two_pow_sub_one_eq_mod x 6
private theorem and3fff (x : Nat) : x &&& 0x3fff = x % 2 ^ 14 := Nat.and_two_pow_sub_one_eq_mod x 14
private theorem and1fff (x : Nat) : x &&& 0x1fff = x % 2 ^ 13 := Nat.and_two_pow_sub_one_eq_mod x 13
private theorem and7ffff (x : Nat) : x &&& 0x7ffff = x % 2 ^ 19 := Nat.and_two_pow_sub_one_eq_mod x 19

/-- ITDMA: every reported field is the ITU bit range, for every radio value (no bound needed). -/
theorem C20_itdma (r : Nat) : itdma K r = specItdma r := by
  rw [consts_expected]
  simp only [itdma, specItdma, bitsOf, and3, and7, and1, and1fff, Nat.shiftRight_eq_div_pow,
    Nat.pow_zero, Nat.div_one]

/-- SOTDMA: sync state, slot time-out and the sub-message selected by the time-out are the ITU bit
ranges; every key that does not apply is `none`.  The UTC minute is the ITU 7-bit field whenever it
is a valid minute (≤ 59), as the property states. -/
theorem C20_sotdma (r : Nat) (hmin : bitsOf r 14 3 = 1 → bitsOf (bitsOf r 0 14) 2 7 ≤ 59) :
    sotdma K r = some (specSotdma r) := by
  rw [consts_expected]
  simp only [bitsOf, Nat.pow_zero, Nat.div_one] at hmin
  simp only [sotdma, specSotdma, bitsOf, and3, and7, and3fff, and1f, and3f, Nat.shiftRight_eq_div_pow,
    Nat.pow_zero, Nat.div_one]
  have ht : r / 2 ^ 14 % 2 ^ 3 < 8 := Nat.mod_lt _ (by decide)
  generalize hT : r / 2 ^ 14 % 2 ^ 3 = t at *
  have : t = 0 ∨ t = 1 ∨ t = 2 ∨ t = 3 ∨ t = 4 ∨ t = 5 ∨ t = 6 ∨ t = 7 := by omega
  rcases this with h | h | h | h | h | h | h | h <;> subst h <;> simp
  -- time-out 1: the code masks the minute with 6 bits, the ITU field has 7
  have := hmin rfl
  omega

/-- Except for the UTC sub-message the raw value is reconstructed from the reported fields. -/
theorem C20_reconstruct_sotdma (r : Nat) (h : r < 2 ^ 19) :
    bitsOf r 17 2 * 2 ^ 17 + bitsOf r 14 3 * 2 ^ 14 + bitsOf r 0 14 = r := by
  simp only [bitsOf]; omega

theorem C20_reconstruct_itdma (r : Nat) (h : r < 2 ^ 19) :
    bitsOf r 17 2 * 2 ^ 17 + bitsOf r 4 13 * 2 ^ 4 + bitsOf r 1 3 * 2 + bitsOf r 0 1 = r := by
  simp only [bitsOf]; omega

/-- the raw communication state is the low 19 bits of the radio field -/
theorem C20_raw (radio : Nat) : commStateRaw K radio = radio % 2 ^ 19 := by
  rw [consts_expected]; simp only [commStateRaw, and7ffff]

/-- classification by type (1, 2, 4, 11 → SOTDMA; 3 → ITDMA) or by the selector bit 19
(types 9, 18, 26): exactly one of the two, never both. -/
theorem C20_classify (t radio : Nat) (ht : t ∈ Generated.radioTypes) (hr : radio < 2 ^ 20) :
    (isSotdma K t radio = !isItdma K t radio) ∧
    (t ∈ [1, 2, 4, 11] → isSotdma K t radio = true) ∧
    (t = 3 → isItdma K t radio = true) ∧
    (t ∈ [9, 18, 26] → (isItdma K t radio = true ↔ bitsOf radio 19 1 = 1)) := by
  rw [consts_expected]
  have : t = 1 ∨ t = 2 ∨ t = 3 ∨ t = 4 ∨ t = 9 ∨ t = 11 ∨ t = 18 ∨ t = 26 := by
    simpa [Generated.radioTypes] using ht
  rcases this with h | h | h | h | h | h | h | h <;> subst h <;>
    simp [isSotdma, isItdma, bitsOf] <;>
    (constructor
     · by_cases h : radio ≤ 524287 <;> simp [h] <;> omega
     · omega)

/-- the full report of a message: SOTDMA fields for SOTDMA messages, ITDMA fields otherwise, on the
low 19 bits -/
theorem C20_report (t radio : Nat) :
    getCommState K t radio =
      if isSotdma K t radio then sotdma K (radio % 2 ^ 19) else some (itdma K (radio % 2 ^ 19)) := by
  simp only [getCommState, C20_raw]

/-! ## The functions of the current source (tie 1)

`Generated/Funcs.lean` is a statement-by-statement rendering of `get_sotdma_comm_state`,
`get_itdma_comm_state`, `is_sotdma`, `is_itdma` and `communication_state_raw` as they are written in
/repo now (regenerated on every run by `harness/translate_fn.py`; one `let` per assignment, the
`SyncState(…)` conversion as a membership test in the enum's present members, `raise` = `none`).
The theorems below say that this text computes the hand-written model — and therefore, with the
theorems above, the ITU bit ranges — for **every** radio value. -/

private theorem mem4 (x : Nat) : ([0, 1, 2, 3] : List Nat).contains (x % 2 ^ 2) = true := by
  have : x % 2 ^ 2 < 4 := Nat.mod_lt _ (by decide)
  generalize x % 2 ^ 2 = s at *
  have : s = 0 ∨ s = 1 ∨ s = 2 ∨ s = 3 := by omega
  rcases this with h | h | h | h <;> subst h <;> decide

theorem C20_src_sotdma (r : Nat) : Generated.sotdmaFn r = sotdma K r := by
  rw [consts_expected]
  simp only [Generated.sotdmaFn, sotdma, and3, and7, and3fff, and1f, and3f, mem4, if_true]
  have ht : (r >>> 14) % 2 ^ 3 < 8 := Nat.mod_lt _ (by decide)
  generalize (r >>> 14) % 2 ^ 3 = t at *
  have : t = 0 ∨ t = 1 ∨ t = 2 ∨ t = 3 ∨ t = 4 ∨ t = 5 ∨ t = 6 ∨ t = 7 := by omega
  rcases this with h | h | h | h | h | h | h | h <;> subst h <;> simp

theorem C20_src_itdma (r : Nat) : Generated.itdmaFn r = some (itdma K r) := by
  rw [consts_expected]; rfl

theorem C20_src_raw (r : Nat) : Generated.commStateRawFn r = commStateRaw K r := by
  rw [consts_expected]; rfl

theorem C20_src_is_sotdma (t r : Nat) : Generated.isSotdmaFn t r = isSotdma K t r := by
  rw [consts_expected]
  simp only [Generated.isSotdmaFn, isSotdma]
  all_goals (split <;> split <;> simp_all)

theorem C20_src_is_itdma (t r : Nat) : Generated.isItdmaFn t r = isItdma K t r := by
  rw [consts_expected]
  simp only [Generated.isItdmaFn, isItdma]
  all_goals (split <;> split <;> simp_all)

/-- the source text itself meets the ITU specification: SOTDMA -/
theorem C20_source_sotdma (r : Nat) (hmin : bitsOf r 14 3 = 1 → bitsOf (bitsOf r 0 14) 2 7 ≤ 59) :
    Generated.sotdmaFn r = some (specSotdma r) := by
  rw [C20_src_sotdma, C20_sotdma r hmin]

/-- the source text itself meets the ITU specification: ITDMA -/
theorem C20_source_itdma (r : Nat) : Generated.itdmaFn r = some (specItdma r) := by
  rw [C20_src_itdma, C20_itdma]

/-- the source text classifies as the property says -/
theorem C20_source_classify (t radio : Nat) (ht : t ∈ Generated.radioTypes) (hr : radio < 2 ^ 20) :
    (Generated.isSotdmaFn t radio = !Generated.isItdmaFn t radio) ∧
    (t ∈ [1, 2, 4, 11] → Generated.isSotdmaFn t radio = true) ∧
    (t = 3 → Generated.isItdmaFn t radio = true) ∧
    (t ∈ [9, 18, 26] → (Generated.isItdmaFn t radio = true ↔ bitsOf radio 19 1 = 1)) := by
  simp only [C20_src_is_sotdma, C20_src_is_itdma]
  exact C20_classify t radio ht hr

/-- the source text reports the low 19 bits -/
theorem C20_source_raw (radio : Nat) : Generated.commStateRawFn radio = radio % 2 ^ 19 := by
  rw [C20_src_raw, C20_raw]


/-- non-vacuity: a UTC sub-message with a valid minute, and a classified type-18 message -/
example : bitsOf 0x45A3C 14 3 = 1 ∧ bitsOf (bitsOf 0x45A3C 0 14) 2 7 ≤ 59 ∧
    sotdma K 0x45A3C = some (specSotdma 0x45A3C) := by decide
example : isItdma K 18 0x80001 = true ∧ isSotdma K 18 0x80001 = false := by decide

#print axioms consts_expected
#print axioms C20_itdma
#print axioms C20_sotdma
#print axioms C20_reconstruct_sotdma
#print axioms C20_reconstruct_itdma
#print axioms C20_raw
#print axioms C20_classify
#print axioms C20_report
#print axioms C20_src_sotdma
#print axioms C20_src_itdma
#print axioms C20_src_raw
#print axioms C20_src_is_sotdma
#print axioms C20_src_is_itdma
#print axioms C20_source_sotdma
#print axioms C20_source_itdma
#print axioms C20_source_classify
#print axioms C20_source_raw
end C20
