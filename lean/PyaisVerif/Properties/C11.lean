import PyaisVerif.Lemmas.Truncation
import PyaisVerif.Generated.Tables
/-!
# C11 — truncated payloads decode their covered fields and set the rest to None

All statements are about the tables read from the current source (`Generated.classes`) and hold for
**every** payload and **every** cut position — inside fields and on field boundaries.
-/
namespace C11
open Model Py

abbrev env := Generated.env

/-- every converter of every table in the source is total on the raw domain of its field
(decidable; kernel evaluation over the generated tables) -/
theorem converters_total :
    (Generated.classes.all fun (_, fs) => fs.all (convTotal env)) = true := by decide +kernel

/-- all declared widths are positive -/
theorem widths_positive :
    (Generated.classes.all fun (_, fs) => fs.all fun f => decide (0 < f.width)) = true := by decide +kernel

theorem lookup_mem {α β : Type} [BEq α] [LawfulBEq α] (l : List (α × β)) (a : α) (b : β)
    (h : l.lookup a = some b) : (a, b) ∈ l := by
  induction l with
  | nil => simp at h
  | cons p l ih =>
    obtain ⟨k, v⟩ := p
    simp only [List.lookup_cons] at h
    split at h
    · rename_i heq
      cases h
      have := eq_of_beq heq
      subst this
      exact List.mem_cons_self
    · exact List.mem_cons_of_mem _ (ih h)

theorem offsetsFrom_mem (o : Nat) (fs : List Field) (i : Nat) (f : Field) (o' : Nat)
    (h : (offsetsFrom o fs)[i]? = some (f, o')) : f ∈ fs := by
  induction fs generalizing o i with
  | nil => simp [offsetsFrom] at h
  | cons g fs ih =>
    cases i with
    | zero =>
      simp only [offsetsFrom, List.getElem?_cons_zero, Option.some.injEq, Prod.mk.injEq] at h
      rw [← h.1]; exact List.mem_cons_self
    | succ i =>
      simp only [offsetsFrom, List.getElem?_cons_succ] at h
      exact List.mem_cons_of_mem _ (ih _ _ h)

/-- **Decoding never fails**: for every concrete class, every bit string of every length. -/
theorem C11_total (cls : String) (fs : List Field) (h : Generated.classes.lookup cls = some fs)
    (bits : Bits) : ∃ kv, seqDecode env bits 0 fs = .ok kv ∧ kv.map (·.1) = fs.map (·.name) := by
  have hc := List.all_eq_true.mp converters_total _ (lookup_mem _ _ _ h)
  simp only at hc
  obtain ⟨kv, hkv⟩ := seqDecode_total env fs hc bits 0
  exact ⟨kv, hkv, seqDecode_names env fs bits 0 kv hkv⟩

/-- **Covered fields keep their value**: a field that lies completely within the first `L` bits has
in the truncated message exactly the value it has in the untruncated one. -/
theorem C11_covered (cls : String) (fs : List Field) (h : Generated.classes.lookup cls = some fs)
    (bits : Bits) (L : Nat) (hL : L ≤ bits.length) (kvFull kvPre : List (String × Val))
    (hfull : seqDecode env bits 0 fs = .ok kvFull)
    (hpre : seqDecode env (bits.take L) 0 fs = .ok kvPre)
    (i : Nat) (f : Field) (o : Nat) (hi : (offsetsFrom 0 fs)[i]? = some (f, o))
    (hcov : o + f.width ≤ L) :
    kvPre[i]? = kvFull[i]? := by
  have hc := List.all_eq_true.mp widths_positive _ (lookup_mem _ _ _ h)
  simp only at hc
  have hw := List.all_eq_true.mp hc f (offsetsFrom_mem _ _ _ _ _ hi)
  simp only [decide_eq_true_eq] at hw
  exact seqDecode_covered env fs bits L hL kvFull kvPre hfull hpre i f o hi hw hcov

/-- **Fields beyond the end are `None`.** -/
theorem C11_absent (cls : String) (fs : List Field) (_h : Generated.classes.lookup cls = some fs)
    (bits : Bits) (L : Nat) (kvPre : List (String × Val))
    (hpre : seqDecode env (bits.take L) 0 fs = .ok kvPre)
    (i : Nat) (f : Field) (o : Nat) (hi : (offsetsFrom 0 fs)[i]? = some (f, o))
    (habs : L ≤ o) :
    kvPre[i]? = some (f.name, .none) := by
  refine seqDecode_absent env fs (bits.take L) kvPre hpre i f o hi ?_
  simp only [List.length_take]
  omega

/-- the dispatch trees of the source read no bit beyond 140 (22) resp. 40 (24, 25, 26) -/
theorem trees_bits :
    (Generated.decodeTrees.all fun (n, tr) =>
      decide (tr.maxBit ≤ (if n = "MessageType22" then 140 else 40))) = true := by decide +kernel

/-- **Variant**: a prefix that contains the discriminator bits selects the same variant. -/
theorem C11_variant (c : String) (bits : Bits) (L : Nat)
    (hL : (if c = "MessageType22" then 140 else 40) ≤ L) :
    resolveDecode env c (bits.take L) = resolveDecode env c bits := by
  unfold resolveDecode
  show (match Generated.decodeTrees.lookup c with
      | some tr => tr.run (fun t => .ok (t.evalBits (bits.take L)))
      | Option.none => .ok c) =
    (match Generated.decodeTrees.lookup c with
      | some tr => tr.run (fun t => .ok (t.evalBits bits))
      | Option.none => .ok c)
  cases hl : Generated.decodeTrees.lookup c with
  | none => rfl
  | some tr =>
    have hb := List.all_eq_true.mp trees_bits _ (lookup_mem _ _ _ hl)
    simp only [decide_eq_true_eq] at hb
    exact treeRun_take tr bits L (Nat.le_trans hb hL)

/-- non-vacuity: type 1 has a field (`radio`, index 15) at offset 149, cut off by a 140-bit prefix -/
example : (offsetsFrom 0 Generated.T_MessageType1)[15]?.map (fun p => (p.1.name, p.2)) = some ("radio", 149) := by
  decide +kernel

#print axioms converters_total
#print axioms widths_positive
#print axioms C11_total
#print axioms C11_covered
#print axioms C11_absent
#print axioms trees_bits
#print axioms C11_variant
end C11
