import PyaisVerif.Lemmas.Truncation
import PyaisVerif.Generated.Tables
/-!
# C11 — truncated payloads decode their covered fields and set the rest to None

All statements are about the tables read from the current source (`Generated.classes`) and hold for
**every** payload and **every** cut position — inside fields and on field boundaries.
-/
namespace C11
open Model Py

abbrev env := Generated.env

/-- every converter of every table in the source is total on the raw domain of its field
(decidable; kernel evaluation over the generated tables) -/
theorem converters_total :
    (Generated.classes.all fun (_, fs) => fs.all (convTotal env)) = true := by decide +kernel

/-- all declared widths are positive -/
theorem widths_positive :
    (Generated.classes.all fun (_, fs) => fs.all fun f => decide (0 < f.width)) = true := by decide +kernel

/-- **Decoding never fails**: for every concrete class, every bit string of every length. -/
theorem C11_total (cls : String) (fs : List Field) (h : Generated.classes.lookup cls = some fs)
    (bits : Bits) : ∃ kv, seqDecode env bits 0 fs = .ok kv ∧ kv.map (·.1) = fs.map (·.name) := by
  sorry

/-- **Covered fields keep their value**: a field that lies completely within the first `L` bits has
in the truncated message exactly the value it has in the untruncated one. -/
theorem C11_covered (cls : String) (fs : List Field) (h : Generated.classes.lookup cls = some fs)
    (bits : Bits) (L : Nat) (hL : L ≤ bits.length) (kvFull kvPre : List (String × Val))
    (hfull : seqDecode env bits 0 fs = .ok kvFull)
    (hpre : seqDecode env (bits.take L) 0 fs = .ok kvPre)
    (i : Nat) (f : Field) (o : Nat) (hi : (offsetsFrom 0 fs)[i]? = some (f, o))
    (hcov : o + f.width ≤ L) :
    kvPre[i]? = kvFull[i]? := by
  sorry

/-- **Fields beyond the end are `None`.** -/
theorem C11_absent (cls : String) (fs : List Field) (_h : Generated.classes.lookup cls = some fs)
    (bits : Bits) (L : Nat) (kvPre : List (String × Val))
    (hpre : seqDecode env (bits.take L) 0 fs = .ok kvPre)
    (i : Nat) (f : Field) (o : Nat) (hi : (offsetsFrom 0 fs)[i]? = some (f, o))
    (habs : L ≤ o) :
    kvPre[i]? = some (f.name, .none) := by
  sorry

/-- the dispatch trees of the source read no bit beyond 140 (22) resp. 40 (24, 25, 26) -/
theorem trees_bits :
    (Generated.decodeTrees.all fun (n, tr) =>
      decide (tr.maxBit ≤ (if n = "MessageType22" then 140 else 40))) = true := by decide +kernel

/-- **Variant**: a prefix that contains the discriminator bits selects the same variant. -/
theorem C11_variant (c : String) (bits : Bits) (L : Nat)
    (hL : (if c = "MessageType22" then 140 else 40) ≤ L) :
    resolveDecode env c (bits.take L) = resolveDecode env c bits := by
  sorry

/-- non-vacuity: type 1 has a field (`radio`, index 15) at offset 149, cut off by a 140-bit prefix -/
example : (offsetsFrom 0 Generated.T_MessageType1)[15]?.map (fun p => (p.1.name, p.2)) = some ("radio", 149) := by
  decide +kernel

#print axioms converters_total
#print axioms widths_positive
#print axioms C11_total
#print axioms C11_covered
#print axioms C11_absent
#print axioms trees_bits
#print axioms C11_variant
end C11
