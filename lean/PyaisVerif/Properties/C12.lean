import PyaisVerif.Lemmas.TrackerRefine
import PyaisVerif.Generated.Consts
/-!
# C12 — a track holds the most recent known value of every attribute of its vessel

`Model.update/popTrack/cleanup` follow `pyais/tracker.py` (dict in insertion order, cached
`oldest_timestamp`, early-exit expiry scan); `Spec.AState` is the abstract tracker: a finite map with
override-merge, exact expiry and the acceptance rule of the property text.  Histories are unbounded.
-/
namespace C12
open Model Spec

/-- the dataclass fields read from the source contain the key and the timestamp -/
theorem track_fields_ok : "mmsi" ∈ Generated.TRACK_FIELDS ∧ "last_updated" ∈ Generated.TRACK_FIELDS := by
  decide

/-- **Refinement.** After any finite history of update / pop_track / cleanup / clock advances / TTL
changes, in ordered and unordered mode, the tracker holds exactly one track per MMSI the abstract
tracker holds, with the same attributes and the same `last_updated`. -/
theorem C12_refines (ordered : Bool) (ttl : Option Int) (ops : List TrkOp) :
    Abs (trkRun ordered ttl ops) (AState.run ordered ttl ops) :=
  refine_run ordered ttl ops

/-- exactly one track per MMSI -/
theorem C12_one_track_per_mmsi (ordered : Bool) (ttl : Option Int) (ops : List TrkOp) :
    (trkRun ordered ttl ops).st.tracks.Pairwise (fun a b => a.mmsi ≠ b.mmsi) :=
  (inv_run ordered ttl ops).keys

/-- acceptance follows the rule of the property: not older than the vessel's own track and, in
ordered mode, not older than any track -/
theorem C12_verdicts (ordered : Bool) (ttl : Option Int) (ops : List TrkOp) :
    (trkRun ordered ttl ops).verdicts = specVerdicts ordered ttl ops :=
  verdicts_run ordered ttl ops

/-- **A rejected update leaves all state unchanged** (and fires no event). -/
theorem C12_rejected_is_noop (s : TrkState) (m : Int) (attrs : List (String × Val)) (ts now : Int)
    (h : (update s m attrs ts now).2.2 = false) :
    (update s m attrs ts now).1 = s ∧ (update s m attrs ts now).2.1 = [] :=
  update_rejected s m attrs ts now h

/-- **Most recent known value**: after a merge an attribute has the value of the new message if the
new message carries one, otherwise the value it had. -/
theorem C12_latest_value (old new : List (String × Val)) (a : String) :
    (mergeAttrs old new).lookup a =
      (match old.lookup a with
       | none => none
       | some v => match new.lookup a with
         | some .none => some v
         | some w => some w
         | none => some v) :=
  mergeAttrs_lookup old new a

/-- **`get_track`** after any history: the track of the vessel — with the attributes and the
`last_updated` the abstract tracker holds for it — or `None` when the vessel has none. -/
theorem C12_get_track (ordered : Bool) (ttl : Option Int) (ops : List TrkOp) (m : Int) :
    ((getTrack (trkRun ordered ttl ops).st m).map fun t => ({ attrs := t.attrs, lu := t.lu } : ATrack)) =
      (AState.run ordered ttl ops).get m ∧
    (∀ t, getTrack (trkRun ordered ttl ops).st m = some t → t.mmsi = m ∧ t ∈ (trkRun ordered ttl ops).st.tracks) := by
  refine ⟨((C12_refines ordered ttl ops).get m).symm, ?_⟩
  intro t ht
  unfold getTrack at ht
  exact ⟨by simpa using List.find?_some ht, List.mem_of_find?_eq_some ht⟩

/-- non-vacuity: two vessels, an out-of-order update that is rejected in ordered mode -/
example :
    (trkRun true none [.update 1 [("speed", .flt 5)] (some 10), .update 2 [("speed", .none)] (some 5),
       .update 1 [("speed", .none)] (some 12)]).verdicts = [true, false, true] ∧
    ((trkRun true none [.update 1 [("speed", .flt 5)] (some 10), .update 2 [("speed", .none)] (some 5),
       .update 1 [("speed", .none)] (some 12)]).st.tracks.map fun t => (t.mmsi, t.attrs, t.lu))
      = [(1, [("speed", .flt 5)], 12)] := by decide

#print axioms track_fields_ok
#print axioms C12_refines
#print axioms C12_one_track_per_mmsi
#print axioms C12_verdicts
#print axioms C12_rejected_is_noop
#print axioms C12_latest_value
#print axioms C12_get_track
end C12
