import PyaisVerif.Lemmas.Tracker
/-!
# C13 — tracks expire exactly when their age reaches the TTL
-/
namespace C13
open Model Spec

/-- **Exactness of `cleanup()`**, in every reachable state, both modes, any TTL: afterwards no
remaining track has `t − last_updated ≥ TTL`, and no track with `t − last_updated < TTL` was
removed. -/
theorem C13_cleanup (ordered : Bool) (ttl : Option Int) (ops : List TrkOp) (now : Int) :
    let s := (trkRun ordered ttl ops).st
    (cleanup s now).1.tracks = s.tracks.filter (fun t => !(staleAt s.ttl now t.lu)) :=
  (cleanup_exact _ (inv_run ordered ttl ops) now).1

/-- the same for the expiry that runs at the end of every accepted `update()`: the tracks that
remain are exactly the fresh ones among the tracks after the insert/merge -/
theorem C13_update (ordered : Bool) (ttl : Option Int) (ops : List TrkOp)
    (m : Int) (attrs : List (String × Val)) (ts now : Int)
    (hacc : (update (trkRun ordered ttl ops).st m attrs ts now).2.2 = true) :
    let s := (trkRun ordered ttl ops).st
    let merged : Track := match s.tracks.find? (·.mmsi = m) with
      | some old => { mmsi := m, attrs := mergeAttrs old.attrs attrs, lu := ts }
      | none => { mmsi := m, attrs := attrs, lu := ts }
    (update s m attrs ts now).1.tracks =
      (s.tracks.filter (·.mmsi ≠ m) ++ [merged]).filter (fun t => !(staleAt s.ttl now t.lu)) := by
  intro s merged
  have hinv : TrkInv s := inv_run ordered ttl ops
  rw [(update_accepted s m attrs ts now hacc).1]
  exact (cleanup_exact _ (inv_insert_accepted s hinv m attrs ts now hacc) now).1

/-- with TTL `None` nothing ever expires -/
theorem C13_none (s : TrkState) (h : s.ttl = none) (now : Int) : cleanup s now = (s, []) := by
  simp [cleanup, h]

/-- DELETED fires exactly for the expired tracks, once each -/
theorem C13_events (ordered : Bool) (ttl : Option Int) (ops : List TrkOp) (now : Int) :
    let s := (trkRun ordered ttl ops).st
    ((cleanup s now).2).Perm ((s.tracks.filter (fun t => staleAt s.ttl now t.lu)).map fun t => (Ev.deleted, t.mmsi)) :=
  (cleanup_exact _ (inv_run ordered ttl ops) now).2.1

/-- non-vacuity: unordered mode, a stale track behind a fresh one and an exact tie `t − lu = ttl` -/
example :
    ((trkRun false (some 10) [.update 1 [] (some 0), .update 2 [] (some 5), .update 3 [] (some 2),
        .tick 12, .cleanup]).st.tracks.map (·.mmsi)) = [2] := by decide

#print axioms C13_cleanup
#print axioms C13_update
#print axioms C13_none
#print axioms C13_events
end C13
