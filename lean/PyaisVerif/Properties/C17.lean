import PyaisVerif.Lemmas.Tbq
/-!
# C17 — tag block groups are delivered complete, once, and unmixed

`Model.tbqStep` follows `TagBlockQueue.put_sentence` after `tb.init()`; `tbqRun` runs it over any
sequence of sentences with their (optional) group triple and records the lists put on the queue at
every input position.  Any number of groups, any sizes, any interleaving.
-/
namespace C17
open Model

variable {α : Type}

/-- **Sentences without a group, or in a group of one, pass immediately as singleton lists.** -/
theorem C17_singletons (xs : List (α × Option TBGroup)) (i : Nat) (x : α) (g : Option TBGroup)
    (hi : xs[i]? = some (x, g))
    (h : g = none ∨ ∃ g', g = some g' ∧ g'.tot = 1) :
    (tbqRun TbqState.empty xs)[i]? = some [[x]] := by
  apply tbqRun_single TbqState.empty xs i x g hi
  intro k
  rcases h with rfl | ⟨g', rfl, ht⟩
  · rfl
  · simp [inGroup, ht]

/-- **Groups do not affect each other**: what is delivered at the positions of group `k`'s
sentences depends only on the subsequence of group `k`'s sentences. -/
theorem C17_independent (xs : List (α × Option TBGroup)) (k : Int) :
    ((xs.zip (tbqRun TbqState.empty xs)).filter (fun p => inGroup p.1 k)).map (·.2)
      = groupRun none (xs.filter (fun p => inGroup p k)) :=
  tbqRun_project TbqState.empty xs k

/-- **Complete, once, unmixed, at the last sentence.** If the sentences of group `k` in the input
are its first sentence followed by its `tot − 1` other sentences (in any order, interleaved with
anything else), then nothing is delivered at the positions of the group's sentences except at the
last one, where exactly the group's sentences are delivered, all of them, in arrival order. -/
theorem C17 (xs : List (α × Option TBGroup)) (k : Int) (x0 : α) (g0 : TBGroup)
    (rest : List (α × Option TBGroup))
    (hproj : xs.filter (fun p => inGroup p k) = (x0, some g0) :: rest)
    (h1 : g0.num = 1) (htot : (rest.length : Int) + 1 = g0.tot) (hne : rest ≠ [])
    (hrest : ∀ p ∈ rest, ∃ g, p.2 = some g ∧ g.num ≠ 1 ∧ g.tot = g0.tot) :
    ((xs.zip (tbqRun TbqState.empty xs)).filter (fun p => inGroup p.1 k)).map (·.2)
      = List.replicate rest.length [] ++ [[x0 :: rest.map (·.1)]] := by
  rw [C17_independent, hproj]
  exact groupRun_block none x0 g0 rest h1 htot hne hrest

/-- an incomplete group is never delivered -/
theorem C17_incomplete (xs : List (α × Option TBGroup)) (k : Int) (x0 : α) (g0 : TBGroup)
    (rest : List (α × Option TBGroup))
    (hproj : xs.filter (fun p => inGroup p k) = (x0, some g0) :: rest)
    (h1 : g0.num = 1) (htot : (rest.length : Int) + 1 < g0.tot)
    (hrest : ∀ p ∈ rest, ∃ g, p.2 = some g ∧ g.num ≠ 1 ∧ g.tot = g0.tot) :
    ((xs.zip (tbqRun TbqState.empty xs)).filter (fun p => inGroup p.1 k)).map (·.2)
      = List.replicate (rest.length + 1) [] := by
  rw [C17_independent, hproj]
  exact groupRun_incomplete none x0 g0 rest h1 htot hrest

/-- non-vacuity: two interleaved groups and an ungrouped sentence -/
example :
    tbqRun TbqState.empty
      [(1, some ⟨1, 2, 7⟩), (2, some ⟨1, 3, 8⟩), (3, none), (4, some ⟨3, 3, 8⟩), (5, some ⟨2, 2, 7⟩), (6, some ⟨2, 3, 8⟩)]
      = [[], [], [[3]], [], [[1, 5]], [[2, 4, 6]]] := by decide

#print axioms C17_singletons
#print axioms C17_independent
#print axioms C17
#print axioms C17_incomplete
end C17
