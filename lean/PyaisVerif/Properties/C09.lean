import PyaisVerif.Lemmas.Encode
import PyaisVerif.Lemmas.Render
import PyaisVerif.Generated.Consts
import PyaisVerif.Generated.Tables
/-!
# C09 — the encoder emits well-formed NMEA 0183 sentences

`Model.aisToNmea`, `Model.encodeAscii6` follow `encode.ais_to_nmea_0183` and `util.encode_ascii_6`;
`max_len` is the constant read from the source.  All statements hold for every armored payload of up
to nine fragments (the encodable messages need at most three, `C09_domain`), both talker ids, both
channels, every fill-bit count.
-/
namespace C09
open Model Spec Py

abbrev K : NmeaConsts := { maxFragCnt := Generated.MAX_FRAG_CNT, maxPayloadLen := Generated.MAX_PAYLOAD_LEN }
abbrev MAXLEN := Generated.ENCODE_MAX_LEN

/-- the constants of the source the statements depend on -/
theorem consts_ok : 0 < MAXLEN ∧ MAXLEN ≤ 60 ∧ MAXLEN ≤ Generated.MAX_PAYLOAD_LEN ∧
    9 ≤ Generated.MAX_FRAG_CNT := by decide

/-- number of fragments of a payload -/
def nFrags (payload : Bytes) : Nat := (payload.length + MAXLEN - 1) / MAXLEN

/-! ### helpers -/

theorem talker_cases (t : Bytes) (h : talkerOk t = true) :
    t = [65, 73, 86, 68, 77] ∨ t = [65, 73, 86, 68, 79] := by
  unfold talkerOk at h
  simp only [Bool.or_eq_true, decide_eq_true_eq] at h
  rcases h with h | h
  · left; rw [h]; decide
  · right; rw [h]; decide

theorem chan_cases (c : Bytes) (h : chanOk c = true) : c = [65] ∨ c = [66] := by
  unfold chanOk at h
  simp only [Bool.or_eq_true, decide_eq_true_eq] at h
  rcases h with h | h
  · left; rw [h]; decide
  · right; rw [h]; decide

theorem talker_length (t : Bytes) (h : talkerOk t = true) : t.length = 5 := by
  rcases talker_cases t h with rfl | rfl <;> rfl

theorem chan_length (c : Bytes) (h : chanOk c = true) : c.length = 1 := by
  rcases chan_cases c h with rfl | rfl <;> rfl

theorem nFrags_le (payload : Bytes) (hp : payload.length ≤ 9 * MAXLEN) : nFrags payload ≤ 9 := by
  have hm := consts_ok.1
  unfold nFrags
  apply Nat.le_of_lt_succ
  apply Nat.div_lt_of_lt_mul
  omega

theorem natToDecAux_digits : ∀ (fuel n : Nat) (acc : Bytes), (∀ b ∈ acc, 48 ≤ b ∧ b ≤ 57) →
    ∀ b ∈ natToDecAux fuel n acc, 48 ≤ b ∧ b ≤ 57 := by
  intro fuel
  induction fuel with
  | zero => intro n acc h; exact h
  | succ fuel ih =>
    intro n acc h
    simp only [natToDecAux]
    split
    · intro b hb
      rcases List.mem_cons.mp hb with rfl | hb
      · omega
      · exact h b hb
    · apply ih
      intro b hb
      rcases List.mem_cons.mp hb with rfl | hb
      · omega
      · exact h b hb

theorem natToDec_all_digits (n : Nat) : ∀ b ∈ natToDec n, 48 ≤ b ∧ b ≤ 57 :=
  natToDecAux_digits _ _ [] (by simp)

/-- **Structure.** The encoder emits `⌈|payload| / max_len⌉` sentences and the `i`-th one is the
rendering of: the requested talker/type, `n` fragments, number `i+1`, common sequence id (`0`, or
empty when there is one fragment), the channel, the `i`-th chunk of the payload, and the fill-bit
count on the last fragment only (0 on the others); each with the two-digit XOR checksum of its body
(`Spec.renderFrag`). -/
theorem C09_structure (payload talker chan : Bytes) (fill : Nat) (ht : talkerOk talker = true)
    (hc : chanOk chan = true) :
    aisToNmea MAXLEN payload talker chan fill =
      .ok ((List.range (nFrags payload)).map fun i => renderFrag (fragOf MAXLEN payload talker chan fill i)) :=
  aisToNmea_eq MAXLEN consts_ok.1 payload talker chan fill (talker_length talker ht) (chan_length chan hc)

/-- the chunks concatenate to the payload -/
theorem C09_chunks (payload : Bytes) :
    ((List.range (nFrags payload)).map fun i => (payload.drop (i * MAXLEN)).take MAXLEN).flatten = payload := by
  have hm := consts_ok.1
  have e : chunks MAXLEN payload =
      (List.range (nFrags payload)).map fun i => (payload.drop (i * MAXLEN)).take MAXLEN := by
    have hl := chunks_length MAXLEN hm payload
    apply List.ext_getElem
    · simp [hl, nFrags]
    · intro i h1 h2
      rw [chunks_getElem MAXLEN hm]; simp
  rw [← e, chunks_flatten MAXLEN hm]

/-- membership in the output: the `i`-th rendered fragment -/
theorem mem_out (payload talker chan : Bytes) (fill : Nat) (ht : talkerOk talker = true)
    (hc : chanOk chan = true) (out : List Bytes)
    (h : aisToNmea MAXLEN payload talker chan fill = .ok out) (s : Bytes) (hs : s ∈ out) :
    ∃ i, i < nFrags payload ∧ s = renderFrag (fragOf MAXLEN payload talker chan fill i) := by
  rw [C09_structure payload talker chan fill ht hc] at h
  cases h
  simp only [List.mem_map, List.mem_range] at hs
  obtain ⟨i, hi, rfl⟩ := hs
  exact ⟨i, hi, rfl⟩

/-- **Length.** Every emitted sentence has at most 82 characters including CR LF. -/
theorem C09_length (payload talker chan : Bytes) (fill : Nat) (ht : talkerOk talker = true)
    (hc : chanOk chan = true) (hf : fill ≤ 5) (hp : payload.length ≤ 9 * MAXLEN)
    (out : List Bytes) (h : aisToNmea MAXLEN payload talker chan fill = .ok out) :
    ∀ s ∈ out, s.length + 2 ≤ 82 := by
  intro s hs
  obtain ⟨i, hi, rfl⟩ := mem_out payload talker chan fill ht hc out h s hs
  have hn := nFrags_le payload hp
  have hn' : (payload.length + MAXLEN - 1) / MAXLEN ≤ 9 := hn
  have hi' : i < (payload.length + MAXLEN - 1) / MAXLEN := hi
  obtain ⟨_, hm60, _, _⟩ := consts_ok
  rw [renderFrag_length]
  have h1 : (natToDec (fragOf MAXLEN payload talker chan fill i).cnt).length = 1 :=
    natToDec_length_one _ (by simp only [fragOf]; exact hn')
  have h2 : (natToDec (fragOf MAXLEN payload talker chan fill i).num).length = 1 :=
    natToDec_length_one _ (by simp only [fragOf]; omega)
  have h3 : (natToDec (fragOf MAXLEN payload talker chan fill i).fill).length = 1 :=
    natToDec_length_one _ (by simp only [fragOf]; split <;> omega)
  have h4 : (seqBytes (fragOf MAXLEN payload talker chan fill i).seq).length ≤ 1 := by
    simp only [fragOf]; split
    · simp only [seqBytes]; rw [natToDec_length_one 0 (by omega)]; omega
    · simp [seqBytes]
  have h5 : (fragOf MAXLEN payload talker chan fill i).chunk.length ≤ 60 := by
    simp only [fragOf, List.length_take]; omega
  have h6 : (fragOf MAXLEN payload talker chan fill i).talker.length +
      (fragOf MAXLEN payload talker chan fill i).kind.length = 5 := by
    simp only [fragOf, List.length_take, List.length_drop, talker_length talker ht]; rfl
  have h7 : (fragOf MAXLEN payload talker chan fill i).chan.length = 1 := chan_length chan hc
  omega


theorem star_not_mem_natToDec (n : Nat) : STAR ∉ natToDec n := by
  intro h
  have := natToDec_all_digits n STAR h
  simp [STAR] at this

theorem star_not_mem_fragBody (f : FragSpec) (h1 : STAR ∉ f.talker) (h2 : STAR ∉ f.kind)
    (h3 : STAR ∉ f.chan) (h4 : STAR ∉ f.chunk) : STAR ∉ fragBody f := by
  have hseq : STAR ∉ seqBytes f.seq := by
    cases f.seq with
    | none => simp [seqBytes]
    | some n => exact star_not_mem_natToDec n
  have hc : STAR ≠ COMMA := by decide
  simp only [fragBody, List.mem_append, List.mem_singleton, not_or]
  exact ⟨⟨⟨⟨⟨⟨⟨⟨⟨⟨⟨⟨⟨h1, h2⟩, hc⟩, star_not_mem_natToDec _⟩, hc⟩, star_not_mem_natToDec _⟩, hc⟩, hseq⟩,
    hc⟩, h3⟩, hc⟩, h4⟩, hc⟩, star_not_mem_natToDec _⟩

theorem mem_chunk_armor (payload : Bytes) (harm : payload.all isArmorChar = true) (a b : Nat) :
    ((payload.drop a).take b).all isArmorChar = true := by
  rw [List.all_eq_true] at harm ⊢
  intro x hx
  exact harm x (List.mem_of_mem_drop (List.mem_of_mem_take hx))

/-- **Head, checksum, alphabet.** Every emitted sentence starts with `!` and the talker/type, ends
with `*` and the two hex digits of the XOR of its body.  The payload must be armored (`harm`):
`ais_to_nmea_0183` copies the payload verbatim, so a payload containing `*` (e.g. `b'*'`, which gives
`!AIVDM,1,1,,A,*,0*0C`) puts a `*` into the body and `STAR ∉ body` fails. -/
theorem C09_head_checksum (payload talker chan : Bytes) (fill : Nat) (ht : talkerOk talker = true)
    (hc : chanOk chan = true) (harm : payload.all isArmorChar = true) (out : List Bytes)
    (h : aisToNmea MAXLEN payload talker chan fill = .ok out) :
    ∀ s ∈ out, ∃ body, s = [33] ++ body ++ [STAR] ++ hex2 (xorAll body) ∧ STAR ∉ body ∧
      body.take 5 = talker := by
  intro s hs
  obtain ⟨i, hi, rfl⟩ := mem_out payload talker chan fill ht hc out h s hs
  refine ⟨fragBody (fragOf MAXLEN payload talker chan fill i), rfl, ?_, ?_⟩
  · apply star_not_mem_fragBody
    · rcases talker_cases talker ht with rfl | rfl <;> simp [fragOf, STAR]
    · rcases talker_cases talker ht with rfl | rfl <;> simp [fragOf, STAR]
    · rcases chan_cases chan hc with rfl | rfl <;> simp [fragOf, STAR]
    · intro hm
      have := List.all_eq_true.mp (mem_chunk_armor payload harm (i * MAXLEN) MAXLEN) STAR hm
      simp [STAR, isArmorChar] at this
  · rcases talker_cases talker ht with rfl | rfl <;> simp [fragBody, fragOf]

/-- **Armoring and fill bits.** The armored payload uses only the 64-character alphabet and the
fill-bit count is the padding to the next six-bit boundary; de-armoring gives the bits back. -/
theorem C09_fill (bits : Bits) :
    (encodeAscii6 bits).1.all isArmorChar = true ∧
    (encodeAscii6 bits).2 = (6 - bits.length % 6) % 6 ∧
    dearmor (encodeAscii6 bits).1 (encodeAscii6 bits).2 = .ok bits :=
  ⟨(encodeAscii6_chars bits).1, encodeAscii6_fill bits, dearmor_encodeAscii6 bits⟩

theorem fragOK_fragOf (payload talker chan : Bytes) (fill : Nat) (ht : talkerOk talker = true)
    (hc : chanOk chan = true) (hf : fill ≤ 5) (hp : payload.length ≤ 9 * MAXLEN)
    (harm : payload.all isArmorChar = true) (i : Nat) (hi : i < nFrags payload) :
    FragOK K (fragOf MAXLEN payload talker chan fill i) = true := by
  have hn : (payload.length + MAXLEN - 1) / MAXLEN ≤ 9 := nFrags_le payload hp
  have hi' : i < (payload.length + MAXLEN - 1) / MAXLEN := hi
  obtain ⟨_, _, hmp, hfc⟩ := consts_ok
  have hchunk := mem_chunk_armor payload harm (i * MAXLEN) MAXLEN
  simp only [FragOK, fragOf, Bool.and_eq_true, Bool.or_eq_true, beq_iff_eq]
  refine ⟨⟨⟨⟨⟨⟨⟨⟨⟨⟨⟨⟨⟨?_, ?_⟩, ?_⟩, ?_⟩, ?_⟩, ?_⟩, ?_⟩, ?_⟩, ?_⟩, ?_⟩, ?_⟩, hchunk⟩, ?_⟩, ?_⟩
  · rcases talker_cases talker ht with rfl | rfl <;> rfl
  · rcases talker_cases talker ht with rfl | rfl <;> decide
  · rcases talker_cases talker ht with rfl | rfl
    · left; decide
    · right; decide
  · exact decide_eq_true (by omega)
  · exact decide_eq_true (by omega)
  · exact decide_eq_true (by omega)
  · exact decide_eq_true (by omega)
  · exact decide_eq_true (by omega)
  · exact decide_eq_true (by omega)
  · by_cases hgt : (payload.length + MAXLEN - 1) / MAXLEN > 1
    · rw [if_pos hgt]; rfl
    · rw [if_neg hgt]
  · rcases chan_cases chan hc with rfl | rfl <;> decide
  · exact decide_eq_true (by simp only [List.length_take]; omega)
  · exact decide_eq_true (by split <;> omega)

/-- **Every emitted sentence is accepted by the parser** and read back as written: flagged valid,
numbered `i+1` of `n`, common sequence id, fill bits only on the last fragment. -/
theorem C09_parse (payload talker chan : Bytes) (fill : Nat) (ht : talkerOk talker = true)
    (hc : chanOk chan = true) (hf : fill ≤ 5) (hp : payload.length ≤ 9 * MAXLEN)
    (harm : payload.all isArmorChar = true) (i : Nat) (hi : i < nFrags payload) :
    ∃ bits, dearmor (fragOf MAXLEN payload talker chan fill i).chunk (fragOf MAXLEN payload talker chan fill i).fill = .ok bits ∧
      produce K (renderFrag (fragOf MAXLEN payload talker chan fill i)) =
        .ok (expectedSentence (fragOf MAXLEN payload talker chan fill i) bits) := by
  have hok := fragOK_fragOf payload talker chan fill ht hc hf hp harm i hi
  have hchunk : (fragOf MAXLEN payload talker chan fill i).chunk.all isArmorChar = true :=
    mem_chunk_armor payload harm (i * MAXLEN) MAXLEN
  have hfill : (fragOf MAXLEN payload talker chan fill i).fill ≤ 5 := by
    simp only [fragOf]; split <;> omega
  -- `dearmor_ok` with or without a bound on the fill-bit count
  obtain ⟨bits, hb⟩ : ∃ bits, dearmor (fragOf MAXLEN payload talker chan fill i).chunk
      (fragOf MAXLEN payload talker chan fill i).fill = .ok bits := by
    first
      | exact dearmor_ok _ _ hchunk
      | exact dearmor_ok _ _ hchunk hfill
      | exact dearmor_ok _ _ hfill hchunk
  exact ⟨bits, hb, produce_renderFrag K _ hok bits hb⟩

/-! ### the one-shot assembly of the emitted sentences -/

/-- the collection loop on arguments that all parse to AIS sentences with the same fragment count -/
theorem oneShotCollect_ok (k : NmeaConsts) (c : Int) : ∀ (args : List Bytes) (ss : List Sentence),
    args.map (produce k) = ss.map .ok → (∀ s ∈ ss, s.isAIS = true ∧ s.fragCnt = c) →
    ∀ (temp : List Sentence) (cnt : Int),
    oneShotCollect k false args temp cnt = .ok (temp ++ ss, if ss.isEmpty then cnt else c) := by
  intro args
  induction args with
  | nil =>
    intro ss hmap _ temp cnt
    cases ss with
    | nil => simp [oneShotCollect]
    | cons s ss' => simp at hmap
  | cons a rest ih =>
    intro ss hmap hall temp cnt
    cases ss with
    | nil => simp at hmap
    | cons s ss' =>
      simp only [List.map_cons, List.cons.injEq] at hmap
      obtain ⟨hp, hrest⟩ := hmap
      obtain ⟨hais, hcnt⟩ := hall s (by simp)
      unfold oneShotCollect
      rw [hp]
      simp only [hais, if_true, Bool.false_eq_true, false_and, if_false]
      rw [ih ss' hrest (fun s hs => hall s (List.mem_cons_of_mem _ hs)), hcnt]
      simp

/-- the checks after the loop pass on the fragments `1 … n` in order, and the result joins them -/
theorem oneShotFinish_range (g : Nat → Sentence) (n : Nat) (hn : 1 ≤ n)
    (hnum : ∀ i, (g i).fragNum = ((i + 1 : Nat) : Int)) :
    ∃ s, oneShotFinish ((List.range n).map g) n = .ok s ∧
      s.bits = (((List.range n).map g).map (·.bits)).flatten ∧
      s.payload = (((List.range n).map g).map (·.payload)).flatten ∧
      s.isValid = ((List.range n).map g).all (·.isValid) ∧
      s.aisId = getInt (((List.range n).map g).map (·.bits)).flatten 0 6 := by
  have hsorted : sortByNum ((List.range n).map g) = (List.range n).map g := by
    apply sortByNum_sorted
    rw [List.pairwise_map]
    refine List.Pairwise.imp ?_ List.pairwise_lt_range
    intro a b hab
    rw [hnum, hnum]; omega
  have hmissing : ((List.range (n : Int).toNat).filter fun (i : Nat) =>
      ¬ (((List.range n).map g).map (·.fragNum)).contains ((i : Int) + 1)) = [] := by
    rw [List.filter_eq_nil_iff]
    intro i hi
    simp only [Int.toNat_natCast, List.mem_range] at hi
    simp only [List.contains_iff_mem, List.mem_map, List.mem_range, decide_not, Bool.not_eq_true',
      decide_eq_false_iff_not, Classical.not_not]
    exact ⟨g i, ⟨i, hi, rfl⟩, by rw [hnum]; omega⟩
  unfold oneShotFinish
  simp only [hmissing]
  generalize htemp : (List.range n).map g = temp at *
  have hlen : temp.length = n := by rw [← htemp]; simp
  cases temp with
  | nil => simp at hlen; omega
  | cons m0 rest =>
    have h1 : ¬ ((m0 :: rest).isEmpty = true) := by simp
    have h2 : ¬ (((m0 :: rest).length : Int) > (n : Int)) := by rw [hlen]; omega
    rw [if_neg h1, if_neg h2]
    simp only [List.isEmpty_nil, not_true_eq_false, if_false, assemble, hsorted]
    exact ⟨_, rfl, rfl, rfl, rfl, rfl⟩

/-- de-armoring fragment by fragment: all parts but the last carry no fill bits -/
theorem dearmor_range (ch : Nat → Bytes) (B : Nat → Bits) : ∀ (m : Nat),
    (∀ i, i < m → (ch i).all isArmorChar = true ∧ dearmor (ch i) 0 = .ok (B i)) →
    ∀ (b : Bytes) (xb : Bits) (fill : Nat), b ≠ [] → dearmor b fill = .ok xb →
    dearmor (((List.range m).map ch).flatten ++ b) fill =
      .ok (((List.range m).map B).flatten ++ xb) := by
  intro m
  induction m with
  | zero => intro _ b xb fill _ hb; simpa using hb
  | succ m ih =>
    intro hparts b xb fill hne hb
    obtain ⟨harm, hd⟩ := hparts m (Nat.lt_succ_self _)
    have hstep : dearmor (ch m ++ b) fill = .ok (B m ++ xb) := by
      rw [dearmor_append (ch m) b fill harm hne (B m) hd, hb]
    have := ih (fun i hi => hparts i (Nat.lt_succ_of_lt hi)) (ch m ++ b) (B m ++ xb) fill
      (by simp [hne]) hstep
    simp only [List.range_succ, List.map_append, List.flatten_append, List.map_cons, List.map_nil,
      List.flatten_cons, List.flatten_nil, List.append_nil, List.append_assoc]
    exact this

/-- the bits the parser reads from the `i`-th emitted fragment -/
def fragBits (payload talker chan : Bytes) (fill : Nat) (i : Nat) : Bits :=
  match dearmor (fragOf MAXLEN payload talker chan fill i).chunk
      (fragOf MAXLEN payload talker chan fill i).fill with
  | .ok b => b
  | .error _ => []

/-- the sentence object the parser produces for the `i`-th emitted fragment -/
def parsedFrag (payload talker chan : Bytes) (fill : Nat) (i : Nat) : Sentence :=
  expectedSentence (fragOf MAXLEN payload talker chan fill i) (fragBits payload talker chan fill i)

theorem fragBits_spec (payload talker chan : Bytes) (fill : Nat) (ht : talkerOk talker = true)
    (hc : chanOk chan = true) (hf : fill ≤ 5) (hp : payload.length ≤ 9 * MAXLEN)
    (harm : payload.all isArmorChar = true) (i : Nat) (hi : i < nFrags payload) :
    dearmor (fragOf MAXLEN payload talker chan fill i).chunk
        (fragOf MAXLEN payload talker chan fill i).fill = .ok (fragBits payload talker chan fill i) ∧
      produce K (renderFrag (fragOf MAXLEN payload talker chan fill i)) =
        .ok (parsedFrag payload talker chan fill i) := by
  obtain ⟨b, hb, hprod⟩ := C09_parse payload talker chan fill ht hc hf hp harm i hi
  have e : fragBits payload talker chan fill i = b := by simp only [fragBits, hb]
  unfold parsedFrag
  rw [e]; exact ⟨hb, hprod⟩

theorem one_le_nFrags (payload : Bytes) (h : payload ≠ []) : 1 ≤ nFrags payload := by
  have hm := consts_ok.1
  unfold nFrags
  have hl : 1 ≤ payload.length := by
    cases payload with
    | nil => exact absurd rfl h
    | cons _ _ => simp
  rw [Nat.le_div_iff_mul_le hm]; omega

/-- the fragments' bits concatenate to the de-armoring of the whole payload -/
theorem fragBits_flatten (payload talker chan : Bytes) (fill : Nat) (ht : talkerOk talker = true)
    (hc : chanOk chan = true) (hf : fill ≤ 5) (hp : payload.length ≤ 9 * MAXLEN)
    (harm : payload.all isArmorChar = true) (hne : payload ≠ []) (bits : Bits)
    (hd : dearmor payload fill = .ok bits) :
    ((List.range (nFrags payload)).map (fragBits payload talker chan fill)).flatten = bits := by
  have hm := consts_ok.1
  have hn1 := one_le_nFrags payload hne
  obtain ⟨m, hm1⟩ : ∃ m, nFrags payload = m + 1 := ⟨nFrags payload - 1, by omega⟩
  let ch : Nat → Bytes := fun i => (payload.drop (i * MAXLEN)).take MAXLEN
  have hparts : ∀ i, i < m → (ch i).all isArmorChar = true ∧
      dearmor (ch i) 0 = .ok (fragBits payload talker chan fill i) := by
    intro i hi
    refine ⟨mem_chunk_armor payload harm _ _, ?_⟩
    have := (fragBits_spec payload talker chan fill ht hc hf hp harm i (by omega)).1
    have hfill : (fragOf MAXLEN payload talker chan fill i).fill = 0 := by
      have : ¬ (i + 1 = (payload.length + MAXLEN - 1) / MAXLEN) := by
        show ¬ (i + 1 = nFrags payload); omega
      simp only [fragOf, if_neg this]
    rw [hfill] at this
    exact this
  have hlast : dearmor (ch m) fill = .ok (fragBits payload talker chan fill m) := by
    have := (fragBits_spec payload talker chan fill ht hc hf hp harm m (by omega)).1
    have hfill : (fragOf MAXLEN payload talker chan fill m).fill = fill := by
      have : m + 1 = (payload.length + MAXLEN - 1) / MAXLEN := by
        show m + 1 = nFrags payload; omega
      simp only [fragOf, if_pos this]
    rw [hfill] at this
    exact this
  have hchne : ch m ≠ [] := by
    have hl := chunks_length MAXLEN hm payload
    have hlt : m < (chunks MAXLEN payload).length := by
      rw [hl]; show m < nFrags payload; omega
    have := (chunks_bound MAXLEN hm payload _ (List.getElem_mem hlt)).1
    rw [chunks_getElem MAXLEN hm] at this
    exact this
  have hall := dearmor_range ch (fragBits payload talker chan fill) m hparts (ch m) _ fill hchne hlast
  have hpay : ((List.range m).map ch).flatten ++ ch m = payload := by
    have := C09_chunks payload
    rw [hm1, List.range_succ] at this
    simpa using this
  rw [hpay, hd] at hall
  rw [hm1, List.range_succ]
  simp only [List.map_append, List.flatten_append, List.map_cons, List.map_nil, List.flatten_cons,
    List.flatten_nil, List.append_nil]
  exact (Except.ok.inj hall).symm

/-- **The sentences taken together are accepted by the decoder**: one-shot assembly of the emitted
sentences of `encode_ascii_6(bits)` yields a valid sentence carrying exactly `bits`. -/
theorem C09_accepted (bits : Bits) (talker chan : Bytes) (ht : talkerOk talker = true)
    (hc : chanOk chan = true) (hne : bits ≠ []) (hlen : bits.length ≤ 6 * 9 * MAXLEN)
    (out : List Bytes)
    (h : aisToNmea MAXLEN (encodeAscii6 bits).1 talker chan (encodeAscii6 bits).2 = .ok out) :
    ∃ s, oneShotAssemble K false out = .ok s ∧ s.bits = bits ∧ s.payload = (encodeAscii6 bits).1 ∧
      s.isValid = true ∧ s.aisId = getInt bits 0 6 := by
  obtain ⟨harm, hplen⟩ := encodeAscii6_chars bits
  have hfillv := encodeAscii6_fill bits
  have hround := dearmor_encodeAscii6 bits
  generalize (encodeAscii6 bits).1 = p at *
  generalize (encodeAscii6 bits).2 = fill at *
  have hb1 : 1 ≤ bits.length := by
    cases bits with
    | nil => exact absurd rfl hne
    | cons _ _ => simp
  have hf : fill ≤ 5 := by omega
  have hp : p.length ≤ 9 * MAXLEN := by omega
  have hpne : p ≠ [] := by
    intro h0; rw [h0] at hplen; simp at hplen; omega
  have hn1 := one_le_nFrags p hpne
  rw [C09_structure p talker chan fill ht hc] at h
  cases h
  -- the parsed sentences
  generalize hg : parsedFrag p talker chan fill = g
  have hmap : ((List.range (nFrags p)).map fun i =>
      renderFrag (fragOf MAXLEN p talker chan fill i)).map (produce K) =
      ((List.range (nFrags p)).map g).map .ok := by
    rw [List.map_map, List.map_map]
    apply List.map_congr_left
    intro i hi
    simp only [Function.comp, ← hg]
    exact (fragBits_spec p talker chan fill ht hc hf hp harm i (List.mem_range.mp hi)).2
  have hall : ∀ s ∈ (List.range (nFrags p)).map g, s.isAIS = true ∧ s.fragCnt = (nFrags p : Int) := by
    intro s hs
    obtain ⟨i, _, rfl⟩ := List.mem_map.mp hs
    rw [← hg]
    exact ⟨rfl, rfl⟩
  have hcollect := oneShotCollect_ok K (nFrags p) _ _ hmap hall [] 1
  have hnonempty : ((List.range (nFrags p)).map g).isEmpty = false := by
    cases hnf : nFrags p with
    | zero => omega
    | succ k => simp [List.range_succ]
  rw [hnonempty] at hcollect
  simp only [List.nil_append, Bool.false_eq_true, if_false] at hcollect
  obtain ⟨s, hs, hbits, hpay, hvalid, hid⟩ := oneShotFinish_range g (nFrags p) hn1 (fun i => by rw [← hg]; rfl)
  have hflat : (((List.range (nFrags p)).map g).map (·.bits)).flatten = bits := by
    rw [List.map_map, ← hg]
    exact fragBits_flatten p talker chan fill ht hc hf hp harm hpne bits hround
  refine ⟨s, ?_, ?_, ?_, ?_, ?_⟩
  · unfold oneShotAssemble
    rw [hcollect]
    exact hs
  · rw [hbits, hflat]
  · rw [hpay, List.map_map, ← hg]
    exact C09_chunks p
  · rw [hvalid, List.all_map, ← hg]
    simp [parsedFrag, expectedSentence]
  · rw [hid, hflat]
/-- **Domain.** Every message class of the source has at most 1064 bits, i.e. at most 178 armored
characters, i.e. at most three fragments. -/
theorem C09_domain :
    (Generated.classes.all fun (_, fs) => decide ((fs.map (·.width)).sum ≤ 1064)) = true := by
  decide +kernel

/-- non-vacuity -/
example : talkerOk (strBytes "AIVDO") = true ∧ chanOk (strBytes "B") = true ∧ nFrags (List.replicate 130 48) = 3 := by
  decide +kernel

#print axioms consts_ok
#print axioms C09_structure
#print axioms C09_chunks
#print axioms C09_length
#print axioms C09_head_checksum
#print axioms C09_fill
#print axioms C09_parse
#print axioms C09_accepted
#print axioms C09_domain
end C09
