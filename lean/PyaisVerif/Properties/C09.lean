import PyaisVerif.Lemmas.Encode
import PyaisVerif.Lemmas.Render
import PyaisVerif.Generated.Consts
import PyaisVerif.Generated.Tables
/-!
# C09 — the encoder emits well-formed NMEA 0183 sentences

`Model.aisToNmea`, `Model.encodeAscii6` follow `encode.ais_to_nmea_0183` and `util.encode_ascii_6`;
`max_len` is the constant read from the source.  All statements hold for every armored payload of up
to nine fragments (the encodable messages need at most three, `C09_domain`), both talker ids, both
channels, every fill-bit count.
-/
namespace C09
open Model Spec Py

abbrev K : NmeaConsts := { maxFragCnt := Generated.MAX_FRAG_CNT, maxPayloadLen := Generated.MAX_PAYLOAD_LEN }
abbrev MAXLEN := Generated.ENCODE_MAX_LEN

/-- the constants of the source the statements depend on -/
theorem consts_ok : 0 < MAXLEN ∧ MAXLEN ≤ 60 ∧ MAXLEN ≤ Generated.MAX_PAYLOAD_LEN ∧
    9 ≤ Generated.MAX_FRAG_CNT := by decide

/-- number of fragments of a payload -/
def nFrags (payload : Bytes) : Nat := (payload.length + MAXLEN - 1) / MAXLEN

/-- **Structure.** The encoder emits `⌈|payload| / max_len⌉` sentences and the `i`-th one is the
rendering of: the requested talker/type, `n` fragments, number `i+1`, common sequence id (`0`, or
empty when there is one fragment), the channel, the `i`-th chunk of the payload, and the fill-bit
count on the last fragment only (0 on the others); each with the two-digit XOR checksum of its body
(`Spec.renderFrag`). -/
theorem C09_structure (payload talker chan : Bytes) (fill : Nat) (ht : talkerOk talker = true)
    (hc : chanOk chan = true) :
    aisToNmea MAXLEN payload talker chan fill =
      .ok ((List.range (nFrags payload)).map fun i => renderFrag (fragOf MAXLEN payload talker chan fill i)) := by
  sorry

/-- the chunks concatenate to the payload -/
theorem C09_chunks (payload : Bytes) :
    ((List.range (nFrags payload)).map fun i => (payload.drop (i * MAXLEN)).take MAXLEN).flatten = payload := by
  sorry

/-- **Length.** Every emitted sentence has at most 82 characters including CR LF. -/
theorem C09_length (payload talker chan : Bytes) (fill : Nat) (ht : talkerOk talker = true)
    (hc : chanOk chan = true) (hf : fill ≤ 5) (hp : payload.length ≤ 9 * MAXLEN)
    (out : List Bytes) (h : aisToNmea MAXLEN payload talker chan fill = .ok out) :
    ∀ s ∈ out, s.length + 2 ≤ 82 := by
  sorry

/-- **Head, checksum, alphabet.** Every emitted sentence starts with `!` and the talker/type, ends
with `*` and the two hex digits of the XOR of its body. -/
theorem C09_head_checksum (payload talker chan : Bytes) (fill : Nat) (ht : talkerOk talker = true)
    (hc : chanOk chan = true) (out : List Bytes)
    (h : aisToNmea MAXLEN payload talker chan fill = .ok out) :
    ∀ s ∈ out, ∃ body, s = [33] ++ body ++ [STAR] ++ hex2 (xorAll body) ∧ STAR ∉ body ∧
      body.take 5 = talker := by
  sorry

/-- **Armoring and fill bits.** The armored payload uses only the 64-character alphabet and the
fill-bit count is the padding to the next six-bit boundary; de-armoring gives the bits back. -/
theorem C09_fill (bits : Bits) :
    (encodeAscii6 bits).1.all isArmorChar = true ∧
    (encodeAscii6 bits).2 = (6 - bits.length % 6) % 6 ∧
    dearmor (encodeAscii6 bits).1 (encodeAscii6 bits).2 = .ok bits :=
  ⟨(encodeAscii6_chars bits).1, encodeAscii6_fill bits, dearmor_encodeAscii6 bits⟩

/-- **Every emitted sentence is accepted by the parser** and read back as written: flagged valid,
numbered `i+1` of `n`, common sequence id, fill bits only on the last fragment. -/
theorem C09_parse (payload talker chan : Bytes) (fill : Nat) (ht : talkerOk talker = true)
    (hc : chanOk chan = true) (hf : fill ≤ 5) (hp : payload.length ≤ 9 * MAXLEN)
    (harm : payload.all isArmorChar = true) (i : Nat) (hi : i < nFrags payload) :
    ∃ bits, dearmor (fragOf MAXLEN payload talker chan fill i).chunk (fragOf MAXLEN payload talker chan fill i).fill = .ok bits ∧
      produce K (renderFrag (fragOf MAXLEN payload talker chan fill i)) =
        .ok (expectedSentence (fragOf MAXLEN payload talker chan fill i) bits) := by
  sorry

/-- **The sentences taken together are accepted by the decoder**: one-shot assembly of the emitted
sentences of `encode_ascii_6(bits)` yields a valid sentence carrying exactly `bits`. -/
theorem C09_accepted (bits : Bits) (talker chan : Bytes) (ht : talkerOk talker = true)
    (hc : chanOk chan = true) (hne : bits ≠ []) (hlen : bits.length ≤ 6 * 9 * MAXLEN)
    (out : List Bytes)
    (h : aisToNmea MAXLEN (encodeAscii6 bits).1 talker chan (encodeAscii6 bits).2 = .ok out) :
    ∃ s, oneShotAssemble K false out = .ok s ∧ s.bits = bits ∧ s.payload = (encodeAscii6 bits).1 ∧
      s.isValid = true ∧ s.aisId = getInt bits 0 6 := by
  sorry

/-- **Domain.** Every message class of the source has at most 1064 bits, i.e. at most 178 armored
characters, i.e. at most three fragments. -/
theorem C09_domain :
    (Generated.classes.all fun (_, fs) => decide ((fs.map (·.width)).sum ≤ 1064)) = true := by
  decide +kernel

/-- non-vacuity -/
example : talkerOk (strBytes "AIVDO") = true ∧ chanOk (strBytes "B") = true ∧ nFrags (List.replicate 130 48) = 3 := by
  decide +kernel

#print axioms consts_ok
#print axioms C09_structure
#print axioms C09_chunks
#print axioms C09_length
#print axioms C09_head_checksum
#print axioms C09_fill
#print axioms C09_parse
#print axioms C09_accepted
#print axioms C09_domain
end C09
