import PyaisVerif.Lemmas.Socket
/-!
# C06 — socket readers yield the same lines however the transport chunks the bytes

`Model.sockRead` follows `SocketStream.read` (carry-over of the partial line, Python's
`splitlines(keepends=True)`, stop at the first empty `recv()`).  The exponential quantifier "all
2^(n−1) segmentations of every n-byte stream" is discharged by induction over the chunk list.
-/
namespace C06
open Model Py

/-- **Chunking theorem.** For every stream in which CR only occurs in CRLF and every way of cutting
it into non-empty `recv()` results, the reader yields exactly the LF-terminated lines of the stream
(an unterminated tail is never delivered). -/
theorem C06_chunking (chunks : List Bytes) (hne : ∀ c ∈ chunks, c ≠ [])
    (hcr : CRLFOnly chunks.flatten) :
    sockRead [] chunks = (splitLF [] chunks.flatten).1 :=
  sockRead_eq [] chunks hne (chunks_noBareCR chunks hcr)

/-- **Independence of packet boundaries.** -/
theorem C06_independent (chunks chunks' : List Bytes) (hne : ∀ c ∈ chunks, c ≠ [])
    (hne' : ∀ c ∈ chunks', c ≠ []) (hflat : chunks.flatten = chunks'.flatten)
    (hcr : CRLFOnly chunks.flatten) :
    sockRead [] chunks = sockRead [] chunks' := by
  rw [C06_chunking chunks hne hcr, C06_chunking chunks' hne' (hflat ▸ hcr), hflat]

/-- **Exactly the original lines, each once, complete and in order**: a stream made of terminated
lines (LF or CRLF; no other CR) is handed on line by line whatever the chunking. -/
theorem C06_lines (lines : List Bytes) (chunks : List Bytes)
    (hl : ∀ l ∈ lines, ∃ content, l = content ++ [LF] ∧ LF ∉ content)
    (hcr : CRLFOnly lines.flatten)
    (hne : ∀ c ∈ chunks, c ≠ []) (hflat : chunks.flatten = lines.flatten) :
    sockRead [] chunks = lines := by
  rw [C06_chunking chunks hne (hflat ▸ hcr), hflat, splitLF_lines lines hl]

/-- non-vacuity: a CRLF stream cut between CR and LF and inside a line -/
example : sockRead [] [[72, 101], [108, 13], [10, 87, 10]] = [[72, 101, 108, 13, 10], [87, 10]] ∧
    CRLFOnly [72, 101, 108, 13, 10, 87, 10] := by
  refine ⟨by decide, ?_⟩
  simp [CRLFOnly, CR, LF]

#print axioms C06_chunking
#print axioms C06_independent
#print axioms C06_lines
end C06
