import PyaisVerif.Lemmas.Contract
import PyaisVerif.Generated.Tables
import PyaisVerif.Generated.Consts
/-!
# C05 — malformed input never escapes the documented error contract

Every Python operation of the parse layer that can raise is modelled with `Except Err` and the
`try/except` blocks of the source are reproduced (`Model/Nmea.lean`, `Model/Assemble.lean`,
`Model/TagBlock.lean`), so "which exception can escape" is a statement about the model.  All byte
strings, all line sequences.
-/
namespace C05
open Model Py

abbrev K : NmeaConsts := { maxFragCnt := Generated.MAX_FRAG_CNT, maxPayloadLen := Generated.MAX_PAYLOAD_LEN }
abbrev AKS : AsmConsts := { nmea := K, bufSize := Generated.STREAM_BUF_SIZE, tagCodes := Generated.TAG_FIELD_CODES }
abbrev AKQ : AsmConsts := { nmea := K, bufSize := Generated.QUEUE_BUF_SIZE, tagCodes := Generated.TAG_FIELD_CODES }
abbrev env := Generated.env

/-- constants of the source: the parser's fragment limit fits the buffers of both loops -/
theorem bounds_ok : Generated.MAX_FRAG_CNT ≤ Generated.STREAM_BUF_SIZE ∧
    Generated.MAX_FRAG_CNT ≤ Generated.QUEUE_BUF_SIZE := by decide

/-- every converter of every table is total; every class the dispatchers can name exists; every
`raise` in a dispatcher is a library exception (kernel evaluation over the generated tables) -/
theorem tables_total : (env.classes.all fun p => p.2.all (convTotal env)) = true := by decide +kernel

def treeLeaves : Tree → List String
  | .leaf c => [c]
  | .raise _ => []
  | .ite _ a b => treeLeaves a ++ treeLeaves b

def treeRaises : Tree → List Err
  | .leaf _ => []
  | .raise e => [e]
  | .ite _ a b => treeRaises a ++ treeRaises b

theorem dispatch_ok :
    (env.decodeTrees.all fun p => (treeLeaves p.2).all (fun c => (env.classes.lookup c).isSome) &&
      (treeRaises p.2).all Err.isLibrary) = true ∧
    (env.msgClass.all fun p => (env.decodeTrees.lookup p.2).isSome || (env.classes.lookup p.2).isSome) = true := by
  decide +kernel

/-- a failing dispatcher run ends in one of the tree's `raise` nodes -/
theorem treeRun_error_mem (bits : Bits) (tr : Tree) (e : Err)
    (h : tr.run (fun t => .ok (t.evalBits bits)) = .error e) : e ∈ treeRaises tr := by
  induction tr with
  | leaf c => cases h
  | raise e' =>
    cases h
    simp [treeRaises]
  | ite t a b iha ihb =>
    simp only [Tree.run, Contract.ok_bind] at h
    simp only [treeRaises, List.mem_append]
    split at h
    · exact .inl (iha h)
    · exact .inr (ihb h)

/-- a successful dispatcher run ends in one of the tree's leaves -/
theorem treeRun_ok_mem (bits : Bits) (tr : Tree) (c : String)
    (h : tr.run (fun t => .ok (t.evalBits bits)) = .ok c) : c ∈ treeLeaves tr := by
  induction tr with
  | leaf c' =>
    cases h
    simp [treeLeaves]
  | raise e' => cases h
  | ite t a b iha ihb =>
    simp only [Tree.run, Contract.ok_bind] at h
    simp only [treeLeaves, List.mem_append]
    split at h
    · exact .inl (iha h)
    · exact .inr (ihb h)

/-- `from_bitarray` of a class named by `MSG_CLASS` raises only library exceptions -/
theorem fromBitarray_library (id : Nat) (cls : String) (bits : Bits) (e : Err)
    (hcls : env.msgClass.lookup id = some cls) (h : fromBitarray env cls bits = .error e) :
    e.isLibrary = true := by
  obtain ⟨hd1, hd2⟩ := dispatch_ok
  rw [List.all_eq_true] at hd1 hd2
  have htree : ∀ tr, env.decodeTrees.lookup cls = some tr →
      (∀ c ∈ treeLeaves tr, (env.classes.lookup c).isSome = true) ∧
      (∀ e' ∈ treeRaises tr, e'.isLibrary = true) := by
    intro tr htr
    have := hd1 (cls, tr) (Contract.mem_of_lookup_eq_some htr)
    simp only [Bool.and_eq_true, List.all_eq_true] at this
    exact this
  obtain ⟨tr, htr, hrun⟩ := fromBitarray_error env cls bits e tables_total (by
    intro c hc
    rcases hc with ⟨tr, htr, hrun⟩ | ⟨hnone, rfl⟩
    · exact (htree tr htr).1 c (treeRun_ok_mem bits tr c hrun)
    · have := hd2 (id, c) (Contract.mem_of_lookup_eq_some hcls)
      rw [hnone] at this
      simpa using this) h
  exact (htree tr htr).2 e (treeRun_error_mem bits tr e hrun)

/-- **`decode()` either returns a message or raises a library exception**, for every list of byte
strings, lenient or strict. -/
theorem C05_decode_contract (args : List Bytes) (strict : Bool) (e : Err)
    (h : decodeArgs K env strict args = .error e) : e.isLibrary = true := by
  rcases Contract.decodeArgs_error h with h1 | ⟨id, cls, bits, hcls, hfb⟩
  · exact h1
  · exact fromBitarray_library id cls bits e hcls hfb

/-- **The factory** raises only the three exceptions both reader loops catch. -/
theorem C05_factory (raw : Bytes) (e : Err) (h : produce K raw = .error e) : e.isSkippable = true :=
  produce_error K raw e h

/-- **Iterating a stream reader or feeding an `NMEAQueue` never raises**, for every sequence of
lines, whether or not a tag block queue is attached. -/
theorem C05_readers_total (withTbq : Bool) (lines : List Bytes) :
    (runLoop (streamStep AKS) (initState withTbq) lines).1.crash = none ∧
    (runLoop (queueStep AKQ) (initState withTbq) lines).1.crash = none :=
  ⟨runLoop_total AKS bounds_ok.1 _ (.inl rfl) withTbq lines,
   runLoop_total AKQ bounds_ok.2 _ (.inr rfl) withTbq lines⟩

/-- **Malformed lines are skipped**: a line the factory rejects changes neither the reader's state
nor its output, so every message made of other lines is delivered exactly as without it. -/
theorem C05_bystanders (pre post : List Bytes) (line : Bytes) (e : Err) (withTbq : Bool)
    (h : produce K line = .error e) :
    ((runLoop (streamStep AKS) (initState withTbq) (pre ++ line :: post)).2.flatMap (·.delivered))
      = ((runLoop (streamStep AKS) (initState withTbq) (pre ++ post)).2.flatMap (·.delivered)) ∧
    ((runLoop (queueStep AKQ) (initState withTbq) (pre ++ line :: post)).2.flatMap (·.delivered))
      = ((runLoop (queueStep AKQ) (initState withTbq) (pre ++ post)).2.flatMap (·.delivered)) :=
  ⟨(runLoop_skip AKS _ (.inl rfl) (initState withTbq) rfl pre post line e h).2,
   (runLoop_skip AKQ _ (.inr rfl) (initState withTbq) rfl pre post line e h).2⟩

/-- non-vacuity: a negative fill-bit count, a whitespace-only line and `!*xVDM` are rejected with
the library's exception -/
example :
    (match produce K (strBytes "!AIVDM,1,1,,A,15M67FC000G?ufbE`FepT@3n00Sa,-1*5C") with
     | .error e => e == .invalidNMEAMessage | .ok _ => false) = true ∧
    (match produce K [32] with | .error e => e == .invalidNMEAMessage | .ok _ => false) = true ∧
    (match produce K (strBytes "!*xVDM,1,1,,A,1,0*00") with
     | .error e => e == .invalidNMEAMessage | .ok _ => false) = true := by decide +kernel

#print axioms bounds_ok
#print axioms tables_total
#print axioms dispatch_ok
#print axioms C05_decode_contract
#print axioms C05_factory
#print axioms C05_readers_total
#print axioms C05_bystanders
end C05
