import PyaisVerif.Lemmas.Layout
import PyaisVerif.Generated.Tables
import PyaisVerif.Generated.Consts
/-!
# C01 — decoding follows the published AIS bit layout for every message type

`Spec/Layout.lean` is the independent layout specification (DESIGN Appendix A).  The obligations
below tie the tables *read from the current pyais source* (`Generated/Tables.lean`) to it by kernel
evaluation, and the generic lemmas of `Lemmas/Layout.lean` lift that to **every payload bit string**
of nominal length (no enumeration of payloads).
-/
namespace C01
open Model Spec Py

/-- what the translator recorded about tabulated converters -/
def E : EnumInfo :=
  { members := Generated.enumMembers, tables := Generated.enumTables, rotTables := Generated.rotTables }

/-- everything in the source was translated (nothing was skipped or guessed) -/
theorem translator_complete :
    (Generated.untranslatable.filter fun u => ["codec", "armor", "frag"].contains u.1) = [] := by decide

/-- enum tables map every raw value into the enum (identity on members); the tabulated `to_turn` is
the ITU rate-of-turn function on all 256 raw values -/
theorem tables_ok : TablesOk Generated.env E = true := by decide +kernel

/-- all 35 field tables read from the source have exactly the published layout: names, order,
widths (hence offsets), signedness, scale, kind -/
theorem tables_match_layouts :
    (layouts.all fun (cls, L) =>
      match Generated.classes.lookup cls with
      | some fs => tableShape E fs == layoutShape L
      | none => false) = true := by decide +kernel

/-- side condition of the layouts themselves: positive widths -/
theorem layouts_wellformed :
    (layouts.all fun (_, L) => L.all fun l => decide (0 < l.width)) = true := by decide +kernel

/-- `MSG_CLASS` as read from the source -/
theorem msgClass_expected :
    Generated.msgClass =
      [(0, "MessageType1")] ++ (List.range 27).map (fun i => (i + 1, "MessageType" ++ toString (i + 1))) := by
  decide +kernel

/-- the variant dispatchers as read from the source -/
def expectedDecodeTrees : List (String × Tree) := [
  ("MessageType22", .ite (.bits 139 140) (.leaf "MessageType22Addressed") (.leaf "MessageType22Broadcast")),
  ("MessageType24", .ite (.bitsEq 38 40 0) (.leaf "MessageType24PartA")
      (.ite (.bitsEq 38 40 1) (.leaf "MessageType24PartB") (.raise .unknownPartNo))),
  ("MessageType25", .ite (.bits 38 39)
      (.ite (.bits 39 40) (.leaf "MessageType25AddressedStructured") (.leaf "MessageType25AddressedUnstructured"))
      (.ite (.bits 39 40) (.leaf "MessageType25BroadcastStructured") (.leaf "MessageType25BroadcastUnstructured"))),
  ("MessageType26", .ite (.bits 38 39)
      (.ite (.bits 39 40) (.leaf "MessageType26AddressedStructured") (.leaf "MessageType26AddressedUnstructured"))
      (.ite (.bits 39 40) (.leaf "MessageType26BroadcastStructured") (.leaf "MessageType26BroadcastUnstructured")))]

theorem decodeTrees_expected : Generated.decodeTrees = expectedDecodeTrees := by decide +kernel

/-- **Layout part.** For every layout of the specification and *every* payload of its nominal
length, decoding with the table read from the source yields a message that agrees with the
standard field by field (offset, width, signedness, scale, text alphabet, enumeration). -/
theorem C01_fields (cls : String) (L : List LField) (hL : (cls, L) ∈ layouts)
    (bits : Bits) (hlen : bits.length = totalWidth L) (hpad : TextPaddingZero L bits) :
    ∃ fs kv, Generated.classes.lookup cls = some fs ∧
      seqDecode Generated.env bits 0 fs = .ok kv ∧ Agrees E.membersOf L bits kv := by
  have h := List.all_eq_true.mp tables_match_layouts (cls, L) hL
  simp only at h
  split at h
  · rename_i fs hfs
    have hshape : tableShape E fs = layoutShape L := eq_of_beq h
    have hwf := List.all_eq_true.mp layouts_wellformed (cls, L) hL
    have hw : ∀ l ∈ L, 0 < l.width := by
      intro l hl
      have := List.all_eq_true.mp hwf l hl
      simpa using this
    obtain ⟨kv, h1, h2⟩ := seqDecode_agrees Generated.env E tables_ok fs L hshape hw bits hlen hpad
    exact ⟨fs, kv, hfs, h1, h2⟩
  · simp at h

/-! ### the variant part -/

/-- `MSG_CLASS[t]` in closed form -/
def classOfType (t : Nat) : Option String :=
  if t = 0 then some "MessageType1"
  else if 1 ≤ t ∧ t ≤ 27 then some ("MessageType" ++ toString t) else none

theorem msgClass_lookup_fin :
    ((List.range 64).all fun t => decide
      (([(0, "MessageType1")] ++ (List.range 27).map
        (fun i => (i + 1, "MessageType" ++ toString (i + 1)))).lookup t = classOfType t)) = true := by
  decide +kernel

theorem msgClass_lookup (t : Nat) (ht : t < 64) :
    Generated.env.msgClass.lookup t = classOfType t := by
  have h0 : Generated.env.msgClass = Generated.msgClass := rfl
  rw [h0, msgClass_expected]
  have := List.all_eq_true.mp msgClass_lookup_fin t (List.mem_range.mpr ht)
  simpa using this

/-- the types without variants are not dispatchers -/
theorem plain_fin :
    ((List.range 28).all fun t => decide (t = 0 ∨ t = 22 ∨ t = 24 ∨ t = 25 ∨ t = 26) ||
      (expectedDecodeTrees.lookup ("MessageType" ++ toString t)).isNone) = true := by
  decide +kernel

theorem resolve_eq (c : String) (bits : Bits) :
    resolveDecode Generated.env c bits =
      match expectedDecodeTrees.lookup c with
      | some tr => tr.run (fun t => .ok (t.evalBits bits))
      | none => .ok c := by
  have h0 : Generated.env.decodeTrees = expectedDecodeTrees := decodeTrees_expected
  unfold resolveDecode
  rw [h0]
  rfl

theorem resolve_plain (t : Nat) (ht : t ≤ 27) (h0 : t ≠ 0) (h22 : t ≠ 22) (h24 : t ≠ 24)
    (h25 : t ≠ 25) (h26 : t ≠ 26) (bits : Bits) :
    resolveDecode Generated.env ("MessageType" ++ toString t) bits
      = .ok ("MessageType" ++ toString t) := by
  have := List.all_eq_true.mp plain_fin t (List.mem_range.mpr (by omega))
  simp only [Bool.or_eq_true, decide_eq_true_eq, Option.isNone_iff_eq_none] at this
  rcases this with h | h
  · omega
  · rw [resolve_eq, h]

theorem bne_zero_bit (bits : Bits) (i : Nat) : (bitAt bits i != 0) = decide (bitAt bits i = 1) := by
  rcases bitAt_cases bits i with h | h <;> simp [h]

/-- **Variant part.** The class chosen by the code for a payload is the one the payload's own type
and discriminator bits select (22: bit 139; 24: bits 38–39; 25/26: bits 38, 39), provided the
payload is long enough to contain them. -/
theorem C01_select (bits : Bits) (h6 : 6 ≤ bits.length)
    (h40 : toNat (bits.take 6) ∈ [24, 25, 26] → 40 ≤ bits.length)
    (h140 : toNat (bits.take 6) = 22 → 140 ≤ bits.length) :
    (match Generated.env.msgClass.lookup (getInt bits 0 6) with
     | some c => resolveDecode Generated.env c bits
     | none => .error .unknownMessage) = select bits := by
  have hget : getInt bits 0 6 = toNat (bits.take 6) := by
    rw [getInt_eq bits 0 6 h6 (by omega)]; simp
  have ht64 : toNat (bits.take 6) < 64 := by
    have := toNat_lt (bits.take 6)
    rw [List.length_take, Nat.min_eq_left h6] at this
    exact this
  rw [hget, msgClass_lookup _ ht64]
  simp only [select]
  generalize toNat (bits.take 6) = t at *
  by_cases c0 : t = 0
  · subst c0
    simp only [classOfType, if_true]
    rw [resolve_eq]
    rfl
  by_cases c22 : t = 22
  · subst c22
    have hl := h140 rfl
    have hc : classOfType 22 = some "MessageType22" := by decide
    simp only [hc]
    rw [resolve_eq]
    have hlk : expectedDecodeTrees.lookup "MessageType22" = some (.ite (.bits 139 140)
        (.leaf "MessageType22Addressed") (.leaf "MessageType22Broadcast")) := by decide
    simp only [hlk, Tree.run, Test.evalBits, getInt_bit bits 139 140 rfl hl, bne_zero_bit]
    rcases bitAt_cases bits 139 with h | h <;> simp [h, bind, Except.bind]
  by_cases c24 : t = 24
  · subst c24
    have hl := h40 (by simp)
    have hc : classOfType 24 = some "MessageType24" := by decide
    simp only [hc]
    rw [resolve_eq]
    have hlk : expectedDecodeTrees.lookup "MessageType24" = some (.ite (.bitsEq 38 40 0)
        (.leaf "MessageType24PartA")
        (.ite (.bitsEq 38 40 1) (.leaf "MessageType24PartB") (.raise .unknownPartNo))) := by decide
    simp only [hlk, Tree.run, Test.evalBits, getInt_eq bits 38 40 hl (by omega)]
    generalize toNat ((bits.drop 38).take (40 - 38)) = p
    by_cases p0 : p = 0
    · simp [p0, bind, Except.bind]
    · by_cases p1 : p = 1
      · simp [p1, bind, Except.bind]
      · have e0 : ((p : Int) == 0) = false := by simp; omega
        have e1 : ((p : Int) == 1) = false := by simp; omega
        simp [p0, p1, e0, e1, bind, Except.bind]
  by_cases c25 : t = 25
  · subst c25
    have hl := h40 (by simp)
    have hc : classOfType 25 = some "MessageType25" := by decide
    simp only [hc]
    rw [resolve_eq]
    have hlk : expectedDecodeTrees.lookup "MessageType25" = some (.ite (.bits 38 39)
      (.ite (.bits 39 40) (.leaf "MessageType25AddressedStructured") (.leaf "MessageType25AddressedUnstructured"))
      (.ite (.bits 39 40) (.leaf "MessageType25BroadcastStructured") (.leaf "MessageType25BroadcastUnstructured"))) := by
      decide
    simp only [hlk, Tree.run, Test.evalBits, getInt_bit bits 38 39 rfl (by omega),
      getInt_bit bits 39 40 rfl hl, bne_zero_bit]
    rcases bitAt_cases bits 38 with h | h <;> rcases bitAt_cases bits 39 with h' | h' <;>
      simp [h, h', bind, Except.bind]
  by_cases c26 : t = 26
  · subst c26
    have hl := h40 (by simp)
    have hc : classOfType 26 = some "MessageType26" := by decide
    simp only [hc]
    rw [resolve_eq]
    have hlk : expectedDecodeTrees.lookup "MessageType26" = some (.ite (.bits 38 39)
      (.ite (.bits 39 40) (.leaf "MessageType26AddressedStructured") (.leaf "MessageType26AddressedUnstructured"))
      (.ite (.bits 39 40) (.leaf "MessageType26BroadcastStructured") (.leaf "MessageType26BroadcastUnstructured"))) := by
      decide
    simp only [hlk, Tree.run, Test.evalBits, getInt_bit bits 38 39 rfl (by omega),
      getInt_bit bits 39 40 rfl hl, bne_zero_bit]
    rcases bitAt_cases bits 38 with h | h <;> rcases bitAt_cases bits 39 with h' | h' <;>
      simp [h, h', bind, Except.bind]
  by_cases c27 : 1 ≤ t ∧ t ≤ 27
  · have hc : classOfType t = some ("MessageType" ++ toString t) := by
      simp [classOfType, c0, c27]
    simp only [hc, c0, c22, c24, c25, c26, c27, if_false, if_true, and_self]
    exact resolve_plain t c27.2 c0 c22 c24 c25 c26 bits
  · have hc : classOfType t = none := by
      simp [classOfType, c0, c27]
    simp only [hc, c0, c22, c24, c25, c26, c27, if_false]


/-! ### putting the two parts together -/

/-- `decodeBits` is the class selection followed by the table-driven decode -/
theorem decodeBits_eq (bits : Bits) :
    decodeBits Generated.env bits =
      (match Generated.env.msgClass.lookup (getInt bits 0 6) with
       | some c => resolveDecode Generated.env c bits
       | none => .error .unknownMessage) >>= fun c =>
        match Generated.env.classes.lookup c with
        | some fs => do
          let kv ← seqDecode Generated.env bits 0 fs
          .ok { cls := c, fields := kv }
        | none => .error .outsideModel := by
  unfold decodeBits
  simp only []
  cases Generated.env.msgClass.lookup (getInt bits 0 6) with
  | none => rfl
  | some c => rfl

/-- every layout has at least 72 bits, the type-22 layouts at least 140 -/
theorem layouts_len_fin :
    (layouts.all fun (c, L) => decide (72 ≤ totalWidth L) &&
      (!(c == "MessageType22Addressed" || c == "MessageType22Broadcast") ||
        decide (140 ≤ totalWidth L))) = true := by
  decide +kernel

theorem select_22 (bits : Bits) (cls : String) (h : toNat (bits.take 6) = 22)
    (hsel : select bits = .ok cls) :
    cls = "MessageType22Addressed" ∨ cls = "MessageType22Broadcast" := by
  simp only [select, h] at hsel
  simp only [show ¬ (22 = 0) by decide, if_false, if_true] at hsel
  split at hsel
  · left; injection hsel with h; exact h.symm
  · right; injection hsel with h; exact h.symm

/-- **C01.** Every payload of nominal length of the layout its own bits select decodes to a message
of that layout's class whose fields are what the standard assigns. -/
theorem C01_decode_matches_layout (bits : Bits) (cls : String) (L : List LField)
    (hsel : select bits = .ok cls) (hL : (cls, L) ∈ layouts) (hlen : bits.length = totalWidth L)
    (hpad : TextPaddingZero L bits) :
    ∃ m, decodeBits Generated.env bits = .ok m ∧ m.cls = cls ∧ Agrees E.membersOf L bits m.fields := by
  have hfin := List.all_eq_true.mp layouts_len_fin (cls, L) hL
  simp only [Bool.and_eq_true, decide_eq_true_eq, Bool.or_eq_true, Bool.not_eq_true',
    Bool.or_eq_false_iff, beq_eq_false_iff_ne] at hfin
  obtain ⟨h72, h22⟩ := hfin
  have hselect := C01_select bits (by omega) (fun _ => by omega) (fun h => by
    rcases h22 with h22 | h22
    · rcases select_22 bits cls h hsel with hc | hc
      · exact absurd hc h22.1
      · exact absurd hc h22.2
    · omega)
  obtain ⟨fs, kv, hfs, hkv, hag⟩ := C01_fields cls L hL bits hlen hpad
  have hcl : Generated.env.classes.lookup cls = some fs := hfs
  refine ⟨({ cls := cls, fields := kv } : Msg), ?_, rfl, hag⟩
  rw [decodeBits_eq, hselect, hsel]
  simp only [bind, Except.bind, hcl, hkv]

/-- unsupported types and part numbers are rejected with the library's own exceptions -/
theorem C01_rejects (bits : Bits) (e : Err) (h6 : 6 ≤ bits.length)
    (h40 : toNat (bits.take 6) ∈ [24, 25, 26] → 40 ≤ bits.length)
    (h140 : toNat (bits.take 6) = 22 → 140 ≤ bits.length)
    (hsel : select bits = .error e) : decodeBits Generated.env bits = .error e := by
  rw [decodeBits_eq, C01_select bits h6 h40 h140, hsel]
  rfl

/-- non-vacuity: a type-1 payload of 168 bits with a negative longitude selects `MessageType1`, has
the nominal length, and (type 1 has no text fields) satisfies the padding condition -/
example :
    (match select (ofNat 6 1 ++ ofNat 55 0 ++ ofNat 28 (2^28 - 73404971) ++ ofNat 79 0) with
      | .ok c => c == "MessageType1"
      | .error _ => false) = true ∧
    (ofNat 6 1 ++ ofNat 55 0 ++ ofNat 28 (2^28 - 73404971) ++ ofNat 79 0).length
      = totalWidth L_MessageType1 := by
  decide +kernel

example (bits : Bits) : TextPaddingZero L_MessageType1 bits := by
  intro p hp hk
  simp [L_MessageType1, offsets] at hp
  rcases hp with rfl | rfl | rfl | rfl | rfl | rfl | rfl | rfl | rfl | rfl | rfl | rfl | rfl | rfl | rfl | rfl <;>
    simp at hk

#print axioms translator_complete
#print axioms tables_ok
#print axioms tables_match_layouts
#print axioms layouts_wellformed
#print axioms msgClass_expected
#print axioms decodeTrees_expected
#print axioms C01_fields
#print axioms C01_select
#print axioms C01_decode_matches_layout
#print axioms C01_rejects
end C01
