import PyaisVerif.Lemmas.Readers
import PyaisVerif.Generated.Consts
/-!
# C18 — a Gatehouse wrapper is attached to the next delivered message only

Stated for the stream loop; by `streamStep_eq_queueStep` the `NMEAQueue` behaves identically.
-/
namespace C18
open Model Py

abbrev K : NmeaConsts := { maxFragCnt := Generated.MAX_FRAG_CNT, maxPayloadLen := Generated.MAX_PAYLOAD_LEN }
abbrev AKS : AsmConsts := { nmea := K, bufSize := Generated.STREAM_BUF_SIZE, tagCodes := Generated.TAG_FIELD_CODES }

/-- does this line parse as a (valid) wrapper sentence? -/
def isWrapper (l : Bytes) : Bool :=
  match produce K l with
  | .ok s => s.gh.isSome
  | .error _ => false

/-- the pending wrapper after a run of lines none of which delivers: the last valid wrapper line's
fields, or what was pending before -/
def lastWrapper (pending : Option GH) (lines : List Bytes) : Option GH :=
  lines.foldl (fun p l => match produce K l with
    | .ok s => (match s.gh with | some g => some g | none => p)
    | .error _ => p) pending

theorem lastWrapper_cons (p : Option GH) (l : Bytes) (ls : List Bytes) :
    lastWrapper p (l :: ls) =
      lastWrapper (match produce K l with
        | .ok s => (match s.gh with | some g => some g | none => p)
        | .error _ => p) ls := rfl

/-- **Pending wrapper.** Along any stretch of lines on which nothing is delivered, the pending
wrapper is the latest valid wrapper line of the stretch (or what was pending before it); invalid
wrapper lines leave it alone. -/
theorem C18_pending (st : AsmState) (hc : st.crash = none) (htbq : st.tbq = none) (lines : List Bytes)
    (hnodel : deliveriesOf (runLoop (streamStep AKS) st lines) = [])
    (hok : (runLoop (streamStep AKS) st lines).1.crash = none) :
    (runLoop (streamStep AKS) st lines).1.wrapper = lastWrapper st.wrapper lines := by
  induction lines generalizing st with
  | nil => rfl
  | cons l ls ih =>
    rw [deliveriesOf_cons, List.append_eq_nil_iff] at hnodel
    obtain ⟨hd1, hd2⟩ := hnodel
    rw [runLoop_cons] at hok ⊢
    simp only at hok ⊢
    have hc1 : (streamStep AKS st l).1.crash = none := by
      cases hcr : (streamStep AKS st l).1.crash with
      | none => rfl
      | some e =>
        rw [runLoop_crashed AKS _ ls (by simp [hcr]), hcr] at hok
        cases hok
    have htbq1 := streamStep_tbq_none AKS st l htbq
    rw [ih _ hc1 htbq1 hd2 hok, lastWrapper_cons]
    congr 1
    cases hp : produce K l with
    | error e => simp only; rw [streamStep_error AKS st l e hp]
    | ok s =>
      simp only
      cases hg : s.gh with
      | some g => simp only; rw [streamStep_wrapper AKS st l s g hp hg htbq hc]
      | none =>
        simp only
        have hnotgh : ∀ s', produce AKS.nmea l = .ok s' → s'.gh = none := by
          intro s' hs'
          rw [hp] at hs'
          cases hs'
          exact hg
        rcases streamStep_keeps_wrapper AKS st l hnotgh hd1 with h | h
        · exact h
        · rw [hc1] at h; cases h

/-- **Attachment.** A delivered message (single or assembled) carries exactly the wrapper pending
at that moment, and afterwards no wrapper is pending: each wrapper is attached to at most one
message, the first one delivered after it; a message not preceded by a wrapper since the previous
delivery has none. -/
theorem C18_attach (st : AsmState) (hc : st.crash = none) (hb : BufOK AKS.bufSize st) (line : Bytes) (d : Sentence)
    (hd : d ∈ (streamStep AKS st line).2.delivered) :
    (streamStep AKS st line).2.delivered = [d] ∧ d.wrapper = st.wrapper ∧
    (streamStep AKS st line).1.wrapper = none :=
  streamStep_delivers AKS st line d hc hb hd

/-- the queue does the same -/
theorem C18_queue (k : AsmConsts) (st : AsmState) (line : Bytes) :
    queueStep k st line = streamStep k st line :=
  (streamStep_eq_queueStep k st line).symm

/-- **Wrapper fields** are those of the wrapper line, and only calendar-valid dates are accepted. -/
theorem C18_fields (raw : Bytes) (s : Sentence) (h : ghInit raw = .ok s) :
    ∃ g, s.gh = some g ∧ g.raw = raw ∧
      (s.dataFields[1]?.bind pyInt10 = g.ts[0]?) ∧ (s.dataFields[2]?.bind pyInt10 = g.ts[1]?) ∧
      (s.dataFields[3]?.bind pyInt10 = g.ts[2]?) ∧ (s.dataFields[4]?.bind pyInt10 = g.ts[3]?) ∧
      (s.dataFields[5]?.bind pyInt10 = g.ts[4]?) ∧ (s.dataFields[6]?.bind pyInt10 = g.ts[5]?) ∧
      ((s.dataFields[7]?.bind pyInt10).map (· * 1000) = g.ts[6]?) ∧
      s.dataFields[8]? = some g.country ∧ s.dataFields[9]? = some g.region ∧ s.dataFields[10]? = some g.pss ∧
      s.dataFields[11]?.bind pyInt10 = some g.online ∧
      (match g.ts with
       | [y, mo, d, hh, mi, sec, us] => datetimeOk y mo d hh mi sec us = true
       | _ => False) := by
  obtain ⟨g, h1, h2, _, _, rest⟩ := ghInit_fields raw s h
  exact ⟨g, h1, h2, rest⟩

/-- non-vacuity: wrapper, fragment, fragment, single — the wrapper goes to the assembled message,
the later single message has none; 30 February is rejected -/
example :
    isWrapper (strBytes "$PGHP,1,2020,2,29,3,4,5,6,219,219000001,219000002,1,6D*6F") = true ∧
    isWrapper (strBytes "$PGHP,1,2021,2,29,3,4,5,6,219,219000001,219000002,1,6D*6E") = false := by
  decide +kernel

#print axioms C18_pending
#print axioms C18_attach
#print axioms C18_queue
#print axioms C18_fields
end C18
