import PyaisVerif.Lemmas.Checksum
import PyaisVerif.Generated.Consts
/-!
# C10 — the checksum flag is true exactly when the NMEA checksum matches

The statements are about the sentence-layer model (`Model/Nmea.lean`, `Model/Assemble.lean`), which
follows `NMEASentence.__init__`, `chk_to_int`, `compute_checksum`, `assemble_from_iterable` and
`decode._assemble_messages`; they hold for **every** body, every position, every replacement byte.
-/
namespace C10
open Model Py

abbrev K : NmeaConsts := { maxFragCnt := Generated.MAX_FRAG_CNT, maxPayloadLen := Generated.MAX_PAYLOAD_LEN }

/-- **Flag iff match.** A parsed sentence `d body*HH` is flagged valid iff the two hex digits equal
the XOR of all bytes between the start delimiter and `*`. -/
theorem C10_flag (d : Byte) (body : Bytes) (x : Nat)
    (hd : d ≠ STAR ∧ d ≠ BACKSLASH ∧ isSpace d = false) (hb : STAR ∉ body) (hx : x < 256)
    (s : Sentence) (h : produce K ([d] ++ body ++ [STAR] ++ hex2 x) = .ok s) :
    s.isValid = decide (x = xorAll body) :=
  produce_flag K d body x hd hb hx s h

/-- **General form** (any line that `NMEASentence.__init__` accepts, including odd checksum fields
such as `+1B`, `0x1b`, ` 1B`, one or three digits): the flag is "the number read from the last comma
field after `*` equals the XOR of the bytes between the first byte and the first `*`". -/
theorem C10_general (raw : Bytes) (s : Sentence) (h : nmeaInit raw = .ok s) :
    s.isValid = ((chkToInt ((split COMMA raw).getLastD [])).2 == (xorAll (checksumBody raw) : Int)) :=
  (nmeaInit_valid raw s h).1

/-- **Assembled messages** are valid iff all their parts are. -/
theorem C10_assembled (ps : List Sentence) (s : Sentence) (h : assemble ps = some s) :
    s.isValid = ps.all (·.isValid) :=
  assemble_valid ps s h

/-- **Strict mode** raises the checksum error exactly for inputs containing an invalid part and
otherwise returns what lenient decoding returns (all arguments parse). -/
theorem C10_strict (args : List Bytes) (ss : List Sentence)
    (hparse : args.map (produce K) = ss.map .ok) :
    oneShotAssemble K true args =
      if ss.all (·.isValid) then oneShotAssemble K false args else .error .invalidNMEAChecksum := by
  unfold oneShotAssemble
  rw [oneShotCollect_strict K args ss hparse]
  cases ss.all (·.isValid) <;> simp

/-- **Single-byte corruption**: replacing any one body byte of a correctly check-summed sentence by
any other byte that is not `*` gives a line that is either rejected or flagged invalid. -/
theorem C10_single_byte (d : Byte) (pre post : Bytes) (b b' : Byte)
    (hd : d ≠ STAR ∧ d ≠ BACKSLASH ∧ isSpace d = false)
    (hpre : STAR ∉ pre) (hpost : STAR ∉ post) (hne : b ≠ b') (hs : b' ≠ STAR)
    (hbytes : ∀ c ∈ pre ++ [b] ++ post, c < 256)
    (s : Sentence)
    (h : produce K ([d] ++ (pre ++ [b'] ++ post) ++ [STAR] ++ hex2 (xorAll (pre ++ [b] ++ post))) = .ok s) :
    s.isValid = false := by
  have hx : xorAll (pre ++ [b] ++ post) < 256 := xorAll_lt _ hbytes
  have hb : STAR ∉ pre ++ [b'] ++ post := by
    intro hm
    simp only [List.mem_append, List.mem_singleton] at hm
    rcases hm with (hm | hm) | hm
    · exact hpre hm
    · exact hs hm.symm
    · exact hpost hm
  rw [produce_flag K d (pre ++ [b'] ++ post) _ hd hb hx s h]
  have hne' := xorAll_subst_ne pre post b b' hne
  simp only [List.append_assoc, List.singleton_append]
  exact decide_eq_false hne'

/-- non-vacuity: a real sentence parses, is of the stated form and is flagged valid -/
example :
    (match produce K (strBytes "!AIVDM,1,1,,B,15M67FC000G?ufbE`FepT@3n00Sa,0*5C") with
     | .ok s => s.isValid
     | .error _ => false) = true := by decide +kernel
example : xorAll (strBytes "AIVDM,1,1,,B,15M67FC000G?ufbE`FepT@3n00Sa,0") = 0x5C ∧
    strBytes "!AIVDM,1,1,,B,15M67FC000G?ufbE`FepT@3n00Sa,0*5C"
      = [33] ++ strBytes "AIVDM,1,1,,B,15M67FC000G?ufbE`FepT@3n00Sa,0" ++ [STAR] ++ hex2 0x5C := by
  decide +kernel

#print axioms C10_flag
#print axioms C10_general
#print axioms C10_assembled
#print axioms C10_strict
#print axioms C10_single_byte
end C10
