import PyaisVerif.Py.Basic
import PyaisVerif.Model.Bits
/-!
# The table-driven payload codec (`Payload.from_bitarray`, `to_bitarray`, `create`)

Hand-written and faithful to the code path in `pyais/messages.py`.  Everything that is *data* in the
source (field tables, `MSG_CLASS`, variant dispatch, converters, enum tables) is a parameter (`Env`,
`Field`); `Generated/Tables.lean` supplies the values read from the current source on every run.
-/
namespace Model
open Py

inductive DType | int | bool | float | str | bytes
  deriving DecidableEq, Repr, Inhabited

/-- A Python value as it appears in a decoded message / in `create(**kwargs)`.
`flt m` is the float whose exact decimal value is `m · 10⁻⁶` (every float the codec produces is a
decimal with at most six places, DESIGN §3).  `enum cls v` is a member of the `IntEnum`-like class
`cls` (or of the float enum `TurnRate`) with integral value `v`. -/
inductive Val
  | none
  | int (i : Int)
  | bool (b : Bool)
  | flt (micro : Int)
  | str (s : List Nat)
  | bytes (bs : List Nat)
  | enum (cls : String) (v : Int)
  deriving DecidableEq, Repr, Inhabited

/-- Converter functions attached to a field.  The translator recognises the shapes used in
`messages.py` and emits them with their constants; tabulated converters (enums, `to_turn`,
`from_turn`) refer to a table in the environment. -/
inductive Conv
  | none
  | int                         -- `int(v)`                       (from_mmsi)
  | divK (k : Nat)              -- `v / k.0`                      (to_speed, to_10th)
  | mulK (k : Nat)              -- `v * k.0`, `float(v) * k.0`    (from_speed, from_10th)
  | divRound (k places : Nat)   -- `round(float(v) / k.0, places)`(to_lat_lon, to_lat_lon_600)
  | mulRound (k : Nat)          -- `round(float(v) * k.0)`        (from_lat_lon, from_lat_lon_600)
  | table (name : String)       -- tabulated over the whole raw domain by the translator
  deriving DecidableEq, Repr, Inhabited

structure Field where
  name : String
  width : Nat
  dtype : DType
  signed : Bool := false
  varlen : Bool := false
  default : Val := .none
  fromConv : Conv := .none      -- applied before encoding
  toConv : Conv := .none        -- applied after decoding
  attrConv : Conv := .none      -- attrs-level `converter=` (applied at construction)
  deriving DecidableEq, Repr, Inhabited

/-- decision trees of the variant dispatchers (types 22, 24, 25, 26) -/
inductive Test
  | bits (lo hi : Nat)                          -- `get_int(bit_arr, lo, hi)`            (truthiness)
  | bitsEq (lo hi : Nat) (c : Int)              -- `get_int(bit_arr, lo, hi) == c`
  | kw (key : String)                           -- `kwargs.get(key, False)`              (truthiness)
  | kwIntEq (key : String) (dflt : Int) (c : Int) -- `int(kwargs.get(key, dflt)) == c`
  deriving DecidableEq, Repr, Inhabited

inductive Tree
  | leaf (cls : String)
  | raise (e : Err)
  | ite (t : Test) (thn els : Tree)             -- `if <t>: … else: …`
  deriving DecidableEq, Repr, Inhabited

structure Env where
  classes : List (String × List Field)
  msgClass : List (Nat × String)
  decodeTrees : List (String × Tree)
  createTrees : List (String × Tree)
  convTables : List (String × List (Int × Val))
  deriving Inhabited

structure Msg where
  cls : String
  fields : List (String × Val)
  deriving DecidableEq, Repr, Inhabited

def Msg.get (m : Msg) (k : String) : Val :=
  match m.fields.lookup k with
  | some v => v
  | Option.none => .none

/-! ## rounding helpers (exact arithmetic) -/

/-- Python `round()` (half to even) of the rational `p / q`, `q > 0`. -/
def roundHalfEvenDiv (p : Int) (q : Int) : Int :=
  let f := p / q
  let r := p % q
  if 2 * r < q then f
  else if 2 * r > q then f + 1
  else if f % 2 = 0 then f else f + 1

/-- Python `int()` of the rational `p / q` (`q > 0`): truncation toward zero. -/
def truncDiv (p : Int) (q : Int) : Int := Int.tdiv p q

def MICRO : Int := 1000000

/-! ## converters -/

/-- the integer key of a value for a tabulated converter -/
def Val.key : Val → Option Int
  | .int i => some i
  | .bool b => some (if b then 1 else 0)
  | .enum _ v => some v
  | .flt m => if m % MICRO = 0 then some (m / MICRO) else Option.none
  | _ => Option.none

/-- value in micro-units of a numeric value -/
def Val.micro : Val → Option Int
  | .int i => some (i * MICRO)
  | .bool b => some (if b then MICRO else 0)
  | .enum _ v => some (v * MICRO)
  | .flt m => some m
  | _ => Option.none

def applyConv (env : Env) (c : Conv) (v : Val) : Except Err Val :=
  match c with
  | .none => .ok v
  | .int =>
    match v with
    | .int i => .ok (.int i)
    | .bool b => .ok (.int (if b then 1 else 0))
    | .enum _ i => .ok (.int i)
    | .flt m => .ok (.int (truncDiv m MICRO))
    | .str s => match pyInt10 s with
      | some i => .ok (.int i)
      | Option.none => .error .valueError
    | _ => .error .typeError
  | .divK k =>
    match v.micro with
    | some m => if k = 0 then .error .outsideModel
                else if m % k = 0 then .ok (.flt (m / k)) else .error .outsideModel
    | Option.none => .error .typeError
  | .mulK k =>
    match v.micro with
    | some m => .ok (.flt (m * k))
    | Option.none => .error .typeError
  | .divRound k places =>
    match v.micro with
    | some m =>
      if k = 0 ∨ places > 6 then .error .outsideModel
      else
        let u : Int := 10 ^ (6 - places)
        .ok (.flt (roundHalfEvenDiv m (k * u) * u))
    | Option.none => .error .typeError
  | .mulRound k =>
    match v.micro with
    | some m => .ok (.int (roundHalfEvenDiv (m * k) MICRO))
    | Option.none => .error .typeError
  | .table name =>
    match env.convTables.lookup name, v.key with
    | some tbl, some i =>
      match tbl.lookup i with
      | some r => .ok r
      | Option.none => .error .outsideModel
    | _, _ => .error .outsideModel

/-! ## six-bit text -/

/-- `decode_bin_as_ascii6`: characters until the first `@` (value 64 after the `+0x40` step);
returns the characters before `strip()`. -/
def ascii6Chars : List Bits → List Nat
  | [] => []
  | c :: cs =>
    -- `from_bytes(c.tobytes()) >> 2`: the chunk left-aligned in 8 bits, shifted right by two
    let n := fromBytes c >>> 2
    let n := if n < 0x20 then n + 0x40 else n
    if n = 64 then [] else n :: ascii6Chars cs

def decodeAscii6 (bits : Bits) : List Nat := strip (ascii6Chars (chunks 6 bits))

/-! ## decoding -/

/-- one field of `from_bitarray`, given the slice `bit_arr[cur:end]` -/
def decodeRaw (f : Field) (bits : Bits) : Val :=
  let shift := padLen bits.length
  match f.dtype with
  | .int | .bool | .float =>
    let raw : Int :=
      if f.signed then fromBytesSigned bits >>> shift else ((fromBytes bits >>> shift : Nat) : Int)
    match f.dtype with
    | .float => .flt (raw * MICRO)
    | .bool => .bool (raw != 0)
    | _ => .int raw
  | .str => .str (decodeAscii6 bits)
  | .bytes => .bytes (toBytes bits)

def decodeField (env : Env) (f : Field) (bits : Bits) : Except Err Val := do
  let v ← applyConv env f.toConv (decodeRaw f bits)
  applyConv env f.attrConv v

/-- the cursor loop of `Payload.from_bitarray` -/
def seqDecode (env : Env) (bits : Bits) : Nat → List Field → Except Err (List (String × Val))
  | _, [] => .ok []
  | cur, f :: fs =>
    if cur ≥ bits.length then do
      let rest ← seqDecode env bits cur fs
      .ok ((f.name, .none) :: rest)
    else do
      let e := min bits.length (cur + f.width)
      let v ← decodeField env f ((bits.drop cur).take (e - cur))
      let rest ← seqDecode env bits e fs
      .ok ((f.name, v) :: rest)

/-- the value of a test on a payload (decode side) -/
def Test.evalBits (bits : Bits) : Test → Bool
  | .bits lo hi => getInt bits lo hi != 0
  | .bitsEq lo hi c => ((getInt bits lo hi : Nat) : Int) == c
  | _ => false

def kwGet (kw : List (String × Val)) (k : String) : Option Val := kw.lookup k

def Val.truthy : Val → Bool
  | .none => false
  | .int i => i != 0
  | .bool b => b
  | .flt m => m != 0
  | .str s => !s.isEmpty
  | .bytes b => !b.isEmpty
  | .enum _ v => v != 0

/-- `int(v)` on an arbitrary kwarg value -/
def Val.toInt? : Val → Except Err Int
  | .int i => .ok i
  | .bool b => .ok (if b then 1 else 0)
  | .enum _ v => .ok v
  | .flt m => .ok (truncDiv m MICRO)
  | .str s => match pyInt10 s with
    | some i => .ok i
    | Option.none => .error .valueError
  | _ => .error .typeError

def Test.evalKw (kw : List (String × Val)) : Test → Except Err Bool
  | .kw key => match kwGet kw key with
    | some v => .ok v.truthy
    | Option.none => .ok false
  | .kwIntEq key d c => match kwGet kw key with
    | some v => do
      let i ← v.toInt?
      .ok (i == c)
    | Option.none => .ok (d == c)
  | _ => .ok false

def Tree.run (evalT : Test → Except Err Bool) : Tree → Except Err String
  | .leaf c => .ok c
  | .raise e => .error e
  | .ite t a b => do
    let v ← evalT t
    if v then a.run evalT else b.run evalT

/-- resolve a class name (possibly a dispatcher) to a concrete class on the decode side -/
def resolveDecode (env : Env) (cls : String) (bits : Bits) : Except Err String :=
  match env.decodeTrees.lookup cls with
  | some tr => tr.run (fun t => .ok (t.evalBits bits))
  | Option.none => .ok cls

/-- `X.from_bitarray(bits)` for a class name from `MSG_CLASS` -/
def fromBitarray (env : Env) (cls : String) (bits : Bits) : Except Err Msg := do
  let c ← resolveDecode env cls bits
  match env.classes.lookup c with
  | some fs => do
    let kv ← seqDecode env bits 0 fs
    .ok { cls := c, fields := kv }
  | Option.none => .error .outsideModel

/-- `MSG_CLASS[ais_id].from_bitarray(bit_array)` with the `KeyError → UnknownMessageException`
translation of `AISSentence.decode` (the empty-payload test lives in the sentence model). -/
def decodeBits (env : Env) (bits : Bits) : Except Err Msg :=
  let id := getInt bits 0 6
  match env.msgClass.lookup id with
  | some cls => fromBitarray env cls bits
  | Option.none => .error .unknownMessage

/-! ## encoding -/

/-- `int_to_bin(val, width, signed)` -/
def intToBin (val : Int) (w : Nat) (signed : Bool) : Except Err Bits :=
  if val ≥ 2 ^ w - 1 then .ok (ones w)
  else
    let nb := (w + 7) / 8
    if signed then
      if - (2:Int) ^ (8 * nb - 1) ≤ val ∧ val < 2 ^ (8 * nb - 1) then
        .ok ((ofInt (8 * nb) val).drop (8 * nb - w))
      else .error .overflowError
    else
      if val < 0 then .error .overflowError
      else .ok ((ofNat (8 * nb) val.toNat).drop (8 * nb - w))

/-- `SIX_BIT_ENCODING[char.upper()]` for ASCII input: `@A–Z[\]^_` ↦ 0–31, space … `?` ↦ 32–63 -/
def sixBitOf (c : Nat) : Option Nat :=
  let c := if 97 ≤ c ∧ c ≤ 122 then c - 32 else c
  if 64 ≤ c ∧ c ≤ 95 then some (c - 64)
  else if 32 ≤ c ∧ c ≤ 63 then some c
  else Option.none

/-- `str_to_bin(val, width, trailing_spaces)` -/
def strToBin (val : List Nat) (w : Nat) (trailing : Bool) : Except Err Bits :=
  let numChars := w / 6
  let val := if trailing then val ++ List.replicate (numChars - val.length) 64 else val
  (val.take numChars).foldlM (init := []) fun acc c =>
    match sixBitOf c with
    | some v => .ok (acc ++ ofNat 6 v)
    | Option.none => .error .valueError

/-- one field of `to_bitarray` for a non-`None` value -/
def encodeField (env : Env) (f : Field) (v : Val) : Except Err Bits := do
  let v ← applyConv env f.fromConv v
  let bits ← match f.dtype with
    | .int | .bool =>
      match v with
      | .int i => intToBin i f.width f.signed
      | .bool b => intToBin (if b then 1 else 0) f.width f.signed
      | .enum _ i => intToBin i f.width f.signed
      | _ => .error .outsideModel
    | .float =>
      match v.micro with
      | some m => intToBin (truncDiv m MICRO) f.width f.signed
      | Option.none => .error .typeError
    | .str =>
      match v with
      | .str s => strToBin s f.width (!f.varlen)
      | _ => .error .outsideModel
    | .bytes =>
      match v with
      | .bytes bs => .ok (if bs.isEmpty then (if f.varlen then [] else zeros f.width) else ofBytes bs)
      | _ => .error .outsideModel
  .ok (bits.take f.width)

/-- `Payload.to_bitarray` -/
def toBitarray (env : Env) (fs : List Field) (m : Msg) : Except Err Bits :=
  fs.foldlM (init := []) fun acc f =>
    match m.get f.name with
    | .none => .ok acc
    | v => do
      let b ← encodeField env f v
      .ok (acc ++ b)

/-- `coerce_val(val, d_type)` inside `__force_type` (a modelled subset; see DESIGN Appendix C) -/
def forceType (f : Field) (v : Val) : Except Err Val :=
  match f.dtype, v with
  | _, .none => .ok .none
  | .int, .int i => .ok (.int i)
  | .int, .bool b => .ok (.bool b)          -- isinstance(True, int)
  | .int, .enum c i => .ok (.enum c i)      -- IntEnum is an int
  | .int, .flt m => .ok (.int (truncDiv m MICRO))
  | .int, .str s => match pyInt10 s with
    | some i => .ok (.int i)
    | Option.none => .error .valueError
  | .int, .bytes s => match pyInt10 s with
    | some i => .ok (.int i)
    | Option.none => .error .valueError
  | .bool, .bool b => .ok (.bool b)
  | .bool, v => .ok (.bool v.truthy)
  | .float, .flt m => .ok (.flt m)
  | .float, .int i => .ok (.flt (i * MICRO))
  | .float, .bool b => .ok (.flt (if b then MICRO else 0))
  | .float, .enum c i => if c = "TurnRate" then .ok (.enum c i) else .ok (.flt (i * MICRO))
  | .float, _ => .error .outsideModel
  | .str, .str s => .ok (.str s)
  | .str, .int i => .ok (.str (intToDec i))
  | .str, _ => .error .outsideModel
  | .bytes, .bytes b => .ok (.bytes b)
  | .bytes, _ => .error .valueError

/-- one field of `Payload.create(**kwargs)`: the given value (coerced) or the table default -/
def createStep (env : Env) (kw : List (String × Val)) (acc : List (String × Val)) (f : Field) :
    Except Err (List (String × Val)) :=
  match kwGet kw f.name with
  | some v => do
    let v ← forceType f v
    let v ← applyConv env f.attrConv v
    .ok (acc ++ [(f.name, v)])
  | Option.none =>
    match f.default with
    | .none => .error .typeError        -- `cls(**args)`: missing required argument
    | d => do
      let d ← applyConv env f.attrConv d
      .ok (acc ++ [(f.name, d)])

/-- `Payload.create(**kwargs)` for a concrete class -/
def createConcrete (env : Env) (c : String) (fs : List Field) (kw : List (String × Val)) :
    Except Err Msg := do
  let kv ← fs.foldlM (init := []) (createStep env kw)
  .ok { cls := c, fields := kv }

def create (env : Env) (cls : String) (kw : List (String × Val)) : Except Err Msg := do
  let c ← match env.createTrees.lookup cls with
    | some tr => tr.run (fun t => t.evalKw kw)
    | Option.none => .ok cls
  match env.classes.lookup c with
  | some fs => createConcrete env c fs kw
  | Option.none => .error .outsideModel

/-- `msg.to_bitarray()` for a message of a concrete class -/
def msgToBits (env : Env) (m : Msg) : Except Err Bits :=
  match env.classes.lookup m.cls with
  | some fs => toBitarray env fs m
  | Option.none => .error .outsideModel

end Model

namespace Model
/-- compact form of an all-integer converter table over consecutive keys (used by the generated
tables for big domains) -/
def mkIntTable (start : Int) (vals : List Int) : List (Int × Val) :=
  vals.mapIdx fun i v => (start + (i : Int), Val.int v)
end Model
