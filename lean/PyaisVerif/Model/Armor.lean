import PyaisVerif.Py.Basic
import PyaisVerif.Model.Bits
/-!
# AIVDM payload armoring (`util.decode_into_bit_array`, `util.encode_ascii_6`)
-/
namespace Model
open Py

/-- six-bit value of an armoring character as computed by `decode_into_bit_array`
(every byte 0x20–0x7e is accepted, the value is taken modulo 64) -/
def dearmorChar (c : Nat) : Nat :=
  -- `c -= 0x30 if c < 0x60 else 0x38; c &= 0x3f` on Python ints (two's complement `&`)
  let v : Int := if c < 0x60 then (c : Int) - 0x30 else (c : Int) - 0x38
  (v % 64).toNat

/-- `f'{c:b}'.zfill(n)`: binary digits without leading zeros (at least one digit), left-padded with
zeros to at least `n` characters -/
def binDigitsAux : Nat → Nat → Bits → Bits
  | 0, _, acc => acc
  | fuel+1, n, acc =>
    if n < 2 then (n == 1) :: acc else binDigitsAux fuel (n / 2) ((n % 2 == 1) :: acc)
def binDigits (n : Nat) : Bits := binDigitsAux (n + 1) n []
def zfill (bs : Bits) (n : Nat) : Bits := zeros (n - bs.length) ++ bs

/-- `decode_into_bit_array(data, fill_bits)`; `fill_bits` is whatever `chk_to_int` returned
(a negative count is a `ValueError` from `>>`, a huge one an `OverflowError` from `zfill`). -/
def dearmorAux (fill : Int) : Bytes → Except Err Bits
  | [] => .ok []
  | c :: cs =>
    if ¬ (0x20 ≤ c ∧ c ≤ 0x7e) then .error .nonPrintableCharacter
    else
      let v := dearmorChar c
      if cs.isEmpty ∧ fill ≠ 0 then
        if fill < 0 then .error .valueError             -- `c >> fill_bits`: negative shift count
        else if 6 - fill < -(2:Int) ^ 63 then .error .overflowError   -- `zfill(6 - fill_bits)`: ssize_t
        else
          let f := fill.toNat
          .ok (zfill (binDigits (v >>> f)) (6 - f))
      else do
        let rest ← dearmorAux fill cs
        .ok (ofNat 6 v ++ rest)

def dearmor (data : Bytes) (fill : Int) : Except Err Bits := dearmorAux fill data

/-- `PAYLOAD_ARMOR[num]` -/
def armorChar (v : Nat) : Nat := if v < 40 then v + 48 else v + 56

/-- `encode_ascii_6(bits)`: armored characters and the number of fill bits -/
def encodeAscii6 (bits : Bits) : Bytes × Nat :=
  let cs := chunks 6 bits
  (cs.map fun c => armorChar (fromBytes c >>> 2),
   match cs.getLast? with
   | some c => 6 - c.length
   | Option.none => 0)

end Model
