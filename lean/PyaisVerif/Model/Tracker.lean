import PyaisVerif.Model.Codec
/-!
# `AISTracker` (repaired expiry scan and `n_latest_tracks`)

The dict of tracks is an association list in insertion order (the behaviour of the tracker depends
on dict order).  Times and the TTL are integers (exact arithmetic; DESIGN §3 on floats).
-/
namespace Model

structure Track where
  mmsi : Int
  attrs : List (String × Val)       -- the non-key fields of `AISTrack`, `none` = `None`
  lu : Int                          -- last_updated
  deriving DecidableEq, Repr, Inhabited

inductive Ev | created | updated | deleted
  deriving DecidableEq, Repr, Inhabited

structure TrkState where
  tracks : List Track := []          -- dict values in insertion order (keys = mmsi, unique)
  ttl : Option Int := none
  ordered : Bool := false
  oldest : Option Int := none        -- `oldest_timestamp`
  deriving DecidableEq, Repr, Inhabited

/-- `msg_to_track`: the projection of a decoded message onto the `AISTrack` fields (non-`None`
values only); `fieldNames` are the dataclass fields other than `mmsi` and `last_updated` -/
def msgAttrs (fieldNames : List String) (m : Msg) : List (String × Val) :=
  fieldNames.map fun n =>
    (n, match m.fields.lookup n with
        | some v => v
        | none => .none)

/-- `update_track(old, new)`: every non-`None` field of `new` overrides -/
def mergeAttrs (old new : List (String × Val)) : List (String × Val) :=
  old.map fun (n, v) =>
    match new.lookup n with
    | some .none => (n, v)
    | some w => (n, w)
    | none => (n, v)

def setOldest (o : Option Int) (ts : Int) : Option Int :=
  match o with
  | none => some ts
  | some x => some (min x ts)

/-- `pop_track(mmsi)` -/
def popTrack (s : TrkState) (m : Int) : TrkState × List (Ev × Int) × Option Track :=
  match s.tracks.find? (·.mmsi = m) with
  | some t => ({ s with tracks := s.tracks.filter (·.mmsi ≠ m) }, [(.deleted, m)], some t)
  | none => (s, [], none)

/-- stable insertion sort by `last_updated`, ascending (`sorted(key=last_updated)`) -/
def insertByLu (x : Track) : List Track → List Track
  | [] => [x]
  | y :: ys => if y.lu < x.lu then y :: insertByLu x ys else x :: y :: ys

def sortByLu (l : List Track) : List Track := l.foldr insertByLu []

/-- the scan order of the repaired `cleanup`: oldest first -/
def viewOldestFirst (s : TrkState) : List Track :=
  if s.ordered then s.tracks else sortByLu s.tracks

/-- `cleanup()` at time `now` -/
def cleanup (s : TrkState) (now : Int) : TrkState × List (Ev × Int) :=
  match s.ttl, s.oldest with
  | some ttl, some o =>
    if now - ttl < o then (s, [])
    else
      let view := viewOldestFirst s
      let dead := view.takeWhile fun t => ¬ (now - t.lu < ttl)
      let oldest' := match (view.drop dead.length).head? with
        | some t => some t.lu
        | none => s.oldest
      let deadIds := dead.map (·.mmsi)
      ({ s with tracks := s.tracks.filter (fun t => ¬ deadIds.contains t.mmsi), oldest := oldest' },
       deadIds.map fun m => (.deleted, m))
  | _, _ => (s, [])

/-- `update(msg, ts)` for a message with key `m`, projected attributes `attrs`, timestamp `ts`, at
wall-clock time `now`; `false` = rejected with `ValueError` (state unchanged) -/
def update (s : TrkState) (m : Int) (attrs : List (String × Val)) (ts now : Int) :
    TrkState × List (Ev × Int) × Bool :=
  -- ensure_timestamp_constraints
  let orderOk : Bool := match s.ordered, s.tracks.getLast? with
    | true, some latest => !(decide (ts < latest.lu))
    | _, _ => true
  if !orderOk then (s, [], false)
  else
    match s.tracks.find? (·.mmsi = m) with
    | some old =>
      if ts < old.lu then (s, [], false)
      else
        let merged : Track := { mmsi := m, attrs := mergeAttrs old.attrs attrs, lu := ts }
        let s1 := { s with tracks := s.tracks.filter (·.mmsi ≠ m) ++ [merged],
                           oldest := setOldest s.oldest ts }
        let (s2, evs) := cleanup s1 now
        (s2, (.updated, m) :: evs, true)
    | none =>
      let t : Track := { mmsi := m, attrs := attrs, lu := ts }
      let s1 := { s with tracks := s.tracks ++ [t], oldest := setOldest s.oldest ts }
      let (s2, evs) := cleanup s1 now
      (s2, (.created, m) :: evs, true)

/-- `get_track(mmsi)`: a dict lookup -/
def getTrack (s : TrkState) (m : Int) : Option Track := s.tracks.find? (·.mmsi = m)

/-- `n_latest_tracks(n)` -/
def nLatest (s : TrkState) (n : Int) : List Track :=
  let k := (max (min n s.tracks.length) 0).toNat
  if s.ordered then s.tracks.drop (s.tracks.length - k)
  else ((sortByLu s.tracks).reverse).take k

end Model

namespace Model

/-- operations of a tracker history -/
inductive TrkOp
  | update (m : Int) (attrs : List (String × Val)) (ts : Option Int)   -- `ts = none`: default timestamp = now
  | pop (m : Int)
  | cleanup
  | tick (t : Int)                  -- the wall clock jumps to `t`
  | setTtl (ttl : Option Int)       -- `tracker.ttl_in_seconds = …`
  deriving Repr, Inhabited

/-- tracker plus wall clock plus everything observable so far -/
structure TrkRun where
  st : TrkState
  now : Int := 0
  events : List (Ev × Int) := []       -- callbacks fired so far, oldest first
  verdicts : List Bool := []           -- per `update`: accepted?
  deriving Repr, Inhabited

def trkStep (r : TrkRun) : TrkOp → TrkRun
  | .update m attrs ts =>
    let (st, evs, ok) := update r.st m attrs (ts.getD r.now) r.now
    { r with st := st, events := r.events ++ evs, verdicts := r.verdicts ++ [ok] }
  | .pop m =>
    let (st, evs, _) := popTrack r.st m
    { r with st := st, events := r.events ++ evs }
  | .cleanup =>
    let (st, evs) := cleanup r.st r.now
    { r with st := st, events := r.events ++ evs }
  | .tick t => { r with now := t }
  | .setTtl ttl => { r with st := { r.st with ttl := ttl } }

def trkRun (ordered : Bool) (ttl : Option Int) (ops : List TrkOp) : TrkRun :=
  ops.foldl trkStep { st := { ordered := ordered, ttl := ttl } }

end Model
