import PyaisVerif.Py.Basic
import PyaisVerif.Model.Nmea
/-!
# NMEA 4.10 tag blocks (`TagBlock`, `TagBlockGroup`, `TagBlockQueue`)
-/
namespace Model
open Py

/-- strict UTF-8 validation as done by `bytes.decode()` (no overlongs, no surrogates, ≤ U+10FFFF) -/
def utf8Valid : Bytes → Bool
  | [] => true
  | b :: r =>
    if b < 0x80 then utf8Valid r
    else if 0xC2 ≤ b ∧ b ≤ 0xDF then
      match r with
      | c :: r' => (0x80 ≤ c && c ≤ 0xBF) && utf8Valid r'
      | _ => false
    else if 0xE0 ≤ b ∧ b ≤ 0xEF then
      match r with
      | c :: d :: r' =>
        let lo := if b = 0xE0 then 0xA0 else 0x80
        let hi := if b = 0xED then 0x9F else 0xBF
        (lo ≤ c && c ≤ hi) && (0x80 ≤ d && d ≤ 0xBF) && utf8Valid r'
      | _ => false
    else if 0xF0 ≤ b ∧ b ≤ 0xF4 then
      match r with
      | c :: d :: e :: r' =>
        let lo := if b = 0xF0 then 0x90 else 0x80
        let hi := if b = 0xF4 then 0x8F else 0xBF
        (lo ≤ c && c ≤ hi) && (0x80 ≤ d && d ≤ 0xBF) && (0x80 ≤ e && e ≤ 0xBF) && utf8Valid r'
      | _ => false
    else false

structure TBGroup where
  num : Int
  tot : Int
  gid : Int
  deriving DecidableEq, Repr, Inhabited

/-- an initialised tag block; text fields are kept as the UTF-8 bytes of the Python `str` -/
structure TagBlock where
  raw : Bytes
  isValid : Bool := false
  actual : Int := -1
  expected : Int := -1
  receiver_timestamp : Option Bytes := none
  destination_station : Option Bytes := none
  line_count : Option Bytes := none
  relative_time : Option Bytes := none
  source_station : Option Bytes := none
  text : Option Bytes := none
  group : Option TBGroup := none
  deriving DecidableEq, Repr, Inhabited

def COLON : Byte := 58
def DASH : Byte := 45

/-- `int(str)` on the UTF-8 bytes of a Python `str`: for a pure-ASCII string CPython parses the
characters as they are (the conversion of Unicode spaces and digits to ASCII is skipped for ASCII
strings, so the separator controls 0x1c–0x1f, which `str.isspace()` accepts, are *not* whitespace
here — probed on CPython 3.12: `int('\x1c7')` raises); text with non-ASCII characters is rejected by
the model (Python would accept non-ASCII decimal digits and Unicode spaces, e.g. `'١٢'`, and then also
0x1c–0x1f; the harness never generates those — DESIGN §3). -/
def strSpaceToAscii (s : Bytes) : Bytes := s

def pyIntStr10 (s : Bytes) : Option Int := if s.any (· ≥ 128) then none else pyInt10 (strSpaceToAscii s)
def pyIntStr16 (s : Bytes) : Option Int := if s.any (· ≥ 128) then none else pyInt16 (strSpaceToAscii s)

/-- `TagBlockGroup.from_str(val)`; `none` = `ValueError` (the field is skipped) -/
def groupFromStr (val : Bytes) : Option TBGroup :=
  match split DASH val with
  | [a, b, c] =>
    match pyIntStr10 a, pyIntStr10 b, pyIntStr10 c with
    | some a, some b, some c => some { num := a, tot := b, gid := c }
    | _, _, _ => none
  | _ => none

/-- one comma field of `_parse_payload` -/
def tbField (codes : List (String × Nat)) (tb : TagBlock) (field : Bytes) : Except Err TagBlock :=
  if ¬ utf8Valid field then .ok tb                      -- UnicodeDecodeError: skipped
  else
    match split1 COLON field with
    | (_, none) => .ok tb                                 -- no ':' → ValueError: skipped
    | (spec, some val) =>
      if spec = [103] then                                -- 'g'
        match groupFromStr val with
        | some g => .ok { tb with group := some g }
        | none => .ok tb
      else
        match spec with
        | [c] =>
          match codes.find? (fun p => p.2 = c) with
          | some (name, _) =>
            if name = "receiver_timestamp" then .ok { tb with receiver_timestamp := some val }
            else if name = "destination_station" then .ok { tb with destination_station := some val }
            else if name = "line_count" then .ok { tb with line_count := some val }
            else if name = "relative_time" then .ok { tb with relative_time := some val }
            else if name = "source_station" then .ok { tb with source_station := some val }
            else if name = "text" then .ok { tb with text := some val }
            else .ok tb
          | none => .ok tb
        | _ => .ok tb

/-- `TagBlock.init()`: `ValueError`/`TypeError` for malformed blocks as in Python -/
def tbInit (codes : List (String × Nat)) (raw : Bytes) : Except Err TagBlock :=
  match split STAR raw with
  | [payload, check] =>
    if payload.isEmpty then .error .typeError           -- reduce(xor, b'')
    else if ¬ utf8Valid check then .error .unicodeDecodeError
    else
      match pyIntStr16 check with
      | none => .error .valueError
      | some e =>
        let a := xorAll payload
        (split COMMA payload).foldlM (tbField codes)
          { raw := raw, isValid := ((a : Int) == e), actual := a, expected := e }
  | _ => .error .valueError

/-- `TagBlock.create(**fields)`: `fields` in keyword order, value = `str(val)` as bytes or `None` -/
def tbCreate (codes : List (String × Nat)) (fields : List (String × Option Bytes)) : Except Err Bytes :=
  let pairs := fields.filterMap fun (k, v) =>
    match v, codes.lookup k with
    | some v, some c => some ([c, COLON] ++ v)
    | _, _ => none
  let payload := [COMMA].intercalate pairs
  if payload.isEmpty then .error .typeError
  else .ok (payload ++ [STAR] ++ hexUpper (xorAll payload))

/-! ## TagBlockQueue -/

structure TbqState (α : Type) where
  groups : List (Int × (Int × List α))    -- gid ↦ (sentence_tot, sentences), insertion order
  deriving Repr, Inhabited

def TbqState.empty {α} : TbqState α := { groups := [] }

def assocSet {κ ν} [DecidableEq κ] (l : List (κ × ν)) (k : κ) (v : ν) : List (κ × ν) :=
  if l.any (·.1 = k) then l.map (fun p => if p.1 = k then (k, v) else p) else l ++ [(k, v)]

def assocErase {κ ν} [DecidableEq κ] (l : List (κ × ν)) (k : κ) : List (κ × ν) :=
  l.filter (fun p => p.1 ≠ k)

/-- the part of `put_sentence` after the tag block has been initialised: `g` is the sentence's
group (`none`: no tag block or no `g:` field) -/
def tbqStep {α} (st : TbqState α) (x : α) (g : Option TBGroup) : TbqState α × List (List α) :=
  match g with
  | none => (st, [[x]])
  | some g =>
    if g.tot = 1 then (st, [[x]])
    else if g.num = 1 then ({ groups := assocSet st.groups g.gid (g.tot, [x]) }, [])
    else
      match st.groups.lookup g.gid with
      | none => (st, [])
      | some (tot, xs) =>
        let xs' := xs ++ [x]
        if g.tot ≠ xs'.length then ({ groups := assocSet st.groups g.gid (tot, xs') }, [])
        else ({ groups := assocErase st.groups g.gid }, [xs'])

/-- `TagBlockQueue.put_sentence` (with the repaired handling of malformed tag blocks): new state
and the lists put on the queue. `tb` is the sentence's raw tag block. -/
def tbqPut {α} (codes : List (String × Nat)) (st : TbqState α) (x : α) (tb : Option Bytes) :
    Except Err (TbqState α × List (List α)) :=
  match tb with
  | none => .ok (tbqStep st x none)
  | some raw =>
    match tbInit codes raw with
    | .error e =>
      if e.isValueError ∨ e = .typeError then .ok (st, [[x]]) else .error e
    | .ok t => .ok (tbqStep st x t.group)

/-- run the queue over sentences whose group is already known; one output per input position -/
def tbqRun {α} : TbqState α → List (α × Option TBGroup) → List (List (List α))
  | _, [] => []
  | st, (x, g) :: rest =>
    let (st', out) := tbqStep st x g
    out :: tbqRun st' rest

end Model
