import PyaisVerif.Model.Codec
import PyaisVerif.Model.Armor
/-!
# The encoder: `encode.ais_to_nmea_0183`, `encode_dict`, `encode_msg`
-/
namespace Model
open Py

/-- `ais_to_nmea_0183(payload, talker, channel, fill_bits)`; `maxLen` is the literal `max_len` -/
def aisToNmea (maxLen : Nat) (payload talker chan : Bytes) (fill : Nat) : Except Err (List Bytes) :=
  let fragCnt := (payload.length + maxLen - 1) / maxLen      -- math.ceil(len / max_len)
  let seq : Bytes := if fragCnt > 1 then [48] else []
  if talker.length ≠ 5 then .error .valueError
  else if chan.length ≠ 1 then .error .valueError
  else
    .ok ((chunks maxLen payload).mapIdx fun i chunk =>
      let fragNum := i + 1
      let f := if fragNum = fragCnt then fill else 0
      let body := talker ++ [44] ++ natToDec fragCnt ++ [44] ++ natToDec fragNum ++ [44] ++ seq ++ [44]
                    ++ chan ++ [44] ++ chunk ++ [44] ++ natToDec f
      [33] ++ body ++ [42] ++ hex2 (xorAll body))

def talkerOk (t : Bytes) : Bool := t = strBytes "AIVDM" || t = strBytes "AIVDO"
def chanOk (c : Bytes) : Bool := c = strBytes "A" || c = strBytes "B"

/-- `encode_msg(msg, talker_id, radio_channel)` -/
def encodeMsg (env : Env) (maxLen : Nat) (m : Msg) (talker chan : Bytes) : Except Err (List Bytes) :=
  if ¬ talkerOk talker then .error .valueError
  else if ¬ chanOk chan then .error .valueError
  else do
    let bits ← msgToBits env m
    let (armored, fill) := encodeAscii6 bits
    aisToNmea maxLen armored talker chan fill

/-- `get_ais_type(data)`: `type` first, then `msg_type` -/
def getAisType (kw : List (String × Val)) : Except Err Int :=
  let try1 (k : String) : Option Int :=
    match kwGet kw k with
    | some v => match v.toInt? with
      | .ok i => some i
      | .error _ => none
    | none => none
  match try1 "type" with
  | some i => .ok i
  | none => match try1 "msg_type" with
    | some i => .ok i
    | none => .error .valueError

/-- `encode_dict(data, talker_id, radio_channel)` -/
def encodeDict (env : Env) (maxLen : Nat) (kw : List (String × Val)) (talker chan : Bytes) :
    Except Err (List Bytes) :=
  if ¬ talkerOk talker then .error .valueError
  else if ¬ chanOk chan then .error .valueError
  else do
    let t ← getAisType kw
    let cls ← (if t < 0 then .error .valueError else
      match env.msgClass.lookup t.toNat with
      | some c => .ok c
      | none => .error .valueError : Except Err String)
    let m ← match create env cls kw with
      | .ok m => .ok m
      | .error .keyError => .error .valueError
      | .error e => .error e
    let bits ← msgToBits env m
    let (armored, fill) := encodeAscii6 bits
    aisToNmea maxLen armored talker chan fill

end Model
