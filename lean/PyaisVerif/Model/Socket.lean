import PyaisVerif.Py.Basic
/-!
# `SocketStream.read`: line splitting over arbitrarily chunked `recv()` results (repaired algorithm)
-/
namespace Model
open Py

def LF : Byte := 10
def CR : Byte := 13

/-- `bytes.splitlines(keepends=True)`: boundaries are LF, CR and CRLF; `acc` is the current
(reversed-free) partial line -/
def splitlinesAux : Bytes → Bytes → List Bytes
  | acc, [] => if acc.isEmpty then [] else [acc]
  | acc, [b] => if b = LF ∨ b = CR then [acc ++ [b]] else [acc ++ [b]]
  | acc, b :: c :: bs =>
    if b = LF then (acc ++ [b]) :: splitlinesAux [] (c :: bs)
    else if b = CR then
      if c = LF then (acc ++ [b, c]) :: splitlinesAux [] bs
      else (acc ++ [b]) :: splitlinesAux [] (c :: bs)
    else splitlinesAux (acc ++ [b]) (c :: bs)

def splitlines (s : Bytes) : List Bytes := splitlinesAux [] s

def endsWithLF (l : Bytes) : Bool := l.getLast? == some LF

/-- one `recv()` result: returns the lines yielded and the new `partial` -/
def sockStep (part : Bytes) (body : Bytes) : List Bytes × Bytes :=
  match splitlines body with
  | [] => ([], part)                         -- unreachable for a non-empty body
  | l0 :: rest =>
    let lines := (part ++ l0) :: rest
    match lines.getLast? with
    | some last => if endsWithLF last then (lines, []) else (lines.dropLast, last)
    | none => ([], part)

/-- `SocketStream.read()` over the successive `recv()` results; stops at the first empty one -/
def sockRead : Bytes → List Bytes → List Bytes
  | _, [] => []
  | part, c :: cs =>
    if c.isEmpty then []
    else
      let (ls, p) := sockStep part c
      ls ++ sockRead p cs

end Model
