import PyaisVerif.Model.Tracker
/-!
# `AISUpdateBroker`: who is told about a tracker event

Subscriptions are `(event, callback)` pairs in registration order (`_callbacks`); a callback is
identified by a number.  `attach` skips a pair that is already there (the repaired guard), `detach`
removes the first such pair, `propagate` runs the callbacks registered for the event, in order.
-/
namespace Model

abbrev Subs := List (Ev × Nat)

/-- `attach(event, callback)` -/
def attach (s : Subs) (e : Ev) (cb : Nat) : Subs := if s.contains (e, cb) then s else s ++ [(e, cb)]

/-- `detach(event, callback)`: `list.remove`, a missing pair is ignored -/
def detach (s : Subs) (e : Ev) (cb : Nat) : Subs := s.erase (e, cb)

/-- `propagate(track, event)`: the callbacks that run, in order -/
def propagate (s : Subs) (e : Ev) : List Nat := (s.filter (·.1 = e)).map (·.2)

/-- the calls made for a list of events (oldest first): (callback, event, mmsi) -/
def deliver (s : Subs) (evs : List (Ev × Int)) : List (Nat × Ev × Int) :=
  evs.flatMap fun (e, m) => (propagate s e).map fun cb => (cb, e, m)

/-- subscription operations -/
inductive SubOp
  | attach (e : Ev) (cb : Nat)
  | detach (e : Ev) (cb : Nat)
  deriving Repr, Inhabited

def subStep (s : Subs) : SubOp → Subs
  | .attach e cb => attach s e cb
  | .detach e cb => detach s e cb

end Model
