/-!
# Bit strings (`bitarray`, big-endian) and the integer readers pyais uses

`bitarray` → `List Bool`, most significant bit first.  `int.from_bytes(bitarray)` reads the buffer
of the bitarray, i.e. the bits padded **on the right** with zeros to whole octets; pyais then shifts
the padding away.  The model follows that code path (`fromBytes`, `fromBytesSigned`, `shiftOf`); the
lemmas in `Lemmas/Bits.lean` relate it to the plain value of the bits.
-/
namespace Model

abbrev Bits := List Bool

def b2n (b : Bool) : Nat := if b then 1 else 0

/-- big-endian value -/
def toNat : Bits → Nat
  | [] => 0
  | b :: bs => b2n b * 2 ^ bs.length + toNat bs

/-- big-endian, exactly `w` bits (value taken modulo `2^w`) -/
def ofNat : Nat → Nat → Bits
  | 0, _ => []
  | w+1, n => (n / 2^w % 2 == 1) :: ofNat w n

/-- two's complement value -/
def toInt (bs : Bits) : Int :=
  match bs with
  | [] => 0
  | true :: _ => (toNat bs : Int) - 2 ^ bs.length
  | false :: _ => toNat bs

/-- two's complement, exactly `w` bits -/
def ofInt (w : Nat) (i : Int) : Bits := ofNat w (i % 2^w).toNat

def zeros (s : Nat) : Bits := List.replicate s false
def ones (s : Nat) : Bits := List.replicate s true

/-- number of zero bits `bitarray.tobytes()` / the buffer protocol appends -/
def padLen (n : Nat) : Nat := (8 - n % 8) % 8

/-- the buffer of a bitarray: padded on the right to whole octets -/
def padRight8 (bits : Bits) : Bits := bits ++ zeros (padLen bits.length)

/-- `from_bytes(bitarray)` = `int.from_bytes(buffer, 'big')` -/
def fromBytes (bits : Bits) : Nat := toNat (padRight8 bits)

/-- `from_bytes_signed(bitarray)` = `int.from_bytes(buffer, 'big', signed=True)`;
the empty buffer gives 0. -/
def fromBytesSigned (bits : Bits) : Int := toInt (padRight8 bits)

/-- `get_int(data, lo, hi)` (unsigned): the shift is computed from the *nominal* width even when
the slice is shorter. -/
def getInt (data : Bits) (lo hi : Nat) : Nat :=
  fromBytes ((data.drop lo).take (hi - lo)) >>> padLen (hi - lo)

/-- `bitarray.tobytes()` -/
def chunk8 : Nat → Bits → List Bits
  | 0, _ => []
  | _, [] => []
  | fuel+1, bs => bs.take 8 :: chunk8 fuel (bs.drop 8)

def toBytes (bits : Bits) : List Nat :=
  (chunk8 (bits.length + 1) (padRight8 bits)).map toNat

/-- `bitarray.frombytes(b)` -/
def ofBytes (bs : List Nat) : Bits := bs.flatMap (ofNat 8)

/-- successive `n`-sized chunks (`util.chunks`) -/
def chunksAux {α} (n : Nat) : Nat → List α → List (List α)
  | 0, _ => []
  | _, [] => []
  | fuel+1, l => l.take n :: chunksAux n fuel (l.drop n)
def chunks {α} (n : Nat) (l : List α) : List (List α) := chunksAux n (l.length + 1) l

def bitsToString (bs : Bits) : String := String.ofList (bs.map fun b => if b then '1' else '0')
def bitsOfString (s : String) : Bits := s.toList.map (· == '1')

end Model
