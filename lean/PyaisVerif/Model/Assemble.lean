import PyaisVerif.Model.Nmea
import PyaisVerif.Model.TagBlock
import PyaisVerif.Model.Codec
/-!
# Multipart reassembly: the stream loop (`stream.py`), the queue loop (`queue.py`), the one-shot
`decode()` path (`decode.py`) and the reader front-ends

The two loops are duplicated code in pyais; they are modelled separately and literally.
A reader that would be killed by an escaping exception ends in `crash := some e`.
-/
namespace Model
open Py

structure AsmConsts where
  nmea : NmeaConsts
  bufSize : Nat                      -- the literal `0xff` in `max(fragment_count, 0xff)`
  tagCodes : List (String × Nat)
  deriving Repr, Inhabited

abbrev Slot := Int × Bytes

structure AsmState where
  buffer : List (Slot × List (Option Sentence)) := []
  wrapper : Option GH := none
  tbq : Option (TbqState Sentence) := none       -- `some` iff a TagBlockQueue is attached
  crash : Option Err := none
  deriving Repr, Inhabited

/-- what one input line produces -/
structure StepOut where
  delivered : List Sentence := []
  tbqOut : List (List Sentence) := []
  deriving Repr, Inhabited

/-- insert `x` before the first element whose fragment number is not smaller -/
def insertByNum (x : Sentence) : List Sentence → List Sentence
  | [] => [x]
  | y :: ys => if y.fragNum < x.fragNum then y :: insertByNum x ys else x :: y :: ys

/-- stable sort by fragment number (`sorted(messages, key=lambda m: m.frag_num)`; Python's sort is
stable and every stable sort gives the same list) -/
def sortByNum (l : List Sentence) : List Sentence := l.foldr insertByNum []

/-- `AISSentence.assemble_from_iterable(messages)` (non-empty `messages`): sort by fragment number,
join; the result is `messages[0]` with `raw`, `payload`, `bit_array`, `is_valid` and (repaired)
`ais_id` replaced. -/
def assemble (messages : List Sentence) : Option Sentence :=
  match messages with
  | [] => none      -- IndexError in Python; callers never pass an empty list
  | m0 :: _ =>
    let sorted := sortByNum messages
    let raw := [10].intercalate (sorted.map (·.raw))
    let payload := (sorted.map (·.payload)).flatten
    let bits := (sorted.map (·.bits)).flatten
    let valid := sorted.all (·.isValid)
    some { m0 with raw := raw, payload := payload, bits := bits, isValid := valid,
                   aisId := getInt bits 0 6 }

/-- `lst[i] = v` with Python index semantics; `none` = IndexError -/
def pySetIdx {α} (l : List α) (i : Int) (v : α) : Option (List α) :=
  let n : Int := l.length
  let j := if i < 0 then i + n else i
  if 0 ≤ j ∧ j < n then some (l.set j.toNat v) else none

def slotOf (s : Sentence) : Slot := (match s.seqId with | some i => i | none => -1, s.channel)

def attachWrapper (st : AsmState) (s : Sentence) : AsmState × Sentence :=
  match st.wrapper with
  | some w => ({ st with wrapper := none }, { s with wrapper := some w })
  | none => (st, s)

/-- the multi-fragment branch shared by the descriptions below: returns the new buffer and the
assembled message if the set is complete; `none` = IndexError -/
def bufferStep (bufSize : Nat) (buffer : List (Slot × List (Option Sentence))) (msg : Sentence) :
    Option (List (Slot × List (Option Sentence)) × Option Sentence) :=
  let slot := slotOf msg
  let cur := match buffer.lookup slot with
    | some b => b
    | none => List.replicate (max msg.fragCnt.toNat bufSize) none
  match pySetIdx cur (msg.fragNum - 1) (some msg) with
  | none => none
  | some cur' =>
    let parts := (cur'.take msg.fragCnt.toNat).filterMap id
    if (parts.length : Int) = msg.fragCnt then
      match assemble parts with
      | some full => some (assocErase buffer slot, some full)
      | none => none
    else some (assocSet buffer slot cur', none)

/-- the reassembly core of both loops on already parsed AIS sentences (no wrapper, no tag block
queue): single sentences pass, fragments go through the slot buffer; `none` = IndexError -/
def coreStep (bufSize : Nat) (buffer : List (Slot × List (Option Sentence))) (s : Sentence) :
    Option (List (Slot × List (Option Sentence)) × List Sentence) :=
  if s.isSingle then some (buffer, [s])
  else
    match bufferStep bufSize buffer s with
    | none => none
    | some (buf, none) => some (buf, [])
    | some (buf, some full) => some (buf, [full])

/-- run the core over a list of sentences; one output list per input position (stops at an
IndexError, which the returned flag reports) -/
def coreRun (bufSize : Nat) : List (Slot × List (Option Sentence)) → List Sentence → List (List Sentence) × Bool
  | _, [] => ([], true)
  | buf, s :: rest =>
    match coreStep bufSize buf s with
    | none => ([], false)
    | some (buf', out) =>
      let (outs, ok) := coreRun bufSize buf' rest
      (out :: outs, ok)

/-- tag block queue side effect of both loops -/
def addToTbq (k : AsmConsts) (st : AsmState) (s : Sentence) :
    Except Err (AsmState × List (List Sentence)) :=
  match st.tbq with
  | none => .ok (st, [])
  | some q => do
    let (q', out) ← tbqPut k.tagCodes q s s.tagBlock
    .ok ({ st with tbq := some q' }, out)

/-- one iteration of `AssembleMessages._assemble_messages` -/
def streamStep (k : AsmConsts) (st : AsmState) (line : Bytes) : AsmState × StepOut :=
  if st.crash.isSome then (st, {}) else
  -- try: produce, add to tbq, remember wrapper
  let tried : Except Err (AsmState × List (List Sentence) × Sentence) := do
    let s ← produce k.nmea line
    let (st1, out) ← addToTbq k st s
    .ok (st1, out, s)
  match tried with
  | .error e =>
    if e = .invalidNMEAMessage ∨ e = .nonPrintableCharacter ∨ e = .unknownMessage then (st, {})
    else ({ st with crash := some e }, {})
  | .ok (st1, tout, s) =>
    match s.gh with
    | some g => ({ st1 with wrapper := some g }, { tbqOut := tout })
    | none =>
      if ¬ s.isAIS then (st1, { tbqOut := tout })
      else if s.isSingle then
        let (st2, s') := attachWrapper st1 s
        (st2, { delivered := [s'], tbqOut := tout })
      else
        match bufferStep k.bufSize st1.buffer s with
        | none => ({ st1 with crash := some .indexError }, { tbqOut := tout })
        | some (buf, none) => ({ st1 with buffer := buf }, { tbqOut := tout })
        | some (buf, some full) =>
          let (st2, full') := attachWrapper { st1 with buffer := buf } full
          (st2, { delivered := [full'], tbqOut := tout })

/-- `NMEAQueue.put_line` (with the repaired wrapper attachment on the multi-fragment path) -/
def queueStep (k : AsmConsts) (st : AsmState) (line : Bytes) : AsmState × StepOut :=
  if st.crash.isSome then (st, {}) else
  let tried : Except Err (AsmState × List (List Sentence) × Sentence) := do
    let s ← produce k.nmea line
    let (st1, out) ← addToTbq k st s
    .ok (st1, out, s)
  match tried with
  | .error e =>
    if e = .invalidNMEAMessage ∨ e = .nonPrintableCharacter ∨ e = .unknownMessage ∨ e = .indexError
    then (st, {})
    else ({ st with crash := some e }, {})
  | .ok (st1, tout, s) =>
    match s.gh with
    | some g => ({ st1 with wrapper := some g }, { tbqOut := tout })
    | none =>
      if ¬ s.isAIS then (st1, { tbqOut := tout })
      else if s.isSingle then
        match st1.wrapper with
        | some w => ({ st1 with wrapper := none }, { delivered := [{ s with wrapper := some w }], tbqOut := tout })
        | none => (st1, { delivered := [s], tbqOut := tout })
      else
        match bufferStep k.bufSize st1.buffer s with
        | none => ({ st1 with crash := some .indexError }, { tbqOut := tout })
        | some (buf, none) => ({ st1 with buffer := buf }, { tbqOut := tout })
        | some (buf, some full) =>
          match st1.wrapper with
          | some w =>
            ({ st1 with buffer := buf, wrapper := none },
             { delivered := [{ full with wrapper := some w }], tbqOut := tout })
          | none => ({ st1 with buffer := buf }, { delivered := [full], tbqOut := tout })

/-- run a loop over a list of lines; one `StepOut` per input line -/
def runLoop (step : AsmState → Bytes → AsmState × StepOut) : AsmState → List Bytes → AsmState × List StepOut
  | st, [] => (st, [])
  | st, l :: ls =>
    let (st1, o) := step st l
    let (st2, os) := runLoop step st1 ls
    (st2, o :: os)

def initState (withTbq : Bool) : AsmState :=
  { tbq := if withTbq then some TbqState.empty else none }

/-! ## front-ends -/

/-- the filter of `Stream._iter_messages` -/
def streamFilter (minLen : Nat) (first : List Nat) (line : Bytes) : Bool :=
  line.length > minLen && (match line with
    | b :: _ => first.contains b
    | [] => false)

/-- `Stream._iter_messages` with a preprocessor: the length test looks at the line as read, the
preprocessor runs next, the start-delimiter test (`should_parse`) looks at its result -/
def streamLines (minLen : Nat) (first : List Nat) (pre : Bytes → Bytes) (lines : List Bytes) : List Bytes :=
  ((lines.filter fun l => decide (l.length > minLen)).map pre).filter fun l =>
    match l with
    | b :: _ => first.contains b
    | [] => false

/-! ## the one-shot path: `decode._assemble_messages` and `AISSentence.decode` -/

/-- the `for msg in args` loop of `_assemble_messages`: collected AIS sentences and the
`fragment_count` of the last one -/
def oneShotCollect (k : NmeaConsts) (strict : Bool) :
    List Bytes → List Sentence → Int → Except Err (List Sentence × Int)
  | [], temp, cnt => .ok (temp, cnt)
  | a :: rest, temp, cnt =>
    match produce k a with
    | .error e => .error e
    | .ok s =>
      if strict ∧ ¬ s.isValid then .error .invalidNMEAChecksum
      else if s.isAIS then oneShotCollect k strict rest (temp ++ [s]) s.fragCnt
      else oneShotCollect k strict rest temp cnt

/-- the checks after the loop and the assembly -/
def oneShotFinish (temp : List Sentence) (cnt : Int) : Except Err Sentence :=
  if temp.isEmpty then .error .missingMultipart
  else if (temp.length : Int) > cnt then .error .tooManyMessages
  else
    let frags := temp.map (·.fragNum)
    let missing := (List.range cnt.toNat).filter fun (i : Nat) => ¬ frags.contains ((i : Int) + 1)
    if ¬ missing.isEmpty then .error .missingMultipart
    else match assemble temp with
      | some s => .ok s
      | none => .error .indexError

def oneShotAssemble (k : NmeaConsts) (strict : Bool) (args : List Bytes) : Except Err Sentence :=
  match oneShotCollect k strict args [] 1 with
  | .error e => .error e
  | .ok (temp, cnt) => oneShotFinish temp cnt

/-- `AISSentence.decode()` -/
def decodeSentence (env : Env) (s : Sentence) : Except Err Msg :=
  if s.payload.isEmpty then .error .missingPayload
  else match env.msgClass.lookup s.aisId with
    | some cls => fromBitarray env cls s.bits
    | none => .error .unknownMessage

/-- `pyais.decode(*args, error_if_checksum_invalid=strict)` on bytes arguments -/
def decodeArgs (k : NmeaConsts) (env : Env) (strict : Bool) (args : List Bytes) : Except Err Msg := do
  let s ← oneShotAssemble k strict args
  decodeSentence env s

end Model
