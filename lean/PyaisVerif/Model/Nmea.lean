import PyaisVerif.Py.Basic
import PyaisVerif.Model.Bits
import PyaisVerif.Model.Armor
/-!
# NMEA 0183 sentence layer (`NMEASentence`, `AISSentence`, `GatehouseSentence`,
`NMEASentenceFactory`, `chk_to_int`, `compute_checksum`)

Every Python operation that can raise is modelled with `Except Err`, and the `try/except` blocks
of the source are reproduced, so that "which exception can escape" (C05) is a statement about this
model.  Constants (`MAX_FRAG_CNT`, `MAX_PAYLOAD_LEN`) are parameters supplied from the source.
-/
namespace Model
open Py

structure NmeaConsts where
  maxFragCnt : Nat
  maxPayloadLen : Nat
  deriving DecidableEq, Repr, Inhabited

/-- the fields of a Gatehouse wrapper sentence -/
structure GH where
  raw : Bytes
  ts : List Int          -- year, month, day, hour, minute, second, microsecond
  country : Bytes
  region : Bytes
  pss : Bytes
  online : Int
  deriving DecidableEq, Repr, Inhabited

structure Sentence where
  raw : Bytes
  isAIS : Bool
  delimiter : Bytes
  talker : Bytes
  typ : Bytes
  checksum : Int
  fillBits : Int
  isValid : Bool
  dataFields : List Bytes
  tagBlock : Option Bytes := none
  wrapper : Option GH := none
  fragCnt : Int := 0
  fragNum : Int := 0
  seqId : Option Int := none
  channel : Bytes := []
  payload : Bytes := []
  bits : Bits := []
  aisId : Nat := 0
  gh : Option GH := none
  deriving DecidableEq, Repr, Inhabited

def COMMA : Byte := 44
def STAR : Byte := 42
def BACKSLASH : Byte := 92
def DOLLAR : Byte := 36

/-- `chk_to_int(chk_str)` → (fill bits, checksum) -/
def chkToInt (chk : Bytes) : Int × Int :=
  if chk.isEmpty then (0, -1)
  else
    match split STAR chk with
    | [a, b] =>
      let fill := match pyInt10 a with
        | some i => i
        | none => 0
      let check := match pyInt16 b with
        | some i => i
        | none => -1
      (fill, check)
    | _ => (0, -1)

/-- the bytes `compute_checksum` XORs: `msg[1:].split(b'*', 1)[0]` -/
def checksumBody (raw : Bytes) : Bytes := (split1 STAR (raw.drop 1)).1

/-- `compute_checksum(raw)`; `reduce(xor, b'')` is a `TypeError` -/
def computeChecksum (raw : Bytes) : Except Err Nat :=
  let body := checksumBody raw
  if body.isEmpty then .error .typeError else .ok (xorAll body)

def decodeAscii (s : Bytes) : Except Err Bytes :=
  if isAscii s then .ok s else .error .unicodeDecodeError

/-- `NMEASentence.__init__` -/
def nmeaInit (raw : Bytes) : Except Err Sentence := do
  let fields := split COMMA raw
  let first := fields.headD []
  let talker ← decodeAscii (slice first 1 3)
  let typ ← decodeAscii (first.drop 3)
  let last := fields.getLastD []
  let (fill, check) := chkToInt last
  let cs ← computeChecksum raw
  .ok { raw := raw, isAIS := false, delimiter := first.take 1, talker := talker, typ := typ,
        checksum := check, fillBits := fill, isValid := (check == (cs : Int)),
        dataFields := (fields.drop 1).dropLast }

/-- `AISSentence.__init__` (with the repaired fragment-number validation) -/
def aisInit (k : NmeaConsts) (raw : Bytes) : Except Err Sentence := do
  let s ← nmeaInit raw
  -- the `try: … except Exception: raise InvalidNMEAMessageException` block
  let parsed : Option (Int × Int × Option Int × Bytes × Bytes) :=
    match s.dataFields.take 5 with
    | [mf, fn, mid, ch, pl] =>
      match pyInt10 mf, pyInt10 fn with
      | some c, some n =>
        let seq : Option (Option Int) :=
          if mid.isEmpty then some none
          else match pyInt10 mid with
            | some i => some (some i)
            | none => none
        match seq with
        | some sq => if isAscii ch then some (c, n, sq, ch, pl) else none
        | none => none
      | _, _ => none
    | _ => none
  match parsed with
  | none => .error .invalidNMEAMessage
  | some (c, n, sq, ch, pl) =>
    if pl.length > k.maxPayloadLen then .error .invalidNMEAMessage
    else if c > k.maxFragCnt ∨ n > k.maxFragCnt then .error .invalidNMEAMessage
    else if c < 1 ∨ n < 1 then .error .invalidNMEAMessage
    else do
      let bits ← dearmor pl s.fillBits
      .ok { s with isAIS := true, fragCnt := c, fragNum := n, seqId := sq, channel := ch,
                   payload := pl, bits := bits, aisId := getInt bits 0 6 }

def isLeap (y : Int) : Bool := (y % 4 == 0 && y % 100 != 0) || y % 400 == 0

def daysInMonth (y m : Int) : Int :=
  if m == 2 then (if isLeap y then 29 else 28)
  else if m == 4 || m == 6 || m == 9 || m == 11 then 30 else 31

/-- would `datetime.datetime(y, mo, d, h, mi, s, us)` succeed? -/
def datetimeOk (y mo d h mi s us : Int) : Bool :=
  1 ≤ y && y ≤ 9999 && 1 ≤ mo && mo ≤ 12 && 1 ≤ d && d ≤ daysInMonth y mo &&
  0 ≤ h && h ≤ 23 && 0 ≤ mi && mi ≤ 59 && 0 ≤ s && s ≤ 59 && 0 ≤ us && us ≤ 999999

/-- `GatehouseSentence.__init__` -/
def ghInit (raw : Bytes) : Except Err Sentence := do
  let s ← nmeaInit raw
  let f := s.dataFields
  let parsed : Option GH :=
    match slice f 1 8 with
    | [y, mo, d, h, mi, sec, ms] =>
      match pyInt10 y, pyInt10 mo, pyInt10 d, pyInt10 h, pyInt10 mi, pyInt10 sec, pyInt10 ms with
      | some y, some mo, some d, some h, some mi, some sec, some ms =>
        if datetimeOk y mo d h mi sec (ms * 1000) then
          match f[8]?, f[9]?, f[10]?, f[11]? with
          | some c, some r, some p, some o =>
            if isAscii c ∧ isAscii r ∧ isAscii p then
              match pyInt10 o with
              | some o => some { raw := raw, ts := [y, mo, d, h, mi, sec, ms * 1000], country := c,
                                 region := r, pss := p, online := o }
              | none => none
            else none
          | _, _, _, _ => none
        else none
      | _, _, _, _, _, _, _ => none
    | _ => none
  match parsed with
  | none => .error .invalidNMEAMessage
  | some g => .ok { s with gh := some g }

/-- `NMEASentenceFactory._pre_process`: strip, split off a leading tag block -/
def preProcess (raw : Bytes) : Except Err (Bytes × Option Bytes) :=
  let raw := strip raw
  match raw with
  | [] => .error .indexError
  | b :: rest =>
    if b = BACKSLASH then
      -- ix_end = raw[1:].find('\\') + 1  (0 when there is no closing backslash)
      let ixEnd : Nat := (find BACKSLASH rest + 1).toNat
      .ok (raw.drop (ixEnd + 1), some (slice raw 1 ixEnd))
    else .ok (raw, none)

/-- `NMEASentenceFactory._produce` -/
def produceRaw (k : NmeaConsts) (raw : Bytes) : Except Err Sentence :=
  let first := (split COMMA raw).headD []
  let code := upper (first.drop 3)
  if code = strBytes "VDM" ∨ code = strBytes "VDO" then aisInit k raw
  else if first.take 1 = [DOLLAR] ∧ code = strBytes "HP" then ghInit raw
  else .error .unknownMessage

/-- `NMEASentenceFactory.produce` (with the repaired error contract: anything that is not a
library exception becomes `InvalidNMEAMessageException`) -/
def produce (k : NmeaConsts) (raw : Bytes) : Except Err Sentence :=
  if raw.isEmpty then .error .invalidNMEAMessage
  else
    let r : Except Err Sentence := do
      let (body, tb) ← preProcess raw
      let s ← produceRaw k body
      match tb with
      | some t => if t.isEmpty then .ok s else .ok { s with tagBlock := some t }
      | none => .ok s
    match r with
    | .ok s => .ok s
    | .error e => if e.isLibrary ∨ e = .outsideModel then .error e else .error .invalidNMEAMessage

/-- `AISSentence.is_single` -/
def Sentence.isSingle (s : Sentence) : Bool :=
  (match s.seqId with
   | none => true
   | some i => i == 0) && s.fragNum == 1 && s.fragCnt == 1

end Model
