import PyaisVerif.Model.Codec
/-!
# Filters and filter chains (`pyais/filter.py`, with the repaired handling of absent positions)

Great-circle distance is an uninterpreted parameter `dist` (DESIGN §5 C19): the chain logic is
proved for every `dist`.  Coordinates are micro-degrees (`Val.flt`).
-/
namespace Model

/-- user predicates of `AttributeFilter` come from a small menu so that both sides can evaluate them -/
inductive Pred
  | always | never
  | fieldEq (name : String) (v : Val)
  | fieldLt (name : String) (micro : Int)       -- numeric field present and < bound
  | hasField (name : String)                    -- `hasattr`
  | truthy (name : String)                      -- the predicate returns the attribute itself (`getattr(m, n, None)`):
                                                -- judged by its truth value, like any Python predicate result
  deriving DecidableEq, Repr, Inhabited

inductive Filt
  | attr (p : Pred)
  | noneF (attrs : List String)
  | mtype (types : List Int)
  | dist (refLat refLon : Int) (km : Int)       -- threshold in micro-km
  | grid (latMin lonMin latMax lonMax : Int)
  deriving DecidableEq, Repr, Inhabited

def Pred.eval (m : Msg) : Pred → Bool
  | .always => true
  | .never => false
  | .fieldEq n v => m.fields.lookup n == some v
  | .fieldLt n b => match m.fields.lookup n with
    | some v => match v.micro with
      | some x => x < b
      | none => false
    | none => false
  | .hasField n => (m.fields.lookup n).isSome
  | .truthy n => match m.fields.lookup n with
    | some v => v.truthy
    | none => false

/-- position of a decoded message: both `lat` and `lon` present and not `None` -/
def Msg.pos (m : Msg) : Option (Int × Int) :=
  match m.fields.lookup "lat", m.fields.lookup "lon" with
  | some (.flt la), some (.flt lo) => some (la, lo)
  | _, _ => none

/-- does message `m` pass filter `f`?  `dist ref pos` is the great-circle distance in micro-km -/
def Filt.passes (dist : Int × Int → Int × Int → Int) (m : Msg) : Filt → Bool
  | .attr p => p.eval m
  | .noneF attrs => attrs.all fun a => match m.fields.lookup a with
      | some .none => false
      | some _ => true
      | none => false                       -- getattr(msg, a, None) is None
  | .mtype ts => match m.fields.lookup "msg_type" with
      | some (.int t) => ts.contains t
      | _ => false
  | .dist la lo km => match m.pos with
      | some p => !(dist (la, lo) p ≥ km)   -- dropped when distance >= threshold
      | none => true
  | .grid la0 lo0 la1 lo1 => match m.pos with
      | some (la, lo) => la0 ≤ la && la ≤ la1 && lo0 ≤ lo && lo ≤ lo1
      | none => true

/-- `FilterChain(filters).filter(stream)` on already decoded messages: each filter's
`filter_data` generator feeds the next one -/
def chain (dist : Int × Int → Int × Int → Int) (fs : List Filt) (ms : List Msg) : List Msg :=
  fs.foldl (fun data f => data.filter fun m => f.passes dist m) ms

end Model
