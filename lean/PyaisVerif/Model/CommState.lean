/-!
# Communication state (`util.get_sotdma_comm_state`, `util.get_itdma_comm_state`,
`CommunicationStateMixin`)

The masks and type sets are parameters (`CSConsts`), supplied from the source by the translator.
-/
namespace Model

structure CSConsts where
  syncMask : Nat
  timeoutMask : Nat
  msgMask : Nat
  slotIncMask : Nat
  maxCommState : Nat
  sotdmaTypes : List Nat
  sotdmaItdmaTypes : List Nat
  deriving DecidableEq, Repr, Inhabited

/-- the ten keys of `get_communication_state()`, `none` = Python `None` -/
structure CommState where
  received_stations : Option Nat := none
  slot_number : Option Nat := none
  utc_hour : Option Nat := none
  utc_minute : Option Nat := none
  slot_offset : Option Nat := none
  slot_timeout : Option Nat := none
  sync_state : Option Nat := none
  keep_flag : Option Nat := none
  slot_increment : Option Nat := none
  num_slots : Option Nat := none
  deriving DecidableEq, Repr, Inhabited

/-- `get_sotdma_comm_state`; `none` = the `ValueError` branch (unreachable with a 3-bit mask) -/
def sotdma (k : CSConsts) (radio : Nat) : Option CommState :=
  let sync := (radio >>> 17) &&& k.syncMask
  let timeout := (radio >>> 14) &&& k.timeoutMask
  let sub := radio &&& k.msgMask
  let base : CommState := { slot_timeout := some timeout, sync_state := some sync }
  if timeout = 0 then some { base with slot_offset := some sub }
  else if timeout = 1 then
    some { base with utc_hour := some ((sub >>> 9) &&& 0x1f),
                     utc_minute := some ((sub >>> 2) &&& 0x3f) }
  else if timeout = 2 ∨ timeout = 4 ∨ timeout = 6 then some { base with slot_number := some sub }
  else if timeout = 3 ∨ timeout = 5 ∨ timeout = 7 then some { base with received_stations := some sub }
  else none

def itdma (k : CSConsts) (radio : Nat) : CommState :=
  { sync_state := some ((radio >>> 17) &&& k.syncMask),
    slot_increment := some ((radio >>> 4) &&& k.slotIncMask),
    num_slots := some ((radio >>> 1) &&& k.timeoutMask),
    keep_flag := some (radio &&& 1) }

def isSotdma (k : CSConsts) (msgType radio : Nat) : Bool :=
  if k.sotdmaTypes.contains msgType then true
  else if k.sotdmaItdmaTypes.contains msgType then radio ≤ k.maxCommState
  else false

def isItdma (k : CSConsts) (msgType radio : Nat) : Bool :=
  if msgType = 3 then true
  else if k.sotdmaItdmaTypes.contains msgType then radio > k.maxCommState
  else false

def commStateRaw (k : CSConsts) (radio : Nat) : Nat := radio &&& k.maxCommState

/-- `msg.get_communication_state()` -/
def getCommState (k : CSConsts) (msgType radio : Nat) : Option CommState :=
  if isSotdma k msgType radio then sotdma k (commStateRaw k radio)
  else some (itdma k (commStateRaw k radio))

end Model
