import PyaisVerif.Model.Encode
import PyaisVerif.Spec.Carrier
import PyaisVerif.Lemmas.Bits
import PyaisVerif.Lemmas.Render
/-!
# Chunking, armoring and the structure of the encoder's output (generic part of C09)
-/
namespace Model
open Py Spec

/-! ## `util.chunks` -/

theorem chunksAux_cons {α} (n fuel : Nat) (l : List α) (h : l ≠ []) :
    chunksAux n (fuel+1) l = l.take n :: chunksAux n fuel (l.drop n) := by
  cases l with
  | nil => exact absurd rfl h
  | cons x xs => rfl

theorem chunksAux_nil {α} (n fuel : Nat) : chunksAux n fuel ([] : List α) = [] := by
  cases fuel <;> rfl

theorem chunksAux_flatten {α} (n : Nat) (hn : 0 < n) : ∀ (fuel : Nat) (l : List α), l.length < fuel →
    (chunksAux n fuel l).flatten = l := by
  intro fuel
  induction fuel with
  | zero => intro l h; omega
  | succ fuel ih =>
    intro l hlt
    cases l with
    | nil => simp [chunksAux]
    | cons x xs =>
      rw [chunksAux_cons _ _ _ (by simp), List.flatten_cons, ih, List.take_append_drop]
      simp only [List.length_drop, List.length_cons] at hlt ⊢; omega

theorem chunks_flatten {α} (n : Nat) (hn : 0 < n) (l : List α) : (chunks n l).flatten = l :=
  chunksAux_flatten n hn _ l (Nat.lt_succ_self _)

theorem ceil_step (n m : Nat) (hn : 0 < n) (hm : 0 < m) :
    (m + n - 1) / n = (m - n + n - 1) / n + 1 := by
  have e : m + n - 1 = (m - 1) + n := by omega
  rw [e, Nat.add_div_right _ hn]
  congr 1
  by_cases h : n ≤ m
  · congr 1; omega
  · rw [Nat.div_eq_of_lt (by omega), Nat.div_eq_of_lt (by omega)]

theorem chunksAux_length {α} (n : Nat) (hn : 0 < n) : ∀ (fuel : Nat) (l : List α), l.length < fuel →
    (chunksAux n fuel l).length = (l.length + n - 1) / n := by
  intro fuel
  induction fuel with
  | zero => intro l h; omega
  | succ fuel ih =>
    intro l hlt
    cases l with
    | nil => simp only [chunksAux_nil, List.length_nil]; rw [Nat.div_eq_of_lt (by omega)]
    | cons x xs =>
      rw [chunksAux_cons _ _ _ (by simp), List.length_cons, ih, List.length_drop,
        ← ceil_step n _ hn (by simp)]
      simp only [List.length_drop, List.length_cons] at hlt ⊢; omega

theorem chunks_length {α} (n : Nat) (hn : 0 < n) (l : List α) :
    (chunks n l).length = (l.length + n - 1) / n :=
  chunksAux_length n hn _ l (Nat.lt_succ_self _)

theorem chunksAux_bound {α} (n : Nat) (hn : 0 < n) : ∀ (fuel : Nat) (l : List α), l.length < fuel →
    ∀ c ∈ chunksAux n fuel l, c ≠ [] ∧ c.length ≤ n := by
  intro fuel
  induction fuel with
  | zero => intro l h; omega
  | succ fuel ih =>
    intro l hlt c hc
    cases l with
    | nil => simp [chunksAux] at hc
    | cons x xs =>
      rw [chunksAux_cons _ _ _ (by simp), List.mem_cons] at hc
      rcases hc with rfl | hc
      · constructor
        · cases n with
          | zero => omega
          | succ n => simp
        · simp only [List.length_take]; omega
      · refine ih _ ?_ c hc
        simp only [List.length_drop, List.length_cons] at hlt ⊢; omega

theorem chunks_bound {α} (n : Nat) (hn : 0 < n) (l : List α) :
    ∀ c ∈ chunks n l, c ≠ [] ∧ c.length ≤ n :=
  chunksAux_bound n hn _ l (Nat.lt_succ_self _)

theorem chunksAux_getElem {α} (n : Nat) (hn : 0 < n) : ∀ (fuel : Nat) (l : List α), l.length < fuel →
    ∀ (i : Nat) (h : i < (chunksAux n fuel l).length),
      (chunksAux n fuel l)[i] = (l.drop (i * n)).take n := by
  intro fuel
  induction fuel with
  | zero => intro l h; omega
  | succ fuel ih =>
    intro l hlt i h
    cases l with
    | nil => simp [chunksAux] at h
    | cons x xs =>
      have e := chunksAux_cons n fuel (x :: xs) (by simp)
      cases i with
      | zero => simp [e]
      | succ j =>
        simp only [e, List.getElem_cons_succ]
        rw [ih]
        · rw [List.drop_drop]
          congr 2
          rw [Nat.succ_mul]; omega
        · simp only [List.length_drop, List.length_cons] at hlt ⊢; omega

/-- every chunk except possibly the last one is full -/
theorem chunks_getElem {α} (n : Nat) (hn : 0 < n) (l : List α) (i : Nat) (h : i < (chunks n l).length) :
    (chunks n l)[i] = (l.drop (i * n)).take n :=
  chunksAux_getElem n hn _ l (Nat.lt_succ_self _) i h

/-! ## armoring -/

theorem armorChar_isArmor (v : Nat) (h : v < 64) : isArmorChar (armorChar v) = true := by
  have : ∀ v, v < 64 → isArmorChar (armorChar v) = true := by decide
  exact this v h

theorem dearmorChar_armorChar (v : Nat) (h : v < 64) : dearmorChar (armorChar v) = v := by
  have : ∀ v, v < 64 → dearmorChar (armorChar v) = v := by decide
  exact this v h

theorem armorChar_range (v : Nat) (h : v < 64) : 0x20 ≤ armorChar v ∧ armorChar v ≤ 0x7e := by
  unfold armorChar; split <;> omega

/-- value of the character written for a (possibly short) chunk -/
theorem fromBytes_shift2 (c : Bits) (h1 : 1 ≤ c.length) (h6 : c.length ≤ 6) :
    fromBytes c >>> 2 = toNat c * 2 ^ (6 - c.length) := by
  unfold fromBytes padRight8
  have hp : padLen c.length = (6 - c.length) + 2 := by unfold padLen; omega
  rw [toNat_append, toNat_zeros, Nat.add_zero, zeros_length, hp, Nat.pow_add,
    Nat.shiftRight_eq_div_pow, ← Nat.mul_assoc, Nat.mul_div_cancel _ (by decide)]

theorem fromBytes_shift2_lt (c : Bits) (h1 : 1 ≤ c.length) (h6 : c.length ≤ 6) :
    fromBytes c >>> 2 < 64 := by
  rw [fromBytes_shift2 c h1 h6]
  have hlt := toNat_lt c
  have hp : 0 < 2 ^ (6 - c.length) := Nat.pow_pos (by decide)
  have e : 2 ^ c.length * 2 ^ (6 - c.length) = 64 := by
    rw [← Nat.pow_add]; have : c.length + (6 - c.length) = 6 := by omega
    rw [this]
  calc toNat c * 2 ^ (6 - c.length) < 2 ^ c.length * 2 ^ (6 - c.length) :=
        Nat.mul_lt_mul_of_pos_right hlt hp
    _ = 64 := e

theorem chunks6_len (bits : Bits) : ∀ c ∈ chunks 6 bits, 1 ≤ c.length ∧ c.length ≤ 6 := by
  intro c hc
  obtain ⟨h1, h2⟩ := chunks_bound 6 (by decide) bits c hc
  refine ⟨?_, h2⟩
  cases c with
  | nil => exact absurd rfl h1
  | cons _ _ => simp

/-- the armored payload uses only the 64-character alphabet, one character per started six bits -/
theorem encodeAscii6_chars (bits : Bits) :
    (encodeAscii6 bits).1.all isArmorChar = true ∧ (encodeAscii6 bits).1.length = (bits.length + 5) / 6 := by
  constructor
  · simp only [encodeAscii6, List.all_map, List.all_eq_true, Function.comp]
    intro c hc
    obtain ⟨h1, h6⟩ := chunks6_len bits c hc
    exact armorChar_isArmor _ (fromBytes_shift2_lt c h1 h6)
  · simp only [encodeAscii6, List.length_map]
    rw [chunks_length 6 (by decide)]; omega

theorem chunks6_getElem_length (bits : Bits) (i : Nat) (h : i < (chunks 6 bits).length) :
    (chunks 6 bits)[i].length = min 6 (bits.length - i * 6) := by
  rw [chunks_getElem 6 (by decide), List.length_take, List.length_drop]

/-- the fill-bit count is the padding needed to reach a six-bit boundary -/
theorem encodeAscii6_fill (bits : Bits) : (encodeAscii6 bits).2 = (6 - bits.length % 6) % 6 := by
  simp only [encodeAscii6]
  have hl := chunks_length 6 (by decide) bits
  rw [List.getLast?_eq_getElem?]
  by_cases h0 : (chunks 6 bits).length = 0
  · have : chunks 6 bits = [] := List.eq_nil_of_length_eq_zero h0
    rw [this]; simp only [List.length_nil, List.getElem?_nil]
    omega
  · have hi : (chunks 6 bits).length - 1 < (chunks 6 bits).length := by omega
    rw [List.getElem?_eq_getElem hi]
    simp only [chunks6_getElem_length]
    omega

/-! ### binary digits -/

theorem binDigitsAux_acc : ∀ (fuel n : Nat) (acc : Bits),
    binDigitsAux fuel n acc = binDigitsAux fuel n [] ++ acc := by
  intro fuel
  induction fuel with
  | zero => intro n acc; rfl
  | succ fuel ih =>
    intro n acc
    simp only [binDigitsAux]
    split
    · rfl
    · rw [ih _ ((n % 2 == 1) :: acc), ih _ [n % 2 == 1]]; simp

theorem toNat_binDigitsAux : ∀ (fuel n : Nat), n < fuel → toNat (binDigitsAux fuel n []) = n := by
  intro fuel
  induction fuel with
  | zero => intro n h; omega
  | succ fuel ih =>
    intro n hlt
    simp only [binDigitsAux]
    split
    · rename_i h2
      have : n = 0 ∨ n = 1 := by omega
      rcases this with rfl | rfl <;> rfl
    · rename_i h2
      rw [binDigitsAux_acc, toNat_append, ih _ (by omega)]
      rcases Nat.mod_two_eq_zero_or_one n with h | h <;> simp [h, toNat, b2n] <;> omega

theorem binDigitsAux_length : ∀ (fuel n L : Nat), n < fuel → n < 2 ^ L → 1 ≤ L →
    (binDigitsAux fuel n []).length ≤ L := by
  intro fuel
  induction fuel with
  | zero => intro n L h; omega
  | succ fuel ih =>
    intro n L hlt hL h1
    simp only [binDigitsAux]
    split
    · simpa using h1
    · rename_i h2
      rw [binDigitsAux_acc, List.length_append]
      cases L with
      | zero => omega
      | succ L =>
        cases L with
        | zero => simp at hL; omega
        | succ L =>
          have := ih (n / 2) (L + 1) (by omega) (by rw [Nat.pow_succ] at hL; omega) (by omega)
          simp only [List.length_cons, List.length_nil]; omega

theorem zfill_binDigits (c : Bits) (h1 : 1 ≤ c.length) :
    zfill (binDigits (toNat c)) c.length = c := by
  have hlen := binDigitsAux_length (toNat c + 1) (toNat c) c.length (Nat.lt_succ_self _) (toNat_lt c) h1
  have hval := toNat_binDigitsAux (toNat c + 1) (toNat c) (Nat.lt_succ_self _)
  have hl : (zfill (binDigits (toNat c)) c.length).length = c.length := by
    simp only [zfill, binDigits, List.length_append, zeros_length]; omega
  have hv : toNat (zfill (binDigits (toNat c)) c.length) = toNat c := by
    simp only [zfill, binDigits, toNat_append, toNat_zeros, hval]; omega
  have := ofNat_toNat (zfill (binDigits (toNat c)) c.length)
  rw [hl, hv, ofNat_toNat] at this
  exact this.symm

/-! ### de-armoring what `encode_ascii_6` wrote -/

/-- the character written for a chunk -/
abbrev encChar (c : Bits) : Nat := armorChar (fromBytes c >>> 2)

theorem dearmor_full (c : Bits) (h : c.length = 6) : ofNat 6 (dearmorChar (encChar c)) = c := by
  have e := fromBytes_shift2 c (by omega) (by omega)
  have hlt := fromBytes_shift2_lt c (by omega) (by omega)
  unfold encChar
  rw [dearmorChar_armorChar _ hlt, e, h]
  have := ofNat_toNat c
  rw [h] at this
  simpa using this

theorem dearmorAux_chunks : ∀ (cs : List Bits) (f : Nat),
    (∀ c ∈ cs, 1 ≤ c.length ∧ c.length ≤ 6) → (∀ c ∈ cs.dropLast, c.length = 6) →
    (∀ c, cs.getLast? = some c → f = 6 - c.length) →
    dearmorAux (f : Int) (cs.map encChar) = .ok cs.flatten := by
  intro cs
  induction cs with
  | nil => intro f _ _ _; rfl
  | cons c cs ih =>
    intro f hb hfull hlast
    obtain ⟨h1, h6⟩ := hb c (by simp)
    have hlt := fromBytes_shift2_lt c h1 h6
    have hr := armorChar_range _ hlt
    simp only [List.map_cons, dearmorAux]
    rw [if_neg (by unfold encChar; omega)]
    cases cs with
    | nil =>
      have hf : f = 6 - c.length := hlast c rfl
      by_cases hf0 : f = 0
      · have hc6 : c.length = 6 := by omega
        subst hf0
        simp only [List.map_nil, List.isEmpty_nil, ne_eq, Int.natCast_eq_zero, not_true_eq_false,
          and_false, if_false, dearmorAux]
        simp [dearmor_full c hc6, bind, Except.bind]
      · have hcond : (([] : List Nat).isEmpty = true ∧ (f : Int) ≠ 0) := ⟨rfl, by omega⟩
        simp only [List.map_nil]
        rw [if_pos hcond, if_neg (by omega), if_neg (by omega)]
        simp only [Int.toNat_natCast, List.flatten_cons, List.flatten_nil, List.append_nil]
        unfold encChar
        rw [dearmorChar_armorChar _ hlt, fromBytes_shift2 c h1 h6, ← hf, Nat.shiftRight_eq_div_pow,
          Nat.mul_div_cancel _ (Nat.pow_pos (by decide))]
        have : 6 - f = c.length := by omega
        rw [this, zfill_binDigits c h1]
    | cons d ds =>
      have hc6 : c.length = 6 := hfull c (by simp [List.dropLast])
      have hcond : ¬ (((d :: ds).map encChar).isEmpty = true ∧ (f : Int) ≠ 0) := by simp
      rw [if_neg hcond]
      have := ih f (fun c hc => hb c (List.mem_cons_of_mem _ hc))
        (fun c hc => hfull c (by simp [List.dropLast]; exact Or.inr (by simpa using hc)))
        (fun c hc => hlast c (by simpa [List.getLast?_cons_cons] using hc))
      rw [this]
      simp [dearmor_full c hc6, bind, Except.bind]

theorem chunks6_dropLast (bits : Bits) : ∀ c ∈ (chunks 6 bits).dropLast, c.length = 6 := by
  intro c hc
  obtain ⟨i, hi, rfl⟩ := List.getElem_of_mem hc
  have hl := chunks_length 6 (by decide) bits
  simp only [List.length_dropLast] at hi
  rw [List.getElem_dropLast, chunks6_getElem_length]
  omega

/-- de-armoring with the reported fill-bit count gives the bits back -/
theorem dearmor_encodeAscii6 (bits : Bits) :
    dearmor (encodeAscii6 bits).1 (encodeAscii6 bits).2 = .ok bits := by
  have := dearmorAux_chunks (chunks 6 bits) (encodeAscii6 bits).2 (chunks6_len bits)
    (chunks6_dropLast bits) (by
      intro c hc
      simp only [encodeAscii6, hc])
  rw [chunks_flatten 6 (by decide)] at this
  exact this

/-- de-armoring distributes over a split of the payload when only the last part carries fill bits -/
theorem dearmor_append (a b : Bytes) (fill : Nat) (ha : a.all isArmorChar = true) (hb : b ≠ [])
    (xa : Bits) (hxa : dearmor a 0 = .ok xa) :
    dearmor (a ++ b) fill = (match dearmor b fill with
      | .ok xb => .ok (xa ++ xb)
      | .error e => .error e) := by
  have h0 := ha; clear h0 ha
  unfold dearmor at *
  induction a generalizing xa with
  | nil =>
    simp only [dearmorAux, Except.ok.injEq] at hxa
    subst hxa
    simp only [List.nil_append]
    cases dearmorAux (↑fill) b <;> rfl
  | cons c a ih =>
    simp only [dearmorAux] at hxa
    split at hxa
    · cases hxa
    · rename_i hr
      rw [if_neg (by simp)] at hxa
      cases hrest : dearmorAux 0 a with
      | error e => rw [hrest] at hxa; cases hxa
      | ok xa' =>
        rw [hrest] at hxa
        simp only [bind, Except.bind, Except.ok.injEq] at hxa
        subst hxa
        simp only [List.cons_append, dearmorAux]
        rw [if_neg hr, if_neg (by simp [hb]), ih xa' hrest]
        cases dearmorAux (↑fill) b <;> simp [bind, Except.bind]
/-! ## the encoder's output is a list of rendered fragments -/

/-- the fragment description of the `i`-th sentence `ais_to_nmea_0183` emits -/
def fragOf (maxLen : Nat) (payload talker chan : Bytes) (fill : Nat) (i : Nat) : FragSpec :=
  let n := (payload.length + maxLen - 1) / maxLen
  { talker := talker.take 2, kind := talker.drop 2, cnt := n, num := i + 1,
    seq := if n > 1 then some 0 else none, chan := chan,
    chunk := (payload.drop (i * maxLen)).take maxLen,
    fill := if i + 1 = n then fill else 0 }

theorem aisToNmea_eq (maxLen : Nat) (hm : 0 < maxLen) (payload talker chan : Bytes) (fill : Nat)
    (ht : talker.length = 5) (hc : chan.length = 1) :
    aisToNmea maxLen payload talker chan fill =
      .ok ((List.range ((payload.length + maxLen - 1) / maxLen)).map fun i =>
        renderFrag (fragOf maxLen payload talker chan fill i)) := by
  unfold aisToNmea
  simp only [ht, hc, ne_eq, not_true_eq_false, if_false, Except.ok.injEq]
  have hl := chunks_length maxLen hm payload
  apply List.ext_getElem
  · simp [hl]
  · intro i h1 h2
    simp only [List.getElem_mapIdx, List.getElem_map, List.getElem_range]
    rw [chunks_getElem maxLen hm]
    have hseq : seqBytes (if (payload.length + maxLen - 1) / maxLen > 1 then some 0 else none) =
        (if (payload.length + maxLen - 1) / maxLen > 1 then [48] else []) := by
      split <;> rfl
    simp only [renderFrag, fragBody, fragOf, hseq, COMMA, STAR, List.take_append_drop,
      List.append_assoc]

/-- length of a rendered fragment -/
theorem renderFrag_length (f : FragSpec) :
    (renderFrag f).length = 1 + (f.talker.length + f.kind.length + 1 + (natToDec f.cnt).length + 1
      + (natToDec f.num).length + 1 + (seqBytes f.seq).length + 1 + f.chan.length + 1 + f.chunk.length + 1
      + (natToDec f.fill).length) + 1 + 2 := by
  simp only [renderFrag, fragBody, hex2, List.length_append, List.length_cons, List.length_nil]

theorem insertByNum_lt (x y : Sentence) (ys : List Sentence) (h : x.fragNum < y.fragNum) :
    insertByNum x (y :: ys) = x :: y :: ys := by
  simp only [insertByNum]
  rw [if_neg (by omega)]

/-- a list that is strictly ascending in the fragment number is left alone by the stable sort -/
theorem sortByNum_sorted (l : List Sentence) (h : l.Pairwise (fun a b => a.fragNum < b.fragNum)) :
    sortByNum l = l := by
  induction l with
  | nil => rfl
  | cons x xs ih =>
    rw [List.pairwise_cons] at h
    have e : sortByNum (x :: xs) = insertByNum x (sortByNum xs) := rfl
    rw [e, ih h.2]
    cases xs with
    | nil => rfl
    | cons y ys => exact insertByNum_lt x y ys (h.1 y (by simp))
end Model
