import PyaisVerif.Model.TagBlock
/-!
# Tag block groups: interleavings are projected away, one group in isolation (generic part of C17)
-/
namespace Model

variable {α : Type}

/-! ## association lists -/

theorem lookup_cons_ite {κ ν} [DecidableEq κ] (a k : κ) (b : ν) (es : List (κ × ν)) :
    ((k, b) :: es).lookup a = if a = k then some b else es.lookup a := by
  rw [List.lookup_cons]
  by_cases h : a = k
  · simp [h]
  · have : (a == k) = false := by simpa using h
    simp [this, h]

theorem lookup_append_single {κ ν} [DecidableEq κ] (l : List (κ × ν)) (k k' : κ) (v : ν)
    (h : l.any (·.1 = k) = false) :
    (l ++ [(k, v)]).lookup k' = if k' = k then some v else l.lookup k' := by
  induction l with
  | nil => simp [lookup_cons_ite]
  | cons p l ih =>
    obtain ⟨a, b⟩ := p
    simp only [List.any_cons, Bool.or_eq_false_iff, decide_eq_false_iff_not] at h
    simp only [List.cons_append, lookup_cons_ite, ih h.2]
    by_cases hka : k' = a
    · subst hka
      simp [h.1]
    · simp [hka]

theorem lookup_map_set_ne {κ ν} [DecidableEq κ] (l : List (κ × ν)) (k k' : κ) (v : ν)
    (hk : k' ≠ k) :
    (l.map (fun p => if p.1 = k then (k, v) else p)).lookup k' = l.lookup k' := by
  induction l with
  | nil => rfl
  | cons p l ih =>
    obtain ⟨a, b⟩ := p
    simp only [List.map_cons]
    by_cases hak : a = k
    · subst hak
      simp [lookup_cons_ite, ih, hk]
    · simp [lookup_cons_ite, ih, hak]

theorem lookup_map_set_eq {κ ν} [DecidableEq κ] (l : List (κ × ν)) (k : κ) (v : ν)
    (h : l.any (·.1 = k) = true) :
    (l.map (fun p => if p.1 = k then (k, v) else p)).lookup k = some v := by
  induction l with
  | nil => simp at h
  | cons p l ih =>
    obtain ⟨a, b⟩ := p
    simp only [List.map_cons]
    by_cases hak : a = k
    · subst hak
      simp
    · have hl : l.any (·.1 = k) = true := by
        simpa only [List.any_cons, hak, decide_false, Bool.false_or] using h
      have hka : ¬ k = a := fun e => hak e.symm
      simp [lookup_cons_ite, ih hl, hak, hka]

theorem lookup_map_set {κ ν} [DecidableEq κ] (l : List (κ × ν)) (k k' : κ) (v : ν)
    (h : l.any (·.1 = k) = true) :
    (l.map (fun p => if p.1 = k then (k, v) else p)).lookup k'
      = if k' = k then some v else l.lookup k' := by
  by_cases hk : k' = k
  · subst hk; simp [lookup_map_set_eq l k' v h]
  · simp [hk, lookup_map_set_ne l k k' v hk]

theorem lookup_assocSet {κ ν} [DecidableEq κ] (l : List (κ × ν)) (k k' : κ) (v : ν) :
    (assocSet l k v).lookup k' = if k' = k then some v else l.lookup k' := by
  unfold assocSet
  by_cases h : l.any (·.1 = k) = true
  · rw [if_pos h]; exact lookup_map_set l k k' v h
  · rw [if_neg h]; exact lookup_append_single l k k' v (Bool.eq_false_iff.mpr h)

theorem lookup_assocErase {κ ν} [DecidableEq κ] (l : List (κ × ν)) (k k' : κ) :
    (assocErase l k).lookup k' = if k' = k then none else l.lookup k' := by
  unfold assocErase
  induction l with
  | nil => simp
  | cons p l ih =>
    obtain ⟨a, b⟩ := p
    rw [List.filter_cons]
    by_cases hak : a = k
    · have : decide ((a, b).1 ≠ k) = false := by simp [hak]
      rw [this, if_neg (by simp), ih, lookup_cons_ite]
      by_cases hka : k' = k
      · simp [hka]
      · have : ¬ k' = a := fun e => hka (e.trans hak)
        simp [hka, this]
    · have : decide ((a, b).1 ≠ k) = true := by simp [hak]
      rw [this, if_pos rfl, lookup_cons_ite, lookup_cons_ite, ih]
      by_cases hka : k' = a
      · subst hka
        simp [hak]
      · simp [hka]

/-! ## one group in isolation -/

/-- does this sentence belong to the (multi-sentence) group `k`? -/
def inGroup (p : α × Option TBGroup) (k : Int) : Bool :=
  match p.2 with
  | some g => g.tot != 1 && g.gid == k
  | none => false

/-- the queue restricted to one group id: state = the group's dict entry -/
def groupStep (st : Option (Int × List α)) (x : α) (g : TBGroup) : Option (Int × List α) × List (List α) :=
  if g.num = 1 then (some (g.tot, [x]), [])
  else
    match st with
    | none => (none, [])
    | some (tot, xs) =>
      let xs' := xs ++ [x]
      if g.tot ≠ xs'.length then (some (tot, xs'), []) else (none, [xs'])

def groupRun : Option (Int × List α) → List (α × Option TBGroup) → List (List (List α))
  | _, [] => []
  | st, (x, some g) :: rest =>
    let (st', out) := groupStep st x g
    out :: groupRun st' rest
  | st, (_, none) :: rest => [] :: groupRun st rest

theorem inGroup_true {x : α} {g : Option TBGroup} {k : Int} (h : inGroup (x, g) k = true) :
    ∃ g', g = some g' ∧ g'.tot ≠ 1 ∧ g'.gid = k := by
  cases g with
  | none => simp [inGroup] at h
  | some g' =>
    simp [inGroup] at h
    exact ⟨g', rfl, h.1, h.2⟩

/-- a sentence without group, or in a group of one, passes immediately and leaves the queue alone -/
theorem tbqStep_single (st : TbqState α) (x : α) (g : Option TBGroup)
    (h : ∀ k, inGroup (x, g) k = false) : tbqStep st x g = (st, [[x]]) := by
  cases g with
  | none => rfl
  | some g =>
    have h' := h g.gid
    simp [inGroup] at h'
    simp [tbqStep, h']

/-- a grouped sentence only touches its own group's entry, and does to it what `groupStep` does -/
theorem tbqStep_grouped (st : TbqState α) (x : α) (g : TBGroup) (h : g.tot ≠ 1) :
    (tbqStep st x (some g)).2 = (groupStep (st.groups.lookup g.gid) x g).2 ∧
    ∀ k, (tbqStep st x (some g)).1.groups.lookup k =
      if k = g.gid then (groupStep (st.groups.lookup g.gid) x g).1 else st.groups.lookup k := by
  unfold tbqStep groupStep
  simp only [h, if_false]
  by_cases h1 : g.num = 1
  · simp only [h1, if_true]
    exact ⟨trivial, fun k => lookup_assocSet _ _ _ _⟩
  · simp only [h1, if_false]
    cases hl : st.groups.lookup g.gid with
    | none =>
      refine ⟨rfl, fun k => ?_⟩
      by_cases hk : k = g.gid
      · simp only [hk, if_true]; exact hl
      · simp only [hk, if_false]
    | some v =>
      obtain ⟨tot, xs⟩ := v
      by_cases hlen : g.tot ≠ ((xs ++ [x]).length : Int)
      · simp only [if_pos hlen]
        exact ⟨trivial, fun k => lookup_assocSet _ _ _ _⟩
      · simp only [if_neg hlen]
        exact ⟨trivial, fun k => lookup_assocErase _ _ _⟩

/-- **Interleavings are projected away**: the outputs produced at the positions of group `k`'s
sentences are the outputs of the one-group machine on the subsequence of those sentences, whatever
is interleaved with them. -/
theorem tbqRun_project (st : TbqState α) (xs : List (α × Option TBGroup)) (k : Int) :
    ((xs.zip (tbqRun st xs)).filter (fun p => inGroup p.1 k)).map (·.2)
      = groupRun (st.groups.lookup k) (xs.filter (fun p => inGroup p k)) := by
  induction xs generalizing st with
  | nil => simp [tbqRun, groupRun]
  | cons p xs ih =>
    obtain ⟨x, g⟩ := p
    have hrun : tbqRun st ((x, g) :: xs) = (tbqStep st x g).2 :: tbqRun (tbqStep st x g).1 xs := by
      simp [tbqRun]
    rw [hrun, List.zip_cons_cons, List.filter_cons, List.filter_cons]
    by_cases hin : inGroup (x, g) k = true
    · obtain ⟨g', rfl, ht, hg⟩ := inGroup_true hin
      simp only [hin, if_true, List.map_cons]
      obtain ⟨hout, hst⟩ := tbqStep_grouped st x g' ht
      rw [ih, hst k, if_pos hg.symm, hout, hg]
      simp [groupRun]
    · have hin' : inGroup (x, g) k = false := by simpa using hin
      simp only [hin', Bool.false_eq_true, if_false]
      rw [ih]
      congr 1
      cases g with
      | none => rfl
      | some g' =>
        by_cases ht : g'.tot = 1
        · simp [tbqStep, ht]
        · have hk : ¬ k = g'.gid := by
            intro e
            apply hin
            simp [inGroup, ht, e]
          rw [(tbqStep_grouped st x g' ht).2 k, if_neg hk]

/-- ungrouped sentences are delivered at their own position as singletons -/
theorem tbqRun_single (st : TbqState α) (xs : List (α × Option TBGroup)) (i : Nat) (x : α) (g : Option TBGroup)
    (hi : xs[i]? = some (x, g)) (h : ∀ k, inGroup (x, g) k = false) :
    (tbqRun st xs)[i]? = some [[x]] := by
  induction xs generalizing st i with
  | nil => simp at hi
  | cons p xs ih =>
    obtain ⟨y, gy⟩ := p
    have hrun : tbqRun st ((y, gy) :: xs) = (tbqStep st y gy).2 :: tbqRun (tbqStep st y gy).1 xs := by
      simp [tbqRun]
    rw [hrun]
    cases i with
    | zero =>
      simp only [List.getElem?_cons_zero, Option.some.injEq, Prod.mk.injEq] at hi
      obtain ⟨rfl, rfl⟩ := hi
      simp [tbqStep_single st y gy h]
    | succ i =>
      simp only [List.getElem?_cons_succ] at hi ⊢
      exact ih _ i hi

theorem groupRun_cons_some (st : Option (Int × List α)) (x : α) (g : TBGroup)
    (rest : List (α × Option TBGroup)) :
    groupRun st ((x, some g) :: rest) = (groupStep st x g).2 :: groupRun (groupStep st x g).1 rest := by
  simp [groupRun]

/-- after the first sentence: the remaining sentences of a group, the last one completes it -/
theorem groupRun_gen (tot : Int) :
    ∀ (rest : List (α × Option TBGroup)) (tot' : Int) (pre : List α),
      (∀ p ∈ rest, ∃ g, p.2 = some g ∧ g.num ≠ 1 ∧ g.tot = tot) →
      ((pre.length : Int) + (rest.length : Int)) = tot → rest ≠ [] →
      groupRun (some (tot', pre)) rest =
        List.replicate (rest.length - 1) [] ++ [[pre ++ rest.map (·.1)]] := by
  intro rest
  induction rest with
  | nil => intro _ _ _ _ h; exact absurd rfl h
  | cons p r ih =>
    intro tot' pre hall hlen _
    obtain ⟨x, go⟩ := p
    obtain ⟨g, hg, hnum, htot⟩ := hall (x, go) (by simp)
    simp only at hg
    subst hg
    rw [groupRun_cons_some]
    cases r with
    | nil =>
      have hl : ¬ g.tot ≠ ((pre ++ [x]).length : Int) := by
        simp only [List.length_append, List.length_cons, List.length_nil] at hlen ⊢
        omega
      simp only [groupStep, hnum, if_false, if_neg hl, groupRun]
      simp
    | cons y r' =>
      have hl : g.tot ≠ ((pre ++ [x]).length : Int) := by
        simp only [List.length_append, List.length_cons, List.length_nil] at hlen ⊢
        omega
      have hrec := ih tot' (pre ++ [x]) (fun z hz => hall z (by simp [hz]))
        (by simp only [List.length_append, List.length_cons, List.length_nil] at hlen ⊢; omega)
        (by simp)
      simp only [groupStep, hnum, if_false, if_pos hl]
      rw [hrec]
      simp [List.replicate_succ]

/-- after the first sentence: as long as the group stays short of `tot`, nothing is delivered -/
theorem groupRun_gen_incomplete (tot : Int) :
    ∀ (rest : List (α × Option TBGroup)) (tot' : Int) (pre : List α),
      (∀ p ∈ rest, ∃ g, p.2 = some g ∧ g.num ≠ 1 ∧ g.tot = tot) →
      ((pre.length : Int) + (rest.length : Int)) < tot →
      groupRun (some (tot', pre)) rest = List.replicate rest.length [] := by
  intro rest
  induction rest with
  | nil => intro _ _ _ _; simp [groupRun]
  | cons p r ih =>
    intro tot' pre hall hlen
    obtain ⟨x, go⟩ := p
    obtain ⟨g, hg, hnum, htot⟩ := hall (x, go) (by simp)
    simp only at hg
    subst hg
    rw [groupRun_cons_some]
    have hl : g.tot ≠ ((pre ++ [x]).length : Int) := by
      simp only [List.length_append, List.length_cons, List.length_nil] at hlen ⊢
      omega
    have hrec := ih tot' (pre ++ [x]) (fun z hz => hall z (by simp [hz]))
      (by simp only [List.length_append, List.length_cons, List.length_nil] at hlen ⊢; omega)
    simp only [groupStep, hnum, if_false, if_pos hl]
    rw [hrec]
    simp [List.replicate_succ]

/-- **One group in isolation**: first sentence (`num = 1`), then `tot − 1` further sentences of the
group in any order: nothing is delivered before the last one arrives, then the whole group, in
arrival order, exactly once; afterwards the group's entry is gone. -/
theorem groupRun_block (st0 : Option (Int × List α)) (x0 : α) (g0 : TBGroup) (rest : List (α × Option TBGroup))
    (h1 : g0.num = 1) (htot : (rest.length : Int) + 1 = g0.tot) (hne : rest ≠ [])
    (hrest : ∀ p ∈ rest, ∃ g, p.2 = some g ∧ g.num ≠ 1 ∧ g.tot = g0.tot) :
    groupRun st0 ((x0, some g0) :: rest) =
      List.replicate rest.length [] ++ [[x0 :: rest.map (·.1)]] := by
  have hstep : groupRun st0 ((x0, some g0) :: rest) = [] :: groupRun (some (g0.tot, [x0])) rest := by
    simp [groupRun, groupStep, h1]
  rw [hstep, groupRun_gen g0.tot rest g0.tot [x0] hrest (by simp; omega) hne]
  cases rest with
  | nil => exact absurd rfl hne
  | cons y r => simp [List.replicate_succ]

/-- an incomplete group delivers nothing -/
theorem groupRun_incomplete (st0 : Option (Int × List α)) (x0 : α) (g0 : TBGroup) (rest : List (α × Option TBGroup))
    (h1 : g0.num = 1) (htot : (rest.length : Int) + 1 < g0.tot)
    (hrest : ∀ p ∈ rest, ∃ g, p.2 = some g ∧ g.num ≠ 1 ∧ g.tot = g0.tot) :
    groupRun st0 ((x0, some g0) :: rest) = List.replicate (rest.length + 1) [] := by
  have hstep : groupRun st0 ((x0, some g0) :: rest) = [] :: groupRun (some (g0.tot, [x0])) rest := by
    simp [groupRun, groupStep, h1]
  rw [hstep, groupRun_gen_incomplete g0.tot rest g0.tot [x0] hrest (by simp; omega)]
  simp [List.replicate_succ]

end Model
