import PyaisVerif.Lemmas.Layout
import PyaisVerif.Lemmas.Truncation
/-!
# Bit-level and arithmetic helpers for the per-field re-encoding theorem (`FieldRT.lean`)
-/
namespace Model
open Py Spec

/-! ## `ofNat` / `ofInt`: dropping leading bits -/

theorem ofNat_drop (m w n : Nat) : (ofNat (m + w) n).drop m = ofNat w n := by
  induction m with
  | zero => simp
  | succ m ih =>
    have e : m + 1 + w = (m + w) + 1 := by omega
    rw [e]
    simp only [ofNat, List.drop_succ_cons]
    exact ih

theorem toNat_ones (w : Nat) : toNat (ones w) = 2 ^ w - 1 := by
  induction w with
  | zero => rfl
  | succ w ih =>
    have h2 : 0 < 2 ^ w := Nat.pow_pos (by decide)
    simp only [ones, List.replicate_succ, toNat, b2n, List.length_replicate, Nat.pow_succ] at ih ⊢
    simp only [if_true]
    omega

theorem ones_length (w : Nat) : (ones w).length = w := by simp [ones]

theorem ofNat_ones (w : Nat) : ofNat w (2 ^ w - 1) = ones w := by
  have h := ofNat_toNat (ones w)
  rw [ones_length, toNat_ones] at h
  exact h

theorem two_pow_le_pad (w : Nat) : w ≤ 8 * ((w + 7) / 8) := by omega

/-- `int_to_bin` on an in-range unsigned value -/
theorem intToBin_unsigned (m : Int) (w : Nat) (h0 : 0 ≤ m) (h1 : m < 2 ^ w) :
    intToBin m w false = .ok (ofNat w m.toNat) := by
  have hP : ((2 ^ w : Nat) : Int) = (2 : Int) ^ w := by simp
  unfold intToBin
  split
  · rename_i hge
    have hm : m.toNat = 2 ^ w - 1 := by
      have h2 : 0 < 2 ^ w := Nat.pow_pos (by decide)
      omega
    rw [hm, ofNat_ones]
  · have hn : ¬ m < 0 := by omega
    simp only [Bool.false_eq_true, if_false, hn]
    have e : 8 * ((w + 7) / 8) = (8 * ((w + 7) / 8) - w) + w := by omega
    congr 1
    generalize 8 * ((w + 7) / 8) = N at e ⊢
    rw [e]
    have e2 : N - w + w - w = N - w := by omega
    rw [e2, ofNat_drop]

/-- Lemma A: `int_to_bin(get_int(bits))` gives the bits back -/
theorem intToBin_toNat (bits : Bits) :
    intToBin (toNat bits) bits.length false = .ok bits := by
  have hlt := toNat_lt bits
  have h1 : ((toNat bits : Nat) : Int) < 2 ^ bits.length := by exact_mod_cast hlt
  rw [intToBin_unsigned _ _ (by omega) h1]
  simp only [Int.toNat_natCast]
  rw [ofNat_toNat]

theorem ofInt_drop (m w : Nat) (i : Int) : (ofInt (m + w) i).drop m = ofInt w i := by
  unfold ofInt
  rw [ofNat_drop, ← ofNat_mod w (i % 2 ^ (m + w)).toNat]
  congr 1
  have hpos : (0 : Int) < 2 ^ w := Int.pow_pos (by decide)
  have hpos2 : (0 : Int) < 2 ^ (m + w) := Int.pow_pos (by decide)
  have hdvd : (2 : Int) ^ w ∣ 2 ^ (m + w) := ⟨2 ^ m, by rw [Int.pow_add, Int.mul_comm]⟩
  have h1 : 0 ≤ i % 2 ^ (m + w) := Int.emod_nonneg _ (by omega)
  have h2 : 0 ≤ i % 2 ^ w := Int.emod_nonneg _ (by omega)
  have key : (((i % 2 ^ (m + w)).toNat % 2 ^ w : Nat) : Int) = (((i % 2 ^ w).toNat : Nat) : Int) := by
    rw [Int.natCast_emod, Int.toNat_of_nonneg h1, Int.toNat_of_nonneg h2]
    simp only [Int.natCast_pow, Int.cast_ofNat_Int]
    exact Int.emod_emod_of_dvd _ hdvd
  exact_mod_cast key

theorem two_pow_pred (w : Nat) (hw : 0 < w) : (2 : Int) ^ w = 2 * 2 ^ (w - 1) := by
  have : w = (w - 1) + 1 := by omega
  rw [this, Int.pow_succ]
  simp
  omega

/-- Lemma B: `int_to_bin` on an in-range signed value -/
theorem intToBin_signed (r : Int) (w : Nat) (hw : 0 < w)
    (hr : -(2 : Int) ^ (w - 1) ≤ r ∧ r < 2 ^ (w - 1)) :
    intToBin r w true = .ok (ofInt w r) := by
  have hQ : (0 : Int) < 2 ^ (w - 1) := Int.pow_pos (by decide)
  have hP := two_pow_pred w hw
  have hle : (2 : Int) ^ (w - 1) ≤ 2 ^ (8 * ((w + 7) / 8) - 1) := by
    have : (2 : Nat) ^ (w - 1) ≤ 2 ^ (8 * ((w + 7) / 8) - 1) :=
      Nat.pow_le_pow_right (by decide) (by omega)
    exact_mod_cast this
  unfold intToBin
  have hn : ¬ r ≥ 2 ^ w - 1 := by omega
  have hrange : -(2 : Int) ^ (8 * ((w + 7) / 8) - 1) ≤ r ∧ r < 2 ^ (8 * ((w + 7) / 8) - 1) := by
    omega
  simp only [hn, if_false, if_true, hrange, and_self]
  congr 1
  have e : 8 * ((w + 7) / 8) = (8 * ((w + 7) / 8) - w) + w := by omega
  generalize 8 * ((w + 7) / 8) = N at e ⊢
  rw [e]
  have e2 : N - w + w - w = N - w := by omega
  rw [e2, ofInt_drop]

theorem intToBin_toInt (bits : Bits) (hw : 0 < bits.length) :
    intToBin (toInt bits) bits.length true = .ok bits := by
  rw [intToBin_signed _ _ hw (toInt_range bits bits.length (Nat.le_refl _) hw), ofInt_toInt]

/-- two's complement value through the plain value -/
theorem toInt_eq (bs : Bits) (h : bs ≠ []) :
    toInt bs = if toNat bs < 2 ^ (bs.length - 1) then (toNat bs : Int)
      else (toNat bs : Int) - 2 ^ bs.length := by
  cases bs with
  | nil => exact absurd rfl h
  | cons b tl =>
    have hlt := toNat_lt tl
    cases b
    · have : toNat (false :: tl) < 2 ^ ((false :: tl).length - 1) := by
        simp [toNat, b2n]; exact hlt
      rw [if_pos this]; rfl
    · have : ¬ toNat (true :: tl) < 2 ^ ((true :: tl).length - 1) := by
        simp [toNat, b2n]
      rw [if_neg this]; rfl

theorem toInt_ofInt (w : Nat) (r : Int) (hw : 0 < w)
    (hr : -(2 : Int) ^ (w - 1) ≤ r ∧ r < 2 ^ (w - 1)) : toInt (ofInt w r) = r := by
  have hQ : (0 : Int) < 2 ^ (w - 1) := Int.pow_pos (by decide)
  have hP := two_pow_pred w hw
  have hne : ofInt w r ≠ [] := by
    intro h
    have := congrArg List.length h
    simp [ofInt] at this
    omega
  have hlen : (ofInt w r).length = w := by simp [ofInt]
  have hcast : ((2 ^ w : Nat) : Int) = (2 : Int) ^ w := by simp
  have hcast1 : ((2 ^ (w - 1) : Nat) : Int) = (2 : Int) ^ (w - 1) := by simp
  rw [toInt_eq _ hne, hlen]
  have hmodnn : 0 ≤ r % 2 ^ w := Int.emod_nonneg _ (by omega)
  have hmodlt : r % 2 ^ w < 2 ^ w := Int.emod_lt_of_pos _ (by omega)
  have hx : toNat (ofInt w r) = (r % 2 ^ w).toNat := by
    unfold ofInt
    rw [toNat_ofNat]
    apply Nat.mod_eq_of_lt
    have : (((r % 2 ^ w).toNat : Nat) : Int) < ((2 ^ w : Nat) : Int) := by
      rw [Int.toNat_of_nonneg hmodnn, hcast]; exact hmodlt
    exact_mod_cast this
  rw [hx]
  by_cases h0 : 0 ≤ r
  · have hm : r % 2 ^ w = r := Int.emod_eq_of_lt h0 (by omega)
    rw [hm]
    have : r.toNat < 2 ^ (w - 1) := by
      have : ((r.toNat : Nat) : Int) < ((2 ^ (w - 1) : Nat) : Int) := by
        rw [Int.toNat_of_nonneg h0, hcast1]; exact hr.2
      exact_mod_cast this
    rw [if_pos this, Int.toNat_of_nonneg h0]
  · have hm : r % 2 ^ w = r + 2 ^ w := by
      rw [← Int.add_emod_right r (2 ^ w)]
      exact Int.emod_eq_of_lt (by omega) (by omega)
    rw [hm]
    have : ¬ (r + 2 ^ w).toNat < 2 ^ (w - 1) := by
      intro hlt
      have : (((r + 2 ^ w).toNat : Nat) : Int) < ((2 ^ (w - 1) : Nat) : Int) := by exact_mod_cast hlt
      rw [Int.toNat_of_nonneg (by omega), hcast1] at this
      omega
    rw [if_neg this, Int.toNat_of_nonneg (by omega)]
    omega

/-! ## arithmetic of the converters -/

theorem truncDiv_mul_micro (r : Int) : truncDiv (r * MICRO) MICRO = r := by
  unfold truncDiv
  exact Int.mul_tdiv_cancel _ (by decide)

theorem rhe_bound_600000 (p : Int) :
    2 * (roundHalfEvenDiv p 600000 * 600000 - p) ≤ 600000 ∧
    -600000 ≤ 2 * (roundHalfEvenDiv p 600000 * 600000 - p) := by
  unfold roundHalfEvenDiv
  simp only
  split
  · omega
  · split
    · omega
    · split <;> omega

theorem rhe_bound_600 (p : Int) :
    2 * (roundHalfEvenDiv p 600 * 600 - p) ≤ 600 ∧
    -600 ≤ 2 * (roundHalfEvenDiv p 600 * 600 - p) := by
  unfold roundHalfEvenDiv
  simp only
  split
  · omega
  · split
    · omega
    · split <;> omega

theorem rt_I4 (r : Int) :
    roundHalfEvenDiv (roundHalfEvenDiv (r * 1000000) 600000 * 600000) 1000000 = r := by
  have h := rhe_bound_600000 (r * 1000000)
  generalize roundHalfEvenDiv (r * 1000000) 600000 = m at h ⊢
  unfold roundHalfEvenDiv
  simp only
  split
  · omega
  · split
    · omega
    · split <;> omega

theorem rt_I600 (r : Int) :
    roundHalfEvenDiv (roundHalfEvenDiv (r * 1000000) 600 * 600) 1000000 = r := by
  have h := rhe_bound_600 (r * 1000000)
  generalize roundHalfEvenDiv (r * 1000000) 600 = m at h ⊢
  unfold roundHalfEvenDiv
  simp only
  split
  · omega
  · split
    · omega
    · split <;> omega

/-! ## octets -/

theorem chunk8_fuel (fuel fuel' : Nat) (l : Bits) (h : l.length ≤ 8 * fuel) (h' : l.length ≤ 8 * fuel') :
    chunk8 fuel l = chunk8 fuel' l := by
  induction fuel generalizing fuel' l with
  | zero =>
    have : l = [] := List.eq_nil_of_length_eq_zero (by omega)
    subst this
    cases fuel' <;> rfl
  | succ fuel ih =>
    cases l with
    | nil => cases fuel' <;> rfl
    | cons b tl =>
      cases fuel' with
      | zero => simp at h'
      | succ fuel' =>
        simp only [chunk8]
        congr 1
        apply ih
        · simp only [List.length_drop]; omega
        · simp only [List.length_drop]; omega

theorem ofBytes_chunk8 (fuel : Nat) (l : Bits) (h : l.length ≤ 8 * fuel) (h8 : l.length % 8 = 0) :
    ofBytes ((chunk8 fuel l).map toNat) = l := by
  induction fuel generalizing l with
  | zero =>
    have : l = [] := List.eq_nil_of_length_eq_zero (by omega)
    subst this; rfl
  | succ fuel ih =>
    cases l with
    | nil => rfl
    | cons b tl =>
      simp only [chunk8, List.map_cons, ofBytes, List.flatMap_cons]
      have hl : ((b :: tl).take 8).length = 8 := by
        simp only [List.length_take, List.length_cons] at h h8 ⊢; omega
      have h1 : ofNat 8 (toNat ((b :: tl).take 8)) = (b :: tl).take 8 := by
        have := ofNat_toNat ((b :: tl).take 8)
        rw [hl] at this; exact this
      have h2 := ih ((b :: tl).drop 8)
        (by simp only [List.length_drop, List.length_cons] at h h8 ⊢; omega)
        (by simp only [List.length_drop, List.length_cons] at h h8 ⊢; omega)
      unfold ofBytes at h2
      rw [h1, h2, List.take_append_drop]

theorem padRight8_length_mod (bits : Bits) : (padRight8 bits).length % 8 = 0 := by
  simp only [padRight8, List.length_append, zeros_length, padLen]; omega

/-- Lemma C -/
theorem ofBytes_toBytes (bits : Bits) : ofBytes (toBytes bits) = padRight8 bits := by
  unfold toBytes
  apply ofBytes_chunk8 _ _ _ (padRight8_length_mod bits)
  simp only [padRight8, List.length_append, zeros_length, padLen]; omega

theorem padRight8_of_mod (bits : Bits) (h : bits.length % 8 = 0) : padRight8 bits = bits := by
  unfold padRight8 padLen
  have : (8 - bits.length % 8) % 8 = 0 := by omega
  rw [this]; simp [zeros]

theorem toBytes_padRight8 (bits : Bits) : toBytes (padRight8 bits) = toBytes bits := by
  unfold toBytes
  rw [padRight8_of_mod _ (padRight8_length_mod bits)]
  congr 1
  apply chunk8_fuel
  · omega
  · simp only [padRight8, List.length_append, zeros_length, padLen]; omega

theorem toBytes_ne_nil (bits : Bits) (h : bits ≠ []) : toBytes bits ≠ [] := by
  unfold toBytes
  cases bits with
  | nil => exact absurd rfl h
  | cons b tl =>
    simp [padRight8, chunk8]

theorem padRight8_length_le (bits : Bits) (w : Nat) (h : bits.length ≤ w) (hw : w % 8 = 0) :
    (padRight8 bits).length ≤ w := by
  simp only [padRight8, List.length_append, zeros_length, padLen]; omega

/-! ## text length -/

theorem ascii6Chars_cons_length (c : Bits) (cs : List Bits) :
    (ascii6Chars (c :: cs)).length ≤ (ascii6Chars cs).length + 1 := by
  simp only [ascii6Chars]
  generalize (if fromBytes c >>> 2 < 32 then fromBytes c >>> 2 + 64 else fromBytes c >>> 2) = n
  split <;> simp

theorem ascii6Chars_length_aux : ∀ (fuel : Nat) (l : Bits), l.length < fuel →
    (∀ b ∈ l.drop (l.length / 6 * 6), b = false) →
    (ascii6Chars (chunksAux 6 fuel l)).length ≤ l.length / 6 := by
  intro fuel
  induction fuel with
  | zero => intro l h; omega
  | succ fuel ih =>
    intro l hlt hz
    cases l with
    | nil => simp [chunksAux, ascii6Chars]
    | cons b tl =>
      simp only [chunksAux]
      by_cases h6 : 6 ≤ (b :: tl).length
      · have hrec := ih ((b :: tl).drop 6)
          (by simp only [List.length_drop]; simp only [List.length_cons] at hlt h6 ⊢; omega)
          (by
            intro x hx
            apply hz x
            rw [List.drop_drop, List.length_drop] at hx
            have e : 6 + ((b :: tl).length - 6) / 6 * 6 = (b :: tl).length / 6 * 6 := by omega
            rw [e] at hx; exact hx)
        simp only [List.length_drop] at hrec
        have hc := ascii6Chars_cons_length (List.take 6 (b :: tl)) (chunksAux 6 fuel (List.drop 6 (b :: tl)))
        simp only [List.length_cons] at hrec h6 hc ⊢; omega
      · have e : (b :: tl).length / 6 * 6 = 0 := by omega
        rw [e, List.drop_zero] at hz
        have ht : List.take 6 (b :: tl) = b :: tl := List.take_of_length_le (by omega)
        rw [ht]
        simp [ascii6Chars, (fromBytes_zeros _ hz).1]

theorem strip_length_le_frt (s : List Nat) : (strip s).length ≤ s.length := by
  unfold strip rstrip lstrip
  rw [List.length_reverse]
  have h1 := (List.dropWhile_sublist isSpace (l := (List.dropWhile isSpace s).reverse)).length_le
  have h2 := (List.dropWhile_sublist isSpace (l := s)).length_le
  rw [List.length_reverse] at h1
  omega

theorem decodeAscii6_length_pad (bits : Bits)
    (h : ∀ b ∈ bits.drop (bits.length / 6 * 6), b = false) :
    (decodeAscii6 bits).length ≤ bits.length / 6 := by
  unfold decodeAscii6 chunks
  exact Nat.le_trans (strip_length_le_frt _) (ascii6Chars_length_aux _ bits (Nat.lt_succ_self _) h)

end Model
