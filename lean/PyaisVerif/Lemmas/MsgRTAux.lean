import PyaisVerif.Lemmas.FieldRT
import PyaisVerif.Lemmas.Codec
import PyaisVerif.Lemmas.Truncation
/-!
# List / cursor-loop helpers for the whole-message re-encoding theorem (`MsgRT.lean`)
-/
namespace Model
open Py Spec

theorem take_min_length {α} (l : List α) (w : Nat) : l.take (min l.length w) = l.take w := by
  by_cases h : w ≤ l.length
  · rw [Nat.min_eq_right h]
  · have : min l.length w = l.length := by omega
    rw [this, List.take_length, List.take_of_length_le (by omega)]

theorem fieldSlice_zero (bits : Bits) (w : Nat) : fieldSlice bits 0 w = bits.take w := by
  unfold fieldSlice
  rw [List.drop_zero, Nat.zero_add, Nat.sub_zero, take_min_length]

theorem fieldSlice_drop (bits : Bits) (c o w : Nat) :
    fieldSlice (bits.drop c) o w = fieldSlice bits (c + o) w := by
  unfold fieldSlice
  rw [List.drop_drop, List.length_drop]
  congr 1
  omega

/-- the per-offset decode of the payload without its first `c` bits is the per-offset decode of the
payload, `c` bits further on -/
theorem offFields_drop (env : Env) (bits : Bits) (c o : Nat) (fs : List Field) :
    offFields env (bits.drop c) o fs = offFields env bits (c + o) fs := by
  induction fs generalizing o with
  | nil => rfl
  | cons f fs ih =>
    simp only [offFields]
    rw [ih, fieldSlice_drop, Nat.add_assoc]
    by_cases h : c + o ≥ bits.length
    · have h' : o ≥ (bits.drop c).length := by rw [List.length_drop]; omega
      simp only [h, h', if_true]
    · have h' : ¬ o ≥ (bits.drop c).length := by rw [List.length_drop]; omega
      simp only [h, h', if_false]

/-- the cursor loop started at `c` is the cursor loop on the rest of the payload -/
theorem seqDecode_drop (env : Env) (bits : Bits) (c : Nat) (fs : List Field) :
    seqDecode env (bits.drop c) 0 fs = seqDecode env bits c fs := by
  rw [seqDecode_eq_off, seqDecode_eq_off, offFields_drop, Nat.add_zero]

/-- one step of the cursor loop at cursor 0 on a non-empty payload -/
theorem seqDecode_cons_zero (env : Env) (bits : Bits) (f : Field) (fs : List Field)
    (v : Val) (rest : List (String × Val)) (h : bits ≠ [])
    (hv : decodeField env f (bits.take f.width) = .ok v)
    (hr : seqDecode env (bits.drop f.width) 0 fs = .ok rest) :
    seqDecode env bits 0 (f :: fs) = .ok ((f.name, v) :: rest) := by
  have hl : ¬ (0 ≥ bits.length) := by
    cases bits with
    | nil => exact absurd rfl h
    | cons b bs => simp
  rw [seqDecode_drop, seqDecode_eq_off] at hr
  rw [seqDecode_eq_off]
  simp only [offFields, if_neg hl, fieldSlice_zero, hv, sequenceE, Nat.zero_add, hr]

theorem seqDecode_nil_bits (env : Env) (fs : List Field) :
    seqDecode env [] 0 fs = .ok (fs.map (fun f => (f.name, Val.none))) :=
  seqDecode_past env [] 0 fs (by simp)

/-- looking up a key of an association list with distinct keys -/
theorem lookup_map_nodup {α : Type} (key : α → String) (val : α → Val) (l : List α)
    (hn : (l.map key).Nodup) (p : α) (hp : p ∈ l) :
    (l.map fun q => (key q, val q)).lookup (key p) = some (val p) := by
  induction l with
  | nil => simp at hp
  | cons q l ih =>
    rw [List.map_cons, List.nodup_cons] at hn
    rw [List.map_cons, List.lookup_cons]
    rcases List.mem_cons.mp hp with rfl | hp
    · simp
    · have hne : key p ≠ key q := by
        intro e
        exact hn.1 (e ▸ List.mem_map_of_mem hp)
      have hbe : (key p == key q) = false := by simpa using hne
      rw [hbe]
      exact ih hn.2 hp

/-! ## the loop of `to_bitarray` -/

/-- the loop body of `to_bitarray` -/
def encStep (env : Env) (m : Msg) (acc : Bits) (f : Field) : Except Err Bits :=
  match m.get f.name with
  | .none => .ok acc
  | v => do
    let b ← encodeField env f v
    .ok (acc ++ b)

theorem toBitarray_eq_fold (env : Env) (fs : List Field) (m : Msg) :
    toBitarray env fs m = fs.foldlM (encStep env m) [] := rfl

theorem encStep_none (env : Env) (m : Msg) (acc : Bits) (f : Field) (h : m.get f.name = .none) :
    encStep env m acc f = .ok acc := by
  unfold encStep
  rw [h]

theorem encStep_some (env : Env) (m : Msg) (acc : Bits) (f : Field) (v : Val) (b : Bits)
    (h : m.get f.name = v) (hv : v ≠ .none) (he : encodeField env f v = .ok b) :
    encStep env m acc f = .ok (acc ++ b) := by
  unfold encStep
  split
  · rename_i heq
    exact absurd (h.symm.trans heq) hv
  · rw [h, he]; rfl

/-- the loop of `to_bitarray` over rows (field, value, bits) whose value is what the message holds
under the field's name and whose bits are the encoding of the value (nothing for `None`) -/
theorem foldlM_enc (env : Env) (m : Msg) (l : List (Field × Val × Bits))
    (h : ∀ p ∈ l, m.get p.1.name = p.2.1 ∧
      ((p.2.1 = .none ∧ p.2.2 = []) ∨ (p.2.1 ≠ .none ∧ encodeField env p.1 p.2.1 = .ok p.2.2)))
    (acc : Bits) :
    (l.map (·.1)).foldlM (encStep env m) acc = .ok (acc ++ (l.map (·.2.2)).flatten) := by
  induction l generalizing acc with
  | nil => simp; rfl
  | cons p l ih =>
    obtain ⟨hg, hc⟩ := h p (by simp)
    have ih' := fun acc => ih (fun q hq => h q (List.mem_cons_of_mem _ hq)) acc
    rw [List.map_cons, List.foldlM_cons]
    rcases hc with ⟨hn, hb⟩ | ⟨hn, he⟩
    · rw [encStep_none env m acc p.1 (hg.trans hn)]
      show List.foldlM (encStep env m) acc (l.map (·.1)) = _
      rw [ih' acc]
      simp [hb]
    · rw [encStep_some env m acc p.1 p.2.1 p.2.2 hg hn he]
      show List.foldlM (encStep env m) (acc ++ p.2.2) (l.map (·.1)) = _
      rw [ih' (acc ++ p.2.2)]
      simp [List.append_assoc]

/-- without padding characters the two modes of `str_to_bin` coincide -/
theorem strToBin_exact (s : List Nat) (L w : Nat) (h : 6 * s.length = L) (hw : L ≤ w) :
    strToBin s w false = strToBin s L true := by
  have h1 : L / 6 = s.length := by omega
  have h2 : s.length ≤ w / 6 := by omega
  unfold strToBin
  simp only [Bool.false_eq_true, if_false, if_true, h1, Nat.sub_self, List.replicate_zero,
    List.append_nil]
  rw [List.take_of_length_le h2, List.take_of_length_le (Nat.le_refl _)]

theorem flatten_map_nil {α : Type} (l : List α) :
    ((l.map fun _ => ([] : Bits))).flatten = [] := by
  induction l with
  | nil => rfl
  | cons a l ih => simp [ih]

end Model
