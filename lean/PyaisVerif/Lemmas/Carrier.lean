import PyaisVerif.Spec.Carrier
import PyaisVerif.Lemmas.Render
import PyaisVerif.Lemmas.Encode
import PyaisVerif.Model.Assemble
/-!
# Carrier independence (generic part of C04)

A *carrier* of an armored payload is any list of rendered fragments, in any order, each optionally
preceded by a tag block and followed by a line terminator / blanks, whose chunks concatenate (in
fragment-number order) to the payload.  One-shot decoding sees only the payload.
-/
namespace Model
open Py Spec

/-- decoration of one line: optional leading tag block, trailing terminator / blanks -/
structure Deco where
  tb : Option Bytes := none
  trailer : Bytes := []
  deriving DecidableEq, Repr, Inhabited

def DecoOK (d : Deco) : Prop :=
  d.trailer.all isSpace = true ∧
  (match d.tb with
   | some t => BACKSLASH ∉ t ∧ t ≠ []
   | none => True)

/-- the line handed to `decode()` for a fragment and its decoration -/
def renderLine (f : FragSpec) (d : Deco) : Bytes :=
  (match d.tb with
   | some t => [BACKSLASH] ++ t ++ [BACKSLASH]
   | none => []) ++ renderFrag f ++ d.trailer

/-- `frags` (in the order in which they are handed over) carry `payload` with `fill` fill bits:
`n` fragments numbered by a permutation of `1 … n`, every chunk non-empty, the chunks in
fragment-number order concatenate to the payload, only fragment `n` carries the fill bits. -/
structure Carries (k : NmeaConsts) (payload : Bytes) (fill : Nat) (frags : List FragSpec) : Prop where
  ok : ∀ f ∈ frags, FragOK k f = true
  ne : frags ≠ []
  cnt : ∀ f ∈ frags, f.cnt = frags.length
  perm : (frags.map (·.num)).Perm (List.range' 1 frags.length)
  chunks_ne : ∀ f ∈ frags, f.chunk ≠ []
  fills : ∀ f ∈ frags, f.fill = if f.num = frags.length then fill else 0
  concat : ∀ sorted : List FragSpec, sorted.Perm frags →
      sorted.Pairwise (fun a b => a.num < b.num) → (sorted.map (·.chunk)).flatten = payload

/-- every decorated line parses to the expected sentence (with the tag block attached) -/
theorem produce_renderLine (k : NmeaConsts) (f : FragSpec) (d : Deco) (hok : FragOK k f = true)
    (hd : DecoOK d) (bits : Bits) (hb : dearmor f.chunk f.fill = .ok bits) :
    produce k (renderLine f d) = .ok { expectedSentence f bits with tagBlock := d.tb } := by
  have hbase := produce_renderFrag k f hok bits hb
  obtain ⟨htr, htb⟩ := hd
  unfold renderLine
  rw [produce_trailer k _ _ htr]
  cases hd : d.tb with
  | none =>
    simp only [List.nil_append]
    rw [hbase]; rfl
  | some t =>
    rw [hd] at htb
    have hhead : ∀ b, (renderFrag f).head? = some b → isSpace b = false ∧ b ≠ BACKSLASH := by
      intro b hb'
      have : b = 33 := by simpa [renderFrag] using hb'.symm
      subst this; decide
    have hne : renderFrag f ≠ [] := by simp [renderFrag]
    simp only
    rw [produce_tagblock k t (renderFrag f) htb.1 htb.2 hhead hne, hbase]

/-! ### insertion sort by an integer key -/

def insertKey {α} (key : α → Int) (x : α) : List α → List α
  | [] => [x]
  | y :: ys => if key y < key x then y :: insertKey key x ys else x :: y :: ys

def sortKey {α} (key : α → Int) (l : List α) : List α := l.foldr (insertKey key) []

theorem insertKey_perm {α} (key : α → Int) (x : α) (l : List α) : (insertKey key x l).Perm (x :: l) := by
  induction l with
  | nil => exact List.Perm.refl _
  | cons y ys ih =>
    simp only [insertKey]
    split
    · exact ((List.Perm.cons y ih).trans (List.Perm.swap x y ys))
    · exact List.Perm.refl _

theorem sortKey_perm {α} (key : α → Int) (l : List α) : (sortKey key l).Perm l := by
  induction l with
  | nil => exact List.Perm.refl _
  | cons x xs ih =>
    have e : sortKey key (x :: xs) = insertKey key x (sortKey key xs) := rfl
    rw [e]
    exact (insertKey_perm key x _).trans (List.Perm.cons x ih)

theorem insertKey_sorted {α} (key : α → Int) (x : α) (l : List α)
    (h : l.Pairwise (fun a b => key a ≤ key b)) :
    (insertKey key x l).Pairwise (fun a b => key a ≤ key b) := by
  induction l with
  | nil => simp [insertKey]
  | cons y ys ih =>
    rw [List.pairwise_cons] at h
    simp only [insertKey]
    split
    · rename_i hlt
      rw [List.pairwise_cons]
      refine ⟨?_, ih h.2⟩
      intro z hz
      have := (insertKey_perm key x ys).mem_iff.mp hz
      rcases List.mem_cons.mp this with rfl | hz'
      · omega
      · exact h.1 z hz'
    · rename_i hge
      rw [List.pairwise_cons]
      refine ⟨?_, List.pairwise_cons.mpr h⟩
      intro z hz
      rcases List.mem_cons.mp hz with rfl | hz'
      · omega
      · have := h.1 z hz'; omega

theorem sortKey_sorted {α} (key : α → Int) (l : List α) :
    (sortKey key l).Pairwise (fun a b => key a ≤ key b) := by
  induction l with
  | nil => exact List.Pairwise.nil
  | cons x xs ih => exact insertKey_sorted key x _ ih

/-- with pairwise distinct keys the sorted list is strictly increasing -/
theorem sortKey_strict {α} (key : α → Int) (l : List α)
    (hd : l.Pairwise (fun a b => key a ≠ key b)) :
    (sortKey key l).Pairwise (fun a b => key a < key b) := by
  have h1 := sortKey_sorted key l
  have h2 : (sortKey key l).Pairwise (fun a b => key a ≠ key b) :=
    ((sortKey_perm key l).symm).pairwise hd (fun h => Ne.symm h)
  exact (h1.and h2).imp (fun ⟨a, b⟩ => by omega)

theorem sortKey_map {α β} (key : β → Int) (g : α → β) (l : List α) :
    sortKey key (l.map g) = (sortKey (fun a => key (g a)) l).map g := by
  have hins : ∀ (x : α) (l : List α),
      insertKey key (g x) (l.map g) = (insertKey (fun a => key (g a)) x l).map g := by
    intro x l
    induction l with
    | nil => rfl
    | cons y ys ih =>
      simp only [List.map_cons, insertKey]
      split
      · simp [ih]
      · simp
  induction l with
  | nil => rfl
  | cons x xs ih =>
    have e1 : sortKey key ((x :: xs).map g) = insertKey key (g x) (sortKey key (xs.map g)) := rfl
    have e2 : sortKey (fun a => key (g a)) (x :: xs) =
        insertKey (fun a => key (g a)) x (sortKey (fun a => key (g a)) xs) := rfl
    rw [e1, e2, ih, hins]

theorem sortByNum_eq_sortKey (l : List Sentence) : sortByNum l = sortKey (·.fragNum) l := by
  have hins : ∀ (x : Sentence) (l : List Sentence), insertByNum x l = insertKey (·.fragNum) x l := by
    intro x l
    induction l with
    | nil => rfl
    | cons y ys ih => simp only [insertByNum, insertKey, ih]
  induction l with
  | nil => rfl
  | cons x xs ih =>
    have e1 : sortByNum (x :: xs) = insertByNum x (sortByNum xs) := rfl
    have e2 : sortKey (·.fragNum) (x :: xs) = insertKey (·.fragNum) x (sortKey (·.fragNum) xs) := rfl
    rw [e1, e2, ih, hins]

/-- a stable sort by fragment number of a permutation of a strictly increasing list is that list -/
theorem sortByNum_perm_canonical (l c : List Sentence) (hperm : l.Perm c)
    (hc : c.Pairwise (fun a b => a.fragNum < b.fragNum)) : sortByNum l = c := by
  rw [sortByNum_eq_sortKey]
  have hdist : l.Pairwise (fun a b => a.fragNum ≠ b.fragNum) :=
    hperm.symm.pairwise (hc.imp (fun h => by omega)) (fun h => Ne.symm h)
  have hs := sortKey_strict (·.fragNum) l hdist
  exact List.Perm.eq_of_pairwise (le := fun a b => a.fragNum < b.fragNum)
    (fun a b _ _ h1 h2 => by omega) hs hc ((sortKey_perm _ l).trans hperm)


/-! ### the one-shot path on parsed AIS sentences -/

/-- the collection loop on arguments that all parse to AIS sentences with the same fragment count -/
theorem oneShotCollect_all_ais (k : NmeaConsts) (c : Int) : ∀ (args : List Bytes) (ss : List Sentence),
    args.map (produce k) = ss.map .ok → (∀ s ∈ ss, s.isAIS = true ∧ s.fragCnt = c) →
    ∀ (temp : List Sentence) (cnt : Int),
    oneShotCollect k false args temp cnt = .ok (temp ++ ss, if ss.isEmpty then cnt else c) := by
  intro args
  induction args with
  | nil =>
    intro ss hmap _ temp cnt
    cases ss with
    | nil => simp [oneShotCollect]
    | cons s ss' => simp at hmap
  | cons a rest ih =>
    intro ss hmap hall temp cnt
    cases ss with
    | nil => simp at hmap
    | cons s ss' =>
      simp only [List.map_cons, List.cons.injEq] at hmap
      obtain ⟨hp, hrest⟩ := hmap
      obtain ⟨hais, hcnt⟩ := hall s (by simp)
      unfold oneShotCollect
      rw [hp]
      simp only [hais, if_true, Bool.false_eq_true, false_and, if_false]
      rw [ih ss' hrest (fun s hs => hall s (List.mem_cons_of_mem _ hs)), hcnt]
      simp

/-- the checks after the loop pass when the fragment numbers are a permutation of `1 … n` -/
theorem oneShotFinish_perm (temp : List Sentence) (n : Nat) (hlen : temp.length = n) (hn : 1 ≤ n)
    (hperm : (temp.map (·.fragNum)).Perm ((List.range' 1 n).map fun (j : Nat) => (j : Int))) :
    ∃ s, oneShotFinish temp n = .ok s ∧
      s.bits = ((sortByNum temp).map (·.bits)).flatten ∧
      s.payload = ((sortByNum temp).map (·.payload)).flatten ∧
      s.isValid = temp.all (·.isValid) ∧
      s.aisId = getInt ((sortByNum temp).map (·.bits)).flatten 0 6 := by
  have hmissing : ((List.range (n : Int).toNat).filter fun (i : Nat) =>
      ¬ (temp.map (·.fragNum)).contains ((i : Int) + 1)) = [] := by
    rw [List.filter_eq_nil_iff]
    intro i hi
    simp only [Int.toNat_natCast, List.mem_range] at hi
    simp only [List.contains_iff_mem, decide_not, Bool.not_eq_true', decide_eq_false_iff_not,
      Classical.not_not]
    rw [hperm.mem_iff, List.mem_map]
    exact ⟨i + 1, by rw [List.mem_range'_1]; omega, by omega⟩
  unfold oneShotFinish
  simp only [hmissing]
  cases temp with
  | nil => simp at hlen; omega
  | cons m0 rest =>
    have h1 : ¬ ((m0 :: rest).isEmpty = true) := by simp
    have h2 : ¬ (((m0 :: rest).length : Int) > (n : Int)) := by rw [hlen]; omega
    rw [if_neg h1, if_neg h2]
    simp only [List.isEmpty_nil, not_true_eq_false, if_false, assemble, sortByNum_all]
    exact ⟨_, rfl, rfl, rfl, rfl, rfl⟩

/-- de-armoring part by part: all parts but the last carry no fill bits -/
theorem dearmor_parts : ∀ (cs : List (Bytes × Bits)) (b : Bytes) (xb : Bits) (fill : Nat),
    (∀ c ∈ cs, c.1.all isArmorChar = true ∧ dearmor c.1 0 = .ok c.2) → b ≠ [] →
    dearmor b fill = .ok xb →
    dearmor ((cs.map (·.1)).flatten ++ b) fill = .ok ((cs.map (·.2)).flatten ++ xb) := by
  intro cs
  induction cs with
  | nil => intro b xb fill _ _ hb; simpa using hb
  | cons c cs ih =>
    intro b xb fill hparts hne hb
    obtain ⟨harm, hd⟩ := hparts c (by simp)
    have hrest := ih b xb fill (fun c hc => hparts c (List.mem_cons_of_mem _ hc)) hne hb
    simp only [List.map_cons, List.flatten_cons, List.append_assoc]
    rw [dearmor_append c.1 _ fill harm (by simp [hne]) c.2 hd, hrest]

theorem fragOK_chunk (k : NmeaConsts) (f : FragSpec) (h : FragOK k f = true) :
    f.chunk.all isArmorChar = true ∧ f.fill ≤ 5 := by
  simp only [FragOK, Bool.and_eq_true] at h
  obtain ⟨⟨⟨_, harm⟩, _⟩, hf⟩ := h
  exact ⟨harm, of_decide_eq_true hf⟩

/-- the bits the parser reads from a fragment -/
def fragBitsOf (f : FragSpec) : Bits :=
  match dearmor f.chunk f.fill with
  | .ok b => b
  | .error _ => []

theorem fragBitsOf_spec (k : NmeaConsts) (f : FragSpec) (h : FragOK k f = true) :
    dearmor f.chunk f.fill = .ok (fragBitsOf f) := by
  obtain ⟨harm, hf⟩ := fragOK_chunk k f h
  obtain ⟨b, hb⟩ := dearmor_ok f.chunk f.fill harm hf
  simp only [fragBitsOf, hb]

/-- the sentence object the parser produces for a decorated fragment -/
def sentOf (p : FragSpec × Deco) : Sentence :=
  { expectedSentence p.1 (fragBitsOf p.1) with tagBlock := p.2.tb }

theorem produce_sentOf (k : NmeaConsts) (p : FragSpec × Deco) (hok : FragOK k p.1 = true)
    (hd : DecoOK p.2) : produce k (renderLine p.1 p.2) = .ok (sentOf p) :=
  produce_renderLine k p.1 p.2 hok hd _ (fragBitsOf_spec k p.1 hok)

/-- the bits of the fragments in fragment-number order are the bits of the whole payload -/
theorem carrier_bits (k : NmeaConsts) (payload : Bytes) (fill : Nat) (bits : Bits)
    (hbits : dearmor payload fill = .ok bits) (frags : List FragSpec)
    (hc : Carries k payload fill frags) (sf : List FragSpec) (hperm : sf.Perm frags)
    (hs : sf.Pairwise (fun a b => a.num < b.num)) :
    (sf.map fragBitsOf).flatten = bits := by
  have hpay := hc.concat sf hperm hs
  have hn : 1 ≤ frags.length := by
    cases frags with
    | nil => exact absurd rfl hc.ne
    | cons _ _ => simp
  have hsfne : sf ≠ [] := by
    intro h0; rw [h0] at hperm; have := hperm.length_eq; simp at this; omega
  obtain ⟨init, last, rfl⟩ : ∃ init last, sf = init ++ [last] :=
    ⟨sf.dropLast, sf.getLast hsfne, (List.dropLast_concat_getLast hsfne).symm⟩
  have hmem : ∀ f, f ∈ init ++ [last] → f ∈ frags := fun f hf => hperm.mem_iff.mp hf
  have hrange : ∀ f, f ∈ frags → 1 ≤ f.num ∧ f.num ≤ frags.length := by
    intro f hf
    have : f.num ∈ List.range' 1 frags.length :=
      hc.perm.mem_iff.mp (List.mem_map_of_mem hf)
    rw [List.mem_range'_1] at this; omega
  rw [List.pairwise_append] at hs
  obtain ⟨_, _, hlt⟩ := hs
  have hlast_mem : last ∈ frags := hmem last (by simp)
  have hlast : last.num = frags.length := by
    have : frags.length ∈ frags.map (·.num) :=
      hc.perm.mem_iff.mpr (by rw [List.mem_range'_1]; omega)
    obtain ⟨f, hf, hfn⟩ := List.mem_map.mp this
    have hf' := hperm.mem_iff.mpr hf
    rcases List.mem_append.mp hf' with hi | hl
    · have := hlt f hi last (by simp)
      have := (hrange last hlast_mem).2
      omega
    · have : f = last := by simpa using hl
      rw [← this]; exact hfn
  have hparts : ∀ c ∈ init.map (fun f => (f.chunk, fragBitsOf f)),
      c.1.all isArmorChar = true ∧ dearmor c.1 0 = .ok c.2 := by
    intro c hcm
    obtain ⟨f, hf, rfl⟩ := List.mem_map.mp hcm
    have hff := hmem f (by simp [hf])
    have hok := hc.ok f hff
    refine ⟨(fragOK_chunk k f hok).1, ?_⟩
    have hfill : f.fill = 0 := by
      rw [hc.fills f hff]
      have := hlt f hf last (by simp)
      rw [if_neg (by omega)]
    have := fragBitsOf_spec k f hok
    rw [hfill] at this
    exact this
  have hlastd : dearmor last.chunk fill = .ok (fragBitsOf last) := by
    have := fragBitsOf_spec k last (hc.ok last hlast_mem)
    have hfill : last.fill = fill := by rw [hc.fills last hlast_mem, if_pos hlast]
    rw [hfill] at this
    exact this
  have hall := dearmor_parts _ last.chunk (fragBitsOf last) fill hparts
    (hc.chunks_ne last hlast_mem) hlastd
  simp only [List.map_map, Function.comp_def] at hall
  simp only [List.map_append, List.flatten_append, List.map_cons, List.map_nil, List.flatten_cons,
    List.flatten_nil, List.append_nil] at hpay ⊢
  rw [hpay, hbits] at hall
  exact (Except.ok.inj hall).symm

/-- **One-shot assembly sees only the payload**: for every carrier of `(payload, fill)` the assembled
sentence has exactly that payload, the de-armored bits and the message id of those bits. -/
theorem oneShot_carrier (k : NmeaConsts) (payload : Bytes) (fill : Nat) (bits : Bits)
    (hbits : dearmor payload fill = .ok bits) (hfill : fill ≤ 5)
    (frags : List FragSpec) (decos : List Deco) (hlen : decos.length = frags.length)
    (hc : Carries k payload fill frags) (hd : ∀ d ∈ decos, DecoOK d) :
    ∃ s, oneShotAssemble k false (List.zipWith renderLine frags decos) = .ok s ∧
      s.payload = payload ∧ s.bits = bits ∧ s.aisId = getInt bits 0 6 ∧ s.isValid = true := by
  have _ := hfill
  -- work with the list of (fragment, decoration) pairs
  have hlines : List.zipWith renderLine frags decos =
      (frags.zip decos).map (fun p => renderLine p.1 p.2) := by
    rw [← List.map_uncurry_zip_eq_zipWith]; rfl
  have hfst : (frags.zip decos).map (·.1) = frags := List.map_fst_zip (by omega)
  have hdec : ∀ p ∈ frags.zip decos, DecoOK p.2 := fun p hp => hd p.2 (List.of_mem_zip hp).2
  rw [hlines]
  generalize frags.zip decos = ps at hfst hdec ⊢
  clear hlines hd hlen decos
  have hmemf : ∀ p ∈ ps, p.1 ∈ frags := by
    intro p hp; rw [← hfst]; exact List.mem_map_of_mem hp
  have hpslen : ps.length = frags.length := by rw [← hfst]; simp
  have hn : 1 ≤ frags.length := by
    cases frags with
    | nil => exact absurd rfl hc.ne
    | cons _ _ => simp
  -- every line parses
  have hmap : (ps.map (fun p => renderLine p.1 p.2)).map (produce k) = (ps.map sentOf).map .ok := by
    rw [List.map_map, List.map_map]
    apply List.map_congr_left
    intro p hp
    simp only [Function.comp]
    exact produce_sentOf k p (hc.ok p.1 (hmemf p hp)) (hdec p hp)
  have hall : ∀ s ∈ ps.map sentOf, s.isAIS = true ∧ s.fragCnt = (frags.length : Int) := by
    intro s hs
    obtain ⟨p, hp, rfl⟩ := List.mem_map.mp hs
    refine ⟨rfl, ?_⟩
    show ((p.1.cnt : Nat) : Int) = _
    rw [hc.cnt p.1 (hmemf p hp)]
  have hcollect := oneShotCollect_all_ais k frags.length _ _ hmap hall [] 1
  have hnonempty : (ps.map sentOf).isEmpty = false := by
    cases ps with
    | nil => simp at hpslen; omega
    | cons _ _ => rfl
  rw [hnonempty] at hcollect
  simp only [List.nil_append, Bool.false_eq_true, if_false] at hcollect
  -- the checks after the loop
  have hnums : ((ps.map sentOf).map (·.fragNum)).Perm
      ((List.range' 1 frags.length).map fun (j : Nat) => (j : Int)) := by
    have e : (ps.map sentOf).map (·.fragNum) = (frags.map (·.num)).map fun (j : Nat) => (j : Int) := by
      rw [← hfst, List.map_map, List.map_map, List.map_map]; rfl
    rw [e]
    exact hc.perm.map _
  obtain ⟨s, hs, hsbits, hspay, hsvalid, hsid⟩ :=
    oneShotFinish_perm (ps.map sentOf) frags.length (by simp [hpslen]) hn hnums
  -- the sorted list of sentences comes from the pairs sorted by fragment number
  have hsorted : sortByNum (ps.map sentOf) =
      (sortKey (fun p => (sentOf p).fragNum) ps).map sentOf := by
    rw [sortByNum_eq_sortKey, sortKey_map]
  generalize hsp : sortKey (fun p => (sentOf p).fragNum) ps = sp at hsorted
  have hspperm : sp.Perm ps := by rw [← hsp]; exact sortKey_perm _ ps
  have hdist : ps.Pairwise (fun a b => (sentOf a).fragNum ≠ (sentOf b).fragNum) := by
    have hnd : (frags.map (·.num)).Nodup := hc.perm.symm.nodup List.nodup_range'
    rw [← hfst, List.map_map] at hnd
    have := List.pairwise_map.mp hnd
    refine this.imp ?_
    intro a b hab
    show ((a.1.num : Nat) : Int) ≠ ((b.1.num : Nat) : Int)
    simp only [Function.comp] at hab
    omega
  have hspstrict : (sp.map (·.1)).Pairwise (fun a b => a.num < b.num) := by
    rw [List.pairwise_map]
    have := sortKey_strict (fun p => (sentOf p).fragNum) ps hdist
    rw [hsp] at this
    refine this.imp ?_
    intro a b hab
    have hab' : ((a.1.num : Nat) : Int) < ((b.1.num : Nat) : Int) := hab
    omega
  have hsfperm : (sp.map (·.1)).Perm frags := by
    have := hspperm.map (·.1)
    rw [hfst] at this; exact this
  have hflatbits : ((sortByNum (ps.map sentOf)).map (·.bits)).flatten = bits := by
    rw [hsorted, List.map_map]
    have := carrier_bits k payload fill bits hbits frags hc _ hsfperm hspstrict
    rw [List.map_map] at this
    exact this
  refine ⟨s, ?_, ?_, ?_, ?_, ?_⟩
  · unfold oneShotAssemble
    rw [hcollect]; exact hs
  · rw [hspay, hsorted, List.map_map]
    have := hc.concat _ hsfperm hspstrict
    rw [List.map_map] at this
    exact this
  · rw [hsbits, hflatbits]
  · rw [hsid, hflatbits]
  · rw [hsvalid, List.all_map]
    simp [sentOf, expectedSentence]
end Model
