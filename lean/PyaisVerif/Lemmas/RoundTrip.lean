import PyaisVerif.Model.Encode
import PyaisVerif.Lemmas.FieldRT
/-!
# create(), encode_dict and the wire quantisation of scaled quantities (generic part of C02)
-/
namespace Model
open Py Spec

/-- **`create(**kwargs)` with every field given and well-typed** builds the message with exactly
the given values, in table order.  Well-typed = `__force_type` and the attrs-level converter leave
the value alone. -/
theorem createConcrete_full (env : Env) (c : String) (fs : List Field) (kw : List (String × Val))
    (hall : ∀ f ∈ fs, ∃ v, kwGet kw f.name = some v ∧ forceType f v = .ok v ∧
      applyConv env f.attrConv v = .ok v) :
    createConcrete env c fs kw =
      .ok { cls := c, fields := fs.map fun f => (f.name, (kwGet kw f.name).getD .none) } := by
  sorry

/-- a field that is not given takes the table default (fields whose default is `None` are
required: `TypeError`) -/
theorem createConcrete_default (env : Env) (c : String) (f : Field) (kw : List (String × Val))
    (hmiss : kwGet kw f.name = none) :
    createConcrete env c [f] kw =
      (match f.default with
       | .none => .error .typeError
       | d => (applyConv env f.attrConv d).map fun d' => { cls := c, fields := [(f.name, d')] }) := by
  sorry

/-- **`encode_dict` is `create` followed by `encode_msg`**, with the type taken from `type` or
`msg_type` and looked up in `MSG_CLASS`. -/
theorem encodeDict_eq (env : Env) (maxLen : Nat) (kw : List (String × Val)) (talker chan : Bytes)
    (t : Int) (cls : String) (m : Msg)
    (ht : getAisType kw = .ok t) (ht0 : 0 ≤ t) (hcls : env.msgClass.lookup t.toNat = some cls)
    (hm : create env cls kw = .ok m) :
    encodeDict env maxLen kw talker chan = encodeMsg env maxLen m talker chan := by
  sorry

/-- `get_ais_type` prefers `type` over `msg_type` -/
theorem getAisType_type (kw : List (String × Val)) (t : Int)
    (h : kwGet kw "type" = some (.int t)) : getAisType kw = .ok t := by
  sorry

theorem getAisType_msg_type (kw : List (String × Val)) (t : Int)
    (h0 : kwGet kw "type" = none) (h : kwGet kw "msg_type" = some (.int t)) : getAisType kw = .ok t := by
  sorry

/-! ## wire quantisation (exact arithmetic; values in micro-units, i.e. six decimals) -/

/-- **Positions (1/10000 min and 1/10 min as degrees)**: the wire value is the nearest integer to
`v · k` — at most half a step away. -/
theorem quant_round (m : Int) (k : Nat) (hk : 0 < k) :
    let wire := roundHalfEvenDiv (m * k) MICRO
    2 * (wire * MICRO - m * k).natAbs ≤ MICRO.natAbs := by
  sorry

/-- … and decoding the wire value gives the six-decimal number nearest to `wire / k` -/
theorem quant_round_back (wire : Int) (k : Nat) (hk : 0 < k) :
    let dec := roundHalfEvenDiv (wire * MICRO) k
    2 * (dec * k - wire * MICRO).natAbs ≤ k := by
  sorry

/-- **Tenths (speed, course, draught, 1/10-minute corrections)**: the wire value is `v · 10`
truncated toward zero — less than one step away, never beyond `v` -/
theorem quant_trunc (m : Int) :
    let wire := truncDiv (m * 10) MICRO
    (wire * MICRO).natAbs ≤ (m * 10).natAbs ∧ (m * 10).natAbs - (wire * MICRO).natAbs < MICRO.natAbs ∧
    (0 ≤ m → 0 ≤ wire) ∧ (m ≤ 0 → wire ≤ 0) := by
  sorry

/-- a value that is wire-representable is encoded to exactly its wire value (positions) -/
theorem quant_round_fixed (r : Int) (k : Nat) (hk : k = 600000 ∨ k = 600) :
    roundHalfEvenDiv (roundHalfEvenDiv (r * MICRO) k * k) MICRO = r := by
  sorry

/-- … and tenths -/
theorem quant_trunc_fixed (r : Int) : truncDiv ((r * 100000) * 10) MICRO = r := by
  sorry

end Model
