import PyaisVerif.Model.Encode
import PyaisVerif.Lemmas.FieldRT
/-!
# create(), encode_dict and the wire quantisation of scaled quantities (generic part of C02)
-/
namespace Model
open Py Spec

theorem createFold_full (env : Env) (kw : List (String × Val)) : ∀ (fs : List Field) (acc : List (String × Val)),
    (∀ f ∈ fs, ∃ v, kwGet kw f.name = some v ∧ forceType f v = .ok v ∧ applyConv env f.attrConv v = .ok v) →
    fs.foldlM (init := acc) (createStep env kw) =
      .ok (acc ++ fs.map fun f => (f.name, (kwGet kw f.name).getD .none))
  | [], acc, _ => by simp [List.foldlM, pure, Except.pure]
  | f :: fs, acc, h => by
    obtain ⟨v, h1, h2, h3⟩ := h f (List.mem_cons_self ..)
    rw [List.foldlM_cons]
    have hs : createStep env kw acc f = .ok (acc ++ [(f.name, v)]) := by
      simp only [createStep, h1, h2, h3, bind, Except.bind]
    rw [hs]
    simp only [bind, Except.bind]
    rw [createFold_full env kw fs (acc ++ [(f.name, v)]) (fun g hg => h g (List.mem_cons_of_mem _ hg))]
    simp [h1]

/-- **`create(**kwargs)` with every field given and well-typed** builds the message with exactly
the given values, in table order.  Well-typed = `__force_type` and the attrs-level converter leave
the value alone. -/
theorem createConcrete_full (env : Env) (c : String) (fs : List Field) (kw : List (String × Val))
    (hall : ∀ f ∈ fs, ∃ v, kwGet kw f.name = some v ∧ forceType f v = .ok v ∧
      applyConv env f.attrConv v = .ok v) :
    createConcrete env c fs kw =
      .ok { cls := c, fields := fs.map fun f => (f.name, (kwGet kw f.name).getD .none) } := by
  unfold createConcrete
  rw [createFold_full env kw fs [] hall]
  simp [bind, Except.bind]

/-- a field that is not given takes the table default (fields whose default is `None` are
required: `TypeError`) -/
theorem createConcrete_default (env : Env) (c : String) (f : Field) (kw : List (String × Val))
    (hmiss : kwGet kw f.name = none) :
    createConcrete env c [f] kw =
      (match f.default with
       | .none => .error .typeError
       | d => (applyConv env f.attrConv d).map fun d' => { cls := c, fields := [(f.name, d')] }) := by
  unfold createConcrete
  simp only [List.foldlM_cons, List.foldlM_nil, createStep, hmiss]
  cases hd : f.default <;> simp only [bind, Except.bind, pure, Except.pure, Except.map, List.nil_append] <;>
    (first | rfl | (cases applyConv env f.attrConv _ <;> rfl))

/-- **`encode_dict` is `create` followed by `encode_msg`**, with the type taken from `type` or
`msg_type` and looked up in `MSG_CLASS`. -/
theorem encodeDict_eq (env : Env) (maxLen : Nat) (kw : List (String × Val)) (talker chan : Bytes)
    (t : Int) (cls : String) (m : Msg)
    (ht : getAisType kw = .ok t) (ht0 : 0 ≤ t) (hcls : env.msgClass.lookup t.toNat = some cls)
    (hm : create env cls kw = .ok m) :
    encodeDict env maxLen kw talker chan = encodeMsg env maxLen m talker chan := by
  unfold encodeDict encodeMsg
  split
  · rfl
  split
  · rfl
  have : ¬ t < 0 := by omega
  simp only [ht, bind, Except.bind, this, if_false, hcls, hm]

/-- `get_ais_type` prefers `type` over `msg_type` -/
theorem getAisType_type (kw : List (String × Val)) (t : Int)
    (h : kwGet kw "type" = some (.int t)) : getAisType kw = .ok t := by
  simp [getAisType, h, Val.toInt?]

theorem getAisType_msg_type (kw : List (String × Val)) (t : Int)
    (h0 : kwGet kw "type" = none) (h : kwGet kw "msg_type" = some (.int t)) : getAisType kw = .ok t := by
  simp [getAisType, h0, h, Val.toInt?]
/-! ## wire quantisation (exact arithmetic; values in micro-units, i.e. six decimals) -/

/-- rounding to the nearest integer is at most half a unit away -/
theorem rhe_err (p q : Int) (hq : 0 < q) : 2 * (roundHalfEvenDiv p q * q - p).natAbs ≤ q.natAbs := by
  have h1 := Int.emod_add_mul_ediv p q
  have h2 := Int.emod_nonneg p (show q ≠ 0 by omega)
  have h3 := Int.emod_lt_of_pos p hq
  have h4 : (p / q + 1) * q = q * (p / q) + q := by rw [Int.add_mul, Int.mul_comm]; omega
  have h5 : (p / q) * q = q * (p / q) := Int.mul_comm _ _
  unfold roundHalfEvenDiv
  simp only
  split
  · rw [h5]; omega
  · split
    · rw [h4]; omega
    · split
      · rw [h5]; omega
      · rw [h4]; omega

/-- **Positions (1/10000 min and 1/10 min as degrees)**: the wire value is the nearest integer to
`v · k` — at most half a step away. -/
theorem quant_round (m : Int) (k : Nat) (_hk : 0 < k) :
    let wire := roundHalfEvenDiv (m * k) MICRO
    2 * (wire * MICRO - m * k).natAbs ≤ MICRO.natAbs := by
  exact rhe_err (m * k) MICRO (by decide)

/-- … and decoding the wire value gives the six-decimal number nearest to `wire / k` -/
theorem quant_round_back (wire : Int) (k : Nat) (hk : 0 < k) :
    let dec := roundHalfEvenDiv (wire * MICRO) k
    2 * (dec * k - wire * MICRO).natAbs ≤ k := by
  have := rhe_err (wire * MICRO) k (by omega)
  simpa using this

/-- **Tenths (speed, course, draught, 1/10-minute corrections)**: the wire value is `v · 10`
truncated toward zero — less than one step away, never beyond `v` -/
theorem quant_trunc (m : Int) :
    let wire := truncDiv (m * 10) MICRO
    (wire * MICRO).natAbs ≤ (m * 10).natAbs ∧ (m * 10).natAbs - (wire * MICRO).natAbs < MICRO.natAbs ∧
    (0 ≤ m → 0 ≤ wire) ∧ (m ≤ 0 → wire ≤ 0) := by
  simp only [truncDiv, MICRO]
  rcases Int.le_total 0 m with h | h
  · rw [Int.tdiv_eq_ediv_of_nonneg (by omega)]
    omega
  · have : (m * 10).tdiv 1000000 = -((-(m * 10)) / 1000000) := by
      rw [← Int.tdiv_eq_ediv_of_nonneg (by omega), Int.neg_tdiv, Int.neg_neg]
    rw [this]
    omega

theorem rhe_lit_near (p r q : Int) (hq : q = 1000000) (h : 2 * (p - r * 1000000).natAbs < 1000000) :
    roundHalfEvenDiv p q = r := by
  subst hq
  simp only [roundHalfEvenDiv]
  by_cases h1 : 2 * (p % 1000000) < 1000000
  · rw [if_pos h1]; omega
  · rw [if_neg h1]
    by_cases h2 : 2 * (p % 1000000) > 1000000
    · rw [if_pos h2]; omega
    · rw [if_neg h2]
      by_cases h3 : p / 1000000 % 2 = 0
      · rw [if_pos h3]; omega
      · rw [if_neg h3]; omega

/-- a value that is wire-representable is encoded to exactly its wire value (positions) -/
theorem quant_round_fixed (r : Int) (k : Nat) (hk : k = 600000 ∨ k = 600) :
    roundHalfEvenDiv (roundHalfEvenDiv (r * MICRO) k * k) MICRO = r := by
  have hpos : (0 : Int) < k := by rcases hk with rfl | rfl <;> decide
  have h := rhe_err (r * MICRO) k hpos
  apply rhe_lit_near _ _ _ rfl
  simp only [MICRO] at h ⊢
  rcases hk with rfl | rfl <;> omega

/-- … and tenths -/
theorem quant_trunc_fixed (r : Int) : truncDiv ((r * 100000) * 10) MICRO = r := by
  simp only [truncDiv, MICRO]
  have : r * 100000 * 10 = r * 1000000 := by omega
  rw [this, Int.mul_tdiv_cancel _ (by decide)]
end Model
