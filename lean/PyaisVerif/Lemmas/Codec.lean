import PyaisVerif.Model.Codec
import PyaisVerif.Lemmas.Bits
/-!
# The cursor loop of `from_bitarray` decodes every field at its own offset

`seqDecode` (the code's loop with one moving cursor) equals a per-offset description
(`offFields` + `sequenceE`).  All truncation statements (C11) and the layout statement (C01) are read
off the per-offset form.
-/
namespace Model
open Py

/-- the slice of the payload that belongs to a field declared at offset `off` with width `w` -/
def fieldSlice (bits : Bits) (off w : Nat) : Bits :=
  (bits.drop off).take (min bits.length (off + w) - off)

/-- per-offset decode of a field table: every field independently, at its cumulative offset -/
def offFields (env : Env) (bits : Bits) : Nat → List Field → List (String × Except Err Val)
  | _, [] => []
  | off, f :: fs =>
    (f.name, if off ≥ bits.length then .ok .none else decodeField env f (fieldSlice bits off f.width))
      :: offFields env bits (off + f.width) fs

/-- first error wins, otherwise all values (what the sequential loop does) -/
def sequenceE : List (String × Except Err Val) → Except Err (List (String × Val))
  | [] => .ok []
  | (n, r) :: rest =>
    match r with
    | .error e => .error e
    | .ok v =>
      match sequenceE rest with
      | .error e => .error e
      | .ok vs => .ok ((n, v) :: vs)

theorem offFields_past (env : Env) (bits : Bits) (off : Nat) (fs : List Field)
    (h : off ≥ bits.length) :
    offFields env bits off fs = fs.map (fun f => (f.name, .ok .none)) := by
  induction fs generalizing off with
  | nil => rfl
  | cons f fs ih =>
    simp only [offFields, List.map_cons, h, if_true]
    rw [ih]; omega

theorem sequenceE_allNone (fs : List Field) :
    sequenceE (fs.map (fun f => (f.name, (.ok .none : Except Err Val))))
      = .ok (fs.map (fun f => (f.name, Val.none))) := by
  induction fs with
  | nil => rfl
  | cons f fs ih => simp [sequenceE, ih]

theorem seqDecode_past (env : Env) (bits : Bits) (cur : Nat) (fs : List Field)
    (h : cur ≥ bits.length) :
    seqDecode env bits cur fs = .ok (fs.map (fun f => (f.name, Val.none))) := by
  induction fs with
  | nil => rfl
  | cons f fs ih =>
    simp only [seqDecode, h, if_true, ih, List.map_cons]
    rfl

/-- The sequential cursor decode equals the per-offset decode, for every table, every bit string,
every starting cursor. -/
theorem seqDecode_eq_off (env : Env) (bits : Bits) (cur : Nat) (fs : List Field) :
    seqDecode env bits cur fs = sequenceE (offFields env bits cur fs) := by
  induction fs generalizing cur with
  | nil => rfl
  | cons f fs ih =>
    by_cases h : cur ≥ bits.length
    · rw [seqDecode_past _ _ _ _ h, offFields_past _ _ _ _ h, sequenceE_allNone]
    · simp only [seqDecode, offFields, h, if_false, sequenceE, fieldSlice]
      cases hd : decodeField env f (List.take (min bits.length (cur + f.width) - cur) (List.drop cur bits)) with
      | error e => rfl
      | ok v =>
        simp only []
        have key : seqDecode env bits (min bits.length (cur + f.width)) fs
            = sequenceE (offFields env bits (cur + f.width) fs) := by
          by_cases h2 : cur + f.width ≤ bits.length
          · rw [Nat.min_eq_right h2]; exact ih _
          · have h3 : min bits.length (cur + f.width) = bits.length := by omega
            rw [h3, seqDecode_past _ _ _ _ (Nat.le_refl _), offFields_past _ _ _ _ (by omega),
              sequenceE_allNone]
        show (do
            let rest ← seqDecode env bits (min bits.length (cur + f.width)) fs
            Except.ok ((f.name, v) :: rest)) = _
        rw [key]
        cases sequenceE (offFields env bits (cur + f.width) fs) <;> rfl

/-- cumulative offsets of a field table -/
def offsetsFrom : Nat → List Field → List (Field × Nat)
  | _, [] => []
  | o, f :: fs => (f, o) :: offsetsFrom (o + f.width) fs

theorem offFields_eq_map (env : Env) (bits : Bits) (off : Nat) (fs : List Field) :
    offFields env bits off fs = (offsetsFrom off fs).map fun (f, o) =>
      (f.name, if o ≥ bits.length then .ok .none else decodeField env f (fieldSlice bits o f.width)) := by
  induction fs generalizing off with
  | nil => rfl
  | cons f fs ih => simp [offFields, offsetsFrom, ih]

/-- a field completely inside the first `L` bits sees the same slice in the truncated payload -/
theorem fieldSlice_take (bits : Bits) (L o w : Nat) (hL : L ≤ bits.length) (h : o + w ≤ L) :
    fieldSlice (bits.take L) o w = fieldSlice bits o w := by
  unfold fieldSlice
  have h1 : (bits.take L).length = L := by simp [List.length_take]; omega
  rw [h1]
  have e1 : min L (o + w) - o = w := by omega
  have e2 : min bits.length (o + w) - o = w := by omega
  rw [e1, e2]
  rw [List.drop_take]
  rw [List.take_take]
  congr 1
  omega

end Model
