import PyaisVerif.Model.Bits
/-!
# Lemmas about bit strings: packing round trips and the pad-then-shift integer readers
-/
namespace Model

@[simp] theorem ofNat_length (w n : Nat) : (ofNat w n).length = w := by
  induction w with
  | zero => rfl
  | succ w ih => simp [ofNat, ih]

theorem toNat_lt (bs : Bits) : toNat bs < 2 ^ bs.length := by
  induction bs with
  | nil => simp [toNat]
  | cons b bs ih =>
    simp only [toNat, List.length_cons, Nat.pow_succ]
    cases b <;> simp [b2n] <;> omega

theorem toNat_ofNat (w n : Nat) : toNat (ofNat w n) = n % 2 ^ w := by
  induction w with
  | zero => simp [ofNat, toNat, Nat.mod_one]
  | succ w ih =>
    simp only [ofNat, toNat, ofNat_length, ih]
    have key : n % 2 ^ (w+1) = (n / 2^w % 2) * 2^w + n % 2^w := by
      rw [Nat.pow_succ, Nat.mod_mul, Nat.add_comm, Nat.mul_comm]
    rw [key]
    rcases Nat.mod_two_eq_zero_or_one (n / 2^w) with h | h <;> simp [h, b2n]

theorem ofNat_add_mul (w n k : Nat) : ofNat w (n + k * 2^w) = ofNat w n := by
  induction w generalizing k with
  | zero => rfl
  | succ w ih =>
    simp only [ofNat]
    have h2 : 0 < 2 ^ w := Nat.pow_pos (by decide)
    congr 1
    · have e : k * 2^(w+1) = (k*2) * 2^w := by rw [Nat.pow_succ]; ac_rfl
      have : (n + k * 2^(w+1)) / 2^w = n / 2^w + k * 2 := by
        rw [e, Nat.add_mul_div_right _ _ h2]
      rw [this]; simp [Nat.add_mul_mod_self_right]
    · have : k * 2^(w+1) = (k*2) * 2^w := by rw [Nat.pow_succ]; ac_rfl
      rw [this, ih]

theorem ofNat_toNat (bs : Bits) : ofNat bs.length (toNat bs) = bs := by
  induction bs with
  | nil => rfl
  | cons b bs ih =>
    simp only [List.length_cons, ofNat, toNat]
    have hlt := toNat_lt bs
    have h2 : 0 < 2 ^ bs.length := Nat.pow_pos (by decide)
    congr 1
    · cases b
      · simp [b2n, Nat.div_eq_of_lt hlt]
      · have : (2 ^ bs.length + toNat bs) / 2 ^ bs.length = 1 := by
          have := Nat.add_mul_div_right (toNat bs) 1 h2
          rw [Nat.one_mul, Nat.add_comm] at this
          rw [this, Nat.div_eq_of_lt hlt]
        simp [b2n, this]
    · rw [Nat.add_comm, ofNat_add_mul, ih]

theorem ofNat_mod (w n : Nat) : ofNat w (n % 2^w) = ofNat w n := by
  have h := ofNat_add_mul w (n % 2^w) (n / 2^w)
  rw [Nat.add_comm, Nat.div_add_mod'] at h
  exact h.symm

theorem ofInt_toInt (bs : Bits) : ofInt bs.length (toInt bs) = bs := by
  unfold ofInt toInt
  have hlt := toNat_lt bs
  have hpos : (0:Int) < 2 ^ bs.length := by exact_mod_cast Nat.pow_pos (n := bs.length) (by decide : 0 < 2)
  split
  · simp [ofNat]
  · rename_i tl
    have : ((toNat (true :: tl) : Int) - 2 ^ (true :: tl).length) % 2 ^ (true :: tl).length = (toNat (true :: tl) : Int) := by
      rw [Int.sub_emod, Int.emod_self, Int.sub_zero, Int.emod_emod_of_dvd _ (Int.dvd_refl _)]
      exact Int.emod_eq_of_lt (by omega) (by exact_mod_cast hlt)
    rw [this]; simpa using ofNat_toNat (true :: tl)
  · rename_i tl
    have : ((toNat (false :: tl) : Int)) % 2 ^ (false :: tl).length = (toNat (false :: tl) : Int) :=
      Int.emod_eq_of_lt (by omega) (by exact_mod_cast hlt)
    rw [this]; simpa using ofNat_toNat (false :: tl)

@[simp] theorem zeros_length (s : Nat) : (zeros s).length = s := by simp [zeros]

theorem toNat_append (a b : Bits) : toNat (a ++ b) = toNat a * 2 ^ b.length + toNat b := by
  induction a with
  | nil => simp [toNat]
  | cons x xs ih =>
    simp only [List.cons_append, toNat, List.length_append, ih, Nat.pow_add]
    rw [Nat.add_mul, Nat.mul_assoc, Nat.add_assoc]

theorem toNat_zeros (s : Nat) : toNat (zeros s) = 0 := by
  induction s with
  | zero => rfl
  | succ s ih => simp [zeros, List.replicate_succ, toNat, b2n] at *; exact ih

/-- unsigned: `from_bytes(padded) >> s` is the plain value of the bits -/
theorem unsigned_extract (bits : Bits) (s : Nat) :
    toNat (bits ++ zeros s) >>> s = toNat bits := by
  rw [toNat_append, toNat_zeros, Nat.add_zero, Nat.shiftRight_eq_div_pow]
  simp [zeros, Nat.mul_div_cancel _ (Nat.pow_pos (by decide : 0 < 2))]

theorem toInt_append_zeros (bits : Bits) (hne : bits ≠ []) (s : Nat) :
    toInt (bits ++ zeros s) = toInt bits * 2 ^ s := by
  cases bits with
  | nil => exact absurd rfl hne
  | cons b tl =>
    have hN : (toNat ((b :: tl) ++ zeros s) : Int) = (toNat (b :: tl) : Int) * 2 ^ s := by
      rw [toNat_append, toNat_zeros]; simp [zeros]
    cases b
    · show ((toNat ((false :: tl) ++ zeros s) : Nat) : Int) = (toNat (false :: tl) : Int) * 2 ^ s
      exact hN
    · show ((toNat ((true :: tl) ++ zeros s) : Nat) : Int) - 2 ^ ((true :: tl) ++ zeros s).length
          = ((toNat (true :: tl) : Int) - 2 ^ (true :: tl).length) * 2 ^ s
      rw [hN, Int.sub_mul]
      congr 1
      simp [zeros, Int.pow_add]
      ac_rfl

/-- signed: `from_bytes_signed(padded) >> s` (arithmetic shift) is the two's-complement value -/
theorem signed_extract (bits : Bits) (s : Nat) :
    toInt (bits ++ zeros s) >>> s = toInt bits := by
  by_cases hne : bits = []
  · subst hne
    cases s with
    | zero => simp [zeros, toInt]
    | succ s =>
      have : toInt ([] ++ zeros (s+1)) = 0 := by
        simp only [List.nil_append, zeros, List.replicate_succ, toInt]
        have := toNat_zeros (s+1)
        simp only [zeros, List.replicate_succ] at this
        simp [this]
      rw [this]; simp [toInt]
  · rw [toInt_append_zeros bits hne, Int.shiftRight_eq_div_pow]
    have : (0:Int) < 2 ^ s := by exact_mod_cast Nat.pow_pos (n := s) (by decide : 0 < 2)
    exact Int.mul_ediv_cancel _ (by omega)

/-- The code's unsigned reader equals the plain value. -/
theorem fromBytes_shift (bits : Bits) : fromBytes bits >>> padLen bits.length = toNat bits := by
  unfold fromBytes padRight8; exact unsigned_extract _ _

/-- The code's signed reader equals the two's complement value. -/
theorem fromBytesSigned_shift (bits : Bits) :
    fromBytesSigned bits >>> padLen bits.length = toInt bits := by
  unfold fromBytesSigned padRight8; exact signed_extract _ _

end Model
