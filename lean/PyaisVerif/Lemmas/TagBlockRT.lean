import PyaisVerif.Model.TagBlock
import PyaisVerif.Lemmas.Checksum
import PyaisVerif.Lemmas.Render
/-!
# Tag blocks: create ∘ parse round trip, validity flag, ignored fields (generic part of C16)
-/
namespace Model
open Py

/-- the six plain-text fields of a tag block (everything except the group) -/
def textFieldNames : List String :=
  ["receiver_timestamp", "destination_station", "line_count", "relative_time", "source_station", "text"]

/-- read a text field of a parsed tag block by its API name -/
def TagBlock.get (tb : TagBlock) (name : String) : Option Bytes :=
  if name = "receiver_timestamp" then tb.receiver_timestamp
  else if name = "destination_station" then tb.destination_station
  else if name = "line_count" then tb.line_count
  else if name = "relative_time" then tb.relative_time
  else if name = "source_station" then tb.source_station
  else if name = "text" then tb.text
  else none

/-- a field value that can be written into a tag block: valid UTF-8 (it is a Python `str`), and free
of the separators `,` and `*` -/
def ValueOK (v : Bytes) : Prop := utf8Valid v = true ∧ COMMA ∉ v ∧ STAR ∉ v

theorem pyInt16_hexUpper_all :
    (List.range 256).all (fun x => decide (pyInt16 (hexUpper x) = some (x : Int))) = true := by
  decide +kernel

/-- hexadecimal rendering without padding is read back by `int(…, 16)` -/
theorem pyInt16_hexUpper (x : Nat) (h : x < 256) : pyInt16 (hexUpper x) = some (x : Int) := by
  have := List.all_eq_true.mp pyInt16_hexUpper_all x (List.mem_range.mpr h)
  simpa using this

theorem hexUpper_clean_all :
    (List.range 256).all (fun x => (hexUpper x).all (fun b =>
      decide (b ≠ STAR ∧ b ≠ COMMA ∧ b < 128 ∧ ((32 ≤ b && b < 127) = true)))) = true := by
  decide +kernel

theorem hexUpper_clean (x : Nat) (h : x < 256) :
    ∀ b ∈ hexUpper x, b ≠ STAR ∧ b ≠ COMMA ∧ b < 128 ∧ ((32 ≤ b && b < 127) = true) := by
  intro b hb
  have := List.all_eq_true.mp (List.all_eq_true.mp hexUpper_clean_all x (List.mem_range.mpr h)) b hb
  simpa using this

theorem natToDecAux_eq (n : Nat) : ∀ fuel acc, n < fuel → natToDecAux fuel n acc = natToDec n ++ acc := by
  induction n using Nat.strongRecOn with
  | _ n ih =>
    intro fuel acc hf
    obtain ⟨f, rfl⟩ : ∃ f, fuel = f + 1 := ⟨fuel - 1, by omega⟩
    by_cases h10 : n < 10
    · simp [natToDec, natToDecAux, h10]
    · have hd : n / 10 < n := by omega
      unfold natToDec
      simp only [natToDecAux, h10, if_false]
      rw [ih (n / 10) hd f _ (by omega), ih (n / 10) hd n _ hd]
      simp

theorem natToDec_lt10 (n : Nat) (h : n < 10) : natToDec n = [48 + n] := by
  simp [natToDec, natToDecAux, h]

theorem natToDec_ge10 (n : Nat) (h : 10 ≤ n) : natToDec n = natToDec (n / 10) ++ [48 + n % 10] := by
  have h10 : ¬ n < 10 := by omega
  have hd : n / 10 < n := by omega
  conv => lhs; unfold natToDec
  simp only [natToDecAux, h10, if_false]
  exact natToDecAux_eq (n / 10) n _ hd

theorem natToDec_digits_any (n : Nat) : ∀ b ∈ natToDec n, 48 ≤ b ∧ b ≤ 57 := by
  induction n using Nat.strongRecOn with
  | _ n ih =>
    intro b hb
    by_cases h10 : n < 10
    · rw [natToDec_lt10 n h10] at hb
      simp at hb; omega
    · rw [natToDec_ge10 n (by omega)] at hb
      rcases List.mem_append.mp hb with hb | hb
      · exact ih (n / 10) (by omega) b hb
      · simp at hb; omega

theorem digitVal_dec : ∀ d : Nat, d < 10 → digitVal 10 (48 + d) = some d := by decide

theorem parseDigits_natToDec (n : Nat) : ∀ acc prev rest,
    parseDigits 10 acc prev (natToDec n ++ rest)
      = parseDigits 10 (acc * 10 ^ (natToDec n).length + n) true rest := by
  induction n using Nat.strongRecOn with
  | _ n ih =>
    intro acc prev rest
    by_cases h10 : n < 10
    · rw [natToDec_lt10 n h10]
      have h95 : 48 + n ≠ 95 := by omega
      simp [parseDigits, h95, digitVal_dec n h10]
    · rw [natToDec_ge10 n (by omega), List.append_assoc, ih (n / 10) (by omega)]
      have h95 : 48 + n % 10 ≠ 95 := by omega
      have hm : n % 10 < 10 := Nat.mod_lt _ (by decide)
      simp only [List.singleton_append, parseDigits, h95, if_false, digitVal_dec (n % 10) hm,
        List.length_append, List.length_singleton, Nat.pow_succ]
      congr 1
      generalize 10 ^ (natToDec (n / 10)).length = k
      rw [← Nat.mul_assoc]
      omega

theorem isSpace_digit_aux : ∀ d : Nat, d < 10 → isSpace (48 + d) = false := by decide

theorem isSpace_digit (b : Nat) (h : 48 ≤ b ∧ b ≤ 57) : isSpace b = false := by
  have := isSpace_digit_aux (b - 48) (by omega)
  rwa [show 48 + (b - 48) = b by omega] at this

/-- decimal rendering is read back by `int()` for every natural number -/
theorem pyInt10_natToDec_any (n : Nat) : pyInt10 (natToDec n) = some (n : Int) := by
  have hdig := natToDec_digits_any n
  have hstrip : strip (natToDec n) = natToDec n := by
    apply strip_id
    · intro b hb
      exact isSpace_digit b (hdig b (List.mem_of_head? hb))
    · intro b hb
      exact isSpace_digit b (hdig b (List.mem_of_getLast? hb))
  have hp := parseDigits_natToDec n 0 false []
  simp only [List.append_nil, Nat.zero_mul, Nat.zero_add] at hp
  unfold pyInt10
  rw [hstrip]
  cases hnd : natToDec n with
  | nil => exact absurd hnd (natToDec_ne_nil n)
  | cons d r =>
    have hd := hdig d (by rw [hnd]; simp)
    rw [hnd] at hp
    simp only
    split
    · rename_i h; cases h
    · rename_i h; cases h; omega
    · rename_i h; cases h; omega
    · rw [hp]; simp [parseDigits]

theorem strSpaceToAscii_id (s : Bytes) (_h : ∀ b ∈ s, 32 ≤ b) : strSpaceToAscii s = s := rfl

theorem any_ge128_false (s : Bytes) (h : ∀ b ∈ s, b < 128) : s.any (· ≥ 128) = false := by
  rw [List.any_eq_false]
  intro b hb
  have := h b hb
  simp only [ge_iff_le, decide_eq_true_eq]
  omega

/-- on plain text (printable ASCII) `int(str, 16)` is `int(bytes, 16)` -/
theorem pyIntStr16_plain (s : Bytes) (h : ∀ b ∈ s, 32 ≤ b ∧ b < 127) : pyIntStr16 s = pyInt16 s := by
  unfold pyIntStr16
  rw [any_ge128_false s fun b hb => by have := (h b hb).2; omega,
    strSpaceToAscii_id s fun b hb => (h b hb).1]
  simp

/-- on plain text (printable ASCII) `int(str)` is `int(bytes)` -/
theorem pyIntStr10_plain (s : Bytes) (h : ∀ b ∈ s, 32 ≤ b ∧ b < 127) : pyIntStr10 s = pyInt10 s := by
  unfold pyIntStr10
  rw [any_ge128_false s fun b hb => by have := (h b hb).2; omega,
    strSpaceToAscii_id s fun b hb => (h b hb).1]
  simp

theorem pyIntStr10_natToDec (n : Nat) : pyIntStr10 (natToDec n) = some (n : Int) := by
  rw [pyIntStr10_plain _ fun b hb => by have := natToDec_digits_any n b hb; omega]
  exact pyInt10_natToDec_any n

theorem pyIntStr16_hexUpper (x : Nat) (h : x < 256) : pyIntStr16 (hexUpper x) = some (x : Int) := by
  rw [pyIntStr16_plain _ fun b hb => by
    have := (hexUpper_clean x h b hb).2.2.2
    simpa using this]
  exact pyInt16_hexUpper x h

theorem tbField_preserves (codes : List (String × Nat)) (tb tb' : TagBlock) (f : Bytes)
    (h : tbField codes tb f = .ok tb') :
    tb'.isValid = tb.isValid ∧ tb'.actual = tb.actual ∧ tb'.expected = tb.expected ∧ tb'.raw = tb.raw := by
  unfold tbField at h
  split at h
  · cases h; simp
  · split at h
    · cases h; simp
    · split at h
      · split at h <;> cases h <;> simp
      · split at h
        · split at h
          · repeat' split at h
            all_goals cases h; simp
          · cases h; simp
        · cases h; simp

theorem tbFold_preserves (codes : List (String × Nat)) (fs : List Bytes) : ∀ (tb tb' : TagBlock),
    fs.foldlM (tbField codes) tb = .ok tb' →
    tb'.isValid = tb.isValid ∧ tb'.actual = tb.actual ∧ tb'.expected = tb.expected ∧ tb'.raw = tb.raw := by
  induction fs with
  | nil => intro tb tb' h; cases h; simp
  | cons f rest ih =>
    intro tb tb' h
    rw [List.foldlM_cons] at h
    cases h1 : tbField codes tb f with
    | error e => rw [h1] at h; cases h
    | ok tb1 =>
      rw [h1] at h
      obtain ⟨a1, a2, a3, a4⟩ := tbField_preserves codes tb tb1 f h1
      obtain ⟨b1, b2, b3, b4⟩ := ih tb1 tb' h
      exact ⟨b1.trans a1, b2.trans a2, b3.trans a3, b4.trans a4⟩

theorem split_star_two (content chk : Bytes) (hc : STAR ∉ content) (hk : STAR ∉ chk) :
    split STAR (content ++ [STAR] ++ chk) = [content, chk] := by
  have : content ++ [STAR] ++ chk = content ++ STAR :: chk := by simp
  rw [this, split, List.splitOn_append_cons_self_of_not_mem hc, List.splitOn_eq_singleton hk]

/-- **The validity flag of a tag block**, stated generally: whatever the block looks like, if it
initialises, it is valid iff the number read after `*` equals the XOR of the content before `*`. -/
theorem tbInit_valid (codes : List (String × Nat)) (content chk : Bytes) (tb : TagBlock)
    (hc : STAR ∉ content) (hk : STAR ∉ chk)
    (h : tbInit codes (content ++ [STAR] ++ chk) = .ok tb) :
    ∃ e, pyIntStr16 chk = some e ∧ tb.isValid = ((xorAll content : Int) == e) ∧
      tb.actual = xorAll content ∧ tb.expected = e := by
  unfold tbInit at h
  rw [split_star_two content chk hc hk] at h
  simp only at h
  split at h
  · cases h
  · split at h
    · cases h
    · split at h
      · cases h
      · rename_i e he
        obtain ⟨a1, a2, a3, _⟩ := tbFold_preserves codes _ _ _ h
        exact ⟨e, he, a1, a2, a3⟩

theorem split1_none_of_not_mem (sep : Byte) (s : Bytes) (h : sep ∉ s) : split1 sep s = (s, none) := by
  induction s with
  | nil => rfl
  | cons x xs ih =>
    have hx : x ≠ sep := fun e => h (by simp [e])
    have hxs : sep ∉ xs := fun e => h (by simp [e])
    simp [split1, hx, ih hxs]

/-- **Unknown or malformed fields are ignored**: a comma field that is not valid UTF-8, has no `:`,
or whose code is not one of the seven known codes leaves the tag block unchanged. -/
theorem tbField_ignored (codes : List (String × Nat)) (tb : TagBlock) (field : Bytes)
    (h : utf8Valid field = false ∨ COLON ∉ field ∨
      (∃ spec val, split1 COLON field = (spec, some val) ∧ spec ≠ [103] ∧
        ∀ p ∈ codes, [p.2] ≠ spec)) :
    tbField codes tb field = .ok tb := by
  unfold tbField
  by_cases hu : utf8Valid field = true
  · rw [if_neg (by simp [hu])]
    rcases h with h | h | ⟨spec, val, hs, h103, hcodes⟩
    · rw [hu] at h; cases h
    · rw [split1_none_of_not_mem _ _ h]
    · rw [hs]
      simp only
      rw [if_neg h103]
      split
      · rename_i c
        have : codes.find? (fun p => decide (p.2 = c)) = none := by
          rw [List.find?_eq_none]
          intro p hp
          have := hcodes p hp
          simpa using this
        rw [this]
      · rfl
  · rw [if_pos (by simpa using hu)]

theorem utf8Valid_cons_ascii (a : Nat) (s : Bytes) (h : a < 128) : utf8Valid (a :: s) = utf8Valid s := by
  conv => lhs; unfold utf8Valid
  simp [h]

theorem utf8Valid_of_ascii (s : Bytes) (h : ∀ b ∈ s, b < 128) : utf8Valid s = true := by
  induction s with
  | nil => rfl
  | cons x xs ih =>
    rw [utf8Valid_cons_ascii x xs (h x (by simp))]
    exact ih fun b hb => h b (by simp [hb])

/-- a known text field sets exactly its own attribute -/
theorem tbField_known (codes : List (String × Nat)) (tb : TagBlock) (name : String) (c : Nat) (val : Bytes)
    (hname : name ∈ textFieldNames) (hcode : codes.find? (fun p => p.2 = c) = some (name, c))
    (hc : c ≠ 103 ∧ c ≠ COLON) (hv : utf8Valid ([c, COLON] ++ val) = true) :
    ∃ tb', tbField codes tb ([c, COLON] ++ val) = .ok tb' ∧ tb'.get name = some val ∧
      (∀ n, n ≠ name → tb'.get n = tb.get n) ∧ tb'.group = tb.group ∧
      tb'.isValid = tb.isValid ∧ tb'.actual = tb.actual ∧ tb'.expected = tb.expected := by
  have hsplit : split1 COLON ([c, COLON] ++ val) = ([c], some val) := by
    simp [split1, hc.2]
  have h103 : [c] ≠ [103] := by simp [hc.1]
  unfold tbField
  rw [if_neg (by rw [hv]; simp), hsplit]
  simp only
  rw [if_neg h103]
  simp only [hcode]
  simp only [textFieldNames, List.mem_cons, List.not_mem_nil, or_false] at hname
  rcases hname with rfl | rfl | rfl | rfl | rfl | rfl
  all_goals
    simp only [String.reduceEq, if_false, if_true]
    refine ⟨_, rfl, ?_, ?_, rfl, rfl, rfl, rfl⟩
    · simp [TagBlock.get]
    · intro n hn
      simp [TagBlock.get, hn]

theorem split_dash_three (a b c : Bytes) (ha : DASH ∉ a) (hb : DASH ∉ b) (hc : DASH ∉ c) :
    split DASH (a ++ [DASH] ++ b ++ [DASH] ++ c) = [a, b, c] := by
  have : a ++ [DASH] ++ b ++ [DASH] ++ c = a ++ DASH :: (b ++ DASH :: c) := by simp
  rw [this, split, List.splitOn_append_cons_self_of_not_mem ha,
    List.splitOn_append_cons_self_of_not_mem hb, List.splitOn_eq_singleton hc]

theorem natToDec_no_dash (m : Nat) : DASH ∉ natToDec m := by
  intro hm
  have := natToDec_digits_any m _ hm
  simp [DASH] at this

theorem groupFromStr_render (n t i : Nat) :
    groupFromStr (natToDec n ++ [DASH] ++ natToDec t ++ [DASH] ++ natToDec i)
      = some { num := n, tot := t, gid := i } := by
  unfold groupFromStr
  rw [split_dash_three _ _ _ (natToDec_no_dash n) (natToDec_no_dash t) (natToDec_no_dash i)]
  simp only [pyIntStr10_natToDec]

theorem groupVal_ascii (n t i : Nat) :
    ∀ b ∈ natToDec n ++ [DASH] ++ natToDec t ++ [DASH] ++ natToDec i, b < 128 ∧ b ≠ STAR ∧ b ≠ COMMA := by
  intro b hb
  simp only [List.mem_append, List.mem_cons, List.not_mem_nil, or_false] at hb
  rcases hb with (((h | rfl) | h) | rfl) | h
  all_goals first
    | (have := natToDec_digits_any _ _ h; simp only [STAR, COMMA]; omega)
    | decide

/-- a group field `g:n-t-i` sets the group triple -/
theorem tbField_group (codes : List (String × Nat)) (tb : TagBlock) (n t i : Nat) :
    ∃ tb', tbField codes tb ([103, COLON] ++ natToDec n ++ [DASH] ++ natToDec t ++ [DASH] ++ natToDec i) = .ok tb' ∧
      tb'.group = some { num := n, tot := t, gid := i } ∧ (∀ nm, tb'.get nm = tb.get nm) ∧
      tb'.isValid = tb.isValid ∧ tb'.actual = tb.actual ∧ tb'.expected = tb.expected := by
  have hfield : [103, COLON] ++ natToDec n ++ [DASH] ++ natToDec t ++ [DASH] ++ natToDec i
      = [103, COLON] ++ (natToDec n ++ [DASH] ++ natToDec t ++ [DASH] ++ natToDec i) := by simp
  rw [hfield]
  have hg := groupFromStr_render n t i
  have ha := groupVal_ascii n t i
  generalize natToDec n ++ [DASH] ++ natToDec t ++ [DASH] ++ natToDec i = val at hg ha
  have hutf : utf8Valid ([103, COLON] ++ val) = true := by
    apply utf8Valid_of_ascii
    intro b hb
    simp only [List.mem_append, List.mem_cons, List.not_mem_nil, or_false] at hb
    rcases hb with (rfl | rfl) | h
    · decide
    · decide
    · exact (ha b h).1
  have hsplit : split1 COLON ([103, COLON] ++ val) = ([103], some val) := by
    simp [split1, COLON]
  unfold tbField
  rw [if_neg (by rw [hutf]; simp), hsplit]
  simp only [if_true, hg]
  exact ⟨_, rfl, rfl, fun nm => rfl, rfl, rfl, rfl⟩

theorem utf8Valid_lt (s : Bytes) : utf8Valid s = true → ∀ b ∈ s, b < 256 := by
  fun_induction utf8Valid s <;> intro h x hx
  case case1 => simp at hx
  case case2 b r hb ih =>
    rcases List.mem_cons.mp hx with rfl | hx
    · omega
    · exact ih h x hx
  case case3 b _ hb c r' ih =>
    simp only [Bool.and_eq_true, decide_eq_true_eq] at h
    simp only [List.mem_cons] at hx
    rcases hx with rfl | rfl | hx
    · omega
    · omega
    · exact ih h.2 x hx
  case case5 b _ _ hb c d r' lo hi ih =>
    have hhi : hi ≤ 191 := by simp only [hi]; split <;> omega
    simp only [Bool.and_eq_true, decide_eq_true_eq] at h
    simp only [List.mem_cons] at hx
    rcases hx with rfl | rfl | rfl | hx
    · omega
    · omega
    · omega
    · exact ih h.2 x hx
  case case7 b _ _ _ hb c d e r' lo hi ih =>
    have hhi : hi ≤ 191 := by simp only [hi]; split <;> omega
    simp only [Bool.and_eq_true, decide_eq_true_eq] at h
    simp only [List.mem_cons] at hx
    rcases hx with rfl | rfl | rfl | rfl | hx
    · omega
    · omega
    · omega
    · omega
    · exact ih h.2 x hx
  all_goals cases h


theorem mem_intercalate_single (x : Nat) (ls : List Bytes) (b : Nat) (h : b ∈ [x].intercalate ls) :
    b = x ∨ ∃ l ∈ ls, b ∈ l := by
  induction ls with
  | nil => simp at h
  | cons hd tl ih =>
    cases tl with
    | nil =>
      rw [List.intercalate_singleton] at h
      exact Or.inr ⟨hd, by simp, h⟩
    | cons t tl =>
      rw [List.intercalate_cons_cons] at h
      rcases List.mem_append.mp h with h | h
      · rcases List.mem_append.mp h with h | h
        · exact Or.inr ⟨hd, by simp, h⟩
        · left; simpa using h
      · rcases ih h with h | ⟨l, hl, hb⟩
        · exact Or.inl h
        · exact Or.inr ⟨l, List.mem_cons_of_mem _ hl, hb⟩

/-- a tag block assembled from separator-free comma fields initialises by folding `tbField` over
exactly these fields, starting from a valid block with matching checksums -/
theorem tbInit_of_pairs (codes : List (String × Nat)) (pairs : List Bytes) (hpairs : pairs ≠ [])
    (hne : [COMMA].intercalate pairs ≠ [])
    (hb : ∀ l ∈ pairs, ∀ b ∈ l, b < 256 ∧ b ≠ STAR ∧ b ≠ COMMA) :
    tbInit codes ([COMMA].intercalate pairs ++ [STAR] ++ hexUpper (xorAll ([COMMA].intercalate pairs)))
      = pairs.foldlM (tbField codes)
          { raw := [COMMA].intercalate pairs ++ [STAR] ++ hexUpper (xorAll ([COMMA].intercalate pairs)),
            isValid := true, actual := xorAll ([COMMA].intercalate pairs),
            expected := xorAll ([COMMA].intercalate pairs) } := by
  have hsplitC : split COMMA ([COMMA].intercalate pairs) = pairs :=
    List.splitOn_intercalate COMMA (fun l hl hm => (hb l hl _ hm).2.2 rfl) hpairs
  have hpb : ∀ b ∈ [COMMA].intercalate pairs, b < 256 ∧ b ≠ STAR := by
    intro b hbm
    rcases mem_intercalate_single _ _ _ hbm with rfl | ⟨l, hl, hbl⟩
    · decide
    · exact ⟨(hb l hl b hbl).1, (hb l hl b hbl).2.1⟩
  generalize [COMMA].intercalate pairs = payload at hne hsplitC hpb ⊢
  have hx : xorAll payload < 256 := xorAll_lt _ fun b hb' => (hpb b hb').1
  have hstarP : STAR ∉ payload := fun hm => (hpb _ hm).2 rfl
  have hclean := hexUpper_clean _ hx
  have hstarH : STAR ∉ hexUpper (xorAll payload) := fun hm => (hclean _ hm).1 rfl
  have hE : payload.isEmpty = false := by cases payload <;> simp_all
  have hU : utf8Valid (hexUpper (xorAll payload)) = true :=
    utf8Valid_of_ascii _ fun b hb' => (hclean b hb').2.2.1
  unfold tbInit
  rw [split_star_two _ _ hstarP hstarH]
  simp only
  rw [hE, hU, pyIntStr16_hexUpper _ hx, hsplitC]
  simp

theorem code_facts (codes : List (String × Nat))
    (hcodes : codes = [("receiver_timestamp", 99), ("destination_station", 100), ("line_count", 110),
      ("relative_time", 114), ("source_station", 115), ("text", 116), ("group", 103)])
    (name : String) (h : name ∈ textFieldNames) :
    ∃ c, codes.lookup name = some c ∧ codes.find? (fun p => p.2 = c) = some (name, c) ∧
      c ≠ 103 ∧ c ≠ COLON ∧ c < 128 ∧ c ≠ STAR ∧ c ≠ COMMA := by
  subst hcodes
  simp only [textFieldNames, List.mem_cons, List.not_mem_nil, or_false] at h
  rcases h with rfl | rfl | rfl | rfl | rfl | rfl
  · exact ⟨99, by decide, by decide, by decide, by decide, by decide, by decide, by decide⟩
  · exact ⟨100, by decide, by decide, by decide, by decide, by decide, by decide, by decide⟩
  · exact ⟨110, by decide, by decide, by decide, by decide, by decide, by decide, by decide⟩
  · exact ⟨114, by decide, by decide, by decide, by decide, by decide, by decide, by decide⟩
  · exact ⟨115, by decide, by decide, by decide, by decide, by decide, by decide, by decide⟩
  · exact ⟨116, by decide, by decide, by decide, by decide, by decide, by decide, by decide⟩

/-- the comma field `TagBlock.create` writes for a `(name, value)` pair -/
def tbPair (codes : List (String × Nat)) (p : String × Bytes) : Bytes :=
  [(codes.lookup p.1).getD 0, COLON] ++ p.2

theorem tbPair_eq (codes : List (String × Nat)) (p : String × Bytes) (c : Nat)
    (h : codes.lookup p.1 = some c) : tbPair codes p = c :: COLON :: p.2 := by
  simp [tbPair, h]

theorem filterMap_map_some {α α' β : Type} (f : α → Option β) (g : α' → α) (k : α' → β) (fs : List α')
    (h : ∀ p ∈ fs, f (g p) = some (k p)) : (fs.map g).filterMap f = fs.map k := by
  induction fs with
  | nil => rfl
  | cons x xs ih =>
    rw [List.map_cons, List.filterMap_cons, h x (by simp), ih fun p hp => h p (by simp [hp])]
    rfl

theorem tbCreate_of_lookup (codes : List (String × Nat)) (fs : List (String × Bytes))
    (h : ∀ p ∈ fs, ∃ c, codes.lookup p.1 = some c)
    (hne : [COMMA].intercalate (fs.map (tbPair codes)) ≠ []) :
    tbCreate codes (fs.map fun p => (p.1, some p.2))
      = .ok ([COMMA].intercalate (fs.map (tbPair codes)) ++ [STAR] ++
          hexUpper (xorAll ([COMMA].intercalate (fs.map (tbPair codes))))) := by
  unfold tbCreate
  rw [filterMap_map_some _ _ (tbPair codes) fs ?_]
  · have hE : ([COMMA].intercalate (fs.map (tbPair codes))).isEmpty = false := by
      cases hp : [COMMA].intercalate (fs.map (tbPair codes)) with
      | nil => exact absurd hp hne
      | cons _ _ => rfl
    simp only [hE]
    rfl
  · intro p hp
    obtain ⟨c, hc⟩ := h p hp
    simp only [hc, tbPair, Option.getD_some]

/-- create followed by init, for any non-empty list of fields with known codes and separator-free
values: what remains is the fold of `tbField` over the written comma fields -/
theorem tb_create_init (codes : List (String × Nat)) (fs : List (String × Bytes)) (hne : fs ≠ [])
    (hgood : ∀ p ∈ fs, ∃ c, codes.lookup p.1 = some c ∧ c < 128 ∧ c ≠ STAR ∧ c ≠ COMMA ∧ ValueOK p.2) :
    ∃ raw a, tbCreate codes (fs.map fun p => (p.1, some p.2)) = .ok raw ∧
      tbInit codes raw = (fs.map (tbPair codes)).foldlM (tbField codes)
        { raw := raw, isValid := true, actual := a, expected := a } := by
  have hlook : ∀ p ∈ fs, ∃ c, codes.lookup p.1 = some c := fun p hp =>
    let ⟨c, hc, _⟩ := hgood p hp; ⟨c, hc⟩
  have hpairs_ne : fs.map (tbPair codes) ≠ [] := by simpa using hne
  have hbytes : ∀ l ∈ fs.map (tbPair codes), ∀ b ∈ l, b < 256 ∧ b ≠ STAR ∧ b ≠ COMMA := by
    intro l hl b hb
    obtain ⟨p, hp, rfl⟩ := List.mem_map.mp hl
    obtain ⟨c, hl, h128, hs, hc, hu, hcm, hst⟩ := hgood p hp
    rw [tbPair_eq codes p c hl] at hb
    rcases List.mem_cons.mp hb with rfl | hb
    · exact ⟨by omega, hs, hc⟩
    · rcases List.mem_cons.mp hb with rfl | hb
      · decide
      · exact ⟨utf8Valid_lt _ hu b hb, fun e => hst (e ▸ hb), fun e => hcm (e ▸ hb)⟩
  have hpayload_ne : [COMMA].intercalate (fs.map (tbPair codes)) ≠ [] := by
    cases fs with
    | nil => exact absurd rfl hne
    | cons p rest =>
      obtain ⟨c, hl, _⟩ := hgood p (by simp)
      rw [List.map_cons, tbPair_eq codes p c hl, List.intercalate_cons_cons_left]
      simp
  exact ⟨_, _, tbCreate_of_lookup codes fs hlook hpayload_ne,
    tbInit_of_pairs codes _ hpairs_ne hpayload_ne hbytes⟩

/-- folding `tbField` over the comma fields of distinct known text fields sets exactly these -/
theorem tbFold_known (codes : List (String × Nat))
    (hcodes : codes = [("receiver_timestamp", 99), ("destination_station", 100), ("line_count", 110),
      ("relative_time", 114), ("source_station", 115), ("text", 116), ("group", 103)])
    (fs : List (String × Bytes)) (hnodup : (fs.map (·.1)).Nodup)
    (hknown : ∀ p ∈ fs, p.1 ∈ textFieldNames) (hvals : ∀ p ∈ fs, utf8Valid p.2 = true) :
    ∀ tb0 : TagBlock, ∃ tb', (fs.map (tbPair codes)).foldlM (tbField codes) tb0 = .ok tb' ∧
      (∀ p ∈ fs, tb'.get p.1 = some p.2) ∧ (∀ n, n ∉ fs.map (·.1) → tb'.get n = tb0.get n) ∧
      tb'.group = tb0.group ∧ tb'.isValid = tb0.isValid ∧ tb'.actual = tb0.actual ∧
      tb'.expected = tb0.expected := by
  induction fs with
  | nil => intro tb0; exact ⟨tb0, rfl, by simp, fun _ _ => rfl, rfl, rfl, rfl, rfl⟩
  | cons p rest ih =>
    intro tb0
    obtain ⟨c, hl, hf, h103, hcol, h128, _, _⟩ := code_facts codes hcodes p.1 (hknown p (by simp))
    have hpair : tbPair codes p = [c, COLON] ++ p.2 := tbPair_eq codes p c hl
    have hutf : utf8Valid ([c, COLON] ++ p.2) = true := by
      show utf8Valid (c :: COLON :: p.2) = true
      rw [utf8Valid_cons_ascii _ _ h128, utf8Valid_cons_ascii _ _ (by decide)]
      exact hvals p (by simp)
    obtain ⟨tb1, h1, hget1, hoth1, hg1, hv1, ha1, he1⟩ :=
      tbField_known codes tb0 p.1 c p.2 (hknown p (by simp)) hf ⟨h103, hcol⟩ hutf
    rw [List.map_cons, List.nodup_cons] at hnodup
    obtain ⟨tb', h2, hget2, hoth2, hg2, hv2, ha2, he2⟩ :=
      ih hnodup.2 (fun q hq => hknown q (by simp [hq])) (fun q hq => hvals q (by simp [hq])) tb1
    refine ⟨tb', ?_, ?_, ?_, hg2.trans hg1, hv2.trans hv1, ha2.trans ha1, he2.trans he1⟩
    · rw [List.map_cons, List.foldlM_cons, hpair, h1]
      exact h2
    · intro q hq
      rcases List.mem_cons.mp hq with rfl | hq
      · rw [hoth2 _ hnodup.1]; exact hget1
      · exact hget2 q hq
    · intro n hn
      rw [List.map_cons, List.mem_cons, not_or] at hn
      rw [hoth2 n hn.2, hoth1 n hn.1]

/-- **create ∘ parse round trip for the text fields.**  For any non-empty selection of the six text
fields (distinct names, any keyword order) with separator-free values, the created tag block
initialises, reports valid with matching checksums, every given field parses back to exactly its
text, every field not given is `None`, and there is no group. -/
theorem tb_roundtrip (codes : List (String × Nat))
    (hcodes : codes = [("receiver_timestamp", 99), ("destination_station", 100), ("line_count", 110),
      ("relative_time", 114), ("source_station", 115), ("text", 116), ("group", 103)])
    (fs : List (String × Bytes)) (hne : fs ≠ []) (hnodup : (fs.map (·.1)).Nodup)
    (hknown : ∀ p ∈ fs, p.1 ∈ textFieldNames) (hvals : ∀ p ∈ fs, ValueOK p.2) :
    ∃ raw tb, tbCreate codes (fs.map fun p => (p.1, some p.2)) = .ok raw ∧ tbInit codes raw = .ok tb ∧
      tb.isValid = true ∧ tb.actual = tb.expected ∧
      (∀ p ∈ fs, tb.get p.1 = some p.2) ∧
      (∀ n ∈ textFieldNames, n ∉ fs.map (·.1) → tb.get n = none) ∧ tb.group = none := by
  have hgood : ∀ p ∈ fs, ∃ c, codes.lookup p.1 = some c ∧ c < 128 ∧ c ≠ STAR ∧ c ≠ COMMA ∧ ValueOK p.2 := by
    intro p hp
    obtain ⟨c, hl, _, _, _, h128, hs, hc⟩ := code_facts codes hcodes p.1 (hknown p hp)
    exact ⟨c, hl, h128, hs, hc, hvals p hp⟩
  obtain ⟨raw, a, hcreate, hinit⟩ := tb_create_init codes fs hne hgood
  obtain ⟨tb, hfold, hget, hoth, hg, hv, ha, he⟩ :=
    tbFold_known codes hcodes fs hnodup hknown (fun p hp => (hvals p hp).1)
      { raw := raw, isValid := true, actual := a, expected := a }
  refine ⟨raw, tb, hcreate, hinit.trans hfold, hv, ha.trans he.symm, hget, ?_, hg⟩
  intro n _ hn
  rw [hoth n hn]
  simp [TagBlock.get]

/-- the same with a group triple in front: the group parses back as the three integers -/
theorem tb_roundtrip_group (codes : List (String × Nat))
    (hcodes : codes = [("receiver_timestamp", 99), ("destination_station", 100), ("line_count", 110),
      ("relative_time", 114), ("source_station", 115), ("text", 116), ("group", 103)])
    (n t i : Nat)
    (fs : List (String × Bytes)) (hnodup : (fs.map (·.1)).Nodup)
    (hknown : ∀ p ∈ fs, p.1 ∈ textFieldNames) (hvals : ∀ p ∈ fs, ValueOK p.2) :
    ∃ raw tb, tbCreate codes (("group", some (natToDec n ++ [DASH] ++ natToDec t ++ [DASH] ++ natToDec i))
        :: fs.map fun p => (p.1, some p.2)) = .ok raw ∧ tbInit codes raw = .ok tb ∧
      tb.isValid = true ∧ tb.group = some { num := n, tot := t, gid := i } ∧
      (∀ p ∈ fs, tb.get p.1 = some p.2) := by
  generalize hgv : natToDec n ++ [DASH] ++ natToDec t ++ [DASH] ++ natToDec i = gval
  have hga : ∀ b ∈ gval, b < 128 ∧ b ≠ STAR ∧ b ≠ COMMA := hgv ▸ groupVal_ascii n t i
  have hlg : codes.lookup "group" = some 103 := by subst hcodes; decide
  have hgood : ∀ p ∈ ("group", gval) :: fs,
      ∃ c, codes.lookup p.1 = some c ∧ c < 128 ∧ c ≠ STAR ∧ c ≠ COMMA ∧ ValueOK p.2 := by
    intro p hp
    rcases List.mem_cons.mp hp with rfl | hp
    · exact ⟨103, hlg, by decide, by decide, by decide,
        utf8Valid_of_ascii _ fun b hb => (hga b hb).1, fun hm => (hga _ hm).2.2 rfl,
        fun hm => (hga _ hm).2.1 rfl⟩
    · obtain ⟨c, hl, _, _, _, h128, hs, hc⟩ := code_facts codes hcodes p.1 (hknown p hp)
      exact ⟨c, hl, h128, hs, hc, hvals p hp⟩
  obtain ⟨raw, a, hcreate, hinit⟩ := tb_create_init codes (("group", gval) :: fs) (by simp) hgood
  have hgp : tbPair codes ("group", gval)
      = [103, COLON] ++ natToDec n ++ [DASH] ++ natToDec t ++ [DASH] ++ natToDec i := by
    rw [tbPair_eq codes _ 103 hlg, ← hgv]; simp
  obtain ⟨tb1, h1, hg1, _, hv1, _, _⟩ := tbField_group codes
    { raw := raw, isValid := true, actual := a, expected := a } n t i
  obtain ⟨tb, hfold, hget, _, hg, hv, _, _⟩ :=
    tbFold_known codes hcodes fs hnodup hknown (fun p hp => (hvals p hp).1) tb1
  refine ⟨raw, tb, hcreate, ?_, hv.trans hv1, hg.trans hg1, hget⟩
  rw [hinit, List.map_cons, List.foldlM_cons, hgp, h1]
  exact hfold

end Model
