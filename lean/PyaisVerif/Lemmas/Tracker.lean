import PyaisVerif.Model.Tracker
import PyaisVerif.Spec.Tracker
/-!
# Tracker invariants and the exactness of the expiry scan (generic part of C12–C15)
-/
namespace Model
open Spec

/-- the invariants every reachable tracker state satisfies -/
structure TrkInv (s : TrkState) : Prop where
  /-- one track per MMSI -/
  keys : s.tracks.Pairwise (fun a b => a.mmsi ≠ b.mmsi)
  /-- (I1) the cached `oldest_timestamp` is a lower bound of every `last_updated` -/
  lower : ∀ o, s.oldest = some o → ∀ t ∈ s.tracks, o ≤ t.lu
  /-- (I1') the cache is set whenever tracks exist -/
  cached : s.tracks ≠ [] → s.oldest ≠ none
  /-- (I2) in ordered mode the dict is sorted by `last_updated` -/
  sorted : s.ordered = true → s.tracks.Pairwise (fun a b => a.lu ≤ b.lu)

theorem inv_init (ordered : Bool) (ttl : Option Int) :
    TrkInv { ordered := ordered, ttl := ttl } := by
  sorry

/-! ## sorting by `last_updated` -/

theorem sortByLu_perm (l : List Track) : (sortByLu l).Perm l := by
  sorry

theorem sortByLu_sorted (l : List Track) : (sortByLu l).Pairwise (fun a b => a.lu ≤ b.lu) := by
  sorry

/-- the scan order of `cleanup` is sorted oldest-first in both modes (I2 in ordered mode) -/
theorem view_sorted (s : TrkState) (h : TrkInv s) :
    (viewOldestFirst s).Pairwise (fun a b => a.lu ≤ b.lu) := by
  sorry

theorem view_perm (s : TrkState) : (viewOldestFirst s).Perm s.tracks := by
  sorry

/-- an early-exit scan over a sorted list removes exactly the elements satisfying a monotone
predicate -/
theorem takeWhile_eq_filter_of_sorted {α} (le : α → α → Prop) (p : α → Bool) (l : List α)
    (hs : l.Pairwise le) (hmono : ∀ a b, le a b → p b = true → p a = true) :
    l.takeWhile p = l.filter p := by
  sorry

/-! ## expiry -/

/-- **C13 core.** Under the invariants `cleanup` at time `now` keeps exactly the tracks whose age is
below the TTL (in dict order), fires DELETED exactly for the others (each once), and nothing else. -/
theorem cleanup_exact (s : TrkState) (h : TrkInv s) (now : Int) :
    (cleanup s now).1.tracks = s.tracks.filter (fun t => !(staleAt s.ttl now t.lu)) ∧
    ((cleanup s now).2).Perm ((s.tracks.filter (fun t => staleAt s.ttl now t.lu)).map fun t => (Ev.deleted, t.mmsi)) ∧
    (cleanup s now).1.ttl = s.ttl ∧ (cleanup s now).1.ordered = s.ordered := by
  sorry

theorem inv_cleanup (s : TrkState) (h : TrkInv s) (now : Int) : TrkInv (cleanup s now).1 := by
  sorry

/-! ## the other operations preserve the invariants -/

theorem inv_pop (s : TrkState) (h : TrkInv s) (m : Int) : TrkInv (popTrack s m).1 := by
  sorry

theorem inv_update (s : TrkState) (h : TrkInv s) (m : Int) (attrs : List (String × Val)) (ts now : Int) :
    TrkInv (update s m attrs ts now).1 := by
  sorry

theorem inv_step (r : TrkRun) (h : TrkInv r.st) (op : TrkOp) : TrkInv (trkStep r op).st := by
  sorry

/-- every reachable state satisfies the invariants -/
theorem inv_run (ordered : Bool) (ttl : Option Int) (ops : List TrkOp) :
    TrkInv (trkRun ordered ttl ops).st := by
  sorry

/-- a rejected update changes nothing and fires nothing -/
theorem update_rejected (s : TrkState) (m : Int) (attrs : List (String × Val)) (ts now : Int)
    (h : (update s m attrs ts now).2.2 = false) :
    (update s m attrs ts now).1 = s ∧ (update s m attrs ts now).2.1 = [] := by
  sorry

/-- an accepted update: the track is created or merged, moved to the end, then expiry runs -/
theorem update_accepted (s : TrkState) (m : Int) (attrs : List (String × Val)) (ts now : Int)
    (h : (update s m attrs ts now).2.2 = true) :
    let merged : Track := match s.tracks.find? (·.mmsi = m) with
      | some old => { mmsi := m, attrs := mergeAttrs old.attrs attrs, lu := ts }
      | none => { mmsi := m, attrs := attrs, lu := ts }
    let s1 : TrkState := { s with tracks := s.tracks.filter (·.mmsi ≠ m) ++ [merged],
                                  oldest := setOldest s.oldest ts }
    (update s m attrs ts now).1 = (cleanup s1 now).1 ∧
    (update s m attrs ts now).2.1 =
      ((if (s.tracks.find? (·.mmsi = m)).isSome then Ev.updated else Ev.created), m) :: (cleanup s1 now).2 := by
  sorry

/-! ## `n_latest_tracks` -/

/-- **C14 core.** -/
theorem nLatest_spec (s : TrkState) (h : TrkInv s) (n : Int) (hn : 0 ≤ n) :
    let r := nLatest s n
    r.length = min n.toNat s.tracks.length ∧
    r.Pairwise (fun a b => a.mmsi ≠ b.mmsi) ∧
    (∀ t ∈ r, t ∈ s.tracks) ∧
    (∀ a ∈ s.tracks, a ∉ r → ∀ b ∈ r, a.lu ≤ b.lu) ∧
    (s.ordered = false → r.Pairwise (fun a b => a.lu ≥ b.lu)) := by
  sorry

end Model
