import PyaisVerif.Model.Tracker
import PyaisVerif.Spec.Tracker
/-!
# Tracker invariants and the exactness of the expiry scan (generic part of C12–C15)
-/
namespace Model
open Spec

/-- the invariants every reachable tracker state satisfies -/
structure TrkInv (s : TrkState) : Prop where
  /-- one track per MMSI -/
  keys : s.tracks.Pairwise (fun a b => a.mmsi ≠ b.mmsi)
  /-- (I1) the cached `oldest_timestamp` is a lower bound of every `last_updated` -/
  lower : ∀ o, s.oldest = some o → ∀ t ∈ s.tracks, o ≤ t.lu
  /-- (I1') the cache is set whenever tracks exist -/
  cached : s.tracks ≠ [] → s.oldest ≠ none
  /-- (I2) in ordered mode the dict is sorted by `last_updated` -/
  sorted : s.ordered = true → s.tracks.Pairwise (fun a b => a.lu ≤ b.lu)

theorem inv_init (ordered : Bool) (ttl : Option Int) :
    TrkInv { ordered := ordered, ttl := ttl } := by
  constructor <;> simp

/-! ## sorting by `last_updated` -/

theorem insertByLu_perm (x : Track) (l : List Track) : (insertByLu x l).Perm (x :: l) := by
  induction l with
  | nil => simp [insertByLu]
  | cons y ys ih =>
    simp only [insertByLu]
    split
    · exact (List.Perm.cons y ih).trans (List.Perm.swap x y ys)
    · exact List.Perm.refl _

theorem insertByLu_sorted (x : Track) (l : List Track) (h : l.Pairwise (fun a b => a.lu ≤ b.lu)) :
    (insertByLu x l).Pairwise (fun a b => a.lu ≤ b.lu) := by
  induction l with
  | nil => simp [insertByLu]
  | cons y ys ih =>
    simp only [insertByLu]
    rw [List.pairwise_cons] at h
    split
    · rename_i hlt
      rw [List.pairwise_cons]
      refine ⟨?_, ih h.2⟩
      intro z hz
      rw [(insertByLu_perm x ys).mem_iff] at hz
      rcases List.mem_cons.1 hz with rfl | hz
      · omega
      · exact h.1 z hz
    · rename_i hlt
      rw [List.pairwise_cons]
      refine ⟨?_, List.pairwise_cons.2 h⟩
      intro z hz
      rcases List.mem_cons.1 hz with rfl | hz
      · omega
      · have := h.1 z hz; omega

theorem sortByLu_cons (x : Track) (l : List Track) : sortByLu (x :: l) = insertByLu x (sortByLu l) := rfl

theorem sortByLu_perm (l : List Track) : (sortByLu l).Perm l := by
  induction l with
  | nil => exact List.Perm.refl _
  | cons x xs ih =>
    rw [sortByLu_cons]
    exact (insertByLu_perm x _).trans (List.Perm.cons x ih)

theorem sortByLu_sorted (l : List Track) : (sortByLu l).Pairwise (fun a b => a.lu ≤ b.lu) := by
  induction l with
  | nil => exact List.Pairwise.nil
  | cons x xs ih =>
    rw [sortByLu_cons]
    exact insertByLu_sorted x _ ih

/-- the scan order of `cleanup` is sorted oldest-first in both modes (I2 in ordered mode) -/
theorem view_sorted (s : TrkState) (h : TrkInv s) :
    (viewOldestFirst s).Pairwise (fun a b => a.lu ≤ b.lu) := by
  unfold viewOldestFirst
  split
  · exact h.sorted ‹_›
  · exact sortByLu_sorted _

theorem view_perm (s : TrkState) : (viewOldestFirst s).Perm s.tracks := by
  unfold viewOldestFirst
  split
  · exact List.Perm.refl _
  · exact sortByLu_perm _

/-- an early-exit scan over a sorted list removes exactly the elements satisfying a monotone
predicate -/
theorem takeWhile_eq_filter_of_sorted {α} (le : α → α → Prop) (p : α → Bool) (l : List α)
    (hs : l.Pairwise le) (hmono : ∀ a b, le a b → p b = true → p a = true) :
    l.takeWhile p = l.filter p := by
  induction l with
  | nil => rfl
  | cons x xs ih =>
    rw [List.pairwise_cons] at hs
    by_cases hp : p x = true
    · simp [hp, ih hs.2]
    · have hnil : xs.filter p = [] := by
        rw [List.filter_eq_nil_iff]
        intro y hy hpy
        exact hp (hmono x y (hs.1 y hy) hpy)
      simp [hp, hnil]

/-! ## expiry -/

/-- with one track per MMSI, a track is determined by its MMSI -/
theorem key_unique {l : List Track} (hk : l.Pairwise (fun a b => a.mmsi ≠ b.mmsi)) {a b : Track}
    (ha : a ∈ l) (hb : b ∈ l) (hab : a.mmsi = b.mmsi) : a = b := by
  induction l with
  | nil => cases ha
  | cons x xs ih =>
    rw [List.pairwise_cons] at hk
    rcases List.mem_cons.1 ha with rfl | ha'
    · rcases List.mem_cons.1 hb with rfl | hb'
      · rfl
      · exact absurd hab (hk.1 b hb')
    · rcases List.mem_cons.1 hb with rfl | hb'
      · exact absurd hab.symm (hk.1 a ha')
      · exact ih hk.2 ha' hb'

/-- filtering out the keys of the `p`-elements of a permutation removes exactly the `p`-elements -/
theorem filter_deadIds {l view : List Track} (hk : l.Pairwise (fun a b => a.mmsi ≠ b.mmsi))
    (hv : view.Perm l) (p : Track → Bool) :
    l.filter (fun t => !(((view.filter p).map (·.mmsi)).contains t.mmsi)) = l.filter (fun t => !p t) := by
  apply List.filter_congr
  intro t ht
  congr 1
  rw [Bool.eq_iff_iff]
  simp only [List.contains_iff_mem, List.mem_map, List.mem_filter]
  constructor
  · rintro ⟨u, ⟨hu, hpu⟩, hut⟩
    have := key_unique hk (hv.mem_iff.1 hu) ht hut
    rw [← this]; exact hpu
  · intro hpt
    exact ⟨t, ⟨hv.mem_iff.2 ht, hpt⟩, rfl⟩



theorem drop_length_takeWhile {α} (p : α → Bool) (l : List α) :
    l.drop (l.takeWhile p).length = l.dropWhile p := by
  induction l with
  | nil => rfl
  | cons x xs ih =>
    by_cases hp : p x = true
    · simp [hp, ih]
    · simp [hp]

/-- the scan branch of `cleanup`, in closed form -/
theorem cleanup_scan (s : TrkState) (now d o : Int) (hd : s.ttl = some d) (ho : s.oldest = some o)
    (hge : ¬ now - d < o) :
    cleanup s now =
      ({ s with
          tracks := s.tracks.filter (fun t =>
            !((((viewOldestFirst s).takeWhile (fun t => !decide (now - t.lu < d))).map (·.mmsi)).contains t.mmsi)),
          oldest := match ((viewOldestFirst s).dropWhile (fun t => !decide (now - t.lu < d))).head? with
            | some t => some t.lu
            | none => s.oldest },
       ((viewOldestFirst s).takeWhile (fun t => !decide (now - t.lu < d))).map (fun t => (Ev.deleted, t.mmsi))) := by
  unfold cleanup
  split
  · rename_i d' o' hd' ho'
    rw [hd] at hd'; rw [ho] at ho'
    cases hd'; cases ho'
    rw [if_neg hge]
    simp only [drop_length_takeWhile, List.map_map]
    simp only [decide_not, Bool.decide_eq_true, Function.comp_def]
    rfl
  · rename_i hne
    exact absurd ho (hne d o hd)

/-- `cleanup` either exits early (and then, under the invariants, nothing is stale) or scans -/
theorem cleanup_cases (s : TrkState) (h : TrkInv s) (now : Int) :
    (cleanup s now = (s, []) ∧ ∀ t ∈ s.tracks, staleAt s.ttl now t.lu = false) ∨
    (∃ d o, s.ttl = some d ∧ s.oldest = some o ∧ ¬ now - d < o) := by
  cases hd : s.ttl with
  | none =>
    left
    refine ⟨by simp [cleanup, hd], ?_⟩
    intro t _; rfl
  | some d =>
    cases ho : s.oldest with
    | none =>
      left
      refine ⟨by simp [cleanup, hd, ho], ?_⟩
      intro t ht
      exact absurd ho (h.cached (List.ne_nil_of_mem ht))
    | some o =>
      by_cases hlt : now - d < o
      · left
        refine ⟨by simp [cleanup, hd, ho, hlt], ?_⟩
        intro t ht
        have := h.lower o ho t ht
        simp [staleAt]; omega
      · right
        exact ⟨d, o, rfl, rfl, hlt⟩

/-- **C13 core.** Under the invariants `cleanup` at time `now` keeps exactly the tracks whose age is
below the TTL (in dict order), fires DELETED exactly for the others (each once), and nothing else. -/
theorem cleanup_exact (s : TrkState) (h : TrkInv s) (now : Int) :
    (cleanup s now).1.tracks = s.tracks.filter (fun t => !(staleAt s.ttl now t.lu)) ∧
    ((cleanup s now).2).Perm ((s.tracks.filter (fun t => staleAt s.ttl now t.lu)).map fun t => (Ev.deleted, t.mmsi)) ∧
    (cleanup s now).1.ttl = s.ttl ∧ (cleanup s now).1.ordered = s.ordered := by
  rcases cleanup_cases s h now with ⟨heq, hfresh⟩ | ⟨d, o, hd, ho, hge⟩
  · rw [heq]
    refine ⟨?_, ?_, rfl, rfl⟩
    · symm; rw [List.filter_eq_self]; intro t ht; simp [hfresh t ht]
    · have : s.tracks.filter (fun t => staleAt s.ttl now t.lu) = [] := by
        rw [List.filter_eq_nil_iff]; intro t ht; simp [hfresh t ht]
      rw [this]; exact List.Perm.refl _
  · rw [cleanup_scan s now d o hd ho hge]
    have htw := takeWhile_eq_filter_of_sorted (fun a b : Track => a.lu ≤ b.lu)
      (fun t : Track => !decide (now - t.lu < d)) _ (view_sorted s h)
      (by intro a b hab hb; simp at hb ⊢; omega)
    simp only [hd, staleAt]
    rw [htw]
    refine ⟨filter_deadIds h.keys (view_perm s) _, ?_, trivial, trivial⟩
    exact ((view_perm s).filter _).map _


/-- a track that survives the scan sits in the not-scanned part of the view -/
theorem mem_dropWhile_of_survivor {view tracks : List Track} (hvp : view.Perm tracks) (p : Track → Bool)
    {t : Track}
    (ht : t ∈ tracks.filter (fun t => !(((view.takeWhile p).map (·.mmsi)).contains t.mmsi))) :
    t ∈ view.dropWhile p := by
  rw [List.mem_filter] at ht
  obtain ⟨ht, hnd⟩ := ht
  have htv : t ∈ view := hvp.mem_iff.2 ht
  rw [← List.takeWhile_append_dropWhile (p := p) (l := view)] at htv
  rcases List.mem_append.1 htv with h1 | h1
  · exfalso
    simp only [Bool.not_eq_true', List.contains_eq_mem, decide_eq_false_iff_not, List.mem_map, not_exists,
      not_and] at hnd
    exact hnd t h1 rfl
  · exact h1

theorem inv_cleanup (s : TrkState) (h : TrkInv s) (now : Int) : TrkInv (cleanup s now).1 := by
  rcases cleanup_cases s h now with ⟨heq, _⟩ | ⟨d, o, hd, ho, hge⟩
  · rw [heq]; exact h
  · rw [cleanup_scan s now d o hd ho hge]
    have hvs := view_sorted s h
    have hvp := view_perm s
    rw [← List.takeWhile_append_dropWhile (p := fun t : Track => !decide (now - t.lu < d))
      (l := viewOldestFirst s)] at hvs
    constructor
    · exact h.keys.filter _
    · intro o' ho' t ht
      have h1 := mem_dropWhile_of_survivor hvp _ ht
      simp only at ho'
      cases hdw : (viewOldestFirst s).dropWhile (fun t : Track => !decide (now - t.lu < d)) with
      | nil => rw [hdw] at h1; cases h1
      | cons x xs =>
        rw [hdw] at ho' h1 hvs
        simp only [List.head?_cons, Option.some.injEq] at ho'
        subst ho'
        rcases List.mem_cons.1 h1 with rfl | h2
        · exact Int.le_refl _
        · have := (List.pairwise_append.1 hvs).2.1
          rw [List.pairwise_cons] at this
          exact this.1 t h2
    · intro hne
      obtain ⟨t, ht⟩ := List.exists_mem_of_ne_nil _ hne
      have h1 := mem_dropWhile_of_survivor hvp _ ht
      simp only
      cases hdw : (viewOldestFirst s).dropWhile (fun t : Track => !decide (now - t.lu < d)) with
      | nil => rw [hdw] at h1; cases h1
      | cons x xs => simp
    · intro hord
      exact (h.sorted hord).filter _


/-! ## the other operations preserve the invariants -/

theorem inv_filter (s : TrkState) (h : TrkInv s) (q : Track → Bool) :
    TrkInv { s with tracks := s.tracks.filter q } := by
  constructor
  · exact h.keys.filter _
  · intro o ho t ht
    exact h.lower o ho t (List.mem_filter.1 ht).1
  · intro hne
    apply h.cached
    intro hnil
    apply hne
    simp only [hnil, List.filter_nil]
  · intro hord
    exact (h.sorted hord).filter _

theorem inv_pop (s : TrkState) (h : TrkInv s) (m : Int) : TrkInv (popTrack s m).1 := by
  unfold popTrack
  split
  · exact inv_filter s h _
  · exact h

theorem sorted_le_getLast {l : List Track} (hs : l.Pairwise (fun a b => a.lu ≤ b.lu)) {x : Track}
    (hx : l.getLast? = some x) : ∀ t ∈ l, t.lu ≤ x.lu := by
  obtain ⟨ys, rfl⟩ := List.getLast?_eq_some_iff.1 hx
  intro t ht
  rcases List.mem_append.1 ht with h1 | h1
  · exact (List.pairwise_append.1 hs).2.2 t h1 x (List.mem_singleton.2 rfl)
  · rw [List.mem_singleton.1 h1]; exact Int.le_refl _

/-- the state after the insert/merge step of an accepted `update` satisfies the invariants -/
theorem inv_insert (s : TrkState) (h : TrkInv s) (m : Int) (a : List (String × Val)) (ts : Int)
    (hord : s.ordered = true → ∀ t ∈ s.tracks, t.lu ≤ ts) :
    TrkInv { s with tracks := s.tracks.filter (·.mmsi ≠ m) ++ [{ mmsi := m, attrs := a, lu := ts }],
                    oldest := setOldest s.oldest ts } := by
  constructor
  · simp only
    rw [List.pairwise_append]
    refine ⟨h.keys.filter _, List.pairwise_singleton _ _, ?_⟩
    intro t ht u hu
    rw [List.mem_singleton.1 hu]
    simpa using (List.mem_filter.1 ht).2
  · intro o ho t ht
    simp only at ho ht
    have hold : ∀ u ∈ s.tracks, o ≤ u.lu := by
      intro u hu
      cases hso : s.oldest with
      | none => exact absurd hso (h.cached (List.ne_nil_of_mem hu))
      | some x =>
        have := h.lower x hso u hu
        rw [hso] at ho
        simp only [setOldest, Option.some.injEq] at ho
        omega
    have hts : o ≤ ts := by
      cases hso : s.oldest with
      | none => rw [hso] at ho; simp only [setOldest, Option.some.injEq] at ho; omega
      | some x => rw [hso] at ho; simp only [setOldest, Option.some.injEq] at ho; omega
    rcases List.mem_append.1 ht with h1 | h1
    · exact hold t (List.mem_filter.1 h1).1
    · rw [List.mem_singleton.1 h1]; exact hts
  · intro _
    simp only [setOldest]
    split <;> simp
  · intro ho
    simp only at ho ⊢
    rw [List.pairwise_append]
    refine ⟨(h.sorted ho).filter _, List.pairwise_singleton _ _, ?_⟩
    intro t ht u hu
    rw [List.mem_singleton.1 hu]
    exact hord ho t (List.mem_filter.1 ht).1

theorem ite_order_split {β} (ok : Bool) (P : Prop) (hP : ok = true → P) (bad X R : β)
    (hX : X = bad ∨ X = R) :
    (if (!ok) = true then bad else X) = bad ∨ (P ∧ (if (!ok) = true then bad else X) = R) := by
  cases ok
  · left; simp
  · rcases hX with h | h
    · left; simp [h]
    · right; exact ⟨hP rfl, by simp [h]⟩

/-- the two outcomes of `update`: rejected (nothing changes), or accepted (the order check passed,
the track is created or merged and moved to the end, then expiry runs) -/
theorem update_cases (s : TrkState) (m : Int) (attrs : List (String × Val)) (ts now : Int) :
    update s m attrs ts now = (s, [], false) ∨
    ((s.ordered = true → ∀ latest, s.tracks.getLast? = some latest → latest.lu ≤ ts) ∧
     update s m attrs ts now =
      ((cleanup { s with
          tracks := s.tracks.filter (·.mmsi ≠ m) ++ [match s.tracks.find? (·.mmsi = m) with
            | some old => { mmsi := m, attrs := mergeAttrs old.attrs attrs, lu := ts }
            | none => { mmsi := m, attrs := attrs, lu := ts }],
          oldest := setOldest s.oldest ts } now).1,
       ((if (s.tracks.find? (·.mmsi = m)).isSome then Ev.updated else Ev.created), m) ::
         (cleanup { s with
          tracks := s.tracks.filter (·.mmsi ≠ m) ++ [match s.tracks.find? (·.mmsi = m) with
            | some old => { mmsi := m, attrs := mergeAttrs old.attrs attrs, lu := ts }
            | none => { mmsi := m, attrs := attrs, lu := ts }],
          oldest := setOldest s.oldest ts } now).2, true)) := by
  have hfilter : s.tracks.find? (fun x => decide (x.mmsi = m)) = none →
      s.tracks.filter (fun x => decide (x.mmsi ≠ m)) = s.tracks := by
    intro hnone
    rw [List.filter_eq_self]
    intro t ht
    have := List.find?_eq_none.1 hnone t ht
    simpa using this
  unfold update
  simp only []
  cases hfind : s.tracks.find? (fun x => decide (x.mmsi = m)) with
  | none =>
    simp only [hfilter hfind, Option.isSome_none, Bool.false_eq_true, if_false]
    refine ite_order_split _ _ ?_ _ _ _ (Or.inr rfl)
    intro hok hord latest hl
    rw [hord, hl] at hok
    simp only [Bool.not_eq_true', decide_eq_false_iff_not] at hok
    omega
  | some old =>
    simp only [Option.isSome_some, if_true]
    refine ite_order_split _ _ ?_ _ _ _ ?_
    · intro hok hord latest hl
      rw [hord, hl] at hok
      simp only [Bool.not_eq_true', decide_eq_false_iff_not] at hok
      omega
    · by_cases hlt : ts < old.lu
      · left; rw [if_pos hlt]
      · right; rw [if_neg hlt]


theorem accepted_order (s : TrkState) (h : TrkInv s) (m : Int) (attrs : List (String × Val)) (ts now : Int)
    (hacc : (update s m attrs ts now).2.2 = true) :
    s.ordered = true → ∀ t ∈ s.tracks, t.lu ≤ ts := by
  rcases update_cases s m attrs ts now with heq | ⟨hP, _⟩
  · rw [heq] at hacc; cases hacc
  · intro hord t ht
    cases hl : s.tracks.getLast? with
    | none => rw [List.getLast?_eq_none_iff] at hl; rw [hl] at ht; cases ht
    | some latest =>
      have h1 := sorted_le_getLast (h.sorted hord) hl t ht
      have h2 := hP hord latest hl
      omega

/-- the intermediate state of an accepted `update` (after insert/merge, before expiry) satisfies the
invariants -/
theorem inv_insert_accepted (s : TrkState) (h : TrkInv s) (m : Int) (attrs : List (String × Val))
    (ts now : Int) (hacc : (update s m attrs ts now).2.2 = true) :
    TrkInv { s with
      tracks := s.tracks.filter (·.mmsi ≠ m) ++ [match s.tracks.find? (·.mmsi = m) with
        | some old => { mmsi := m, attrs := mergeAttrs old.attrs attrs, lu := ts }
        | none => { mmsi := m, attrs := attrs, lu := ts }],
      oldest := setOldest s.oldest ts } := by
  have hord := accepted_order s h m attrs ts now hacc
  cases s.tracks.find? (·.mmsi = m) with
  | none => exact inv_insert s h m _ ts hord
  | some old => exact inv_insert s h m _ ts hord

theorem inv_update (s : TrkState) (h : TrkInv s) (m : Int) (attrs : List (String × Val)) (ts now : Int) :
    TrkInv (update s m attrs ts now).1 := by
  rcases update_cases s m attrs ts now with heq | ⟨_, heq⟩
  · rw [heq]; exact h
  · have hacc : (update s m attrs ts now).2.2 = true := by rw [heq]
    rw [heq]
    exact inv_cleanup _ (inv_insert_accepted s h m attrs ts now hacc) now

theorem inv_step (r : TrkRun) (h : TrkInv r.st) (op : TrkOp) : TrkInv (trkStep r op).st := by
  cases op with
  | update m attrs ts => exact inv_update r.st h m attrs _ r.now
  | pop m => exact inv_pop r.st h m
  | cleanup => exact inv_cleanup r.st h r.now
  | tick t => exact h
  | setTtl ttl => exact ⟨h.keys, h.lower, h.cached, h.sorted⟩

theorem inv_foldl (ops : List TrkOp) : ∀ r : TrkRun, TrkInv r.st → TrkInv (ops.foldl trkStep r).st := by
  induction ops with
  | nil => intro r h; exact h
  | cons op ops ih => intro r h; exact ih _ (inv_step r h op)

/-- every reachable state satisfies the invariants -/
theorem inv_run (ordered : Bool) (ttl : Option Int) (ops : List TrkOp) :
    TrkInv (trkRun ordered ttl ops).st :=
  inv_foldl ops _ (inv_init ordered ttl)

/-- a rejected update changes nothing and fires nothing -/
theorem update_rejected (s : TrkState) (m : Int) (attrs : List (String × Val)) (ts now : Int)
    (h : (update s m attrs ts now).2.2 = false) :
    (update s m attrs ts now).1 = s ∧ (update s m attrs ts now).2.1 = [] := by
  rcases update_cases s m attrs ts now with heq | ⟨_, heq⟩
  · rw [heq]; exact ⟨rfl, rfl⟩
  · rw [heq] at h; cases h

/-- an accepted update: the track is created or merged, moved to the end, then expiry runs -/
theorem update_accepted (s : TrkState) (m : Int) (attrs : List (String × Val)) (ts now : Int)
    (h : (update s m attrs ts now).2.2 = true) :
    let merged : Track := match s.tracks.find? (·.mmsi = m) with
      | some old => { mmsi := m, attrs := mergeAttrs old.attrs attrs, lu := ts }
      | none => { mmsi := m, attrs := attrs, lu := ts }
    let s1 : TrkState := { s with tracks := s.tracks.filter (·.mmsi ≠ m) ++ [merged],
                                  oldest := setOldest s.oldest ts }
    (update s m attrs ts now).1 = (cleanup s1 now).1 ∧
    (update s m attrs ts now).2.1 =
      ((if (s.tracks.find? (·.mmsi = m)).isSome then Ev.updated else Ev.created), m) :: (cleanup s1 now).2 := by
  intro merged s1
  rcases update_cases s m attrs ts now with heq | ⟨_, heq⟩
  · rw [heq] at h; cases h
  · rw [heq]; exact ⟨rfl, rfl⟩


/-! ## `n_latest_tracks` -/

theorem drop_spec (l : List Track) (j : Nat) (hs : l.Pairwise (fun a b => a.lu ≤ b.lu)) :
    ∀ a ∈ l, a ∉ l.drop j → ∀ b ∈ l.drop j, a.lu ≤ b.lu := by
  intro a ha hna b hb
  rw [← List.take_append_drop j l] at hs ha
  rcases List.mem_append.1 ha with h1 | h1
  · exact (List.pairwise_append.1 hs).2.2 a h1 b hb
  · exact absurd h1 hna

theorem take_spec (l : List Track) (k : Nat) (hs : l.Pairwise (fun a b => a.lu ≥ b.lu)) :
    ∀ a ∈ l, a ∉ l.take k → ∀ b ∈ l.take k, a.lu ≤ b.lu := by
  intro a ha hna b hb
  rw [← List.take_append_drop k l] at hs ha
  rcases List.mem_append.1 ha with h1 | h1
  · exact absurd h1 hna
  · exact (List.pairwise_append.1 hs).2.2 b hb a h1

/-- **C14 core.** -/
theorem nLatest_spec (s : TrkState) (h : TrkInv s) (n : Int) (hn : 0 ≤ n) :
    let r := nLatest s n
    r.length = min n.toNat s.tracks.length ∧
    r.Pairwise (fun a b => a.mmsi ≠ b.mmsi) ∧
    (∀ t ∈ r, t ∈ s.tracks) ∧
    (∀ a ∈ s.tracks, a ∉ r → ∀ b ∈ r, a.lu ≤ b.lu) ∧
    (s.ordered = false → r.Pairwise (fun a b => a.lu ≥ b.lu)) := by
  intro r
  have hk : (max (min n (s.tracks.length : Int)) 0).toNat = min n.toNat s.tracks.length := by omega
  cases hord : s.ordered with
  | true =>
    have hr : r = s.tracks.drop (s.tracks.length - min n.toNat s.tracks.length) := by
      simp only [r, nLatest, hord, hk, if_true]
    rw [hr]
    refine ⟨?_, ?_, ?_, ?_, ?_⟩
    · rw [List.length_drop]; omega
    · exact h.keys.sublist (List.drop_sublist _ _)
    · intro t ht; exact List.mem_of_mem_drop ht
    · exact drop_spec _ _ (h.sorted hord)
    · intro hf; cases hf
  | false =>
    have hr : r = ((sortByLu s.tracks).reverse).take (min n.toNat s.tracks.length) := by
      simp only [r, nLatest, hord, hk, Bool.false_eq_true, if_false]
    have hperm : ((sortByLu s.tracks).reverse).Perm s.tracks :=
      (List.reverse_perm _).trans (sortByLu_perm _)
    have hdesc : ((sortByLu s.tracks).reverse).Pairwise (fun a b => a.lu ≥ b.lu) := by
      rw [List.pairwise_reverse]
      exact sortByLu_sorted _
    have hkeys : ((sortByLu s.tracks).reverse).Pairwise (fun a b => a.mmsi ≠ b.mmsi) :=
      (hperm.pairwise_iff (fun hab => Ne.symm hab)).2 h.keys
    rw [hr]
    refine ⟨?_, ?_, ?_, ?_, ?_⟩
    · rw [List.length_take, hperm.length_eq]; omega
    · exact hkeys.sublist (List.take_sublist _ _)
    · intro t ht; exact hperm.mem_iff.1 (List.mem_of_mem_take ht)
    · intro a ha
      exact take_spec _ _ hdesc a (hperm.mem_iff.2 ha)
    · intro _
      exact hdesc.sublist (List.take_sublist _ _)

end Model
