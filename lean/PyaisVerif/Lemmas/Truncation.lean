import PyaisVerif.Model.Codec
import PyaisVerif.Lemmas.Bits
import PyaisVerif.Lemmas.Codec
/-!
# Truncated payloads (generic part of C11)

Everything is read off the per-offset form of the cursor loop (`seqDecode_eq_off`).
-/
namespace Model
open Py

/-- does table `tbl` have a row for every raw value a slice of at most `w` bits can hold? -/
def tableCovers (tbl : List (Int × Val)) (w : Nat) (signed : Bool) : Bool :=
  if signed then
    (List.range (2 ^ w)).all fun i => (tbl.lookup ((i : Int) - 2 ^ (w - 1))).isSome
  else
    (List.range (2 ^ w)).all fun i => (tbl.lookup (i : Int)).isSome

/-- Decidable sufficient condition for "decoding this field never fails, whatever the bits":
the converters are total on the raw domain of the field. -/
def convTotal (env : Env) (f : Field) : Bool :=
  let numeric := f.dtype = .int ∨ f.dtype = .bool ∨ f.dtype = .float
  let tblOk (n : String) : Bool :=
    decide (0 < f.width) && f.width ≤ 12 && numeric && f.dtype != .bool &&
    match env.convTables.lookup n with
    | some tbl => tableCovers tbl f.width f.signed
    | none => false
  match f.toConv, f.attrConv with
  | .none, .none => true
  | .divK k, .none => decide (0 < k ∧ 1000000 % k = 0) && numeric
  | .divRound k p, .none => decide (0 < k ∧ p ≤ 6) && numeric
  | .table n, .none => tblOk n
  | .none, .table n => tblOk n
  | _, _ => false

/-! ## helper lemmas for `decodeField_total` -/

/-- two's complement range of a slice of at most `w` bits (`w > 0`) -/
theorem toInt_range (bs : Bits) (w : Nat) (h : bs.length ≤ w) (hw : 0 < w) :
    -(2:Int)^(w-1) ≤ toInt bs ∧ toInt bs < 2^(w-1) := by
  have hQ : (0:Int) < 2^(w-1) := Int.pow_pos (by decide)
  cases bs with
  | nil => simp only [toInt]; omega
  | cons b tl =>
    have hlen : tl.length ≤ w - 1 := by simp at h; omega
    have hlt := toNat_lt tl
    have hPQ : 2^tl.length ≤ 2^(w-1) := Nat.pow_le_pow_right (by decide) hlen
    have hPQ' : (2:Int)^tl.length ≤ 2^(w-1) := by exact_mod_cast hPQ
    have hlt' : ((toNat tl : Nat) : Int) < (2:Int)^tl.length := by exact_mod_cast hlt
    cases b
    · simp only [toInt, toNat, b2n]
      simp
      omega
    · simp only [toInt, toNat, b2n, List.length_cons, Int.pow_succ]
      simp only [if_true, Nat.one_mul, Int.natCast_add, Int.natCast_pow, Int.cast_ofNat_Int]
      omega

/-- the raw integer read from a slice -/
def rawOf (f : Field) (bits : Bits) : Int := if f.signed then toInt bits else (toNat bits : Int)

theorem decodeRaw_numeric (f : Field) (bits : Bits) :
    decodeRaw f bits = match f.dtype with
      | .int => .int (rawOf f bits)
      | .bool => .bool (rawOf f bits != 0)
      | .float => .flt (rawOf f bits * MICRO)
      | .str => .str (decodeAscii6 bits)
      | .bytes => .bytes (toBytes bits) := by
  unfold decodeRaw rawOf
  cases hd : f.dtype <;> simp [fromBytes_shift, fromBytesSigned_shift]

theorem decodeRaw_micro (f : Field) (bits : Bits)
    (hnum : f.dtype = .int ∨ f.dtype = .bool ∨ f.dtype = .float) :
    ∃ m, (decodeRaw f bits).micro = some (m * MICRO) := by
  rw [decodeRaw_numeric]
  rcases hnum with hd | hd | hd <;> rw [hd]
  · exact ⟨_, rfl⟩
  · refine ⟨if (rawOf f bits != 0) then 1 else 0, ?_⟩
    simp only [Val.micro]
    cases (rawOf f bits != 0) <;> simp
  · exact ⟨_, rfl⟩

theorem decodeRaw_key (f : Field) (bits : Bits)
    (hnum : f.dtype = .int ∨ f.dtype = .float) :
    (decodeRaw f bits).key = some (rawOf f bits) := by
  rw [decodeRaw_numeric]
  rcases hnum with hd | hd <;> rw [hd]
  · rfl
  · simp only [Val.key]
    have h0 : MICRO ≠ 0 := by decide
    rw [if_pos (Int.mul_emod_left _ _), Int.mul_ediv_cancel _ h0]

theorem tableCovers_lookup (tbl : List (Int × Val)) (f : Field)
    (h : tableCovers tbl f.width f.signed = true) (hw : 0 < f.width) (bits : Bits)
    (hlen : bits.length ≤ f.width) : ∃ r, tbl.lookup (rawOf f bits) = some r := by
  unfold tableCovers at h
  unfold rawOf
  cases hs : f.signed
  · simp only [hs, Bool.false_eq_true, if_false] at h ⊢
    have hlt : toNat bits < 2 ^ f.width :=
      Nat.lt_of_lt_of_le (toNat_lt bits) (Nat.pow_le_pow_right (by decide) hlen)
    have := List.all_eq_true.mp h _ (List.mem_range.mpr hlt)
    exact Option.isSome_iff_exists.mp this
  · simp only [hs, if_true] at h ⊢
    obtain ⟨hlo, hhi⟩ := toInt_range bits f.width hlen hw
    have hpow : (2:Int) ^ f.width = 2 ^ (f.width - 1) * 2 := by
      rw [← Int.pow_succ]; congr 1; omega
    have hi : (toInt bits + 2 ^ (f.width - 1)).toNat < 2 ^ f.width := by
      have : ((toInt bits + 2 ^ (f.width - 1)).toNat : Int) < ((2 ^ f.width : Nat) : Int) := by
        rw [Int.toNat_of_nonneg (by omega)]
        simp only [Int.natCast_pow, Int.cast_ofNat_Int]
        omega
      exact_mod_cast this
    have := List.all_eq_true.mp h _ (List.mem_range.mpr hi)
    rw [Int.toNat_of_nonneg (by omega)] at this
    have e : toInt bits + 2 ^ (f.width - 1) - 2 ^ (f.width - 1) = toInt bits := by omega
    rw [e] at this
    exact Option.isSome_iff_exists.mp this

theorem decodeField_of_attr_none (env : Env) (f : Field) (bits : Bits) (ha : f.attrConv = .none) :
    decodeField env f bits = applyConv env f.toConv (decodeRaw f bits) := by
  unfold decodeField
  rw [ha]
  cases applyConv env f.toConv (decodeRaw f bits) <;> rfl

theorem decodeField_of_to_none (env : Env) (f : Field) (bits : Bits) (ht : f.toConv = .none) :
    decodeField env f bits = applyConv env f.attrConv (decodeRaw f bits) := by
  unfold decodeField
  rw [ht]
  rfl

theorem applyConv_table_total (env : Env) (f : Field) (n : String) (bits : Bits)
    (hlen : bits.length ≤ f.width)
    (h : (decide (0 < f.width) && decide (f.width ≤ 12) &&
        decide (f.dtype = .int ∨ f.dtype = .bool ∨ f.dtype = .float) && (f.dtype != .bool) &&
        match env.convTables.lookup n with
        | some tbl => tableCovers tbl f.width f.signed
        | none => false) = true) :
    ∃ v, applyConv env (.table n) (decodeRaw f bits) = .ok v := by
  simp only [Bool.and_eq_true, decide_eq_true_eq, bne_iff_ne, ne_eq] at h
  obtain ⟨⟨⟨⟨hw, _⟩, hnum⟩, hnb⟩, htbl⟩ := h
  have hnum' : f.dtype = .int ∨ f.dtype = .float := by
    rcases hnum with h | h | h
    · exact .inl h
    · exact absurd h hnb
    · exact .inr h
  split at htbl
  · rename_i tbl hl
    obtain ⟨r, hr⟩ := tableCovers_lookup tbl f htbl hw bits hlen
    refine ⟨r, ?_⟩
    simp only [applyConv, hl, decodeRaw_key f bits hnum', hr]
  · cases htbl

/-- a field whose converters are total decodes every slice of at most its width -/
theorem decodeField_total (env : Env) (f : Field) (h : convTotal env f = true) (bits : Bits)
    (hlen : bits.length ≤ f.width) : ∃ v, decodeField env f bits = .ok v := by
  simp only [convTotal] at h
  split at h
  · rename_i ht ha
    rw [decodeField_of_attr_none _ _ _ ha, ht]
    exact ⟨_, rfl⟩
  · rename_i k ht ha
    rw [decodeField_of_attr_none _ _ _ ha, ht]
    simp only [Bool.and_eq_true, decide_eq_true_eq] at h
    obtain ⟨⟨hk, hdiv⟩, hnum⟩ := h
    obtain ⟨m, hm⟩ := decodeRaw_micro f bits hnum
    have hkd : ((k : Nat) : Int) ∣ m * MICRO :=
      Int.dvd_trans (Int.natCast_dvd_natCast.mpr (Nat.dvd_of_mod_eq_zero hdiv)) (Int.dvd_mul_left _ _)
    have hk0 : k ≠ 0 := by omega
    simp only [applyConv, hm, hk0, if_false, Int.emod_eq_zero_of_dvd hkd, if_true]
    exact ⟨_, rfl⟩
  · rename_i k p ht ha
    rw [decodeField_of_attr_none _ _ _ ha, ht]
    simp only [Bool.and_eq_true, decide_eq_true_eq] at h
    obtain ⟨⟨hk, hp⟩, hnum⟩ := h
    obtain ⟨m, hm⟩ := decodeRaw_micro f bits hnum
    have hc : ¬ (k = 0 ∨ p > 6) := by omega
    simp only [applyConv, hm, hc, if_false]
    exact ⟨_, rfl⟩
  · rename_i n ht ha
    rw [decodeField_of_attr_none _ _ _ ha, ht]
    exact applyConv_table_total env f n bits hlen h
  · rename_i n ht ha
    rw [decodeField_of_to_none _ _ _ ht, ha]
    exact applyConv_table_total env f n bits hlen h
  · cases h

/-! ## helper lemmas about `sequenceE` / `offFields` -/

theorem fieldSlice_length_le (bits : Bits) (off w : Nat) : (fieldSlice bits off w).length ≤ w := by
  unfold fieldSlice
  simp only [List.length_take, List.length_drop]
  omega

theorem sequenceE_total (l : List (String × Except Err Val))
    (h : ∀ p ∈ l, ∃ v, p.2 = .ok v) : ∃ kv, sequenceE l = .ok kv := by
  induction l with
  | nil => exact ⟨[], rfl⟩
  | cons p rest ih =>
    obtain ⟨n, r⟩ := p
    obtain ⟨v, hv⟩ := h (n, r) List.mem_cons_self
    obtain ⟨kv, hkv⟩ := ih (fun p hp => h p (List.mem_cons_of_mem _ hp))
    simp only at hv
    subst hv
    exact ⟨(n, v) :: kv, by simp [sequenceE, hkv]⟩

/-- a successful `sequenceE` means every entry was `.ok`, and the result lists exactly these values -/
theorem sequenceE_ok (l : List (String × Except Err Val)) (kv : List (String × Val))
    (h : sequenceE l = .ok kv) : l = kv.map (fun p => (p.1, Except.ok p.2)) := by
  induction l generalizing kv with
  | nil =>
    simp only [sequenceE, Except.ok.injEq] at h
    subst h; rfl
  | cons p rest ih =>
    obtain ⟨n, r⟩ := p
    cases r with
    | error e => simp [sequenceE] at h
    | ok v =>
      simp only [sequenceE] at h
      cases hr : sequenceE rest with
      | error e => rw [hr] at h; simp at h
      | ok vs =>
        rw [hr] at h
        simp only [Except.ok.injEq] at h
        subst h
        rw [List.map_cons, ← ih vs hr]

theorem offFields_ok (env : Env) (fs : List Field) (h : fs.all (convTotal env) = true)
    (bits : Bits) (off : Nat) : ∀ p ∈ offFields env bits off fs, ∃ v, p.2 = .ok v := by
  induction fs generalizing off with
  | nil => intro p hp; simp [offFields] at hp
  | cons f fs ih =>
    simp only [List.all_cons, Bool.and_eq_true] at h
    intro p hp
    simp only [offFields, List.mem_cons] at hp
    rcases hp with rfl | hp
    · simp only
      split
      · exact ⟨_, rfl⟩
      · exact decodeField_total env f h.1 _ (fieldSlice_length_le _ _ _)
    · exact ih h.2 _ p hp

theorem offFields_names (env : Env) (fs : List Field) (bits : Bits) (off : Nat) :
    (offFields env bits off fs).map (·.1) = fs.map (·.name) := by
  induction fs generalizing off with
  | nil => rfl
  | cons f fs ih => simp [offFields, ih]

/-- entry `i` of a successful decode: the name of field `i` and the value decoded at its offset -/
theorem seqDecode_getElem (env : Env) (fs : List Field) (bits : Bits)
    (kv : List (String × Val)) (h : seqDecode env bits 0 fs = .ok kv)
    (i : Nat) (f : Field) (o : Nat) (hi : (offsetsFrom 0 fs)[i]? = some (f, o)) :
    ∃ v, kv[i]? = some (f.name, v) ∧
      (if o ≥ bits.length then .ok .none else decodeField env f (fieldSlice bits o f.width))
        = Except.ok v := by
  rw [seqDecode_eq_off, offFields_eq_map] at h
  have h1 := congrArg (fun l => l[i]?) (sequenceE_ok _ _ h)
  simp only [List.getElem?_map, hi, Option.map_some] at h1
  cases hk : kv[i]? with
  | none => rw [hk] at h1; simp at h1
  | some p =>
    rw [hk] at h1
    simp only [Option.map_some, Option.some.injEq, Prod.mk.injEq] at h1
    obtain ⟨n, v⟩ := p
    exact ⟨v, by rw [h1.1], h1.2⟩

/-- **C11 (totality).** A table whose converters are total never fails, for every bit string of
every length (including the empty one) and every cursor. -/
theorem seqDecode_total (env : Env) (fs : List Field) (h : fs.all (convTotal env) = true)
    (bits : Bits) (cur : Nat) : ∃ kv, seqDecode env bits cur fs = .ok kv := by
  rw [seqDecode_eq_off]
  exact sequenceE_total _ (offFields_ok env fs h bits cur)

/-- the result list of a successful decode has one entry per field, in table order -/
theorem seqDecode_names (env : Env) (fs : List Field) (bits : Bits) (cur : Nat)
    (kv : List (String × Val)) (h : seqDecode env bits cur fs = .ok kv) :
    kv.map (·.1) = fs.map (·.name) := by
  rw [seqDecode_eq_off] at h
  have h1 := congrArg (List.map (·.1)) (sequenceE_ok _ _ h)
  rw [offFields_names] at h1
  rw [h1, List.map_map]
  rfl

/-- **C11 (covered fields).** If the first `L` bits and the whole payload both decode, every field
that lies completely inside the first `L` bits has the same value in both results. -/
theorem seqDecode_covered (env : Env) (fs : List Field) (bits : Bits) (L : Nat) (hL : L ≤ bits.length)
    (kvFull kvPre : List (String × Val))
    (hfull : seqDecode env bits 0 fs = .ok kvFull)
    (hpre : seqDecode env (bits.take L) 0 fs = .ok kvPre)
    (i : Nat) (f : Field) (o : Nat) (hi : (offsetsFrom 0 fs)[i]? = some (f, o))
    (hw : 0 < f.width) (hcov : o + f.width ≤ L) :
    kvPre[i]? = kvFull[i]? := by
  obtain ⟨v1, h1, e1⟩ := seqDecode_getElem env fs bits kvFull hfull i f o hi
  obtain ⟨v2, h2, e2⟩ := seqDecode_getElem env fs (bits.take L) kvPre hpre i f o hi
  have hlen : (bits.take L).length = L := by simp only [List.length_take]; omega
  rw [if_neg (by omega)] at e1
  rw [hlen, if_neg (by omega), fieldSlice_take bits L o f.width hL hcov, e1] at e2
  cases e2
  rw [h1, h2]

/-- **C11 (absent fields).** Every field that starts at or beyond the end of the received bits is
`None`. -/
theorem seqDecode_absent (env : Env) (fs : List Field) (bits : Bits)
    (kv : List (String × Val)) (h : seqDecode env bits 0 fs = .ok kv)
    (i : Nat) (f : Field) (o : Nat) (hi : (offsetsFrom 0 fs)[i]? = some (f, o))
    (habs : bits.length ≤ o) :
    kv[i]? = some (f.name, .none) := by
  obtain ⟨v, h1, e1⟩ := seqDecode_getElem env fs bits kv h i f o hi
  rw [if_pos habs] at e1
  cases e1
  exact h1

/-- `get_int` on a range that lies inside the payload does not see what follows it -/
theorem getInt_take (bits : Bits) (L lo hi : Nat) (hhi : hi ≤ L) :
    getInt (bits.take L) lo hi = getInt bits lo hi := by
  unfold getInt
  rw [List.drop_take, List.take_take]
  congr 3
  omega

/-- **C11 (variant).** The variant chosen for a prefix that contains all discriminator bits read by
the dispatch tree is the variant chosen for the whole payload. -/
def Tree.maxBit : Tree → Nat
  | .leaf _ => 0
  | .raise _ => 0
  | .ite t a b =>
    let m := match t with
      | .bits _ hi => hi
      | .bitsEq _ hi _ => hi
      | _ => 0
    max m (max a.maxBit b.maxBit)

theorem treeRun_take (tr : Tree) (bits : Bits) (L : Nat) (h : tr.maxBit ≤ L) :
    tr.run (fun t => .ok (t.evalBits (bits.take L))) = tr.run (fun t => .ok (t.evalBits bits)) := by
  induction tr with
  | leaf c => rfl
  | raise e => rfl
  | ite t a b iha ihb =>
    have ha : a.maxBit ≤ L := by simp only [Tree.maxBit] at h; omega
    have hb : b.maxBit ≤ L := by simp only [Tree.maxBit] at h; omega
    have ht : t.evalBits (bits.take L) = t.evalBits bits := by
      cases t with
      | bits lo hi =>
        simp only [Tree.maxBit] at h
        simp only [Test.evalBits]
        rw [getInt_take _ _ _ _ (by omega)]
      | bitsEq lo hi c =>
        simp only [Tree.maxBit] at h
        simp only [Test.evalBits]
        rw [getInt_take _ _ _ _ (by omega)]
      | kw k => rfl
      | kwIntEq k d c => rfl
    simp only [Tree.run, ht, iha ha, ihb hb]

end Model
