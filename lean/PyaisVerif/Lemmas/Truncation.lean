import PyaisVerif.Model.Codec
import PyaisVerif.Lemmas.Bits
import PyaisVerif.Lemmas.Codec
/-!
# Truncated payloads (generic part of C11)

Everything is read off the per-offset form of the cursor loop (`seqDecode_eq_off`).
-/
namespace Model
open Py

/-- does table `tbl` have a row for every raw value a slice of at most `w` bits can hold? -/
def tableCovers (tbl : List (Int × Val)) (w : Nat) (signed : Bool) : Bool :=
  if signed then
    (List.range (2 ^ w)).all fun i => (tbl.lookup ((i : Int) - 2 ^ (w - 1))).isSome
  else
    (List.range (2 ^ w)).all fun i => (tbl.lookup (i : Int)).isSome

/-- Decidable sufficient condition for "decoding this field never fails, whatever the bits":
the converters are total on the raw domain of the field. -/
def convTotal (env : Env) (f : Field) : Bool :=
  let numeric := f.dtype = .int ∨ f.dtype = .bool ∨ f.dtype = .float
  let tblOk (n : String) : Bool :=
    f.width ≤ 12 && numeric && f.dtype != .bool &&
    match env.convTables.lookup n with
    | some tbl => tableCovers tbl f.width f.signed
    | none => false
  match f.toConv, f.attrConv with
  | .none, .none => true
  | .divK k, .none => decide (0 < k ∧ 1000000 % k = 0) && numeric
  | .divRound k p, .none => decide (0 < k ∧ p ≤ 6) && numeric
  | .table n, .none => tblOk n
  | .none, .table n => tblOk n
  | _, _ => false

/-- a field whose converters are total decodes every slice of at most its width -/
theorem decodeField_total (env : Env) (f : Field) (h : convTotal env f = true) (bits : Bits)
    (hlen : bits.length ≤ f.width) : ∃ v, decodeField env f bits = .ok v := by
  sorry

/-- **C11 (totality).** A table whose converters are total never fails, for every bit string of
every length (including the empty one) and every cursor. -/
theorem seqDecode_total (env : Env) (fs : List Field) (h : fs.all (convTotal env) = true)
    (bits : Bits) (cur : Nat) : ∃ kv, seqDecode env bits cur fs = .ok kv := by
  sorry

/-- the result list of a successful decode has one entry per field, in table order -/
theorem seqDecode_names (env : Env) (fs : List Field) (bits : Bits) (cur : Nat)
    (kv : List (String × Val)) (h : seqDecode env bits cur fs = .ok kv) :
    kv.map (·.1) = fs.map (·.name) := by
  sorry

/-- **C11 (covered fields).** If the first `L` bits and the whole payload both decode, every field
that lies completely inside the first `L` bits has the same value in both results. -/
theorem seqDecode_covered (env : Env) (fs : List Field) (bits : Bits) (L : Nat) (hL : L ≤ bits.length)
    (kvFull kvPre : List (String × Val))
    (hfull : seqDecode env bits 0 fs = .ok kvFull)
    (hpre : seqDecode env (bits.take L) 0 fs = .ok kvPre)
    (i : Nat) (f : Field) (o : Nat) (hi : (offsetsFrom 0 fs)[i]? = some (f, o))
    (hw : 0 < f.width) (hcov : o + f.width ≤ L) :
    kvPre[i]? = kvFull[i]? := by
  sorry

/-- **C11 (absent fields).** Every field that starts at or beyond the end of the received bits is
`None`. -/
theorem seqDecode_absent (env : Env) (fs : List Field) (bits : Bits)
    (kv : List (String × Val)) (h : seqDecode env bits 0 fs = .ok kv)
    (i : Nat) (f : Field) (o : Nat) (hi : (offsetsFrom 0 fs)[i]? = some (f, o))
    (habs : bits.length ≤ o) :
    kv[i]? = some (f.name, .none) := by
  sorry

/-- `get_int` on a range that lies inside the payload does not see what follows it -/
theorem getInt_take (bits : Bits) (L lo hi : Nat) (hhi : hi ≤ L) :
    getInt (bits.take L) lo hi = getInt bits lo hi := by
  sorry

/-- **C11 (variant).** The variant chosen for a prefix that contains all discriminator bits read by
the dispatch tree is the variant chosen for the whole payload. -/
def Tree.maxBit : Tree → Nat
  | .leaf _ => 0
  | .raise _ => 0
  | .ite t a b =>
    let m := match t with
      | .bits _ hi => hi
      | .bitsEq _ hi _ => hi
      | _ => 0
    max m (max a.maxBit b.maxBit)

theorem treeRun_take (tr : Tree) (bits : Bits) (L : Nat) (h : tr.maxBit ≤ L) :
    tr.run (fun t => .ok (t.evalBits (bits.take L))) = tr.run (fun t => .ok (t.evalBits bits)) := by
  sorry

end Model
