import PyaisVerif.Lemmas.FieldRT
import PyaisVerif.Lemmas.MsgRTAux
import PyaisVerif.Lemmas.Codec
import PyaisVerif.Lemmas.Truncation
/-!
# Whole messages: decode, encode, decode again (message part of C08)
-/
namespace Model
open Py Spec

def widthSum (fs : List Field) : Nat := (fs.map (·.width)).sum

/-- is the field "aligned": fixed width and, for text, a whole number of characters -/
def alignedField (E : EnumInfo) (f : Field) : Bool :=
  !f.varlen && !(kindOf E f == some .t && f.width % 6 != 0)

/-- decidable conditions on a field table under which the re-encoding theorem applies: distinct
names, recognised kinds in both directions, positive widths, one-bit booleans, only the last field
may be unaligned (variable length, or text of a ragged width), a variable-length last field is text
or binary data without encode-side converter, binary of a whole number of octets, a fixed-width text
last field holds at least one whole character (otherwise it is re-encoded as zero bits and comes
back as `None`: `msg_reencode` is false for the one-field table `x : text, 3 bits` and the payload
`000`) -/
def TableRT (E : EnumInfo) (fromRot : List String) (fs : List Field) : Bool :=
  decide ((fs.map (·.name)).Nodup) &&
  (fs.all fun f => (match kindOf E f with
      | some k => fromConvOK E fromRot f k
      | none => false) && decide (0 < f.width) && (f.dtype != .bool || f.width == 1)) &&
  (fs.dropLast.all (alignedField E)) &&
  (match fs.getLast? with
   | some f => (!f.varlen || ((kindOf E f == some .t || (kindOf E f == some .d && f.width % 8 == 0)) &&
                              f.fromConv == .none)) &&
               (f.varlen || kindOf E f != some .t || decide (6 ≤ f.width))
   | none => true)

/-- the payload length ends on a field boundary of the table, or inside its variable-length last
field -/
def OnBoundary (fs : List Field) (L : Nat) : Prop :=
  (∃ j, j ≤ fs.length ∧ L = widthSum (fs.take j)) ∨
  (∃ f, fs.getLast? = some f ∧ f.varlen = true ∧ widthSum fs.dropLast < L ∧ L ≤ widthSum fs)

/-- sub-character padding bits of (partially or completely present) text fields are zero -/
def PadZero (E : EnumInfo) (fs : List Field) (bits : Bits) : Prop :=
  ∀ p ∈ offsetsFrom 0 fs, kindOf E p.1 = some .t →
    ∀ b ∈ (fieldSlice bits p.2 p.1.width).drop ((fieldSlice bits p.2 p.1.width).length / 6 * 6), b = false

/-- no present field was normalised by decoding -/
def AllExact (env : Env) (E : EnumInfo) (fromRot : List String) (fs : List Field) (bits : Bits) : Prop :=
  ∀ p ∈ offsetsFrom 0 fs, p.2 < bits.length → ∀ k, kindOf E p.1 = some k →
    ExactField env E fromRot p.1 k (fieldSlice bits p.2 p.1.width)

/-- the exceptional case of the idempotence statement: the variable-length text tail (types 12, 14)
is present and decodes to the empty string -/
def EmptyTextTail (E : EnumInfo) (fs : List Field) (bits : Bits) : Prop :=
  ∃ f, fs.getLast? = some f ∧ f.varlen = true ∧ kindOf E f = some .t ∧ widthSum fs.dropLast < bits.length ∧
    decodeAscii6 (bits.drop (widthSum fs.dropLast)) = []

/-- the exceptional cases of the bit-exactness statement: a present text field of ragged width
(type 21 `name_ext`: its four padding bits are not re-encoded), or a variable-length tail that is
not a whole number of characters / octets -/
def RaggedTail (E : EnumInfo) (fs : List Field) (bits : Bits) : Prop :=
  ∃ f, fs.getLast? = some f ∧ widthSum fs.dropLast < bits.length ∧
    ((f.varlen = false ∧ kindOf E f = some .t ∧ f.width % 6 ≠ 0) ∨
     (f.varlen = true ∧ kindOf E f = some .d ∧ (bits.length - widthSum fs.dropLast) % 8 ≠ 0) ∨
     (f.varlen = true ∧ kindOf E f = some .t ∧
        6 * (decodeAscii6 (bits.drop (widthSum fs.dropLast))).length ≠ bits.length - widthSum fs.dropLast))

/-! ## the table conditions as propositions -/

/-- what `TableRT` says, field by field (without the distinct names) -/
structure FieldsOK (E : EnumInfo) (fromRot : List String) (fs : List Field) : Prop where
  field : ∀ f ∈ fs, ∃ k, kindOf E f = some k ∧ fromConvOK E fromRot f k = true ∧ 0 < f.width ∧
    (f.dtype = .bool → f.width = 1)
  aligned : ∀ f ∈ fs.dropLast, f.varlen = false ∧ (kindOf E f = some .t → f.width % 6 = 0)
  last : ∀ f, fs.getLast? = some f →
    (f.varlen = true → (kindOf E f = some .t ∨ (kindOf E f = some .d ∧ f.width % 8 = 0)) ∧
      f.fromConv = .none) ∧
    (f.varlen = false → kindOf E f = some .t → 6 ≤ f.width)

theorem tableRT_spec (E : EnumInfo) (fromRot : List String) (fs : List Field)
    (ht : TableRT E fromRot fs = true) :
    (fs.map (·.name)).Nodup ∧ FieldsOK E fromRot fs := by
  unfold TableRT at ht
  simp only [Bool.and_eq_true, decide_eq_true_eq, List.all_eq_true] at ht
  obtain ⟨⟨⟨hnd, hf⟩, hal⟩, hlast⟩ := ht
  refine ⟨hnd, ⟨?_, ?_, ?_⟩⟩
  · intro f hfm
    obtain ⟨⟨h1, h2⟩, h3⟩ := hf f hfm
    cases hk : kindOf E f with
    | none => rw [hk] at h1; simp at h1
    | some k =>
      rw [hk] at h1
      refine ⟨k, rfl, h1, h2, ?_⟩
      intro hd
      simpa [hd] using h3
  · intro f hfm
    have h := hal f hfm
    unfold alignedField at h
    simp only [Bool.and_eq_true, Bool.not_eq_true', Bool.and_eq_false_iff] at h
    refine ⟨by simpa using h.1, ?_⟩
    intro hk
    rcases h.2 with h2 | h2
    · simp [hk] at h2
    · simpa using h2
  · intro f hfl
    rw [hfl] at hlast
    simp only [Bool.and_eq_true, Bool.or_eq_true, Bool.not_eq_true', beq_iff_eq, bne_iff_ne, ne_eq,
      decide_eq_true_eq] at hlast
    obtain ⟨h1, h2⟩ := hlast
    refine ⟨?_, ?_⟩
    · intro hv
      rcases h1 with h1 | h1
      · rw [hv] at h1; cases h1
      · exact h1
    · intro hv hk
      rcases h2 with (h2 | h2) | h2
      · rw [hv] at h2; cases h2
      · exact absurd hk h2
      · exact h2

theorem FieldsOK.tail {E : EnumInfo} {fromRot : List String} {f g : Field} {fs : List Field}
    (h : FieldsOK E fromRot (f :: g :: fs)) : FieldsOK E fromRot (g :: fs) := by
  refine ⟨?_, ?_, ?_⟩
  · intro x hx
    exact h.field x (List.mem_cons_of_mem _ hx)
  · intro x hx
    apply h.aligned x
    rw [List.dropLast_cons_cons]
    exact List.mem_cons_of_mem _ hx
  · intro x hx
    apply h.last x
    rw [List.getLast?_cons_cons]
    exact hx

/-! ## the hypotheses along the table -/

theorem widthSum_nil : widthSum [] = 0 := rfl

theorem widthSum_cons (f : Field) (fs : List Field) : widthSum (f :: fs) = f.width + widthSum fs := by
  simp [widthSum]

theorem offsetsFrom_shift (c o : Nat) (fs : List Field) :
    offsetsFrom (c + o) fs = (offsetsFrom o fs).map (fun p => (p.1, c + p.2)) := by
  induction fs generalizing o with
  | nil => rfl
  | cons f fs ih =>
    simp only [offsetsFrom, List.map_cons]
    rw [Nat.add_assoc, ih]

theorem mem_offsets_head (f : Field) (fs : List Field) : (f, 0) ∈ offsetsFrom 0 (f :: fs) := by
  simp [offsetsFrom]

theorem mem_offsets_cons (f : Field) (fs : List Field) (p : Field × Nat)
    (hp : p ∈ offsetsFrom 0 fs) : (p.1, f.width + p.2) ∈ offsetsFrom 0 (f :: fs) := by
  have h := offsetsFrom_shift f.width 0 fs
  rw [Nat.add_zero] at h
  simp only [offsetsFrom, Nat.zero_add, h]
  exact List.mem_cons_of_mem _ (List.mem_map_of_mem hp)

theorem PadZero.head {E : EnumInfo} {f : Field} {fs : List Field} {bits : Bits}
    (h : PadZero E (f :: fs) bits) (hk : kindOf E f = some .t) :
    ∀ b ∈ (bits.take f.width).drop ((bits.take f.width).length / 6 * 6), b = false := by
  have := h (f, 0) (mem_offsets_head f fs) hk
  rw [fieldSlice_zero] at this
  exact this

theorem PadZero.tail {E : EnumInfo} {f : Field} {fs : List Field} {bits : Bits}
    (h : PadZero E (f :: fs) bits) : PadZero E fs (bits.drop f.width) := by
  intro p hp hk b hb
  rw [fieldSlice_drop] at hb
  exact h (p.1, f.width + p.2) (mem_offsets_cons f fs p hp) hk b hb

theorem AllExact.head {env : Env} {E : EnumInfo} {fromRot : List String} {f : Field}
    {fs : List Field} {bits : Bits} (h : AllExact env E fromRot (f :: fs) bits) (hne : bits ≠ [])
    (k : Kind) (hk : kindOf E f = some k) : ExactField env E fromRot f k (bits.take f.width) := by
  have hpos : 0 < bits.length := List.length_pos_iff.mpr hne
  have := h (f, 0) (mem_offsets_head f fs) hpos k hk
  rw [fieldSlice_zero] at this
  exact this

theorem AllExact.tail {env : Env} {E : EnumInfo} {fromRot : List String} {f : Field}
    {fs : List Field} {bits : Bits} (h : AllExact env E fromRot (f :: fs) bits) :
    AllExact env E fromRot fs (bits.drop f.width) := by
  intro p hp hlt k hk
  rw [fieldSlice_drop]
  rw [List.length_drop] at hlt
  exact h (p.1, f.width + p.2) (mem_offsets_cons f fs p hp) (by simp only; omega) k hk

theorem OnBoundary.nil_table {L : Nat} (h : OnBoundary [] L) : L = 0 := by
  rcases h with ⟨j, _, rfl⟩ | ⟨f, hf, _⟩
  · simp [widthSum]
  · simp at hf

theorem OnBoundary.single {f : Field} {L : Nat} (h : OnBoundary [f] L) (hL : 0 < L) :
    L ≤ f.width ∧ (f.varlen = false → L = f.width) := by
  rcases h with ⟨j, hj, rfl⟩ | ⟨g, hg, hv, _, h2⟩
  · cases j with
    | zero => simp [widthSum] at hL
    | succ j => simp [widthSum]
  · simp only [List.getLast?_singleton, Option.some.injEq] at hg
    subst hg
    rw [widthSum_cons, widthSum_nil] at h2
    refine ⟨by omega, ?_⟩
    intro hv'
    rw [hv] at hv'; cases hv'

theorem OnBoundary.cons₂ {f g : Field} {fs : List Field} {L : Nat}
    (h : OnBoundary (f :: g :: fs) L) (hL : 0 < L) :
    f.width ≤ L ∧ OnBoundary (g :: fs) (L - f.width) := by
  rcases h with ⟨j, hj, rfl⟩ | ⟨l, hl, hv, h1, h2⟩
  · cases j with
    | zero => simp [widthSum] at hL
    | succ j =>
      rw [List.take_succ_cons, widthSum_cons]
      refine ⟨by omega, Or.inl ⟨j, ?_, by omega⟩⟩
      simp only [List.length_cons] at hj ⊢
      omega
  · rw [List.getLast?_cons_cons] at hl
    rw [List.dropLast_cons_cons, widthSum_cons] at h1
    rw [widthSum_cons] at h2
    exact ⟨by omega, Or.inr ⟨l, hl, hv, by omega, by omega⟩⟩

theorem EmptyTextTail.cons {E : EnumInfo} {f g : Field} {fs : List Field} {bits : Bits}
    (h : EmptyTextTail E (g :: fs) (bits.drop f.width)) : EmptyTextTail E (f :: g :: fs) bits := by
  obtain ⟨l, hl, hv, hk, hlt, hd⟩ := h
  refine ⟨l, by rw [List.getLast?_cons_cons]; exact hl, hv, hk, ?_, ?_⟩
  · rw [List.length_drop] at hlt
    rw [List.dropLast_cons_cons, widthSum_cons]
    omega
  · rw [List.drop_drop] at hd
    rw [List.dropLast_cons_cons, widthSum_cons]
    exact hd

theorem RaggedTail.cons {E : EnumInfo} {f g : Field} {fs : List Field} {bits : Bits}
    (h : RaggedTail E (g :: fs) (bits.drop f.width)) : RaggedTail E (f :: g :: fs) bits := by
  obtain ⟨l, hl, hlt, hc⟩ := h
  rw [List.length_drop] at hlt
  refine ⟨l, by rw [List.getLast?_cons_cons]; exact hl, ?_, ?_⟩
  · rw [List.dropLast_cons_cons, widthSum_cons]
    omega
  · rw [List.dropLast_cons_cons, widthSum_cons]
    rw [List.length_drop, List.drop_drop] at hc
    have e : bits.length - f.width - widthSum (g :: fs).dropLast
        = bits.length - (f.width + widthSum (g :: fs).dropLast) := by omega
    rw [e] at hc
    exact hc

/-! ## rows: field, decoded value, re-encoded bits -/

/-- the statement of the theorem in terms of rows (field, decoded value, re-encoded bits) -/
def Rows (env : Env) (E : EnumInfo) (fromRot : List String) (fs : List Field) (bits : Bits)
    (l : List (Field × Val × Bits)) : Prop :=
  l.map (·.1) = fs ∧
  seqDecode env bits 0 fs = .ok (l.map fun p => (p.1.name, p.2.1)) ∧
  (∀ p ∈ l, (p.2.1 = .none ∧ p.2.2 = []) ∨
    (p.2.1 ≠ .none ∧ encodeField env p.1 p.2.1 = .ok p.2.2)) ∧
  (¬ EmptyTextTail E fs bits →
    seqDecode env (l.map (·.2.2)).flatten 0 fs = .ok (l.map fun p => (p.1.name, p.2.1))) ∧
  (AllExact env E fromRot fs bits → ¬ RaggedTail E fs bits → (l.map (·.2.2)).flatten = bits)

/-- nothing received: every field is absent, nothing is re-encoded -/
theorem rows_nil_bits (env : Env) (E : EnumInfo) (fromRot : List String) (fs : List Field) :
    Rows env E fromRot fs [] (fs.map fun f => (f, Val.none, [])) := by
  have e1 : (fs.map fun f => (f, Val.none, ([] : Bits))).map (·.1) = fs := by
    simp [List.map_map, Function.comp_def]
  have e2 : ((fs.map fun f => (f, Val.none, ([] : Bits))).map fun p => (p.1.name, p.2.1))
      = fs.map (fun f => (f.name, Val.none)) := by
    simp [List.map_map, Function.comp_def]
  have e3 : ((fs.map fun f => (f, Val.none, ([] : Bits))).map (·.2.2)).flatten = [] := by
    rw [List.map_map]
    exact flatten_map_nil fs
  refine ⟨e1, ?_, ?_, ?_, ?_⟩
  · rw [e2]; exact seqDecode_nil_bits env fs
  · intro p hp
    obtain ⟨f, _, rfl⟩ := List.mem_map.mp hp
    exact .inl ⟨rfl, rfl⟩
  · intro _
    rw [e2, e3]; exact seqDecode_nil_bits env fs
  · intro _ _
    exact e3

/-- the decoded value of a text / binary field -/
theorem decodeField_td (env : Env) (E : EnumInfo) (f : Field) (k : Kind) (hk : kindOf E f = some k)
    (hkind : k = .t ∨ k = .d) (bits : Bits) :
    (k = .t → decodeField env f bits = .ok (.str (decodeAscii6 bits))) ∧
    (k = .d → decodeField env f bits = .ok (.bytes (toBytes bits))) := by
  obtain ⟨hs, ht, ha, hdt, hdd⟩ := kindOf_td E f k hk hkind
  refine ⟨?_, ?_⟩
  · intro h
    rw [decodeField_plain _ _ _ ht ha, decodeRaw_unsigned _ _ hs, hdt h]
  · intro h
    rw [decodeField_plain _ _ _ ht ha, decodeRaw_unsigned _ _ hs, hdd h]

/-- a table of one fixed-width field, completely present -/
theorem rows_last_fixed (env : Env) (E : EnumInfo) (fromRot : List String)
    (htab : TablesOk env E = true) (hrot : RotTablesOk env E fromRot = true)
    (henum : EnumRTOk env E = true) (f : Field) (hok : FieldsOK E fromRot [f])
    (hvar : f.varlen = false) (bits : Bits) (hlen : bits.length = f.width)
    (hpad : PadZero E [f] bits) : ∃ l, Rows env E fromRot [f] bits l := by
  obtain ⟨k, hk, hfk, hw, hb1⟩ := hok.field f (by simp)
  have hne : bits ≠ [] := by intro h; rw [h] at hlen; simp at hlen; omega
  have htake : bits.take f.width = bits := by rw [← hlen, List.take_length]
  have hpad' : k = .t → ∀ b ∈ bits.drop (bits.length / 6 * 6), b = false := by
    intro hkt
    have := hpad.head (hkt ▸ hk)
    rw [htake] at this
    exact this
  obtain ⟨v, b', hdec, hvn, henc, hbl, hdt, hdnt, hex⟩ :=
    field_reencode env E fromRot htab hrot henum f k hk hfk hb1 hvar bits hlen hw hpad'
  have h6 : k = .t → 6 ≤ f.width := fun hkt => (hok.last f rfl).2 hvar (hkt ▸ hk)
  have hble : b'.length ≤ f.width := by
    rw [hbl]; split <;> omega
  have hbpos : 0 < b'.length := by
    rw [hbl]; split
    · rename_i hkt; have := h6 hkt; omega
    · exact hw
  have hbne : b' ≠ [] := List.length_pos_iff.mp hbpos
  have hdec2 : decodeField env f b' = .ok v := by
    by_cases hkt : k = .t
    · have := hdt 0 hkt
      simpa [zeros] using this
    · exact hdnt hkt
  refine ⟨[(f, v, b')], rfl, ?_, ?_, ?_, ?_⟩
  · exact seqDecode_cons_zero env bits f [] v [] hne (by rw [htake]; exact hdec) rfl
  · intro p hp
    simp only [List.mem_singleton] at hp
    subst hp
    exact .inr ⟨hvn, henc⟩
  · intro _
    simp only [List.map_cons, List.map_nil, List.flatten_cons, List.flatten_nil, List.append_nil]
    exact seqDecode_cons_zero env b' f [] v [] hbne
      (by rw [List.take_of_length_le hble]; exact hdec2) rfl
  · intro hae hnr
    simp only [List.map_cons, List.map_nil, List.flatten_cons, List.flatten_nil, List.append_nil]
    have hex' := hex (by have := hae.head hne k hk; rwa [htake] at this)
    have hfull : b'.length = f.width := by
      rw [hbl]; split
      · rename_i hkt
        have h60 : f.width % 6 = 0 := by
          apply Classical.byContradiction
          intro h6n
          exact hnr ⟨f, rfl, by simp [widthSum]; omega, .inl ⟨hvar, hkt ▸ hk, h6n⟩⟩
        omega
      · rfl
    rw [hex', hfull, ← hlen, List.take_length]

/-- a table of one variable-length field (text, or binary data), partially or completely present -/
theorem rows_last_varlen (env : Env) (E : EnumInfo) (fromRot : List String)
    (f : Field) (hok : FieldsOK E fromRot [f])
    (hvar : f.varlen = true) (bits : Bits) (hpos : 0 < bits.length) (hle : bits.length ≤ f.width)
    (hpad : PadZero E [f] bits) : ∃ l, Rows env E fromRot [f] bits l := by
  obtain ⟨k, hk, hfk, hw, hb1⟩ := hok.field f (by simp)
  obtain ⟨hkd, hfc⟩ := (hok.last f rfl).1 hvar
  have hkind : k = .t ∨ k = .d := by
    rcases hkd with h | h
    · rw [hk] at h; left; exact Option.some.inj h
    · rw [hk] at h; right; exact Option.some.inj h.1
  have hw8 : k = .d → f.width % 8 = 0 := by
    intro hkd'
    rcases hkd with h | h
    · rw [hk, hkd'] at h; cases h
    · exact h.2
  have hne : bits ≠ [] := List.length_pos_iff.mp hpos
  have htake : bits.take f.width = bits := List.take_of_length_le hle
  have hpad' : k = .t → ∀ b ∈ bits.drop (bits.length / 6 * 6), b = false := by
    intro hkt
    have := hpad.head (hkt ▸ hk)
    rw [htake] at this
    exact this
  obtain ⟨v, b', hdec, hvn, henc, hble, hne', hemp, hd8⟩ :=
    varlen_reencode env E f k hk hkind hfc hvar hw8 bits ⟨hpos, hle⟩ hpad'
  obtain ⟨hvt, hvd⟩ := decodeField_td env E f k hk hkind bits
  have hws : widthSum ([f] : List Field).dropLast = 0 := rfl
  refine ⟨[(f, v, b')], rfl, ?_, ?_, ?_, ?_⟩
  · exact seqDecode_cons_zero env bits f [] v [] hne (by rw [htake]; exact hdec) rfl
  · intro p hp
    simp only [List.mem_singleton] at hp
    subst hp
    exact .inr ⟨hvn, henc⟩
  · intro hett
    simp only [List.map_cons, List.map_nil, List.flatten_cons, List.flatten_nil, List.append_nil]
    have hvs : v ≠ .str [] := by
      intro hv
      rcases hkind with hkt | hkd'
      · have h1 := hvt hkt
        rw [hdec, hv] at h1
        have h2 : decodeAscii6 bits = [] := by
          injection h1 with h1; injection h1 with h1; exact h1.symm
        exact hett ⟨f, rfl, hvar, hkt ▸ hk, by rw [hws]; exact hpos, by rw [hws, List.drop_zero]; exact h2⟩
      · have h1 := hvd hkd'
        rw [hdec, hv] at h1
        injection h1 with h1
        cases h1
    obtain ⟨hbne, hdec2⟩ := hne' hvs
    exact seqDecode_cons_zero env b' f [] v [] hbne
      (by rw [List.take_of_length_le hble]; exact hdec2) rfl
  · intro hae hnr
    simp only [List.map_cons, List.map_nil, List.flatten_cons, List.flatten_nil, List.append_nil]
    rcases hkind with hkt | hkd'
    · -- text: a whole number of canonical characters
      have h6 : 6 * (decodeAscii6 bits).length = bits.length := by
        apply Classical.byContradiction
        intro h6n
        refine hnr ⟨f, rfl, by rw [hws]; exact hpos, .inr (.inr ⟨hvar, hkt ▸ hk, ?_⟩)⟩
        rw [hws, List.drop_zero, Nat.sub_zero]
        exact h6n
      have hcw : CanonWire bits := by
        have := hae.head hne k hk
        rw [htake] at this
        subst hkt
        exact this
      obtain ⟨b0, hb0, hb0e⟩ := hcw
      subst hb0e
      rw [← strToBin_exact _ _ f.width h6 hle] at hb0
      obtain ⟨_, _, _, hdt, _⟩ := kindOf_td E f k hk (.inl hkt)
      have hcore : encodeCore f (.str (decodeAscii6 b0)) = .ok b0 := by
        simp only [encodeCore, hdt hkt, hvar, Bool.not_true]
        exact hb0
      have hconv : applyConv env f.fromConv (.str (decodeAscii6 b0)) = .ok (.str (decodeAscii6 b0)) := by
        rw [hfc]; rfl
      have henc2 := encodeField_of env f _ _ _ hconv hcore
      have h1 := hvt hkt
      rw [hdec] at h1
      injection h1 with h1
      rw [h1, henc2, htake] at henc
      injection henc with henc
      exact henc.symm
    · have h8 : bits.length % 8 = 0 := by
        apply Classical.byContradiction
        intro h8n
        refine hnr ⟨f, rfl, by rw [hws]; exact hpos, .inr (.inl ⟨hvar, hkd' ▸ hk, ?_⟩)⟩
        rw [hws, Nat.sub_zero]
        exact h8n
      exact hd8 hkd' h8

/-- one aligned field in front of a non-empty table -/
theorem rows_cons (env : Env) (E : EnumInfo) (fromRot : List String)
    (htab : TablesOk env E = true) (hrot : RotTablesOk env E fromRot = true)
    (henum : EnumRTOk env E = true) (f g : Field) (fs : List Field)
    (hok : FieldsOK E fromRot (f :: g :: fs)) (bits : Bits) (hne : bits ≠ [])
    (hle : f.width ≤ bits.length) (hpad : PadZero E (f :: g :: fs) bits)
    (l : List (Field × Val × Bits)) (hl : Rows env E fromRot (g :: fs) (bits.drop f.width) l) :
    ∃ l', Rows env E fromRot (f :: g :: fs) bits l' := by
  obtain ⟨k, hk, hfk, hw, hb1⟩ := hok.field f (by simp)
  obtain ⟨hvar, hal⟩ := hok.aligned f (by rw [List.dropLast_cons_cons]; simp)
  have hlen : (bits.take f.width).length = f.width := by
    rw [List.length_take]; omega
  obtain ⟨v, b', hdec, hvn, henc, hbl, hdt, hdnt, hex⟩ :=
    field_reencode env E fromRot htab hrot henum f k hk hfk hb1 hvar (bits.take f.width) hlen hw
      (fun hkt => hpad.head (hkt ▸ hk))
  have hbl' : b'.length = f.width := by
    rw [hbl]; split
    · rename_i hkt
      have := hal (hkt ▸ hk)
      omega
    · rfl
  have hdec2 : decodeField env f b' = .ok v := by
    by_cases hkt : k = .t
    · have := hdt 0 hkt
      simpa [zeros] using this
    · exact hdnt hkt
  obtain ⟨h1, h2, h3, h4, h5⟩ := hl
  refine ⟨(f, v, b') :: l, ?_, ?_, ?_, ?_, ?_⟩
  · simp [h1]
  · exact seqDecode_cons_zero env bits f (g :: fs) v _ hne hdec h2
  · intro p hp
    rcases List.mem_cons.mp hp with rfl | hp
    · exact .inr ⟨hvn, henc⟩
    · exact h3 p hp
  · intro hett
    have h4' := h4 (fun h => hett h.cons)
    simp only [List.map_cons, List.flatten_cons]
    refine seqDecode_cons_zero env _ f (g :: fs) v _ ?_ ?_ ?_
    · intro h
      have := congrArg List.length h
      rw [List.length_append, hbl'] at this
      simp at this; omega
    · rw [List.take_left' hbl']; exact hdec2
    · rw [List.drop_left' hbl']; exact h4'
  · intro hae hnr
    have h5' := h5 hae.tail (fun h => hnr h.cons)
    have hb'eq : b' = bits.take f.width := by
      have := hex (hae.head hne k hk)
      rw [hbl', List.take_take, Nat.min_self] at this
      exact this
    simp only [List.map_cons, List.flatten_cons]
    rw [h5', hb'eq, List.take_append_drop]

/-- every payload on a boundary of a good table has rows -/
theorem rows_exist (env : Env) (E : EnumInfo) (fromRot : List String)
    (htab : TablesOk env E = true) (hrot : RotTablesOk env E fromRot = true)
    (henum : EnumRTOk env E = true) (fs : List Field) (hok : FieldsOK E fromRot fs)
    (bits : Bits) (hb : OnBoundary fs bits.length) (hpad : PadZero E fs bits) :
    ∃ l, Rows env E fromRot fs bits l := by
  induction fs generalizing bits with
  | nil =>
    have h0 : bits = [] := List.eq_nil_of_length_eq_zero hb.nil_table
    subst h0
    exact ⟨_, rows_nil_bits env E fromRot []⟩
  | cons f fs ih =>
    by_cases hne : bits = []
    · subst hne
      exact ⟨_, rows_nil_bits env E fromRot (f :: fs)⟩
    · have hpos : 0 < bits.length := List.length_pos_iff.mpr hne
      cases fs with
      | nil =>
        obtain ⟨hle, hfix⟩ := hb.single hpos
        cases hv : f.varlen with
        | false => exact rows_last_fixed env E fromRot htab hrot henum f hok hv bits (hfix hv) hpad
        | true => exact rows_last_varlen env E fromRot f hok hv bits hpos hle hpad
      | cons g fs =>
        obtain ⟨hle, hb'⟩ := hb.cons₂ hpos
        obtain ⟨l, hl⟩ := ih hok.tail (bits.drop f.width)
          (by rw [List.length_drop]; exact hb') hpad.tail
        exact rows_cons env E fromRot htab hrot henum f g fs hok bits hne hle hpad l hl

/-- `msg.to_bitarray()` only reads the fields by name -/
theorem toBitarray_cls (env : Env) (fs : List Field) (c c' : String) (kv : List (String × Val)) :
    toBitarray env fs { cls := c, fields := kv } = toBitarray env fs { cls := c', fields := kv } := by
  rfl

/-- **C08, table-generic.** For every payload whose length ends on a field boundary (or inside the
variable-length tail), padding bits zero: it decodes; the decoded message re-encodes; decoding the
re-encoded payload yields the identical message (unless the variable-length text tail decoded to the
empty string); and the re-encoded payload is bit for bit the received one when no field was
normalised (and no ragged tail is involved). -/
theorem msg_reencode (env : Env) (E : EnumInfo) (fromRot : List String)
    (htab : TablesOk env E = true) (hrot : RotTablesOk env E fromRot = true)
    (henum : EnumRTOk env E = true)
    (cls : String) (fs : List Field) (ht : TableRT E fromRot fs = true)
    (bits : Bits) (hb : OnBoundary fs bits.length) (hpad : PadZero E fs bits) :
    ∃ kv bits', seqDecode env bits 0 fs = .ok kv ∧
      toBitarray env fs { cls := cls, fields := kv } = .ok bits' ∧
      (¬ EmptyTextTail E fs bits → seqDecode env bits' 0 fs = .ok kv) ∧
      (AllExact env E fromRot fs bits → ¬ RaggedTail E fs bits → bits' = bits) := by
  obtain ⟨hnd, hok⟩ := tableRT_spec E fromRot fs ht
  obtain ⟨l, h1, h2, h3, h4, h5⟩ := rows_exist env E fromRot htab hrot henum fs hok bits hb hpad
  refine ⟨l.map (fun p => (p.1.name, p.2.1)), (l.map (·.2.2)).flatten, h2, ?_, h4, h5⟩
  rw [toBitarray_eq_fold]
  have hnd' : (l.map (fun p : Field × Val × Bits => p.1.name)).Nodup := by
    have : l.map (fun p : Field × Val × Bits => p.1.name) = fs.map (·.name) := by
      rw [← h1, List.map_map]; rfl
    rw [this]; exact hnd
  have hfold := foldlM_enc env { cls := cls, fields := l.map (fun p => (p.1.name, p.2.1)) } l ?_ []
  · rw [h1] at hfold
    rw [hfold, List.nil_append]
  · intro p hp
    refine ⟨?_, h3 p hp⟩
    unfold Msg.get
    simp only
    rw [lookup_map_nodup (fun p : Field × Val × Bits => p.1.name) (fun p => p.2.1) l hnd' p hp]

end Model
