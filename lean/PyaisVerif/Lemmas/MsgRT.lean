import PyaisVerif.Lemmas.FieldRT
import PyaisVerif.Lemmas.Codec
import PyaisVerif.Lemmas.Truncation
/-!
# Whole messages: decode, encode, decode again (message part of C08)
-/
namespace Model
open Py Spec

def widthSum (fs : List Field) : Nat := (fs.map (·.width)).sum

/-- is the field "aligned": fixed width and, for text, a whole number of characters -/
def alignedField (E : EnumInfo) (f : Field) : Bool :=
  !f.varlen && !(kindOf E f == some .t && f.width % 6 != 0)

/-- decidable conditions on a field table under which the re-encoding theorem applies: distinct
names, recognised kinds in both directions, positive widths, one-bit booleans, only the last field
may be unaligned (variable length, or text of a ragged width), a variable-length last field is text
or binary data without encode-side converter, binary of a whole number of octets -/
def TableRT (E : EnumInfo) (fromRot : List String) (fs : List Field) : Bool :=
  decide ((fs.map (·.name)).Nodup) &&
  (fs.all fun f => (match kindOf E f with
      | some k => fromConvOK E fromRot f k
      | none => false) && decide (0 < f.width) && (f.dtype != .bool || f.width == 1)) &&
  (fs.dropLast.all (alignedField E)) &&
  (match fs.getLast? with
   | some f => !f.varlen || ((kindOf E f == some .t || (kindOf E f == some .d && f.width % 8 == 0)) &&
                              f.fromConv == .none)
   | none => true)

/-- the payload length ends on a field boundary of the table, or inside its variable-length last
field -/
def OnBoundary (fs : List Field) (L : Nat) : Prop :=
  (∃ j, j ≤ fs.length ∧ L = widthSum (fs.take j)) ∨
  (∃ f, fs.getLast? = some f ∧ f.varlen = true ∧ widthSum fs.dropLast < L ∧ L ≤ widthSum fs)

/-- sub-character padding bits of (partially or completely present) text fields are zero -/
def PadZero (E : EnumInfo) (fs : List Field) (bits : Bits) : Prop :=
  ∀ p ∈ offsetsFrom 0 fs, kindOf E p.1 = some .t →
    ∀ b ∈ (fieldSlice bits p.2 p.1.width).drop ((fieldSlice bits p.2 p.1.width).length / 6 * 6), b = false

/-- no present field was normalised by decoding -/
def AllExact (env : Env) (E : EnumInfo) (fromRot : List String) (fs : List Field) (bits : Bits) : Prop :=
  ∀ p ∈ offsetsFrom 0 fs, p.2 < bits.length → ∀ k, kindOf E p.1 = some k →
    ExactField env E fromRot p.1 k (fieldSlice bits p.2 p.1.width)

/-- the exceptional case of the idempotence statement: the variable-length text tail (types 12, 14)
is present and decodes to the empty string -/
def EmptyTextTail (E : EnumInfo) (fs : List Field) (bits : Bits) : Prop :=
  ∃ f, fs.getLast? = some f ∧ f.varlen = true ∧ kindOf E f = some .t ∧ widthSum fs.dropLast < bits.length ∧
    decodeAscii6 (bits.drop (widthSum fs.dropLast)) = []

/-- the exceptional cases of the bit-exactness statement: a present text field of ragged width
(type 21 `name_ext`: its four padding bits are not re-encoded), or a variable-length tail that is
not a whole number of characters / octets -/
def RaggedTail (E : EnumInfo) (fs : List Field) (bits : Bits) : Prop :=
  ∃ f, fs.getLast? = some f ∧ widthSum fs.dropLast < bits.length ∧
    ((f.varlen = false ∧ kindOf E f = some .t ∧ f.width % 6 ≠ 0) ∨
     (f.varlen = true ∧ kindOf E f = some .d ∧ (bits.length - widthSum fs.dropLast) % 8 ≠ 0) ∨
     (f.varlen = true ∧ kindOf E f = some .t ∧
        6 * (decodeAscii6 (bits.drop (widthSum fs.dropLast))).length ≠ bits.length - widthSum fs.dropLast))

/-- `msg.to_bitarray()` only reads the fields by name -/
theorem toBitarray_cls (env : Env) (fs : List Field) (c c' : String) (kv : List (String × Val)) :
    toBitarray env fs { cls := c, fields := kv } = toBitarray env fs { cls := c', fields := kv } := by
  sorry

/-- **C08, table-generic.** For every payload whose length ends on a field boundary (or inside the
variable-length tail), padding bits zero: it decodes; the decoded message re-encodes; decoding the
re-encoded payload yields the identical message (unless the variable-length text tail decoded to the
empty string); and the re-encoded payload is bit for bit the received one when no field was
normalised (and no ragged tail is involved). -/
theorem msg_reencode (env : Env) (E : EnumInfo) (fromRot : List String)
    (htab : TablesOk env E = true) (hrot : RotTablesOk env E fromRot = true)
    (henum : EnumRTOk env E = true)
    (cls : String) (fs : List Field) (ht : TableRT E fromRot fs = true)
    (bits : Bits) (hb : OnBoundary fs bits.length) (hpad : PadZero E fs bits) :
    ∃ kv bits', seqDecode env bits 0 fs = .ok kv ∧
      toBitarray env fs { cls := cls, fields := kv } = .ok bits' ∧
      (¬ EmptyTextTail E fs bits → seqDecode env bits' 0 fs = .ok kv) ∧
      (AllExact env E fromRot fs bits → ¬ RaggedTail E fs bits → bits' = bits) := by
  sorry

end Model
