import PyaisVerif.Model.Codec
import PyaisVerif.Spec.Layout
import PyaisVerif.Lemmas.Bits
import PyaisVerif.Lemmas.Codec
/-!
# From field tables to the published layout (generic part of C01)

`kindOf` recognises which ITU kind a code field (`d_type`, signedness, converters) implements;
`decodeField_spec` proves, for every bit string of the field's width, that the code path
(pad to octets, `from_bytes[_signed]`, shift, converters) yields the value the standard assigns.
The property file instantiates this with the generated tables and discharges the finite side
conditions (`TablesOk`, table = layout) by kernel `decide`.
-/
namespace Model
open Py Spec

/-- what the translator found out about tabulated converters -/
structure EnumInfo where
  members : List (String × List Int)        -- enum class ↦ member values
  tables : List (String × String × Nat)     -- table name ↦ (enum class, raw width)
  rotTables : List String                   -- tabulated `to_turn`
  deriving Repr, Inhabited

def EnumInfo.membersOf (E : EnumInfo) (cls : String) : List Int :=
  match E.members.lookup cls with
  | some l => l
  | none => []

/-- kind of a tabulated converter on a field of width `w` -/
def tableKind (E : EnumInfo) (n : String) (f : Field) : Option Kind :=
  match E.tables.lookup n with
  | some (cls, w) => if w = f.width ∧ f.dtype = .int ∧ f.signed = false then some (.e cls) else none
  | none =>
    if E.rotTables.contains n ∧ f.dtype = .float ∧ f.signed = true ∧ f.width = 8 then some .ROT else none

/-- The ITU kind a code field implements (none = not one of the recognised combinations). -/
def kindOf (E : EnumInfo) (f : Field) : Option Kind :=
  match f.dtype, f.signed, f.toConv, f.attrConv with
  | .int, false, .none, .none => some .u
  | .float, false, .none, .none => some .uf
  | .bool, false, .none, .none => some .b
  | .str, false, .none, .none => some .t
  | .bytes, false, .none, .none => some .d
  | .float, false, .divK 10, .none => some .U1
  | .float, true, .divK 10, .none => some .I1
  | .float, true, .divRound 600000 6, .none => some .I4
  | .float, true, .divRound 600 6, .none => some .I600
  | _, _, .table n, .none => tableKind E n f
  | _, _, .none, .table n => tableKind E n f
  | _, _, _, _ => none

/-- finite side conditions on the tabulated converters (decidable; `decide` in the property file):
every enum table maps every raw value of its width to a member of its class, and to the member with
that value if there is one; every rate-of-turn table is `Spec.rot` on −128 … 127. -/
def TablesOk (env : Env) (E : EnumInfo) : Bool :=
  (E.tables.all fun (n, cls, w) =>
    match env.convTables.lookup n with
    | some tbl => (List.range (2 ^ w)).all fun raw =>
        match tbl.lookup (raw : Int) with
        | some (.enum c m) => c == cls && (E.membersOf cls).contains m &&
            (!(E.membersOf cls).contains (raw : Int) || m == (raw : Int)) &&
            blockOK E.membersOf cls (raw : Int) m
        | _ => false
    | none => false) &&
  (E.rotTables.all fun n =>
    match env.convTables.lookup n with
    | some tbl => (List.range 256).all fun i =>
        tbl.lookup ((i : Int) - 128) == some (rot ((i : Int) - 128))
    | none => false)

/-- the projection of a code table that is compared with the layout -/
def tableShape (E : EnumInfo) (fs : List Field) : List (String × Nat × Option Kind) :=
  fs.map fun f => (f.name, f.width, kindOf E f)

def layoutShape (L : List LField) : List (String × Nat × Option Kind) :=
  L.map fun l => (l.name, l.width, some l.kind)


/-! ## auxiliary lemmas -/

theorem lookup_mem {β : Type} (l : List (String × β)) (n : String) (v : β)
    (h : l.lookup n = some v) : (n, v) ∈ l := by
  induction l with
  | nil => simp at h
  | cons p l ih =>
    obtain ⟨a, b⟩ := p
    rw [List.lookup_cons] at h
    by_cases hab : (n == a) = true
    · rw [hab] at h
      have : n = a := by simpa using hab
      subst this
      simp at h; subst h; simp
    · have hab' : (n == a) = false := by simpa using hab
      rw [hab'] at h
      exact List.mem_cons_of_mem _ (ih h)

/-- a chunk the code and the standard read alike: a whole character, or all-zero padding bits -/
def ChunkOK (c : Bits) : Prop := c.length = 6 ∨ ∀ b ∈ c, b = false

theorem fromBytes_zeros (c : Bits) (h : ∀ b ∈ c, b = false) : fromBytes c = 0 ∧ toNat c = 0 := by
  have hc : c = zeros c.length := by
    unfold zeros
    exact List.eq_replicate_iff.mpr ⟨rfl, h⟩
  constructor
  · unfold fromBytes padRight8
    rw [toNat_append, toNat_zeros, hc, toNat_zeros]; simp
  · rw [hc, toNat_zeros]

theorem chunkOK_shift (c : Bits) (h : ChunkOK c) : fromBytes c >>> 2 = toNat c := by
  rcases h with h | h
  · have := fromBytes_shift c
    rw [h] at this; exact this
  · obtain ⟨h1, h2⟩ := fromBytes_zeros c h
    rw [h1, h2]; rfl

theorem chunksAux_ok : ∀ (fuel : Nat) (l : Bits), l.length < fuel →
    (∀ b ∈ l.drop (l.length / 6 * 6), b = false) →
    ∀ c ∈ chunksAux 6 fuel l, ChunkOK c := by
  intro fuel
  induction fuel with
  | zero => intro l h; omega
  | succ fuel ih =>
    intro l hlt hz c hc
    cases l with
    | nil => simp [chunksAux] at hc
    | cons b tl =>
      simp only [chunksAux, List.mem_cons] at hc
      by_cases h6 : 6 ≤ (b :: tl).length
      · rcases hc with rfl | hc
        · left
          simp only [List.length_take]; omega
        · apply ih ((b :: tl).drop 6) _ _ c hc
          · simp only [List.length_drop]
            simp only [List.length_cons] at hlt h6 ⊢; omega
          · intro x hx
            apply hz x
            rw [List.drop_drop, List.length_drop] at hx
            have e : 6 + ((b :: tl).length - 6) / 6 * 6 = (b :: tl).length / 6 * 6 := by omega
            rw [e] at hx; exact hx
      · have e : (b :: tl).length / 6 * 6 = 0 := by omega
        rw [e, List.drop_zero] at hz
        have ht : List.take 6 (b :: tl) = b :: tl := List.take_of_length_le (by omega)
        have hd : List.drop 6 (b :: tl) = [] := List.drop_of_length_le (by omega)
        rw [ht, hd] at hc
        rcases hc with rfl | hc
        · right; exact hz
        · cases fuel <;> simp [chunksAux] at hc

theorem chunks_ok (bits : Bits) (h : ∀ b ∈ bits.drop (bits.length / 6 * 6), b = false) :
    ∀ c ∈ chunks 6 bits, ChunkOK c :=
  chunksAux_ok _ bits (Nat.lt_succ_self _) h

theorem ascii6Chars_eq (cs : List Bits) (h : ∀ c ∈ cs, ChunkOK c) :
    ascii6Chars cs = (cs.map fun c => sixToAscii (toNat c)).takeWhile (· ≠ 64) := by
  induction cs with
  | nil => rfl
  | cons c cs ih =>
    have e : fromBytes c >>> 2 = toNat c := chunkOK_shift c (h c (by simp))
    have ih' := ih (fun c hc => h c (List.mem_cons_of_mem _ hc))
    simp only [ascii6Chars, e, List.map_cons, List.takeWhile_cons, sixToAscii, ih']
    split <;> simp_all

theorem decodeAscii6_eq_text (bits : Bits)
    (h : ∀ b ∈ bits.drop (bits.length / 6 * 6), b = false) :
    decodeAscii6 bits = text bits := by
  unfold decodeAscii6 text
  rw [ascii6Chars_eq _ (chunks_ok bits h)]

theorem toInt_range8 (bits : Bits) (h : bits.length = 8) :
    -128 ≤ toInt bits ∧ toInt bits ≤ 127 := by
  cases bits with
  | nil => simp at h
  | cons b tl =>
    have htl : tl.length = 7 := by simpa using h
    have hlt := toNat_lt tl
    rw [htl] at hlt
    cases b <;> simp [toInt, toNat, b2n, htl] <;> omega

theorem tablesOk_enum (env : Env) (E : EnumInfo) (htab : TablesOk env E = true)
    (n cls : String) (w : Nat) (hl : E.tables.lookup n = some (cls, w))
    (raw : Nat) (hraw : raw < 2 ^ w) :
    ∃ tbl c m, env.convTables.lookup n = some tbl ∧ tbl.lookup (raw : Int) = some (.enum c m) ∧
      (c == cls && (E.membersOf cls).contains m &&
        (!(E.membersOf cls).contains (raw : Int) || m == (raw : Int)) &&
        blockOK E.membersOf cls (raw : Int) m) = true := by
  unfold TablesOk at htab
  rw [Bool.and_eq_true] at htab
  have h1 := List.all_eq_true.mp htab.1 _ (lookup_mem _ _ _ hl)
  simp only at h1
  split at h1
  · rename_i tbl htbl
    have h2 := List.all_eq_true.mp h1 raw (List.mem_range.mpr hraw)
    split at h2
    · rename_i c m hcm
      exact ⟨tbl, c, m, htbl, hcm, h2⟩
    · simp at h2
  · simp at h1

theorem tablesOk_rot (env : Env) (E : EnumInfo) (htab : TablesOk env E = true)
    (n : String) (hn : n ∈ E.rotTables) (r : Int) (hr : -128 ≤ r ∧ r ≤ 127) :
    ∃ tbl, env.convTables.lookup n = some tbl ∧ tbl.lookup r = some (rot r) := by
  unfold TablesOk at htab
  rw [Bool.and_eq_true] at htab
  have h1 := List.all_eq_true.mp htab.2 _ hn
  split at h1
  · rename_i tbl htbl
    have h2 := List.all_eq_true.mp h1 (r + 128).toNat (List.mem_range.mpr (by omega))
    have e : (((r + 128).toNat : Nat) : Int) - 128 = r := by omega
    rw [e] at h2
    exact ⟨tbl, htbl, by simpa using h2⟩
  · simp at h1

theorem tableKind_spec (env : Env) (E : EnumInfo) (htab : TablesOk env E = true)
    (n : String) (f : Field) (k : Kind) (hk : tableKind E n f = some k)
    (bits : Bits) (hlen : bits.length = f.width) :
    ∃ v, applyConv env (.table n) (decodeRaw f bits) = .ok v ∧
      check E.membersOf k bits v = true := by
  unfold tableKind at hk
  split at hk
  · rename_i cls w hl
    split at hk
    · rename_i hc
      obtain ⟨hw, hd, hs⟩ := hc
      cases hk
      have hraw : toNat bits < 2 ^ w := by rw [hw, ← hlen]; exact toNat_lt bits
      obtain ⟨tbl, c, m, htbl, hcm, hok⟩ := tablesOk_enum env E htab n cls w hl _ hraw
      refine ⟨.enum c m, ?_, ?_⟩
      · simp [applyConv, decodeRaw, hd, hs, fromBytes_shift, Val.key, htbl, hcm]
      · simp only [check]; exact hok
    · simp at hk
  · rename_i hl
    split at hk
    · rename_i hc
      obtain ⟨hc, hd, hs, hw⟩ := hc
      cases hk
      have hr := toInt_range8 bits (hlen.trans hw)
      obtain ⟨tbl, htbl, hlk⟩ := tablesOk_rot env E htab n (by simpa using hc) _ hr
      refine ⟨rot (toInt bits), ?_, ?_⟩
      · simp [applyConv, decodeRaw, hd, hs, fromBytesSigned_shift, Val.key, MICRO, htbl, hlk]
      · simp [check]
    · simp at hk

theorem decodeField_of_attr_none (env : Env) (f : Field) (bits : Bits) (ha : f.attrConv = .none) :
    decodeField env f bits = applyConv env f.toConv (decodeRaw f bits) := by
  unfold decodeField
  rw [ha]
  cases applyConv env f.toConv (decodeRaw f bits) <;> rfl

theorem decodeField_of_to_none (env : Env) (f : Field) (bits : Bits) (ht : f.toConv = .none) :
    decodeField env f bits = applyConv env f.attrConv (decodeRaw f bits) := by
  unfold decodeField
  rw [ht]
  rfl

theorem decodeRaw_unsigned (f : Field) (bits : Bits) (hs : f.signed = false) :
    decodeRaw f bits = match f.dtype with
      | .int => .int (toNat bits)
      | .bool => .bool (toNat bits != 0)
      | .float => .flt ((toNat bits : Int) * MICRO)
      | .str => .str (decodeAscii6 bits)
      | .bytes => .bytes (toBytes bits) := by
  unfold decodeRaw
  cases hd : f.dtype <;> simp [hs, fromBytes_shift]
  rw [Bool.eq_iff_iff]; simp

theorem decodeRaw_signed_float (f : Field) (bits : Bits) (hs : f.signed = true)
    (hd : f.dtype = .float) : decodeRaw f bits = .flt (toInt bits * MICRO) := by
  unfold decodeRaw
  simp [hs, hd, fromBytesSigned_shift]

/-- **Per-field statement**: for a field of a recognised kind and *every* bit string of the field's
width the decoded value is the one the standard assigns. -/
theorem decodeField_spec (env : Env) (E : EnumInfo) (htab : TablesOk env E = true)
    (f : Field) (k : Kind) (hk : kindOf E f = some k) (bits : Bits) (hlen : bits.length = f.width)
    (hw : 0 < f.width) (h6 : k = .t → ∀ b ∈ bits.drop (bits.length / 6 * 6), b = false) :
    ∃ v, decodeField env f bits = .ok v ∧ check E.membersOf k bits v = true := by
  have _ := hw
  unfold kindOf at hk
  split at hk
  case h_1 hd hs ht ha =>
    cases hk
    refine ⟨.int (toNat bits), ?_, by simp [check]⟩
    rw [decodeField_of_attr_none _ _ _ ha, ht, decodeRaw_unsigned _ _ hs, hd]; rfl
  case h_2 hd hs ht ha =>
    cases hk
    refine ⟨.flt ((toNat bits : Int) * MICRO), ?_, by simp [check]⟩
    rw [decodeField_of_attr_none _ _ _ ha, ht, decodeRaw_unsigned _ _ hs, hd]; rfl
  case h_3 hd hs ht ha =>
    cases hk
    refine ⟨.bool (toNat bits != 0), ?_, by simp [check]⟩
    rw [decodeField_of_attr_none _ _ _ ha, ht, decodeRaw_unsigned _ _ hs, hd]; rfl
  case h_4 hd hs ht ha =>
    cases hk
    refine ⟨.str (text bits), ?_, by simp [check]⟩
    rw [decodeField_of_attr_none _ _ _ ha, ht, decodeRaw_unsigned _ _ hs, hd,
      decodeAscii6_eq_text bits (h6 rfl)]; rfl
  case h_5 hd hs ht ha =>
    cases hk
    refine ⟨.bytes (toBytes bits), ?_, by simp [check]⟩
    rw [decodeField_of_attr_none _ _ _ ha, ht, decodeRaw_unsigned _ _ hs, hd]; rfl
  case h_6 hd hs ht ha =>
    cases hk
    refine ⟨.flt ((toNat bits : Int) * 100000), ?_, by simp [check]⟩
    rw [decodeField_of_attr_none _ _ _ ha, ht, decodeRaw_unsigned _ _ hs, hd]
    simp only [applyConv, Val.micro, MICRO]
    have h1 : ((toNat bits : Int) * 1000000) % (10 : Int) = 0 := by omega
    have h2 : ((toNat bits : Int) * 1000000) / (10 : Int) = (toNat bits : Int) * 100000 := by
      omega
    simp [h1, h2]
  case h_7 hd hs ht ha =>
    cases hk
    refine ⟨.flt (toInt bits * 100000), ?_, by simp [check]⟩
    rw [decodeField_of_attr_none _ _ _ ha, ht, decodeRaw_signed_float _ _ hs hd]
    simp only [applyConv, Val.micro, MICRO]
    have h1 : (toInt bits * 1000000) % (10 : Int) = 0 := by omega
    have h2 : (toInt bits * 1000000) / (10 : Int) = toInt bits * 100000 := by
      omega
    simp [h1, h2]
  case h_8 hd hs ht ha =>
    cases hk
    refine ⟨.flt (roundHalfEvenDiv (toInt bits * 1000000) 600000), ?_, by simp [check]⟩
    rw [decodeField_of_attr_none _ _ _ ha, ht, decodeRaw_signed_float _ _ hs hd]
    simp [applyConv, Val.micro, MICRO]
  case h_9 hd hs ht ha =>
    cases hk
    refine ⟨.flt (roundHalfEvenDiv (toInt bits * 1000000) 600), ?_, by simp [check]⟩
    rw [decodeField_of_attr_none _ _ _ ha, ht, decodeRaw_signed_float _ _ hs hd]
    simp [applyConv, Val.micro, MICRO]
  case h_10 n ht ha =>
    rw [decodeField_of_attr_none _ _ _ ha, ht]
    exact tableKind_spec env E htab n f k hk bits hlen
  case h_11 n ht ha =>
    rw [decodeField_of_to_none _ _ _ ht, ha]
    exact tableKind_spec env E htab n f k hk bits hlen
  case h_12 => simp at hk

theorem totalWidth_cons (l : LField) (L : List LField) :
    totalWidth (l :: L) = l.width + totalWidth L := by
  simp [totalWidth]

/-- sub-character padding bits of text fields are zero (the quantifier of C01/C08) -/
def TextPaddingZero (L : List LField) (bits : Bits) : Prop :=
  ∀ p ∈ Spec.offsets 0 L, p.1.kind = .t →
    ∀ b ∈ (((bits.drop p.2).take p.1.width).drop (p.1.width / 6 * 6)), b = false

/-- the per-offset form of the per-table statement, for an arbitrary start offset -/
theorem offDecode_agrees (env : Env) (E : EnumInfo) (htab : TablesOk env E = true) (bits : Bits) :
    ∀ (fs : List Field) (L : List LField) (off : Nat),
      tableShape E fs = layoutShape L →
      (∀ l ∈ L, 0 < l.width) →
      (∀ p ∈ Spec.offsets off L, p.1.kind = .t →
        ∀ b ∈ (((bits.drop p.2).take p.1.width).drop (p.1.width / 6 * 6)), b = false) →
      off + totalWidth L = bits.length →
      ∃ kv, sequenceE (offFields env bits off fs) = .ok kv ∧
        kv.map (·.1) = L.map (·.name) ∧
        ∀ p ∈ (offsets off L).zip kv,
          check E.membersOf p.1.1.kind ((bits.drop p.1.2).take p.1.1.width) p.2.2 = true := by
  intro fs
  induction fs with
  | nil =>
    intro L off hshape _ _ _
    cases L with
    | nil => exact ⟨[], rfl, rfl, by simp [offsets]⟩
    | cons l L => simp [tableShape, layoutShape] at hshape
  | cons f fs ih =>
    intro L off hshape hw hpad hlen
    cases L with
    | nil => simp [tableShape, layoutShape] at hshape
    | cons l L =>
      simp only [tableShape, layoutShape, List.map_cons, List.cons.injEq, Prod.mk.injEq] at hshape
      obtain ⟨⟨hname, hwidth, hkind⟩, hrest⟩ := hshape
      have hpos := hw l (by simp)
      rw [totalWidth_cons] at hlen
      have hoff : ¬ off ≥ bits.length := by omega
      have hslice : fieldSlice bits off f.width = (bits.drop off).take l.width := by
        unfold fieldSlice
        congr 1
        omega
      have hsl : ((bits.drop off).take l.width).length = f.width := by
        simp only [List.length_take, List.length_drop]; omega
      have h6 : l.kind = .t → ∀ b ∈ ((bits.drop off).take l.width).drop
          (((bits.drop off).take l.width).length / 6 * 6), b = false := by
        intro hk
        rw [hsl, hwidth]
        exact hpad (l, off) (by simp [offsets]) hk
      obtain ⟨v, hv, hchk⟩ := decodeField_spec env E htab f l.kind hkind
        ((bits.drop off).take l.width) hsl (by omega) h6
      obtain ⟨kv, hkv, hnames, hall⟩ := ih L (off + f.width) hrest
        (fun l' hl' => hw l' (List.mem_cons_of_mem _ hl'))
        (fun p hp => hpad p (by rw [hwidth] at hp; simp [offsets, hp])) (by omega)
      refine ⟨(f.name, v) :: kv, ?_, ?_, ?_⟩
      · simp only [offFields, hoff, if_false, hslice, hv, sequenceE, hkv]
      · simp [hname, hnames]
      · intro p hp
        simp only [offsets, List.zip_cons_cons, List.mem_cons] at hp
        rcases hp with rfl | hp
        · exact hchk
        · rw [hwidth] at hall
          exact hall p hp

/-- **Per-table statement**: if the table has the shape of layout `L`, every payload of the
layout's total width decodes to a message that agrees with the layout, field by field. -/
theorem seqDecode_agrees (env : Env) (E : EnumInfo) (htab : TablesOk env E = true)
    (fs : List Field) (L : List LField) (hshape : tableShape E fs = layoutShape L)
    (hw : ∀ l ∈ L, 0 < l.width)
    (bits : Bits) (hlen : bits.length = totalWidth L) (hpad : TextPaddingZero L bits) :
    ∃ kv, seqDecode env bits 0 fs = .ok kv ∧ Agrees E.membersOf L bits kv := by
  rw [seqDecode_eq_off]
  obtain ⟨kv, h1, h2, h3⟩ := offDecode_agrees env E htab bits fs L 0 hshape hw hpad (by omega)
  exact ⟨kv, h1, h2, h3⟩

/-! ## `get_int` on slices that lie inside the payload -/

/-- `get_int(data, lo, hi)` is the plain value of the slice when the slice lies inside the payload -/
theorem getInt_eq (bits : Bits) (lo hi : Nat) (h : hi ≤ bits.length) (hl : lo ≤ hi) :
    getInt bits lo hi = toNat ((bits.drop lo).take (hi - lo)) := by
  unfold getInt
  have hlen : ((bits.drop lo).take (hi - lo)).length = hi - lo := by
    simp only [List.length_take, List.length_drop]; omega
  have := fromBytes_shift ((bits.drop lo).take (hi - lo))
  rw [hlen] at this
  exact this

/-- a single-bit `get_int` is the bit -/
theorem getInt_bit (bits : Bits) (i j : Nat) (hj : j = i + 1) (h : j ≤ bits.length) :
    getInt bits i j = bitAt bits i := by
  subst hj
  rw [getInt_eq bits i (i + 1) h (by omega)]
  simp [bitAt]

theorem bitAt_cases (bits : Bits) (i : Nat) : bitAt bits i = 0 ∨ bitAt bits i = 1 := by
  unfold bitAt
  have h := toNat_lt ((bits.drop i).take 1)
  have h1 : ((bits.drop i).take 1).length ≤ 1 := by
    simp only [List.length_take]; omega
  have h2 : 2 ^ ((bits.drop i).take 1).length ≤ 2 ^ 1 := Nat.pow_le_pow_right (by decide) h1
  omega

end Model
