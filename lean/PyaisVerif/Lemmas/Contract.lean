import PyaisVerif.Model.Assemble
import PyaisVerif.Lemmas.Truncation
import PyaisVerif.Lemmas.Reassembly
/-!
# The error contract of the parse layer and of the reader loops (generic part of C05)
-/
namespace Model
open Py

/-- the three exception classes both reader loops catch -/
def _root_.Py.Err.isSkippable (e : Err) : Bool :=
  e = .invalidNMEAMessage || e = .nonPrintableCharacter || e = .unknownMessage

namespace Contract

theorem bind_ok_inv {α β} {x : Except Err α} {f : α → Except Err β} {b : β} (h : (x >>= f) = .ok b) :
    ∃ a, x = .ok a ∧ f a = .ok b := by
  cases x with
  | error e => cases h
  | ok a => exact ⟨a, rfl, h⟩

theorem bind_error_inv {α β} {x : Except Err α} {f : α → Except Err β} {e : Err}
    (h : (x >>= f) = .error e) : x = .error e ∨ ∃ a, x = .ok a ∧ f a = .error e := by
  cases x with
  | error e' => cases h; exact .inl rfl
  | ok a => exact .inr ⟨a, rfl, h⟩

theorem decodeAscii_error {s : Bytes} {e : Err} (h : decodeAscii s = .error e) : e = .unicodeDecodeError := by
  unfold decodeAscii at h
  split at h
  · cases h
  · cases h; rfl

theorem computeChecksum_error {s : Bytes} {e : Err} (h : computeChecksum s = .error e) : e = .typeError := by
  unfold computeChecksum at h
  dsimp only at h
  split at h
  · cases h; rfl
  · cases h

theorem nmeaInit_error {raw : Bytes} {e : Err} (h : nmeaInit raw = .error e) :
    e = .unicodeDecodeError ∨ e = .typeError := by
  unfold nmeaInit at h
  dsimp only at h
  rcases bind_error_inv h with h1 | ⟨a, -, h⟩
  · exact .inl (decodeAscii_error h1)
  rcases bind_error_inv h with h1 | ⟨b, -, h⟩
  · exact .inl (decodeAscii_error h1)
  rcases bind_error_inv h with h1 | ⟨c, -, h⟩
  · exact .inr (computeChecksum_error h1)
  cases h

theorem nmeaInit_ok {raw : Bytes} {s : Sentence} (h : nmeaInit raw = .ok s) :
    s.isAIS = false ∧ s.gh = none ∧ s.wrapper = none ∧ s.fragCnt = 0 := by
  unfold nmeaInit at h
  dsimp only at h
  obtain ⟨a, -, h⟩ := bind_ok_inv h
  obtain ⟨b, -, h⟩ := bind_ok_inv h
  obtain ⟨c, -, h⟩ := bind_ok_inv h
  cases h
  exact ⟨rfl, rfl, rfl, rfl⟩

theorem dearmorAux_error {fill : Int} {bs : Bytes} {e : Err} (h : dearmorAux fill bs = .error e) :
    e = .nonPrintableCharacter ∨ e = .valueError ∨ e = .overflowError := by
  induction bs with
  | nil => cases h
  | cons c cs ih =>
    unfold dearmorAux at h
    split at h
    · cases h; simp
    · dsimp only at h
      split at h
      · split at h
        · cases h; simp
        · split at h
          · cases h; simp
          · cases h
      · rcases bind_error_inv h with h1 | ⟨a, -, h⟩
        · exact ih h1
        · cases h

theorem aisInit_error {k : NmeaConsts} {raw : Bytes} {e : Err} (h : aisInit k raw = .error e) :
    e = .unicodeDecodeError ∨ e = .typeError ∨ e = .invalidNMEAMessage ∨ e = .nonPrintableCharacter ∨
      e = .valueError ∨ e = .overflowError := by
  unfold aisInit at h
  rcases bind_error_inv h with h1 | ⟨s, -, h⟩
  · rcases nmeaInit_error h1 with h | h <;> simp [h]
  dsimp only at h
  split at h
  · cases h; simp
  · split at h
    · cases h; simp
    split at h
    · cases h; simp
    split at h
    · cases h; simp
    rcases bind_error_inv h with h1 | ⟨b, -, h⟩
    · rcases dearmorAux_error h1 with h | h | h <;> simp [h]
    · cases h

theorem aisInit_ok {k : NmeaConsts} {raw : Bytes} {s : Sentence} (h : aisInit k raw = .ok s) :
    s.isAIS = true ∧ 1 ≤ s.fragCnt ∧ s.fragCnt ≤ k.maxFragCnt ∧ 1 ≤ s.fragNum ∧ s.fragNum ≤ k.maxFragCnt ∧
    s.payload.length ≤ k.maxPayloadLen ∧ s.gh = none ∧ s.wrapper = none := by
  unfold aisInit at h
  obtain ⟨s0, h0, h⟩ := bind_ok_inv h
  have h0 := nmeaInit_ok h0
  dsimp only at h
  split at h
  · cases h
  · split at h
    · cases h
    split at h
    · cases h
    split at h
    · cases h
    obtain ⟨b, -, h⟩ := bind_ok_inv h
    cases h
    dsimp only
    refine ⟨rfl, ?_, ?_, ?_, ?_, ?_, h0.2.1, h0.2.2.1⟩ <;> omega

theorem ghInit_error {raw : Bytes} {e : Err} (h : ghInit raw = .error e) :
    e = .unicodeDecodeError ∨ e = .typeError ∨ e = .invalidNMEAMessage := by
  unfold ghInit at h
  rcases bind_error_inv h with h1 | ⟨s, -, h⟩
  · rcases nmeaInit_error h1 with h | h <;> simp [h]
  dsimp only at h
  split at h
  · cases h; simp
  · cases h

theorem ghInit_ok {raw : Bytes} {s : Sentence} (h : ghInit raw = .ok s) :
    s.isAIS = false ∧ s.gh.isSome = true := by
  unfold ghInit at h
  obtain ⟨s0, h0, h⟩ := bind_ok_inv h
  have h0 := nmeaInit_ok h0
  dsimp only at h
  split at h
  · cases h
  · cases h
    exact ⟨h0.1, rfl⟩

theorem produceRaw_error {k : NmeaConsts} {raw : Bytes} {e : Err} (h : produceRaw k raw = .error e) :
    e = .unicodeDecodeError ∨ e = .typeError ∨ e = .invalidNMEAMessage ∨ e = .nonPrintableCharacter ∨
      e = .valueError ∨ e = .overflowError ∨ e = .unknownMessage := by
  unfold produceRaw at h
  dsimp only at h
  split at h
  · rcases aisInit_error h with h | h | h | h | h | h <;> simp [h]
  split at h
  · rcases ghInit_error h with h | h | h <;> simp [h]
  · cases h; simp

theorem produceRaw_ok {k : NmeaConsts} {raw : Bytes} {s : Sentence} (h : produceRaw k raw = .ok s) :
    (s.isAIS = true ∧ 1 ≤ s.fragCnt ∧ s.fragCnt ≤ k.maxFragCnt ∧ 1 ≤ s.fragNum ∧ s.fragNum ≤ k.maxFragCnt ∧
      s.payload.length ≤ k.maxPayloadLen ∧ s.gh = none ∧ s.wrapper = none) ∨
    (s.isAIS = false ∧ s.gh.isSome = true) := by
  unfold produceRaw at h
  dsimp only at h
  split at h
  · exact .inl (aisInit_ok h)
  split at h
  · exact .inr (ghInit_ok h)
  · cases h

theorem preProcess_error {raw : Bytes} {e : Err} (h : preProcess raw = .error e) : e = .indexError := by
  unfold preProcess at h
  dsimp only at h
  split at h
  · cases h; rfl
  · split at h <;> cases h

/-- the shape of a successful `produce`: the parsed body, possibly with a tag block attached -/
theorem produce_ok_inv {k : NmeaConsts} {raw : Bytes} {s : Sentence} (h : produce k raw = .ok s) :
    ∃ body s', produceRaw k body = .ok s' ∧ (s = s' ∨ ∃ t, s = { s' with tagBlock := some t }) := by
  unfold produce at h
  split at h
  · cases h
  dsimp only at h
  split at h
  · rename_i s1 heq
    cases h
    obtain ⟨⟨body, tb⟩, -, heq⟩ := bind_ok_inv heq
    dsimp only at heq
    obtain ⟨s', hs', heq⟩ := bind_ok_inv heq
    refine ⟨body, s', hs', ?_⟩
    split at heq
    · split at heq
      · cases heq; exact .inl rfl
      · cases heq; exact .inr ⟨_, rfl⟩
    · cases heq; exact .inl rfl
  · split at h <;> cases h

end Contract
open Contract

/-- **The factory's contract**: whatever the bytes, `produce` returns a sentence or raises one of
`InvalidNMEAMessageException`, `NonPrintableCharacterException`, `UnknownMessageException`. -/
theorem produce_error (k : NmeaConsts) (raw : Bytes) (e : Err) (h : produce k raw = .error e) :
    e.isSkippable = true := by
  unfold produce at h
  split at h
  · cases h; rfl
  dsimp only at h
  split at h
  · cases h
  · rename_i e' heq
    split at h
    · rename_i hlib
      cases h
      rcases bind_error_inv heq with h1 | ⟨⟨body, tb⟩, -, heq⟩
      · have := preProcess_error h1
        subst this
        simp [Err.isLibrary] at hlib
      dsimp only at heq
      rcases bind_error_inv heq with h1 | ⟨s', -, heq⟩
      · rcases produceRaw_error h1 with h | h | h | h | h | h | h <;> subst h <;>
          first | rfl | (simp [Err.isLibrary] at hlib)
      · split at heq
        · split at heq <;> cases heq
        · cases heq
    · cases h; rfl

/-- what the parser guarantees about an AIS sentence it lets through -/
theorem produce_ais_bounds (k : NmeaConsts) (raw : Bytes) (s : Sentence) (h : produce k raw = .ok s)
    (hs : s.isAIS = true) :
    1 ≤ s.fragCnt ∧ s.fragCnt ≤ k.maxFragCnt ∧ 1 ≤ s.fragNum ∧ s.fragNum ≤ k.maxFragCnt ∧
    s.payload.length ≤ k.maxPayloadLen ∧ s.gh = none ∧ s.wrapper = none := by
  obtain ⟨body, s', hs', hss⟩ := produce_ok_inv h
  rcases produceRaw_ok hs' with h1 | h1
  · rcases hss with rfl | ⟨t, rfl⟩
    · exact h1.2
    · exact h1.2
  · rcases hss with rfl | ⟨t, rfl⟩
    · rw [h1.1] at hs; cases hs
    · dsimp only at hs; rw [h1.1] at hs; cases hs

/-- a Gatehouse sentence is not an AIS sentence -/
theorem produce_gh (k : NmeaConsts) (raw : Bytes) (s : Sentence) (h : produce k raw = .ok s) :
    (s.gh.isSome = true → s.isAIS = false) ∧ (s.isAIS = false → s.gh.isSome = true) := by
  obtain ⟨body, s', hs', hss⟩ := produce_ok_inv h
  have key : (s'.gh.isSome = true → s'.isAIS = false) ∧ (s'.isAIS = false → s'.gh.isSome = true) := by
    rcases produceRaw_ok hs' with h1 | h1
    · obtain ⟨ha, -, -, -, -, -, hg, -⟩ := h1
      rw [ha, hg]; simp
    · rw [h1.1, h1.2]; simp
  rcases hss with rfl | ⟨t, rfl⟩
  · exact key
  · exact key

namespace Contract

theorem tbField_ok (codes : List (String × Nat)) (tb : TagBlock) (f : Bytes) :
    ∃ tb', tbField codes tb f = .ok tb' := by
  unfold tbField
  repeat' split
  all_goals exact ⟨_, rfl⟩

theorem foldlM_ok {α β} (f : β → α → Except Err β) (hf : ∀ b a, ∃ b', f b a = .ok b') (l : List α) (b : β) :
    ∃ b', l.foldlM f b = .ok b' := by
  induction l generalizing b with
  | nil => exact ⟨b, rfl⟩
  | cons a l ih =>
    obtain ⟨b', hb⟩ := hf b a
    rw [List.foldlM_cons, hb]
    exact ih b'

theorem tbInit_error {codes : List (String × Nat)} {raw : Bytes} {e : Err} (h : tbInit codes raw = .error e) :
    e = .typeError ∨ e = .unicodeDecodeError ∨ e = .valueError := by
  unfold tbInit at h
  split at h
  · split at h
    · cases h; simp
    split at h
    · cases h; simp
    split at h
    · cases h; simp
    · dsimp only at h
      obtain ⟨tb', htb⟩ := foldlM_ok (tbField codes) (tbField_ok codes) (split COMMA _) _
      rw [htb] at h
      cases h
  · cases h; simp

end Contract

/-- the tag block queue never raises (malformed tag blocks are treated like absent ones) -/
theorem tbqPut_ok {α} (codes : List (String × Nat)) (st : TbqState α) (x : α) (tb : Option Bytes) :
    ∃ r, tbqPut codes st x tb = .ok r := by
  unfold tbqPut
  split
  · exact ⟨_, rfl⟩
  · split
    · rename_i e he
      rcases tbInit_error he with h | h | h <;> subst h <;> exact ⟨_, rfl⟩
    · exact ⟨_, rfl⟩

/-- invariant of the reader state: every slot buffer is at least `bufSize` long and holds sentences
as the factory produced them (no wrapper attached yet) -/
def BufOK (bufSize : Nat) (st : AsmState) : Prop :=
  ∀ k b, st.buffer.lookup k = some b → bufSize ≤ b.length ∧ ∀ s, some s ∈ b → s.wrapper = none

theorem bufOK_init (bufSize : Nat) (withTbq : Bool) : BufOK bufSize (initState withTbq) := by
  intro k b h
  simp [initState] at h

namespace Contract

theorem ok_bind {α β} (a : α) (f : α → Except Err β) : (Except.ok a >>= f) = f a := rfl
theorem error_bind {α β} (e : Err) (f : α → Except Err β) :
    ((Except.error e : Except Err α) >>= f) = .error e := rfl

theorem isSkippable_cases {e : Err} (h : e.isSkippable = true) :
    e = .invalidNMEAMessage ∨ e = .nonPrintableCharacter ∨ e = .unknownMessage := by
  cases e <;> simp [Err.isSkippable] at h ⊢

theorem addToTbq_ok (k : AsmConsts) (st : AsmState) (s : Sentence) :
    ∃ st1 out, addToTbq k st s = .ok (st1, out) ∧ st1.buffer = st.buffer ∧ st1.crash = st.crash := by
  unfold addToTbq
  split
  · exact ⟨st, [], rfl, rfl, rfl⟩
  · rename_i q hq
    obtain ⟨⟨q', out⟩, hr⟩ := tbqPut_ok k.tagCodes q s s.tagBlock
    rw [hr]
    exact ⟨_, _, rfl, rfl, rfl⟩

theorem attachWrapper_fst (st : AsmState) (s : Sentence) :
    (attachWrapper st s).1.buffer = st.buffer ∧ (attachWrapper st s).1.crash = st.crash := by
  unfold attachWrapper
  split <;> exact ⟨rfl, rfl⟩

theorem bufOK_of_buffer_eq {n : Nat} {st st' : AsmState} (h : st'.buffer = st.buffer) (hb : BufOK n st) :
    BufOK n st' := by
  unfold BufOK
  rw [h]
  exact hb

/-- the slot's current list in `bufferStep` -/
def bufferCur (bufSize : Nat) (buffer : List (Slot × List (Option Sentence))) (msg : Sentence) :
    List (Option Sentence) :=
  match buffer.lookup (slotOf msg) with
  | some b => b
  | none => List.replicate (max msg.fragCnt.toNat bufSize) none

/-- `bufferStep` after the slot's list has been looked up -/
def bufferTail (buffer : List (Slot × List (Option Sentence))) (msg : Sentence) (cur : List (Option Sentence)) :
    Option (List (Slot × List (Option Sentence)) × Option Sentence) :=
  match pySetIdx cur (msg.fragNum - 1) (some msg) with
  | none => none
  | some cur' =>
    let parts := (cur'.take msg.fragCnt.toNat).filterMap id
    if (parts.length : Int) = msg.fragCnt then
      match assemble parts with
      | some full => some (assocErase buffer (slotOf msg), some full)
      | none => none
    else some (assocSet buffer (slotOf msg) cur', none)

theorem bufferStep_eq (bufSize : Nat) (buffer : List (Slot × List (Option Sentence))) (msg : Sentence) :
    bufferStep bufSize buffer msg = bufferTail buffer msg (bufferCur bufSize buffer msg) := rfl

/-- a fragment within the bounds the parser guarantees never raises `IndexError`, and the buffer
invariant is kept -/
theorem bufferStep_ok (bufSize : Nat) (buf : List (Slot × List (Option Sentence))) (s : Sentence)
    (hbuf : ∀ k b, buf.lookup k = some b → bufSize ≤ b.length ∧ ∀ x, some x ∈ b → x.wrapper = none)
    (h1 : 1 ≤ s.fragNum) (h2 : s.fragNum ≤ bufSize) (h3 : 1 ≤ s.fragCnt) (hw : s.wrapper = none) :
    ∃ buf' o, bufferStep bufSize buf s = some (buf', o) ∧
      ∀ k b, buf'.lookup k = some b → bufSize ≤ b.length ∧ ∀ x, some x ∈ b → x.wrapper = none := by
  rw [bufferStep_eq]
  generalize hcur : bufferCur bufSize buf s = cur
  have hcurOK : bufSize ≤ cur.length ∧ ∀ x, some x ∈ cur → x.wrapper = none := by
    unfold bufferCur at hcur
    cases hl : buf.lookup (slotOf s) with
    | none =>
      rw [hl] at hcur
      subst hcur
      refine ⟨by simp only [List.length_replicate]; omega, fun x hx => ?_⟩
      rw [List.mem_replicate] at hx
      cases hx.2
    | some b =>
      rw [hl] at hcur
      subst hcur
      exact hbuf _ _ hl
  unfold bufferTail
  rw [pySetIdx_ok cur (s.fragNum - 1) (some s) (by omega) (by omega)]
  dsimp only
  split
  · rename_i hc
    have hne : List.filterMap id (List.take s.fragCnt.toNat (cur.set (s.fragNum - 1).toNat (some s))) ≠ [] := by
      intro e
      rw [e] at hc
      simp only [List.length_nil] at hc
      omega
    obtain ⟨full, hf⟩ := assemble_isSome_of_ne_nil _ hne
    rw [hf]
    refine ⟨_, _, rfl, fun k b hb => ?_⟩
    rw [lookup_assocErase'] at hb
    split at hb
    · cases hb
    · exact hbuf k b hb
  · refine ⟨_, _, rfl, fun k b hb => ?_⟩
    rw [lookup_assocSet'] at hb
    split at hb
    · cases hb
      refine ⟨by rw [List.length_set]; exact hcurOK.1, fun x hx => ?_⟩
      rcases List.mem_or_eq_of_mem_set hx with hx | hx
      · exact hcurOK.2 x hx
      · cases hx; exact hw
    · exact hbuf k b hb

end Contract

/-- **One step of the stream loop never raises** and keeps the invariant. -/
theorem streamStep_total (k : AsmConsts) (hk : k.nmea.maxFragCnt ≤ k.bufSize) (st : AsmState)
    (hc : st.crash = none) (hb : BufOK k.bufSize st) (line : Bytes) :
    (streamStep k st line).1.crash = none ∧
    BufOK k.bufSize (streamStep k st line).1 := by
  unfold streamStep
  rw [if_neg (by simp [hc])]
  dsimp only
  cases hp : produce k.nmea line with
  | error e =>
    simp only [error_bind]
    rw [if_pos (isSkippable_cases (produce_error _ _ _ hp))]
    exact ⟨hc, hb⟩
  | ok s =>
    obtain ⟨st1, out, ha, hbuf1, hcr1⟩ := addToTbq_ok k st s
    have hc1 : st1.crash = none := hcr1.trans hc
    have hb1 : BufOK k.bufSize st1 := bufOK_of_buffer_eq hbuf1 hb
    simp only [ok_bind, ha]
    split
    · exact ⟨hc1, bufOK_of_buffer_eq rfl hb1⟩
    · split
      · exact ⟨hc1, hb1⟩
      · rename_i hais
        have hais' : s.isAIS = true := by simpa using hais
        obtain ⟨b1, b2, b3, b4, -, -, bw⟩ := produce_ais_bounds _ _ _ hp hais'
        split
        · have := attachWrapper_fst st1 s
          exact ⟨this.2.trans hc1, bufOK_of_buffer_eq this.1 hb1⟩
        · obtain ⟨buf', o, hbs, hbuf'⟩ := bufferStep_ok k.bufSize st1.buffer s hb1 b3 (by omega) b1 bw
          rw [hbs]
          cases o with
          | none => exact ⟨hc1, hbuf'⟩
          | some full =>
            dsimp only
            have := attachWrapper_fst { st1 with buffer := buf' } full
            refine ⟨this.2.trans hc1, ?_⟩
            unfold BufOK
            rw [this.1]
            exact hbuf'

namespace Contract

/-- the two loops are the same function: the extra `IndexError` the queue loop catches cannot occur -/
theorem queueStep_eq_streamStep (k : AsmConsts) (st : AsmState) (line : Bytes) :
    queueStep k st line = streamStep k st line := by
  unfold queueStep streamStep
  split
  · rfl
  dsimp only
  cases hp : produce k.nmea line with
  | error e =>
    have h3 := isSkippable_cases (produce_error _ _ _ hp)
    have h4 : e = .invalidNMEAMessage ∨ e = .nonPrintableCharacter ∨ e = .unknownMessage ∨ e = .indexError := by
      rcases h3 with h | h | h <;> simp [h]
    simp only [error_bind]
    rw [if_pos h3, if_pos h4]
  | ok s =>
    obtain ⟨st1, out, ha, -, -⟩ := addToTbq_ok k st s
    simp only [ok_bind, ha]
    split
    · rfl
    · split
      · rfl
      · split
        · unfold attachWrapper
          split <;> rfl
        · split
          · rfl
          · rfl
          · unfold attachWrapper
            dsimp only
            cases hw : st1.wrapper <;> rfl

end Contract

theorem queueStep_total (k : AsmConsts) (hk : k.nmea.maxFragCnt ≤ k.bufSize) (st : AsmState)
    (hc : st.crash = none) (hb : BufOK k.bufSize st) (line : Bytes) :
    (queueStep k st line).1.crash = none ∧
    BufOK k.bufSize (queueStep k st line).1 := by
  rw [queueStep_eq_streamStep]
  exact streamStep_total k hk st hc hb line

namespace Contract

theorem runLoop_cons_fst (step : AsmState → Bytes → AsmState × StepOut) (st : AsmState) (l : Bytes)
    (ls : List Bytes) : (runLoop step st (l :: ls)).1 = (runLoop step (step st l).1 ls).1 := rfl

theorem runLoop_cons_snd (step : AsmState → Bytes → AsmState × StepOut) (st : AsmState) (l : Bytes)
    (ls : List Bytes) :
    (runLoop step st (l :: ls)).2 = (step st l).2 :: (runLoop step (step st l).1 ls).2 := rfl

/-- the loop invariant: not crashed, buffers in shape -/
theorem runLoop_inv (k : AsmConsts) (hk : k.nmea.maxFragCnt ≤ k.bufSize)
    (step : AsmState → Bytes → AsmState × StepOut) (hstep : step = streamStep k ∨ step = queueStep k)
    (lines : List Bytes) (st : AsmState) (hc : st.crash = none) (hb : BufOK k.bufSize st) :
    (runLoop step st lines).1.crash = none ∧ BufOK k.bufSize (runLoop step st lines).1 := by
  induction lines generalizing st with
  | nil => exact ⟨hc, hb⟩
  | cons l ls ih =>
    rw [runLoop_cons_fst]
    have h1 : (step st l).1.crash = none ∧ BufOK k.bufSize (step st l).1 := by
      rcases hstep with rfl | rfl
      · exact streamStep_total k hk st hc hb l
      · exact queueStep_total k hk st hc hb l
    exact ih _ h1.1 h1.2

end Contract

/-- **Reader loops never raise**, for every sequence of lines, with or without a tag block queue. -/
theorem runLoop_total (k : AsmConsts) (hk : k.nmea.maxFragCnt ≤ k.bufSize)
    (step : AsmState → Bytes → AsmState × StepOut) (hstep : step = streamStep k ∨ step = queueStep k)
    (withTbq : Bool) (lines : List Bytes) :
    (runLoop step (initState withTbq) lines).1.crash = none :=
  (runLoop_inv k hk step hstep lines _ rfl (bufOK_init _ _)).1

namespace Contract

/-- a rejected line is skipped in every state (a crashed reader ignores every line) -/
theorem streamStep_skip' (k : AsmConsts) (st : AsmState) (line : Bytes) (e : Err)
    (h : produce k.nmea line = .error e) : streamStep k st line = (st, {}) := by
  unfold streamStep
  split
  · rfl
  dsimp only
  simp only [h, error_bind]
  rw [if_pos (isSkippable_cases (produce_error _ _ _ h))]

end Contract

/-- **A malformed line is skipped**: it changes neither the state nor the output. -/
theorem streamStep_skip (k : AsmConsts) (st : AsmState) (hc : st.crash = none) (line : Bytes) (e : Err)
    (h : produce k.nmea line = .error e) : streamStep k st line = (st, {}) ∧ queueStep k st line = (st, {}) := by
  have _ := hc  -- not needed: a crashed reader ignores every line
  rw [queueStep_eq_streamStep]
  exact ⟨streamStep_skip' k st line e h, streamStep_skip' k st line e h⟩

/-- hence removing it from the input only removes its (empty) output -/
theorem runLoop_skip (k : AsmConsts) (step : AsmState → Bytes → AsmState × StepOut)
    (hstep : step = streamStep k ∨ step = queueStep k) (st : AsmState) (hc : st.crash = none)
    (pre post : List Bytes) (line : Bytes) (e : Err) (h : produce k.nmea line = .error e) :
    (runLoop step st (pre ++ line :: post)).1 = (runLoop step st (pre ++ post)).1 ∧
    ((runLoop step st (pre ++ line :: post)).2.flatMap (·.delivered))
      = ((runLoop step st (pre ++ post)).2.flatMap (·.delivered)) := by
  have hs : ∀ st', step st' line = (st', {}) := by
    intro st'
    rcases hstep with rfl | rfl
    · exact streamStep_skip' k st' line e h
    · rw [queueStep_eq_streamStep]; exact streamStep_skip' k st' line e h
  have hc' := hc  -- not needed: a crashed reader ignores every line
  clear hc' hc
  induction pre generalizing st with
  | nil =>
    simp only [List.nil_append]
    rw [runLoop_cons_fst, runLoop_cons_snd, hs st]
    exact ⟨rfl, rfl⟩
  | cons a pre ih =>
    simp only [List.cons_append]
    rw [runLoop_cons_fst, runLoop_cons_snd, runLoop_cons_fst, runLoop_cons_snd]
    have := ih (step st a).1
    refine ⟨this.1, ?_⟩
    rw [List.flatMap_cons, List.flatMap_cons, this.2]

namespace Contract

theorem mem_of_lookup_eq_some {κ ν} [BEq κ] [LawfulBEq κ] {l : List (κ × ν)} {k : κ} {v : ν}
    (h : l.lookup k = some v) : (k, v) ∈ l := by
  induction l with
  | nil => cases h
  | cons p l ih =>
    obtain ⟨a, b⟩ := p
    rw [List.lookup_cons] at h
    split at h
    · rename_i hka
      cases h
      have : k = a := by simpa using hka
      subst this
      simp
    · exact List.mem_cons_of_mem _ (ih h)

end Contract

/-- errors of the table-driven decode under total converters: only the dispatcher's own `raise` -/
theorem fromBitarray_error (env : Env) (cls : String) (bits : Bits) (e : Err)
    (hconv : (env.classes.all fun p => p.2.all (convTotal env)) = true)
    (hleaves : ∀ c, (∃ tr, env.decodeTrees.lookup cls = some tr ∧ tr.run (fun t => .ok (t.evalBits bits)) = .ok c)
        ∨ (env.decodeTrees.lookup cls = none ∧ c = cls) → (env.classes.lookup c).isSome = true)
    (h : fromBitarray env cls bits = .error e) :
    ∃ tr, env.decodeTrees.lookup cls = some tr ∧ tr.run (fun t => .ok (t.evalBits bits)) = .error e := by
  have hok : ∀ c, (env.classes.lookup c).isSome = true →
      ∀ e', (match env.classes.lookup c with
        | some fs => do
          let kv ← seqDecode env bits 0 fs
          .ok ({ cls := c, fields := kv } : Msg)
        | Option.none => .error .outsideModel) ≠ .error e' := by
    intro c hc e' he
    cases hl : env.classes.lookup c with
    | none => rw [hl] at hc; cases hc
    | some fs =>
      rw [hl] at he
      dsimp only at he
      have hfs : fs.all (convTotal env) = true := by
        rw [List.all_eq_true] at hconv
        exact hconv (c, fs) (mem_of_lookup_eq_some hl)
      obtain ⟨kv, hkv⟩ := seqDecode_total env fs hfs bits 0
      rw [hkv] at he
      cases he
  unfold fromBitarray resolveDecode at h
  cases ht : env.decodeTrees.lookup cls with
  | none =>
    rw [ht] at h
    exact absurd h (hok cls (hleaves cls (.inr ⟨ht, rfl⟩)) e)
  | some tr =>
    rw [ht] at h
    dsimp only at h
    cases hr : tr.run (fun t => .ok (t.evalBits bits)) with
    | error e' =>
      rw [hr] at h
      cases h
      exact ⟨tr, rfl, hr⟩
    | ok c =>
      rw [hr] at h
      exact absurd h (hok c (hleaves c (.inl ⟨tr, ht, hr⟩)) e)

namespace Contract

theorem isLibrary_of_isSkippable {e : Err} (h : e.isSkippable = true) : e.isLibrary = true := by
  rcases isSkippable_cases h with rfl | rfl | rfl <;> rfl

theorem oneShotCollect_error {k : NmeaConsts} {strict : Bool} {args : List Bytes} {temp : List Sentence}
    {cnt : Int} {e : Err} (h : oneShotCollect k strict args temp cnt = .error e) : e.isLibrary = true := by
  induction args generalizing temp cnt with
  | nil => cases h
  | cons a rest ih =>
    unfold oneShotCollect at h
    split at h
    · rename_i e' he
      cases h
      exact isLibrary_of_isSkippable (produce_error _ _ _ he)
    · split at h
      · cases h; rfl
      · split at h <;> exact ih h

theorem oneShotFinish_error {temp : List Sentence} {cnt : Int} {e : Err}
    (h : oneShotFinish temp cnt = .error e) : e.isLibrary = true := by
  unfold oneShotFinish at h
  split at h
  · cases h; rfl
  rename_i hne
  split at h
  · cases h; rfl
  dsimp only at h
  split at h
  · cases h; rfl
  · obtain ⟨full, hf⟩ := assemble_isSome_of_ne_nil temp (by intro e; simp [e] at hne)
    rw [hf] at h
    cases h

theorem oneShotAssemble_error {k : NmeaConsts} {strict : Bool} {args : List Bytes} {e : Err}
    (h : oneShotAssemble k strict args = .error e) : e.isLibrary = true := by
  unfold oneShotAssemble at h
  split at h
  · rename_i e' he
    cases h
    exact oneShotCollect_error he
  · exact oneShotFinish_error h

theorem decodeSentence_error {env : Env} {s : Sentence} {e : Err} (h : decodeSentence env s = .error e) :
    e.isLibrary = true ∨ ∃ cls, env.msgClass.lookup s.aisId = some cls ∧ fromBitarray env cls s.bits = .error e := by
  unfold decodeSentence at h
  split at h
  · cases h; exact .inl rfl
  · split at h
    · rename_i cls hcls
      exact .inr ⟨cls, hcls, h⟩
    · cases h; exact .inl rfl

theorem decodeArgs_error {k : NmeaConsts} {env : Env} {strict : Bool} {args : List Bytes} {e : Err}
    (h : decodeArgs k env strict args = .error e) :
    e.isLibrary = true ∨ ∃ id cls bits, env.msgClass.lookup id = some cls ∧ fromBitarray env cls bits = .error e := by
  unfold decodeArgs at h
  rcases bind_error_inv h with h1 | ⟨s, -, h2⟩
  · exact .inl (oneShotAssemble_error h1)
  · rcases decodeSentence_error h2 with h3 | ⟨cls, h3, h4⟩
    · exact .inl h3
    · exact .inr ⟨_, cls, _, h3, h4⟩

end Contract

end Model
