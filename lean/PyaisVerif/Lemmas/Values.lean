import PyaisVerif.Lemmas.MsgRT
/-!
# From field values to payloads (value side of C02)

`Wire fs slices vals`: `slices` are bit patterns of the fields `fs`, one per field and of the
field's width (a variable-length last field may be shorter), and `vals` are the values the
*standard* (`Spec.check`) assigns to them.  Such an assignment of values is exactly a message whose
fields are wire-representable.  `wire_decode`: the concatenation of the slices is a payload that
the table-driven decoder maps to these values — so every such message is in the image of decoding,
which is what the round-trip theorem of C02 quantifies over.
-/
namespace Model
open Py Spec

/-- side conditions on a slice: text padding bits are zero; an enumeration code is a member -/
def SliceOK (members : String → List Int) (k : Kind) (b : Bits) : Prop :=
  (k = .t → ∀ x ∈ b.drop (b.length / 6 * 6), x = false) ∧
  (∀ cls, k = .e cls → (members cls).contains (toNat b : Int) = true)

inductive Wire (E : EnumInfo) : List Field → List Bits → List Val → Prop
  | nil : Wire E [] [] []
  | last (f : Field) (k : Kind) (b : Bits) (v : Val) :
      kindOf E f = some k → f.varlen = true → (k = .t ∨ k = .d) → 0 < b.length → b.length ≤ f.width →
      SliceOK E.membersOf k b → check E.membersOf k b v = true → v ≠ .str [] →
      Wire E [f] [b] [v]
  | cons (f : Field) (k : Kind) (b : Bits) (v : Val) (fs : List Field) (bs : List Bits) (vs : List Val) :
      kindOf E f = some k → b.length = f.width → 0 < f.width →
      SliceOK E.membersOf k b → check E.membersOf k b v = true → (f.varlen = true → v ≠ .str []) →
      Wire E fs bs vs → Wire E (f :: fs) (b :: bs) (v :: vs)

/-- what the standard assigns to a slice is unique (for enumerations: when the code is a member) -/
theorem check_unique (members : String → List Int) (k : Kind) (b : Bits) (v v' : Val)
    (hok : SliceOK members k b) (h : check members k b v = true) (h' : check members k b v' = true) :
    v' = v := by
  cases k with
  | e cls =>
    have hm := hok.2 cls rfl
    unfold check at h h'
    simp only at h h'
    cases v with
    | enum c m =>
      cases v' with
      | enum c' m' =>
        simp only [hm, Bool.not_true, Bool.false_or, beq_iff_eq, Bool.and_eq_true] at h h'
        rw [h.1.1.1, h.1.2, h'.1.1.1, h'.1.2]
      | _ => simp at h'
    | _ => simp at h
  | _ =>
    simp only [check, beq_iff_eq] at h h'
    rw [h, h']

theorem EmptyTextTail.uncons {E : EnumInfo} {f g : Field} {fs : List Field} {bits : Bits}
    (h : EmptyTextTail E (f :: g :: fs) bits) (hw : f.width ≤ bits.length) :
    EmptyTextTail E (g :: fs) (bits.drop f.width) := by
  obtain ⟨l, hl, hv, hk, hlt, hd⟩ := h
  rw [List.getLast?_cons_cons] at hl
  rw [List.dropLast_cons_cons, widthSum_cons] at hlt hd
  refine ⟨l, hl, hv, hk, ?_, ?_⟩
  · rw [List.length_drop]; omega
  · rw [List.drop_drop]; exact hd

theorem padZero_cons {E : EnumInfo} (f : Field) (fs : List Field) (b rest : Bits)
    (hb : b.length = f.width)
    (hh : kindOf E f = some .t → ∀ x ∈ b.drop (b.length / 6 * 6), x = false)
    (ht : PadZero E fs rest) : PadZero E (f :: fs) (b ++ rest) := by
  intro p hp hk x hx
  simp only [offsetsFrom, List.mem_cons, Nat.zero_add] at hp
  rcases hp with rfl | hp
  · simp only at hx hk
    rw [fieldSlice_zero, List.take_append_of_le_length (by omega), List.take_of_length_le (by omega)] at hx
    exact hh hk x hx
  · have hs := offsetsFrom_shift f.width 0 fs
    rw [Nat.add_zero] at hs
    rw [hs] at hp
    obtain ⟨q, hq, rfl⟩ := List.mem_map.mp hp
    simp only at hx hk
    have e : fieldSlice (b ++ rest) (f.width + q.2) q.1.width = fieldSlice rest q.2 q.1.width := by
      have := fieldSlice_drop (b ++ rest) f.width q.2 q.1.width
      rw [← this, ← hb, List.drop_left]
    rw [e] at hx
    exact ht q hq hk x hx

/-- **Every assignment of wire-representable values is a decodable payload**: the concatenated
slices decode, with the table read from the source, to exactly the values the standard assigns;
the payload ends on a field boundary (or inside the variable-length tail), its padding bits are
zero, and its variable-length text (if any) is not empty. -/
theorem wire_decode (env : Env) (E : EnumInfo) (htab : TablesOk env E = true)
    (fs : List Field) (bs : List Bits) (vs : List Val) (h : Wire E fs bs vs) :
    seqDecode env bs.flatten 0 fs = .ok ((fs.map (·.name)).zip vs) ∧
    PadZero E fs bs.flatten ∧ OnBoundary fs bs.flatten.length ∧ ¬ EmptyTextTail E fs bs.flatten ∧
    bs.flatten.length ≤ widthSum fs := by
  induction h with
  | nil =>
    refine ⟨rfl, ?_, Or.inl ⟨0, Nat.le_refl _, rfl⟩, ?_, by simp [widthSum]⟩
    · intro p hp; simp [offsetsFrom] at hp
    · rintro ⟨f, hf, _⟩; simp at hf
  | last f k b v hk hv hkind hpos hle hok hc hne =>
    simp only [List.flatten_cons, List.flatten_nil, List.append_nil, List.map_cons, List.map_nil,
      List.zip_cons_cons, List.zip_nil_right]
    have hbne : b ≠ [] := by intro e; rw [e] at hpos; simp at hpos
    obtain ⟨ht, hd⟩ := decodeField_td env E f k hk hkind b
    have hdec : decodeField env f b = .ok v := by
      rcases hkind with rfl | rfl
      · rw [ht rfl]
        simp only [check, beq_iff_eq] at hc
        rw [hc, decodeAscii6_eq_text b (hok.1 rfl)]
      · rw [hd rfl]
        simp only [check, beq_iff_eq] at hc
        rw [hc]
    refine ⟨?_, ?_, ?_, ?_, ?_⟩
    · apply seqDecode_cons_zero env b f [] v [] hbne
      · rw [List.take_of_length_le hle]; exact hdec
      · rfl
    · intro p hp hkp x hx
      simp only [offsetsFrom, List.mem_cons, List.mem_nil_iff, or_false] at hp
      subst hp
      simp only at hx hkp
      rw [fieldSlice_zero, List.take_of_length_le hle] at hx
      rw [hk] at hkp
      cases hkp
      exact hok.1 rfl x hx
    · exact Or.inr ⟨f, rfl, hv, by simp [widthSum]; exact hpos, by simp [widthSum]; exact hle⟩
    · rintro ⟨l, hl, _, hkl, _, hd0⟩
      simp only [List.getLast?_singleton, Option.some.injEq] at hl
      subst hl
      rw [hk] at hkl
      cases hkl
      simp only [List.dropLast_singleton, widthSum_nil, List.drop_zero] at hd0
      simp only [check, beq_iff_eq] at hc
      rw [← decodeAscii6_eq_text b (hok.1 rfl), hd0] at hc
      exact hne hc
    · simp [widthSum]; exact hle
  | cons f k b v fs bs vs hk hlen hw hok hc hvne hrest ih =>
    obtain ⟨ih1, ih2, ih3, ih4, ih5⟩ := ih
    simp only [List.flatten_cons, List.map_cons, List.zip_cons_cons]
    have hbne : b ++ bs.flatten ≠ [] := by
      intro e
      have := congrArg List.length e
      simp only [List.length_append, List.length_nil] at this
      omega
    obtain ⟨v', hd', hc'⟩ := decodeField_spec env E htab f k hk b hlen hw hok.1
    have hvv : v' = v := check_unique E.membersOf k b v v' hok hc hc'
    subst hvv
    refine ⟨?_, ?_, ?_, ?_, ?_⟩
    · apply seqDecode_cons_zero env _ f fs v' _ hbne
      · rw [← hlen, List.take_left]; exact hd'
      · rw [← hlen, List.drop_left]; exact ih1
    · exact padZero_cons f fs b bs.flatten hlen (fun hkt => hok.1 (by rw [hk] at hkt; cases hkt; rfl)) ih2
    · rw [List.length_append, hlen]
      rcases ih3 with ⟨j, hj, hL⟩ | ⟨l, hl, hvl, h1, h2⟩
      · exact Or.inl ⟨j + 1, by simp only [List.length_cons]; omega,
          by rw [List.take_succ_cons, widthSum_cons, hL]⟩
      · cases fs with
        | nil => simp at hl
        | cons g fs' =>
          refine Or.inr ⟨l, by rw [List.getLast?_cons_cons]; exact hl, hvl, ?_, ?_⟩
          · rw [List.dropLast_cons_cons, widthSum_cons]; omega
          · rw [widthSum_cons]; omega
    · intro hE
      cases fs with
      | nil =>
        obtain ⟨l, hl, hvl, hkl, hlt, hd0⟩ := hE
        simp only [List.getLast?_singleton, Option.some.injEq] at hl
        subst hl
        cases hrest
        simp only [List.dropLast_singleton, widthSum_nil, List.drop_zero, List.flatten_nil,
          List.append_nil] at hd0
        rw [hk] at hkl
        cases hkl
        simp only [check, beq_iff_eq] at hc
        rw [← decodeAscii6_eq_text b (hok.1 rfl), hd0] at hc
        exact hvne hvl hc
      | cons g fs' =>
        have hle : f.width ≤ (b ++ bs.flatten).length := by rw [List.length_append]; omega
        have := hE.uncons hle
        rw [← hlen, List.drop_left] at this
        exact ih4 this
    · rw [List.length_append, widthSum_cons]; omega

end Model
