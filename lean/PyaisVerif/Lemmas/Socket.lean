import PyaisVerif.Model.Socket
/-!
# Socket line splitting is independent of the chunking (generic part of C06)

`splitLF` is the specification view: cut after every LF, carry the unterminated rest.
`Model.splitlines` is Python's `bytes.splitlines(keepends=True)` (LF, CR and CRLF are boundaries);
on a chunk in which every CR is followed by LF or is the chunk's last byte the two coincide, and the
carry-over loop of `SocketStream.read` then computes `splitLF` of the concatenated stream.
-/
namespace Model
open Py

/-- LF-terminated line splitting with keepends: complete lines and the unterminated rest;
`acc` is the line under construction -/
def splitLF : Bytes → Bytes → List Bytes × Bytes
  | acc, [] => ([], acc)
  | acc, b :: bs =>
    if b = LF then
      let (ls, r) := splitLF [] bs
      ((acc ++ [b]) :: ls, r)
    else splitLF (acc ++ [b]) bs

/-- within a chunk every CR is followed by LF or is the last byte of the chunk -/
def NoBareCR : Bytes → Prop
  | [] => True
  | [_] => True
  | b :: c :: r => (b = CR → c = LF) ∧ NoBareCR (c :: r)

/-- in the whole stream every CR is immediately followed by LF -/
def CRLFOnly : Bytes → Prop
  | [] => True
  | [b] => b ≠ CR
  | b :: c :: r => (b = CR → c = LF) ∧ CRLFOnly (c :: r)

/-! ## unfolding lemmas for `splitLF` in projection form -/

theorem splitLF_nil (acc : Bytes) : splitLF acc [] = ([], acc) := by
  simp [splitLF]

theorem splitLF_cons_LF (acc bs : Bytes) :
    splitLF acc (LF :: bs) = ((acc ++ [LF]) :: (splitLF [] bs).1, (splitLF [] bs).2) := by
  simp [splitLF]

theorem splitLF_cons_ne (acc : Bytes) (b : Byte) (bs : Bytes) (h : b ≠ LF) :
    splitLF acc (b :: bs) = splitLF (acc ++ [b]) bs := by
  simp [splitLF, h]

/-- `splitLF_append` with projections instead of destructuring `let`s -/
theorem splitLF_append' (acc a b : Bytes) :
    splitLF acc (a ++ b) =
      ((splitLF acc a).1 ++ (splitLF (splitLF acc a).2 b).1, (splitLF (splitLF acc a).2 b).2) := by
  induction a generalizing acc with
  | nil => simp [splitLF_nil]
  | cons x t ih =>
    by_cases hx : x = LF
    · subst hx
      rw [List.cons_append, splitLF_cons_LF, splitLF_cons_LF, ih]
      simp
    · rw [List.cons_append, splitLF_cons_ne _ _ _ hx, splitLF_cons_ne _ _ _ hx, ih]

theorem splitLF_append (acc a b : Bytes) :
    splitLF acc (a ++ b) =
      let (ls, r) := splitLF acc a
      let (ls', r') := splitLF r b
      (ls ++ ls', r') := by
  rw [splitLF_append']

/-! ## CR discipline -/

theorem NoBareCR_tail (x : Byte) (l : Bytes) (h : NoBareCR (x :: l)) : NoBareCR l := by
  cases l with
  | nil => simp [NoBareCR]
  | cons y r => exact h.2

theorem CRLFOnly_tail (x : Byte) (l : Bytes) (h : CRLFOnly (x :: l)) : CRLFOnly l := by
  cases l with
  | nil => simp [CRLFOnly]
  | cons y r => exact h.2

/-- a suffix of a CRLF-only stream is CRLF-only -/
theorem CRLFOnly_suffix (a b : Bytes) (h : CRLFOnly (a ++ b)) : CRLFOnly b := by
  induction a with
  | nil => simpa using h
  | cons x t ih => exact ih (CRLFOnly_tail x (t ++ b) h)

/-- a contiguous piece of a CRLF-only stream has no bare CR (a CR may be its last byte) -/
theorem noBareCR_of_prefix (a b : Bytes) (h : CRLFOnly (a ++ b)) : NoBareCR a := by
  induction a with
  | nil => simp [NoBareCR]
  | cons x t ih =>
    cases t with
    | nil => simp [NoBareCR]
    | cons y r =>
      have h' : (x = CR → y = LF) ∧ CRLFOnly (y :: (r ++ b)) := h
      exact ⟨h'.1, ih h'.2⟩

/-! ## `splitlines` versus `splitLF` -/

/-- Python's `splitlines(keepends=True)` on a chunk without bare CR: the complete LF-terminated
lines followed by the unterminated rest (if any) -/
theorem splitlines_eq_splitLF (acc c : Bytes) (h : NoBareCR c) :
    splitlinesAux acc c =
      (splitLF acc c).1 ++ (if (splitLF acc c).2 = [] then [] else [(splitLF acc c).2]) := by
  fun_induction splitlinesAux acc c with
  | case1 acc he => simp [splitLF_nil, List.isEmpty_iff.1 he]
  | case2 acc he =>
    have : acc ≠ [] := fun e => he (List.isEmpty_iff.2 e)
    simp [splitLF_nil, this]
  | case3 acc b _ =>
    by_cases hb : b = LF
    · subst hb; simp [splitLF_cons_LF, splitLF_nil]
    · simp [splitLF_cons_ne _ _ _ hb, splitLF_nil]
  | case4 acc b _ =>
    by_cases hb : b = LF
    · subst hb; simp [splitLF_cons_LF, splitLF_nil]
    · simp [splitLF_cons_ne _ _ _ hb, splitLF_nil]
  | case5 acc c bs ih =>
    rw [splitLF_cons_LF, ih (NoBareCR_tail _ _ h)]
    simp
  | case6 acc bs hb ih =>
    have hbs : NoBareCR bs := NoBareCR_tail _ _ (NoBareCR_tail _ _ h)
    rw [splitLF_cons_ne _ _ _ hb, splitLF_cons_LF, ih hbs]
    simp
  | case7 acc c bs hc hb ih =>
    exact absurd (h.1 rfl) hc
  | case8 acc b c bs hb hb' ih =>
    rw [splitLF_cons_ne _ _ _ hb, ih (NoBareCR_tail _ _ h)]

/-- the first piece of a non-empty chunk simply continues the carried partial line -/
theorem splitlinesAux_prepend (c : Bytes) (hne : c ≠ []) :
    ∃ l0 rest, ∀ acc, splitlinesAux acc c = (acc ++ l0) :: rest := by
  induction c with
  | nil => exact absurd rfl hne
  | cons b t ih =>
    cases t with
    | nil => exact ⟨[b], [], fun acc => by simp [splitlinesAux]⟩
    | cons c bs =>
      by_cases hb : b = LF
      · exact ⟨[b], splitlinesAux [] (c :: bs), fun acc => by simp [splitlinesAux, hb]⟩
      · by_cases hb' : b = CR
        · by_cases hc : c = LF
          · exact ⟨[b, c], splitlinesAux [] bs, fun acc => by
              subst hb' hc; simp [splitlinesAux, CR, LF]⟩
          · exact ⟨[b], splitlinesAux [] (c :: bs), fun acc => by
              simp [splitlinesAux, hb', hc]⟩
        · obtain ⟨l0, rest, hall⟩ := ih (by simp)
          exact ⟨b :: l0, rest, fun acc => by simp [splitlinesAux, hb, hb', hall]⟩

/-- every complete line ends with LF -/
theorem splitLF_lines_end (acc c : Bytes) : ∀ l ∈ (splitLF acc c).1, l.getLast? = some LF := by
  induction c generalizing acc with
  | nil => simp [splitLF_nil]
  | cons b t ih =>
    by_cases hb : b = LF
    · subst hb
      rw [splitLF_cons_LF]
      intro l hl
      rcases List.mem_cons.1 hl with rfl | hl
      · simp
      · exact ih [] l hl
    · rw [splitLF_cons_ne _ _ _ hb]; exact ih _

/-- after a non-empty chunk the carried rest, if any, does not end with LF -/
theorem splitLF_rest_end (acc c : Bytes) (hne : c ≠ []) (hr : (splitLF acc c).2 ≠ []) :
    (splitLF acc c).2.getLast? ≠ some LF := by
  induction c generalizing acc with
  | nil => exact absurd rfl hne
  | cons b t ih =>
    by_cases hb : b = LF
    · subst hb
      rw [splitLF_cons_LF] at hr ⊢
      cases t with
      | nil => simp [splitLF_nil] at hr
      | cons c bs => exact ih [] (by simp) hr
    · rw [splitLF_cons_ne _ _ _ hb] at hr ⊢
      cases t with
      | nil => simpa [splitLF_nil] using hb
      | cons c bs => exact ih _ (by simp) hr

/-- one `recv()` result: the reader's step computes `splitLF` with the carried partial line -/
theorem sockStep_eq (part c : Bytes) (hne : c ≠ []) (h : NoBareCR c) :
    sockStep part c = splitLF part c := by
  obtain ⟨l0, rest, hall⟩ := splitlinesAux_prepend c hne
  have h0 : splitlines c = l0 :: rest := by simpa [splitlines] using hall []
  have hp := hall part
  rw [splitlines_eq_splitLF part c h] at hp
  have hend := splitLF_lines_end part c
  have hrest := splitLF_rest_end part c hne
  unfold sockStep
  rw [h0]
  simp only
  rw [← hp]
  generalize splitLF part c = p at hp hend hrest ⊢
  obtain ⟨L, r⟩ := p
  simp only at hp hend hrest ⊢
  by_cases hr : r = []
  · subst hr
    simp only [if_true, List.append_nil] at hp ⊢
    have hL : L ≠ [] := by rw [hp]; simp
    have hlast : L.getLast? = some (L.getLast hL) := List.getLast?_eq_some_getLast hL
    rw [hlast]
    have : endsWithLF (L.getLast hL) = true := by
      simp [endsWithLF, hend _ (List.getLast_mem hL)]
    simp [this]
  · have : endsWithLF r = false := by
      simpa [endsWithLF] using hrest hr
    simp [hr, this]

/-- the whole reader, for any carried partial line -/
theorem sockRead_eq (part : Bytes) (chunks : List Bytes) (hne : ∀ c ∈ chunks, c ≠ [])
    (hcr : ∀ c ∈ chunks, NoBareCR c) :
    sockRead part chunks = (splitLF part chunks.flatten).1 := by
  induction chunks generalizing part with
  | nil => simp [sockRead, splitLF_nil]
  | cons c cs ih =>
    have hc : c ≠ [] := hne c (by simp)
    have ih' := fun p => ih p (fun c' hc' => hne c' (by simp [hc']))
      (fun c' hc' => hcr c' (by simp [hc']))
    rw [List.flatten_cons, splitLF_append']
    unfold sockRead
    rw [sockStep_eq part c hc (hcr c (by simp))]
    simp [hc, ih']

/-- every chunk of a chunking of a CRLF-only stream has no bare CR -/
theorem chunks_noBareCR (chunks : List Bytes) (h : CRLFOnly chunks.flatten) :
    ∀ c ∈ chunks, NoBareCR c := by
  induction chunks with
  | nil => simp
  | cons c cs ih =>
    rw [List.flatten_cons] at h
    intro c' hc'
    rcases List.mem_cons.1 hc' with rfl | hc'
    · exact noBareCR_of_prefix _ _ h
    · exact ih (CRLFOnly_suffix _ _ h) c' hc'

/-- a terminated line in front of a stream is split off as is -/
theorem splitLF_content (acc content rest : Bytes) (h : LF ∉ content) :
    splitLF acc (content ++ LF :: rest) =
      ((acc ++ content ++ [LF]) :: (splitLF [] rest).1, (splitLF [] rest).2) := by
  induction content generalizing acc with
  | nil => simp [splitLF_cons_LF]
  | cons x t ih =>
    have hx : x ≠ LF := fun e => h (by simp [e])
    have ht : LF ∉ t := fun e => h (by simp [e])
    rw [List.cons_append, splitLF_cons_ne _ _ _ hx, ih _ ht]
    simp

/-- the specification on a stream of terminated lines: exactly the lines -/
theorem splitLF_lines (lines : List Bytes)
    (h : ∀ l ∈ lines, ∃ content, l = content ++ [LF] ∧ LF ∉ content) :
    splitLF [] lines.flatten = (lines, []) := by
  induction lines with
  | nil => simp [splitLF_nil]
  | cons l ls ih =>
    obtain ⟨content, rfl, hc⟩ := h l (by simp)
    have ih' := ih (fun l' hl' => h l' (by simp [hl']))
    rw [List.flatten_cons, List.append_assoc, List.singleton_append, splitLF_content _ _ _ hc, ih']
    simp

end Model
