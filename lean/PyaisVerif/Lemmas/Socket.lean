import PyaisVerif.Model.Socket
/-!
# Socket line splitting is independent of the chunking (generic part of C06)

`splitLF` is the specification view: cut after every LF, carry the unterminated rest.
`Model.splitlines` is Python's `bytes.splitlines(keepends=True)` (LF, CR and CRLF are boundaries);
on a chunk in which every CR is followed by LF or is the chunk's last byte the two coincide, and the
carry-over loop of `SocketStream.read` then computes `splitLF` of the concatenated stream.
-/
namespace Model
open Py

/-- LF-terminated line splitting with keepends: complete lines and the unterminated rest;
`acc` is the line under construction -/
def splitLF : Bytes → Bytes → List Bytes × Bytes
  | acc, [] => ([], acc)
  | acc, b :: bs =>
    if b = LF then
      let (ls, r) := splitLF [] bs
      ((acc ++ [b]) :: ls, r)
    else splitLF (acc ++ [b]) bs

/-- within a chunk every CR is followed by LF or is the last byte of the chunk -/
def NoBareCR : Bytes → Prop
  | [] => True
  | [_] => True
  | b :: c :: r => (b = CR → c = LF) ∧ NoBareCR (c :: r)

/-- in the whole stream every CR is immediately followed by LF -/
def CRLFOnly : Bytes → Prop
  | [] => True
  | [b] => b ≠ CR
  | b :: c :: r => (b = CR → c = LF) ∧ CRLFOnly (c :: r)

theorem splitLF_append (acc a b : Bytes) :
    splitLF acc (a ++ b) =
      let (ls, r) := splitLF acc a
      let (ls', r') := splitLF r b
      (ls ++ ls', r') := by
  sorry

/-- a contiguous piece of a CRLF-only stream has no bare CR (a CR may be its last byte) -/
theorem noBareCR_of_prefix (a b : Bytes) (h : CRLFOnly (a ++ b)) : NoBareCR a := by
  sorry

/-- Python's `splitlines(keepends=True)` on a chunk without bare CR: the complete LF-terminated
lines followed by the unterminated rest (if any) -/
theorem splitlines_eq_splitLF (acc c : Bytes) (h : NoBareCR c) :
    splitlinesAux acc c =
      (splitLF acc c).1 ++ (if (splitLF acc c).2 = [] then [] else [(splitLF acc c).2]) := by
  sorry

/-- one `recv()` result: the reader's step computes `splitLF` with the carried partial line -/
theorem sockStep_eq (part c : Bytes) (hne : c ≠ []) (h : NoBareCR c) :
    sockStep part c = splitLF part c := by
  sorry

/-- the whole reader, for any carried partial line -/
theorem sockRead_eq (part : Bytes) (chunks : List Bytes) (hne : ∀ c ∈ chunks, c ≠ [])
    (hcr : ∀ c ∈ chunks, NoBareCR c) :
    sockRead part chunks = (splitLF part chunks.flatten).1 := by
  sorry

/-- every chunk of a chunking of a CRLF-only stream has no bare CR -/
theorem chunks_noBareCR (chunks : List Bytes) (h : CRLFOnly chunks.flatten) :
    ∀ c ∈ chunks, NoBareCR c := by
  sorry

/-- the specification on a stream of terminated lines: exactly the lines -/
theorem splitLF_lines (lines : List Bytes)
    (h : ∀ l ∈ lines, ∃ content, l = content ++ [LF] ∧ LF ∉ content) :
    splitLF [] lines.flatten = (lines, []) := by
  sorry

end Model
