import PyaisVerif.Lemmas.TextRT
import PyaisVerif.Lemmas.FieldRTAux
/-!
# One field: decode, encode, decode again (field part of C08 / C02)
-/
namespace Model
open Py Spec

/-- do the encode-side converters of the field match its ITU kind? (`fromRot` = the tabulated
encode-side rate-of-turn converters) -/
def fromConvOK (E : EnumInfo) (fromRot : List String) (f : Field) (k : Kind) : Bool :=
  match k with
  | .u => f.fromConv == .none || f.fromConv == .int
  | .uf | .b | .t | .d => f.fromConv == .none
  | .e cls =>
    (match f.fromConv with
     | .none => true
     | .table n => (match E.tables.lookup n with
        | some (c, w) => c == cls && w == f.width
        | none => false)
     | _ => false)
  | .U1 | .I1 => f.fromConv == .mulK 10
  | .I4 => f.fromConv == .mulRound 600000
  | .I600 => f.fromConv == .mulRound 600
  | .ROT => (match f.fromConv with
     | .table n => fromRot.contains n
     | _ => false)

/-- finite side condition on the rate-of-turn tables (decidable): encoding a decoded rate of turn
and decoding it again is the identity on all 256 raw values -/
def RotTablesOk (env : Env) (E : EnumInfo) (fromRot : List String) : Bool :=
  E.rotTables.all fun tn => fromRot.all fun fn =>
    match env.convTables.lookup tn, env.convTables.lookup fn with
    | some toT, some fromT => (List.range 256).all fun i =>
        match toT.lookup ((i : Int) - 128) with
        | some v => (match v.key with
          | some kk => (match fromT.lookup kk with
            | some (.int r) => decide (-128 ≤ r ∧ r ≤ 127) && (toT.lookup r == some v)
            | _ => false)
          | none => false)
        | none => false
    | _, _ => false

/-- the field is not normalised by decoding: the re-encoded bits are the received ones -/
def ExactField (env : Env) (E : EnumInfo) (fromRot : List String) (f : Field) (k : Kind) (bits : Bits) : Prop :=
  match k with
  | .e cls => (E.membersOf cls).contains (toNat bits : Int) = true
  | .t => CanonWire bits
  | .ROT => ∀ tn ∈ E.rotTables, ∀ fn ∈ fromRot, ∀ toT fromT,
      env.convTables.lookup tn = some toT → env.convTables.lookup fn = some fromT →
      ∃ v kk, toT.lookup (toInt bits) = some v ∧ v.key = some kk ∧ fromT.lookup kk = some (.int (toInt bits))
  | _ => True

/-- finite side condition on the enum tables (decidable), needed in addition to `TablesOk` for the
re-encoding theorem: the member value an enum table assigns to a raw value fits the raw width again
(so `int_to_bin` neither raises `OverflowError` nor saturates) and is a fixed point of the table.
Without it `field_reencode` is false: a width-1 table `0 ↦ C(0), 1 ↦ C(-1)` satisfies `TablesOk`,
but encoding `C(-1)` raises; a width-2 table `2 ↦ C(7)` re-encodes as `11`, which decodes to the
row of 3. -/
def EnumRTOk (env : Env) (E : EnumInfo) : Bool :=
  E.tables.all fun (n, cls, w) =>
    match env.convTables.lookup n with
    | some tbl => (List.range (2 ^ w)).all fun raw =>
        match tbl.lookup (raw : Int) with
        | some (.enum _ m) => decide (0 ≤ m) && decide (m.toNat < 2 ^ w) &&
            (tbl.lookup m == some (.enum cls m))
        | _ => false
    | none => false

theorem enumRTOk_spec (env : Env) (E : EnumInfo) (henum : EnumRTOk env E = true)
    (n cls : String) (w : Nat) (hl : E.tables.lookup n = some (cls, w))
    (tbl : List (Int × Val)) (htbl : env.convTables.lookup n = some tbl)
    (raw : Nat) (hraw : raw < 2 ^ w) (c : String) (m : Int)
    (hcm : tbl.lookup (raw : Int) = some (.enum c m)) :
    0 ≤ m ∧ m.toNat < 2 ^ w ∧ tbl.lookup m = some (.enum cls m) := by
  unfold EnumRTOk at henum
  have h1 := List.all_eq_true.mp henum _ (lookup_mem _ _ _ hl)
  simp only [htbl] at h1
  have h2 := List.all_eq_true.mp h1 raw (List.mem_range.mpr hraw)
  simp only [hcm, Bool.and_eq_true, decide_eq_true_eq, beq_iff_eq] at h2
  exact ⟨h2.1.1, h2.1.2, h2.2⟩

theorem rotTablesOk_spec (env : Env) (E : EnumInfo) (fromRot : List String)
    (hrot : RotTablesOk env E fromRot = true) (tn : String) (htn : tn ∈ E.rotTables)
    (fn : String) (hfn : fn ∈ fromRot) (raw : Int) (hr : -128 ≤ raw ∧ raw ≤ 127) :
    ∃ toT fromT v kk r, env.convTables.lookup tn = some toT ∧ env.convTables.lookup fn = some fromT ∧
      toT.lookup raw = some v ∧ v.key = some kk ∧ fromT.lookup kk = some (.int r) ∧
      -128 ≤ r ∧ r ≤ 127 ∧ toT.lookup r = some v := by
  unfold RotTablesOk at hrot
  have h1 := List.all_eq_true.mp (List.all_eq_true.mp hrot _ htn) _ hfn
  split at h1
  · rename_i toT fromT htoT hfromT
    have h2 := List.all_eq_true.mp h1 (raw + 128).toNat (List.mem_range.mpr (by omega))
    have e : (((raw + 128).toNat : Nat) : Int) - 128 = raw := by omega
    rw [e] at h2
    split at h2
    · rename_i v hv
      split at h2
      · rename_i kk hkk
        split at h2
        · rename_i r hfr
          simp only [Bool.and_eq_true, decide_eq_true_eq, beq_iff_eq] at h2
          exact ⟨toT, fromT, v, kk, r, htoT, hfromT, hv, hkk, hfr, h2.1.1, h2.1.2, h2.2⟩
        · simp at h2
      · simp at h2
    · simp at h2
  · simp at h1

/-- the part of `encodeField` after the encode-side converter -/
def encodeCore (f : Field) (v : Val) : Except Err Bits :=
  match f.dtype with
    | .int | .bool =>
      match v with
      | .int i => intToBin i f.width f.signed
      | .bool b => intToBin (if b then 1 else 0) f.width f.signed
      | .enum _ i => intToBin i f.width f.signed
      | _ => .error .outsideModel
    | .float =>
      match v.micro with
      | some m => intToBin (truncDiv m MICRO) f.width f.signed
      | Option.none => .error .typeError
    | .str =>
      match v with
      | .str s => strToBin s f.width (!f.varlen)
      | _ => .error .outsideModel
    | .bytes =>
      match v with
      | .bytes bs => .ok (if bs.isEmpty then (if f.varlen then [] else zeros f.width) else ofBytes bs)
      | _ => .error .outsideModel

theorem encodeField_of (env : Env) (f : Field) (v v' : Val) (b : Bits)
    (h1 : applyConv env f.fromConv v = .ok v') (h2 : encodeCore f v' = .ok b) :
    encodeField env f v = .ok (b.take f.width) := by
  unfold encodeField
  rw [h1]
  unfold encodeCore at h2
  simp only [bind, Except.bind]
  cases hd : f.dtype <;> simp only [hd] at h2 ⊢ <;> split at h2 <;>
    first
    | (simp at h2; done)
    | (simp only [h2]; done)
    | (injection h2 with h2; subst h2; rfl)
    | (rename_i heq; simp only [heq, h2]; done)

theorem applyConv_table (env : Env) (n : String) (v r : Val) (tbl : List (Int × Val)) (i : Int)
    (h1 : env.convTables.lookup n = some tbl) (h2 : v.key = some i) (h3 : tbl.lookup i = some r) :
    applyConv env (.table n) v = .ok r := by
  simp [applyConv, h1, h2, h3]

theorem decodeField_plain (env : Env) (f : Field) (bits : Bits) (ht : f.toConv = .none)
    (ha : f.attrConv = .none) : decodeField env f bits = .ok (decodeRaw f bits) := by
  rw [decodeField_of_attr_none _ _ _ ha, ht]; rfl


/-! ## packaging -/

theorem reencode_pack (env : Env) (E : EnumInfo) (fromRot : List String) (f : Field) (k : Kind)
    (bits : Bits) (v : Val) (b : Bits) (hkt : k ≠ .t)
    (hdec : decodeField env f bits = .ok v) (hv : v ≠ .none)
    (henc : encodeField env f v = .ok b) (hbl : b.length = f.width)
    (hdec2 : decodeField env f b = .ok v)
    (hex : ExactField env E fromRot f k bits → b = bits) :
    ∃ v bits', decodeField env f bits = .ok v ∧ v ≠ .none ∧ encodeField env f v = .ok bits' ∧
      bits'.length = (if k = .t then 6 * (f.width / 6) else f.width) ∧
      (∀ pad, k = .t → decodeField env f (bits' ++ zeros pad) = .ok v) ∧
      (k ≠ .t → decodeField env f bits' = .ok v) ∧
      (ExactField env E fromRot f k bits → bits' = bits.take bits'.length) := by
  refine ⟨v, b, hdec, hv, henc, by rw [if_neg hkt]; exact hbl, fun _ h => absurd h hkt,
    fun _ => hdec2, ?_⟩
  intro h
  rw [hex h, List.take_length]

theorem reencode_same (env : Env) (E : EnumInfo) (fromRot : List String) (f : Field) (k : Kind)
    (bits : Bits) (v : Val) (hkt : k ≠ .t) (hlen : bits.length = f.width)
    (hdec : decodeField env f bits = .ok v) (hv : v ≠ .none)
    (henc : encodeField env f v = .ok bits) :
    ∃ v bits', decodeField env f bits = .ok v ∧ v ≠ .none ∧ encodeField env f v = .ok bits' ∧
      bits'.length = (if k = .t then 6 * (f.width / 6) else f.width) ∧
      (∀ pad, k = .t → decodeField env f (bits' ++ zeros pad) = .ok v) ∧
      (k ≠ .t → decodeField env f bits' = .ok v) ∧
      (ExactField env E fromRot f k bits → bits' = bits.take bits'.length) :=
  reencode_pack env E fromRot f k bits v bits hkt hdec hv henc hlen hdec (fun _ => rfl)

theorem truncDiv_tenth (r : Int) : truncDiv (r * 100000 * ((10 : Nat) : Int)) MICRO = r := by
  have : r * 100000 * ((10 : Nat) : Int) = r * MICRO := by unfold MICRO; omega
  rw [this, truncDiv_mul_micro]

/-! ## tabulated converters: enumerations and rate of turn -/

theorem table_reencode (env : Env) (E : EnumInfo) (fromRot : List String)
    (htab : TablesOk env E = true) (hrot : RotTablesOk env E fromRot = true)
    (henum : EnumRTOk env E = true) (f : Field) (n : String) (k : Kind)
    (hk : tableKind E n f = some k) (hfk : fromConvOK E fromRot f k = true)
    (hdf : ∀ bs, decodeField env f bs = applyConv env (.table n) (decodeRaw f bs))
    (bits : Bits) (hlen : bits.length = f.width) :
    k ≠ .t ∧ ∃ v b, decodeField env f bits = .ok v ∧ v ≠ .none ∧ encodeField env f v = .ok b ∧
      b.length = f.width ∧ decodeField env f b = .ok v ∧
      (ExactField env E fromRot f k bits → b = bits) := by
  unfold tableKind at hk
  split at hk
  · rename_i cls w hl
    split at hk
    · rename_i hc
      obtain ⟨hww, hd, hs⟩ := hc
      cases hk
      subst hww
      refine ⟨by simp, ?_⟩
      have hraw : toNat bits < 2 ^ f.width := by rw [← hlen]; exact toNat_lt bits
      obtain ⟨tbl, c, m, htbl, hcm, hok⟩ := tablesOk_enum env E htab n cls _ hl _ hraw
      simp only [Bool.and_eq_true, Bool.or_eq_true, Bool.not_eq_true', beq_iff_eq] at hok
      obtain ⟨⟨⟨hc, hmem⟩, hexm⟩, _⟩ := hok
      subst hc
      obtain ⟨hm0, hmlt, hmm⟩ := enumRTOk_spec env E henum n c _ hl tbl htbl _ hraw c m hcm
      have hkey : ∀ bs, (decodeRaw f bs).key = some (toNat bs : Int) := by
        intro bs
        rw [decodeRaw_key f bs (.inl hd)]
        simp [rawOf, hs]
      have hdec : decodeField env f bits = .ok (.enum c m) := by
        rw [hdf]
        exact applyConv_table env n _ _ tbl _ htbl (hkey bits) hcm
      have hconv : ∃ c', applyConv env f.fromConv (.enum c m) = .ok (.enum c' m) := by
        simp only [fromConvOK] at hfk
        split at hfk
        · rename_i h
          rw [h]; exact ⟨c, rfl⟩
        · rename_i n' h
          split at hfk
          · rename_i c2 w2 hl2
            simp only [Bool.and_eq_true, beq_iff_eq] at hfk
            obtain ⟨hc2, hw2⟩ := hfk
            subst hc2 hw2
            obtain ⟨tbl', c', m', htbl', hcm', hok'⟩ :=
              tablesOk_enum env E htab n' c2 _ hl2 m.toNat hmlt
            rw [Int.toNat_of_nonneg hm0] at hcm' hok'
            simp only [Bool.and_eq_true, Bool.or_eq_true, Bool.not_eq_true', beq_iff_eq] at hok'
            have hm' : m' = m := by
              rcases hok'.1.2 with h' | h'
              · rw [hmem] at h'; cases h'
              · exact h'
            subst hm'
            rw [h]
            exact ⟨c', applyConv_table env n' _ _ tbl' m' htbl' rfl hcm'⟩
          · simp at hfk
        · simp at hfk
      obtain ⟨c', hconv⟩ := hconv
      have hmlt' : m < 2 ^ f.width := by
        have : ((m.toNat : Nat) : Int) < ((2 ^ f.width : Nat) : Int) := by exact_mod_cast hmlt
        rw [Int.toNat_of_nonneg hm0] at this
        simpa using this
      have hcore : encodeCore f (.enum c' m) = .ok (ofNat f.width m.toNat) := by
        simp only [encodeCore, hd, hs]
        exact intToBin_unsigned m _ hm0 hmlt'
      have henc := encodeField_of env f _ _ _ hconv hcore
      rw [List.take_of_length_le (by simp)] at henc
      have hdec2 : decodeField env f (ofNat f.width m.toNat) = .ok (.enum c m) := by
        rw [hdf]
        refine applyConv_table env n _ _ tbl _ htbl (hkey _) ?_
        rw [toNat_ofNat, Nat.mod_eq_of_lt hmlt, Int.toNat_of_nonneg hm0]
        exact hmm
      refine ⟨.enum c m, ofNat f.width m.toNat, hdec, by simp, henc, by simp, hdec2, ?_⟩
      intro hex
      have hex' : (E.membersOf c).contains (toNat bits : Int) = true := hex
      have hmr : m = (toNat bits : Int) := by
        rcases hexm with h' | h'
        · rw [hex'] at h'; cases h'
        · exact h'
      rw [hmr, Int.toNat_natCast, ← hlen, ofNat_toNat]
    · simp at hk
  · rename_i hl
    split at hk
    · rename_i hc
      obtain ⟨hc, hd, hs, hw8⟩ := hc
      cases hk
      refine ⟨by simp, ?_⟩
      have htn : n ∈ E.rotTables := by simpa using hc
      simp only [fromConvOK] at hfk
      split at hfk
      · rename_i fn hfn
        have hfnm : fn ∈ fromRot := by simpa using hfk
        have hr := toInt_range8 bits (hlen.trans hw8)
        obtain ⟨toT, fromT, v, kk, r, htoT, hfromT, hv, hkk, hfr, hr1, hr2, hrv⟩ :=
          rotTablesOk_spec env E fromRot hrot n htn fn hfnm _ hr
        have hkey : ∀ bs, (decodeRaw f bs).key = some (toInt bs) := by
          intro bs
          rw [decodeRaw_key f bs (.inr hd)]
          simp [rawOf, hs]
        have hdec : decodeField env f bits = .ok v := by
          rw [hdf]
          exact applyConv_table env n _ _ toT _ htoT (hkey bits) hv
        have hvn : v ≠ .none := by
          intro h
          rw [h] at hkk
          simp [Val.key] at hkk
        have hconv : applyConv env f.fromConv v = .ok (.int r) := by
          rw [hfn]
          exact applyConv_table env fn _ _ fromT kk hfromT hkk hfr
        have h128 : (2 : Int) ^ (8 - 1) = 128 := by decide
        have hrr : -(2 : Int) ^ (8 - 1) ≤ r ∧ r < 2 ^ (8 - 1) := by
          rw [h128]; omega
        have hcore : encodeCore f (.int r) = .ok (ofInt 8 r) := by
          simp only [encodeCore, hd, hs, hw8, Val.micro, truncDiv_mul_micro]
          exact intToBin_signed r 8 (by decide) hrr
        have henc := encodeField_of env f _ _ _ hconv hcore
        rw [List.take_of_length_le (by simp [ofInt, hw8])] at henc
        have hdec2 : decodeField env f (ofInt 8 r) = .ok v := by
          rw [hdf]
          refine applyConv_table env n _ _ toT _ htoT (hkey _) ?_
          rw [toInt_ofInt 8 r (by decide) hrr]
          exact hrv
        refine ⟨v, ofInt 8 r, hdec, hvn, henc, by simp [ofInt, hw8], hdec2, ?_⟩
        intro hex
        obtain ⟨v', kk', h1, h2, h3⟩ := hex n htn fn hfnm toT fromT htoT hfromT
        rw [hv] at h1
        cases h1
        rw [hkk] at h2
        cases h2
        rw [hfr] at h3
        cases h3
        have := ofInt_toInt bits
        rw [hlen.trans hw8] at this
        exact this
      · simp at hfk
    · simp at hk

/-- **Fixed-width field, completely present.** Decoding yields a value (never `None`); encoding it
yields exactly `width` bits (for text of a width that is not a whole number of characters:
`6·⌊width/6⌋` bits); decoding those yields the same value; and the bits are the received ones unless
the field was normalised. -/
theorem field_reencode (env : Env) (E : EnumInfo) (fromRot : List String)
    (htab : TablesOk env E = true) (hrot : RotTablesOk env E fromRot = true)
    (henum : EnumRTOk env E = true)
    (f : Field) (k : Kind) (hk : kindOf E f = some k) (hfk : fromConvOK E fromRot f k = true)
    (hb1 : f.dtype = .bool → f.width = 1) (hvar : f.varlen = false)
    (bits : Bits) (hlen : bits.length = f.width) (hw : 0 < f.width)
    (hpad : k = .t → ∀ b ∈ bits.drop (bits.length / 6 * 6), b = false) :
    ∃ v bits', decodeField env f bits = .ok v ∧ v ≠ .none ∧ encodeField env f v = .ok bits' ∧
      bits'.length = (if k = .t then 6 * (f.width / 6) else f.width) ∧
      (∀ pad, k = .t → decodeField env f (bits' ++ zeros pad) = .ok v) ∧
      (k ≠ .t → decodeField env f bits' = .ok v) ∧
      (ExactField env E fromRot f k bits → bits' = bits.take bits'.length) := by
  have hwl : 0 < bits.length := by omega
  have htake : bits.take f.width = bits := by rw [← hlen, List.take_length]
  have hk0 := hk
  unfold kindOf at hk
  split at hk
  case h_1 hd hs ht ha =>
    cases hk
    have hdec : decodeField env f bits = .ok (.int (toNat bits)) := by
      rw [decodeField_plain _ _ _ ht ha, decodeRaw_unsigned _ _ hs, hd]
    simp only [fromConvOK, Bool.or_eq_true, beq_iff_eq] at hfk
    have hconv : applyConv env f.fromConv (.int (toNat bits)) = .ok (.int (toNat bits)) := by
      rcases hfk with h | h <;> rw [h] <;> rfl
    have hcore : encodeCore f (.int (toNat bits)) = .ok bits := by
      simp only [encodeCore, hd, hs, ← hlen]
      exact intToBin_toNat bits
    have henc := encodeField_of env f _ _ _ hconv hcore
    rw [htake] at henc
    exact reencode_same env E fromRot f _ bits _ (by simp) hlen hdec (by simp) henc
  case h_2 hd hs ht ha =>
    cases hk
    have hdec : decodeField env f bits = .ok (.flt ((toNat bits : Int) * MICRO)) := by
      rw [decodeField_plain _ _ _ ht ha, decodeRaw_unsigned _ _ hs, hd]
    simp only [fromConvOK, beq_iff_eq] at hfk
    have hconv : applyConv env f.fromConv (.flt ((toNat bits : Int) * MICRO))
        = .ok (.flt ((toNat bits : Int) * MICRO)) := by rw [hfk]; rfl
    have hcore : encodeCore f (.flt ((toNat bits : Int) * MICRO)) = .ok bits := by
      simp only [encodeCore, hd, hs, Val.micro, truncDiv_mul_micro, ← hlen]
      exact intToBin_toNat bits
    have henc := encodeField_of env f _ _ _ hconv hcore
    rw [htake] at henc
    exact reencode_same env E fromRot f _ bits _ (by simp) hlen hdec (by simp) henc
  case h_3 hd hs ht ha =>
    cases hk
    have hw1 := hb1 hd
    have hdec : decodeField env f bits = .ok (.bool (toNat bits != 0)) := by
      rw [decodeField_plain _ _ _ ht ha, decodeRaw_unsigned _ _ hs, hd]
    simp only [fromConvOK, beq_iff_eq] at hfk
    have hconv : applyConv env f.fromConv (.bool (toNat bits != 0))
        = .ok (.bool (toNat bits != 0)) := by rw [hfk]; rfl
    have hcore : encodeCore f (.bool (toNat bits != 0)) = .ok bits := by
      simp only [encodeCore, hd, hs, hw1]
      rw [hw1] at hlen
      match bits, hlen with
      | [true], _ => rfl
      | [false], _ => rfl
    have henc := encodeField_of env f _ _ _ hconv hcore
    rw [htake] at henc
    exact reencode_same env E fromRot f _ bits _ (by simp) hlen hdec (by simp) henc
  case h_4 hd hs ht ha =>
    cases hk
    have hdec : ∀ bs, decodeField env f bs = .ok (.str (decodeAscii6 bs)) := by
      intro bs
      rw [decodeField_plain _ _ _ ht ha, decodeRaw_unsigned _ _ hs, hd]
    simp only [fromConvOK, beq_iff_eq] at hfk
    have hcanon := decodeAscii6_canon bits
    have hslen : (decodeAscii6 bits).length ≤ f.width / 6 := by
      have := decodeAscii6_length_pad bits (hpad rfl)
      rwa [hlen] at this
    obtain ⟨b, hb, hbl, _⟩ := strToBin_canon_padded _ hcanon f.width hslen 0
    have hconv : applyConv env f.fromConv (.str (decodeAscii6 bits))
        = .ok (.str (decodeAscii6 bits)) := by rw [hfk]; rfl
    have hcore : encodeCore f (.str (decodeAscii6 bits)) = .ok b := by
      simp only [encodeCore, hd, hvar, Bool.not_false]
      exact hb
    have henc := encodeField_of env f _ _ _ hconv hcore
    rw [List.take_of_length_le (by omega)] at henc
    refine ⟨_, b, hdec bits, by simp, henc, by simp [hbl], ?_, fun h => absurd rfl h, ?_⟩
    · intro pad _
      obtain ⟨b', hb', _, hd'⟩ := strToBin_canon_padded _ hcanon f.width hslen pad
      rw [hb] at hb'
      cases hb'
      rw [hdec, hd']
    · intro hex
      obtain ⟨b0, h0, hb0⟩ : CanonWire bits := hex
      rw [hlen, hb] at h0
      cases h0
      rw [hb0, List.take_length]
  case h_5 hd hs ht ha =>
    cases hk
    have hdec : decodeField env f bits = .ok (.bytes (toBytes bits)) := by
      rw [decodeField_plain _ _ _ ht ha, decodeRaw_unsigned _ _ hs, hd]
    simp only [fromConvOK, beq_iff_eq] at hfk
    have hconv : applyConv env f.fromConv (.bytes (toBytes bits))
        = .ok (.bytes (toBytes bits)) := by rw [hfk]; rfl
    have hne : bits ≠ [] := by intro h; rw [h] at hwl; simp at hwl
    have hcore : encodeCore f (.bytes (toBytes bits)) = .ok (padRight8 bits) := by
      simp only [encodeCore, hd, List.isEmpty_iff, toBytes_ne_nil bits hne, if_false,
        ofBytes_toBytes]
    have henc := encodeField_of env f _ _ _ hconv hcore
    have ht8 : (padRight8 bits).take f.width = bits := by
      unfold padRight8
      exact List.take_left' hlen
    rw [ht8] at henc
    exact reencode_same env E fromRot f _ bits _ (by simp) hlen hdec (by simp) henc
  case h_6 hd hs ht ha =>
    cases hk
    obtain ⟨v, hdec, hchk⟩ := decodeField_spec env E htab f .U1
      hk0 bits hlen hw (fun h => by cases h)
    simp only [check, beq_iff_eq] at hchk
    subst hchk
    simp only [fromConvOK, beq_iff_eq] at hfk
    have hconv : applyConv env f.fromConv (.flt ((toNat bits : Int) * 100000))
        = .ok (.flt ((toNat bits : Int) * 100000 * ((10 : Nat) : Int))) := by rw [hfk]; rfl
    have hcore : encodeCore f (.flt ((toNat bits : Int) * 100000 * ((10 : Nat) : Int))) = .ok bits := by
      simp only [encodeCore, hd, hs, Val.micro, truncDiv_tenth, ← hlen]
      exact intToBin_toNat bits
    have henc := encodeField_of env f _ _ _ hconv hcore
    rw [htake] at henc
    exact reencode_same env E fromRot f _ bits _ (by simp) hlen hdec (by simp) henc
  case h_7 hd hs ht ha =>
    cases hk
    obtain ⟨v, hdec, hchk⟩ := decodeField_spec env E htab f .I1
      hk0 bits hlen hw (fun h => by cases h)
    simp only [check, beq_iff_eq] at hchk
    subst hchk
    simp only [fromConvOK, beq_iff_eq] at hfk
    have hconv : applyConv env f.fromConv (.flt (toInt bits * 100000))
        = .ok (.flt (toInt bits * 100000 * ((10 : Nat) : Int))) := by rw [hfk]; rfl
    have hcore : encodeCore f (.flt (toInt bits * 100000 * ((10 : Nat) : Int))) = .ok bits := by
      simp only [encodeCore, hd, hs, Val.micro, truncDiv_tenth, ← hlen]
      exact intToBin_toInt bits hwl
    have henc := encodeField_of env f _ _ _ hconv hcore
    rw [htake] at henc
    exact reencode_same env E fromRot f _ bits _ (by simp) hlen hdec (by simp) henc
  case h_8 hd hs ht ha =>
    cases hk
    obtain ⟨v, hdec, hchk⟩ := decodeField_spec env E htab f .I4
      hk0 bits hlen hw (fun h => by cases h)
    simp only [check, beq_iff_eq] at hchk
    subst hchk
    simp only [fromConvOK, beq_iff_eq] at hfk
    have hconv : applyConv env f.fromConv (.flt (roundHalfEvenDiv (toInt bits * 1000000) 600000))
        = .ok (.int (toInt bits)) := by
      rw [hfk]
      exact congrArg (fun x => Except.ok (Val.int x)) (rt_I4 (toInt bits))
    have hcore : encodeCore f (.int (toInt bits)) = .ok bits := by
      simp only [encodeCore, hd, hs, Val.micro, truncDiv_mul_micro, ← hlen]
      exact intToBin_toInt bits hwl
    have henc := encodeField_of env f _ _ _ hconv hcore
    rw [htake] at henc
    exact reencode_same env E fromRot f _ bits _ (by simp) hlen hdec (by simp) henc
  case h_9 hd hs ht ha =>
    cases hk
    obtain ⟨v, hdec, hchk⟩ := decodeField_spec env E htab f .I600
      hk0 bits hlen hw (fun h => by cases h)
    simp only [check, beq_iff_eq] at hchk
    subst hchk
    simp only [fromConvOK, beq_iff_eq] at hfk
    have hconv : applyConv env f.fromConv (.flt (roundHalfEvenDiv (toInt bits * 1000000) 600))
        = .ok (.int (toInt bits)) := by
      rw [hfk]
      exact congrArg (fun x => Except.ok (Val.int x)) (rt_I600 (toInt bits))
    have hcore : encodeCore f (.int (toInt bits)) = .ok bits := by
      simp only [encodeCore, hd, hs, Val.micro, truncDiv_mul_micro, ← hlen]
      exact intToBin_toInt bits hwl
    have henc := encodeField_of env f _ _ _ hconv hcore
    rw [htake] at henc
    exact reencode_same env E fromRot f _ bits _ (by simp) hlen hdec (by simp) henc
  case h_10 n ht ha =>
    obtain ⟨hkt, v, b, h1, h2, h3, h4, h5, h6⟩ := table_reencode env E fromRot htab hrot henum f n k
      hk hfk (fun bs => by rw [decodeField_of_attr_none _ _ _ ha, ht]) bits hlen
    exact reencode_pack env E fromRot f k bits v b hkt h1 h2 h3 h4 h5 h6
  case h_11 n ht ha =>
    obtain ⟨hkt, v, b, h1, h2, h3, h4, h5, h6⟩ := table_reencode env E fromRot htab hrot henum f n k
      hk hfk (fun bs => by rw [decodeField_of_to_none _ _ _ ht, ha]) bits hlen
    exact reencode_pack env E fromRot f k bits v b hkt h1 h2 h3 h4 h5 h6
  case h_12 => simp at hk

theorem tableKind_not_td (E : EnumInfo) (n : String) (f : Field) (k : Kind)
    (hk : tableKind E n f = some k) : k ≠ .t ∧ k ≠ .d := by
  unfold tableKind at hk
  split at hk
  · split at hk
    · cases hk; simp
    · simp at hk
  · split at hk
    · cases hk; simp
    · simp at hk

/-- what `kindOf` says about text and binary fields -/
theorem kindOf_td (E : EnumInfo) (f : Field) (k : Kind) (hk : kindOf E f = some k)
    (hkind : k = .t ∨ k = .d) :
    f.signed = false ∧ f.toConv = .none ∧ f.attrConv = .none ∧
      (k = .t → f.dtype = .str) ∧ (k = .d → f.dtype = .bytes) := by
  unfold kindOf at hk
  split at hk
  case h_4 hd hs ht ha => exact ⟨hs, ht, ha, fun _ => hd, fun h => (by cases hk; cases h)⟩
  case h_5 hd hs ht ha => exact ⟨hs, ht, ha, fun h => (by cases hk; cases h), fun _ => hd⟩
  case h_10 n ht ha =>
    have := tableKind_not_td E n f k hk
    rcases hkind with h | h
    · exact absurd h this.1
    · exact absurd h this.2
  case h_11 n ht ha =>
    have := tableKind_not_td E n f k hk
    rcases hkind with h | h
    · exact absurd h this.1
    · exact absurd h this.2
  all_goals (cases hk <;> simp at hkind)

/-- **Variable-length tail** (binary data of types 6, 8, 17; text of types 12, 14), partially or
completely present: decoding yields a value; encoding it yields at most `width` bits; unless the
value is the empty text, decoding those bits yields the same value; binary data of a whole number of
octets is re-encoded bit for bit. -/
theorem varlen_reencode (env : Env) (E : EnumInfo)
    (f : Field) (k : Kind) (hk : kindOf E f = some k) (hkind : k = .t ∨ k = .d) (hfc : f.fromConv = .none)
    (hvar : f.varlen = true) (hw8 : k = .d → f.width % 8 = 0)
    (bits : Bits) (hlen : 0 < bits.length ∧ bits.length ≤ f.width)
    (hpad : k = .t → ∀ b ∈ bits.drop (bits.length / 6 * 6), b = false) :
    ∃ v bits', decodeField env f bits = .ok v ∧ v ≠ .none ∧ encodeField env f v = .ok bits' ∧
      bits'.length ≤ f.width ∧
      (v ≠ .str [] → bits' ≠ [] ∧ decodeField env f bits' = .ok v) ∧
      (v = .str [] → bits' = []) ∧
      (k = .d → bits.length % 8 = 0 → bits' = bits) := by
  obtain ⟨hs, ht, ha, hdt, hdd⟩ := kindOf_td E f k hk hkind
  have hne : bits ≠ [] := by intro h; rw [h] at hlen; simp at hlen
  rcases hkind with rfl | rfl
  · have hd := hdt rfl
    have hdec : ∀ bs, decodeField env f bs = .ok (.str (decodeAscii6 bs)) := by
      intro bs
      rw [decodeField_plain _ _ _ ht ha, decodeRaw_unsigned _ _ hs, hd]
    have hcanon := decodeAscii6_canon bits
    have hslen : (decodeAscii6 bits).length ≤ f.width / 6 :=
      Nat.le_trans (decodeAscii6_length_pad bits (hpad rfl)) (Nat.div_le_div_right hlen.2)
    obtain ⟨b, hb, hbl, hb0⟩ := strToBin_canon _ hcanon f.width hslen
    have hconv : applyConv env f.fromConv (.str (decodeAscii6 bits))
        = .ok (.str (decodeAscii6 bits)) := by rw [hfc]; rfl
    have hcore : encodeCore f (.str (decodeAscii6 bits)) = .ok b := by
      simp only [encodeCore, hd, hvar, Bool.not_true]
      exact hb
    have henc := encodeField_of env f _ _ _ hconv hcore
    rw [List.take_of_length_le (by omega)] at henc
    refine ⟨_, b, hdec bits, by simp, henc, by omega, ?_, ?_, fun h => (by cases h)⟩
    · intro hv
      have hsne : decodeAscii6 bits ≠ [] := fun h => hv (by rw [h])
      refine ⟨?_, ?_⟩
      · intro h
        rw [h, List.length_nil] at hbl
        exact hsne (List.eq_nil_of_length_eq_zero (by omega))
      · rw [hdec, hb0 hsne]
    · intro hv
      have hs0 : decodeAscii6 bits = [] := by simpa using hv
      rw [hs0, List.length_nil] at hbl
      exact List.eq_nil_of_length_eq_zero (by omega)
  · have hd := hdd rfl
    have hdec : ∀ bs, decodeField env f bs = .ok (.bytes (toBytes bs)) := by
      intro bs
      rw [decodeField_plain _ _ _ ht ha, decodeRaw_unsigned _ _ hs, hd]
    have hconv : applyConv env f.fromConv (.bytes (toBytes bits))
        = .ok (.bytes (toBytes bits)) := by rw [hfc]; rfl
    have hcore : encodeCore f (.bytes (toBytes bits)) = .ok (padRight8 bits) := by
      simp only [encodeCore, hd, List.isEmpty_iff, toBytes_ne_nil bits hne, if_false,
        ofBytes_toBytes]
    have henc := encodeField_of env f _ _ _ hconv hcore
    have hpl := padRight8_length_le bits f.width hlen.2 (hw8 rfl)
    rw [List.take_of_length_le hpl] at henc
    refine ⟨_, padRight8 bits, hdec bits, by simp, henc, hpl, ?_, fun h => (by cases h), ?_⟩
    · intro _
      refine ⟨?_, ?_⟩
      · unfold padRight8
        intro h
        exact hne (List.append_eq_nil_iff.mp h).1
      · rw [hdec, toBytes_padRight8]
    · intro _ h8
      exact padRight8_of_mod bits h8

end Model
