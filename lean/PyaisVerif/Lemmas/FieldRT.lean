import PyaisVerif.Lemmas.TextRT
/-!
# One field: decode, encode, decode again (field part of C08 / C02)
-/
namespace Model
open Py Spec

/-- do the encode-side converters of the field match its ITU kind? (`fromRot` = the tabulated
encode-side rate-of-turn converters) -/
def fromConvOK (E : EnumInfo) (fromRot : List String) (f : Field) (k : Kind) : Bool :=
  match k with
  | .u => f.fromConv == .none || f.fromConv == .int
  | .uf | .b | .t | .d => f.fromConv == .none
  | .e cls =>
    (match f.fromConv with
     | .none => true
     | .table n => (match E.tables.lookup n with
        | some (c, w) => c == cls && w == f.width
        | none => false)
     | _ => false)
  | .U1 | .I1 => f.fromConv == .mulK 10
  | .I4 => f.fromConv == .mulRound 600000
  | .I600 => f.fromConv == .mulRound 600
  | .ROT => (match f.fromConv with
     | .table n => fromRot.contains n
     | _ => false)

/-- finite side condition on the rate-of-turn tables (decidable): encoding a decoded rate of turn
and decoding it again is the identity on all 256 raw values -/
def RotTablesOk (env : Env) (E : EnumInfo) (fromRot : List String) : Bool :=
  E.rotTables.all fun tn => fromRot.all fun fn =>
    match env.convTables.lookup tn, env.convTables.lookup fn with
    | some toT, some fromT => (List.range 256).all fun i =>
        match toT.lookup ((i : Int) - 128) with
        | some v => (match v.key with
          | some kk => (match fromT.lookup kk with
            | some (.int r) => decide (-128 ≤ r ∧ r ≤ 127) && (toT.lookup r == some v)
            | _ => false)
          | none => false)
        | none => false
    | _, _ => false

/-- the field is not normalised by decoding: the re-encoded bits are the received ones -/
def ExactField (env : Env) (E : EnumInfo) (fromRot : List String) (f : Field) (k : Kind) (bits : Bits) : Prop :=
  match k with
  | .e cls => (E.membersOf cls).contains (toNat bits : Int) = true
  | .t => CanonWire bits
  | .ROT => ∀ tn ∈ E.rotTables, ∀ fn ∈ fromRot, ∀ toT fromT,
      env.convTables.lookup tn = some toT → env.convTables.lookup fn = some fromT →
      ∃ v kk, toT.lookup (toInt bits) = some v ∧ v.key = some kk ∧ fromT.lookup kk = some (.int (toInt bits))
  | _ => True

/-- **Fixed-width field, completely present.** Decoding yields a value (never `None`); encoding it
yields exactly `width` bits (for text of a width that is not a whole number of characters:
`6·⌊width/6⌋` bits); decoding those yields the same value; and the bits are the received ones unless
the field was normalised. -/
theorem field_reencode (env : Env) (E : EnumInfo) (fromRot : List String)
    (htab : TablesOk env E = true) (hrot : RotTablesOk env E fromRot = true)
    (f : Field) (k : Kind) (hk : kindOf E f = some k) (hfk : fromConvOK E fromRot f k = true)
    (hb1 : f.dtype = .bool → f.width = 1) (hvar : f.varlen = false)
    (bits : Bits) (hlen : bits.length = f.width) (hw : 0 < f.width)
    (hpad : k = .t → ∀ b ∈ bits.drop (bits.length / 6 * 6), b = false) :
    ∃ v bits', decodeField env f bits = .ok v ∧ v ≠ .none ∧ encodeField env f v = .ok bits' ∧
      bits'.length = (if k = .t then 6 * (f.width / 6) else f.width) ∧
      (∀ pad, k = .t → decodeField env f (bits' ++ zeros pad) = .ok v) ∧
      (k ≠ .t → decodeField env f bits' = .ok v) ∧
      (ExactField env E fromRot f k bits → bits' = bits.take bits'.length) := by
  sorry

/-- **Variable-length tail** (binary data of types 6, 8, 17; text of types 12, 14), partially or
completely present: decoding yields a value; encoding it yields at most `width` bits; unless the
value is the empty text, decoding those bits yields the same value; binary data of a whole number of
octets is re-encoded bit for bit. -/
theorem varlen_reencode (env : Env) (E : EnumInfo)
    (f : Field) (k : Kind) (hk : kindOf E f = some k) (hkind : k = .t ∨ k = .d) (hfc : f.fromConv = .none)
    (hvar : f.varlen = true) (hw8 : k = .d → f.width % 8 = 0)
    (bits : Bits) (hlen : 0 < bits.length ∧ bits.length ≤ f.width)
    (hpad : k = .t → ∀ b ∈ bits.drop (bits.length / 6 * 6), b = false) :
    ∃ v bits', decodeField env f bits = .ok v ∧ v ≠ .none ∧ encodeField env f v = .ok bits' ∧
      bits'.length ≤ f.width ∧
      (v ≠ .str [] → bits' ≠ [] ∧ decodeField env f bits' = .ok v) ∧
      (v = .str [] → bits' = []) ∧
      (k = .d → bits.length % 8 = 0 → bits' = bits) := by
  sorry

end Model
