import PyaisVerif.Model.Nmea
import PyaisVerif.Model.Assemble
/-!
# XOR checksum algebra and the validity flag (generic part of C10, reused by C09 and C16)
-/
namespace Model
open Py

theorem foldl_xor_init (a : Nat) (l : List Nat) : l.foldl (· ^^^ ·) a = a ^^^ l.foldl (· ^^^ ·) 0 := by
  induction l generalizing a with
  | nil => simp
  | cons x xs ih =>
    simp only [List.foldl_cons]
    rw [ih, ih (0 ^^^ x)]
    simp [Nat.xor_assoc]

theorem xorAll_cons (x : Nat) (l : List Nat) : xorAll (x :: l) = x ^^^ xorAll l := by
  unfold xorAll; simp only [List.foldl_cons]; rw [foldl_xor_init]; simp

theorem xorAll_append (a b : List Nat) : xorAll (a ++ b) = xorAll a ^^^ xorAll b := by
  induction a with
  | nil => simp [xorAll]
  | cons x xs ih => simp [xorAll_cons, ih, Nat.xor_assoc]

/-- substituting one byte changes the checksum -/
theorem xorAll_subst_ne (pre post : List Nat) (b b' : Nat) (h : b ≠ b') :
    xorAll (pre ++ b :: post) ≠ xorAll (pre ++ b' :: post) := by
  simp only [xorAll_append, xorAll_cons]
  intro heq
  have cancel : ∀ x y : Nat, x ^^^ (x ^^^ y) = y := by
    intro x y; rw [← Nat.xor_assoc, Nat.xor_self, Nat.zero_xor]
  have h1 := congrArg (xorAll pre ^^^ ·) heq
  simp only [cancel] at h1
  have h2 := congrArg (· ^^^ xorAll post) h1
  simp only [Nat.xor_assoc, Nat.xor_self, Nat.xor_zero] at h2
  exact h h2

/-- the XOR of bytes is a byte -/
theorem xorAll_lt (l : List Nat) (h : ∀ b ∈ l, b < 256) : xorAll l < 256 := by
  sorry

/-- `int(b"{:02X}".format(x), 16) = x` for every byte value -/
theorem pyInt16_hex2 (x : Nat) (h : x < 256) : pyInt16 (hex2 x) = some (x : Int) := by
  sorry

/-- the bytes of `"{:02X}"` contain neither `*` nor `,` nor whitespace -/
theorem hex2_clean (x : Nat) : ∀ b ∈ hex2 x, b ≠ STAR ∧ b ≠ COMMA ∧ isSpace b = false := by
  sorry

/-- the last comma field of `s ++ t` when `t` contains no comma -/
theorem lastField_append (s t : Bytes) (ht : COMMA ∉ t) :
    (split COMMA (s ++ t)).getLastD [] = (split COMMA s).getLastD [] ++ t := by
  sorry

/-- the last comma field is a suffix of the line -/
theorem lastField_suffix (s : Bytes) : ∃ pre, s = pre ++ (split COMMA s).getLastD [] := by
  sorry

/-- `chk_to_int` on `fill*HH` -/
theorem chkToInt_star (u hh : Bytes) (hu : STAR ∉ u) (hh' : STAR ∉ hh) :
    (chkToInt (u ++ [STAR] ++ hh)).2 = (match pyInt16 hh with | some i => i | none => -1) := by
  sorry

/-- `msg[1:].split(b'*', 1)[0]` of `d body * rest` is `body` when `body` has no `*` -/
theorem checksumBody_eq (d : Byte) (body rest : Bytes) (hb : STAR ∉ body) :
    checksumBody ([d] ++ body ++ [STAR] ++ rest) = body := by
  sorry

/-- **The validity flag, stated generally**: whatever the line looks like, if it parses, the flag
compares the number `chk_to_int` reads from the last comma field with the XOR of the body. -/
theorem nmeaInit_valid (raw : Bytes) (s : Sentence) (h : nmeaInit raw = .ok s) :
    s.isValid = ((chkToInt ((split COMMA raw).getLastD [])).2 == (xorAll (checksumBody raw) : Int)) ∧
    s.raw = raw := by
  sorry

/-- **The validity flag for sentences of the standard form** `d body * HH` (`HH` two hex digits,
no `*` in the body, `d` the start delimiter): valid iff `HH` is the XOR of the body. -/
theorem nmeaInit_flag (d : Byte) (body : Bytes) (x : Nat) (hd : d ≠ STAR) (hb : STAR ∉ body) (hx : x < 256)
    (s : Sentence) (h : nmeaInit ([d] ++ body ++ [STAR] ++ hex2 x) = .ok s) :
    s.isValid = decide (x = xorAll body) := by
  sorry

/-- the AIS and Gatehouse constructors only add fields to what `NMEASentence.__init__` computed -/
theorem aisInit_valid (k : NmeaConsts) (raw : Bytes) (s : Sentence) (h : aisInit k raw = .ok s) :
    ∃ s0, nmeaInit raw = .ok s0 ∧ s.isValid = s0.isValid ∧ s.raw = raw := by
  sorry

theorem ghInit_valid (raw : Bytes) (s : Sentence) (h : ghInit raw = .ok s) :
    ∃ s0, nmeaInit raw = .ok s0 ∧ s.isValid = s0.isValid ∧ s.raw = raw := by
  sorry

/-- `strip` leaves a line alone that neither starts nor ends with whitespace -/
theorem strip_id (s : Bytes) (h1 : ∀ b, s.head? = some b → isSpace b = false)
    (h2 : ∀ b, s.getLast? = some b → isSpace b = false) : strip s = s := by
  sorry

/-- the factory on a line of the standard form without tag block and surrounding whitespace -/
theorem produce_flag (k : NmeaConsts) (d : Byte) (body : Bytes) (x : Nat)
    (hd : d ≠ STAR ∧ d ≠ BACKSLASH ∧ isSpace d = false) (hb : STAR ∉ body) (hx : x < 256)
    (s : Sentence) (h : produce k ([d] ++ body ++ [STAR] ++ hex2 x) = .ok s) :
    s.isValid = decide (x = xorAll body) := by
  sorry

/-- sorting by fragment number does not change which sentences there are -/
theorem sortByNum_all (p : Sentence → Bool) (l : List Sentence) : (sortByNum l).all p = l.all p := by
  sorry

/-- **Assembled validity** is the conjunction of the parts' validity. -/
theorem assemble_valid (ps : List Sentence) (s : Sentence) (h : assemble ps = some s) :
    s.isValid = ps.all (·.isValid) := by
  sorry

/-- with every argument parsing, the strict collection loop fails exactly when some parsed argument
is flagged invalid, and otherwise does what the lenient loop does -/
theorem oneShotCollect_strict (k : NmeaConsts) (args : List Bytes) (ss : List Sentence)
    (hparse : args.map (produce k) = ss.map .ok) (temp : List Sentence) (cnt : Int) :
    oneShotCollect k true args temp cnt =
      if ss.all (·.isValid) then oneShotCollect k false args temp cnt
      else .error .invalidNMEAChecksum := by
  sorry

end Model
