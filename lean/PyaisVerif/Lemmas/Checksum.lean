import PyaisVerif.Model.Nmea
import PyaisVerif.Model.Assemble
/-!
# XOR checksum algebra and the validity flag (generic part of C10, reused by C09 and C16)
-/
namespace Model
open Py

theorem foldl_xor_init (a : Nat) (l : List Nat) : l.foldl (· ^^^ ·) a = a ^^^ l.foldl (· ^^^ ·) 0 := by
  induction l generalizing a with
  | nil => simp
  | cons x xs ih =>
    simp only [List.foldl_cons]
    rw [ih, ih (0 ^^^ x)]
    simp [Nat.xor_assoc]

theorem xorAll_cons (x : Nat) (l : List Nat) : xorAll (x :: l) = x ^^^ xorAll l := by
  unfold xorAll; simp only [List.foldl_cons]; rw [foldl_xor_init]; simp

theorem xorAll_append (a b : List Nat) : xorAll (a ++ b) = xorAll a ^^^ xorAll b := by
  induction a with
  | nil => simp [xorAll]
  | cons x xs ih => simp [xorAll_cons, ih, Nat.xor_assoc]

/-- substituting one byte changes the checksum -/
theorem xorAll_subst_ne (pre post : List Nat) (b b' : Nat) (h : b ≠ b') :
    xorAll (pre ++ b :: post) ≠ xorAll (pre ++ b' :: post) := by
  simp only [xorAll_append, xorAll_cons]
  intro heq
  have cancel : ∀ x y : Nat, x ^^^ (x ^^^ y) = y := by
    intro x y; rw [← Nat.xor_assoc, Nat.xor_self, Nat.zero_xor]
  have h1 := congrArg (xorAll pre ^^^ ·) heq
  simp only [cancel] at h1
  have h2 := congrArg (· ^^^ xorAll post) h1
  simp only [Nat.xor_assoc, Nat.xor_self, Nat.xor_zero] at h2
  exact h h2

/-- the XOR of bytes is a byte -/
theorem xorAll_lt (l : List Nat) (h : ∀ b ∈ l, b < 256) : xorAll l < 256 := by
  induction l with
  | nil => simp [xorAll]
  | cons x xs ih =>
    rw [xorAll_cons]
    have h1 : x < 2^8 := h x (by simp)
    have h2 : xorAll xs < 2^8 := ih (fun b hb => h b (by simp [hb]))
    exact Nat.xor_lt_two_pow h1 h2

theorem pyInt16_hex2_all :
    (List.range 256).all (fun x => decide (pyInt16 (hex2 x) = some (x : Int))) = true := by
  decide +kernel

/-- `int(b"{:02X}".format(x), 16) = x` for every byte value -/
theorem pyInt16_hex2 (x : Nat) (h : x < 256) : pyInt16 (hex2 x) = some (x : Int) := by
  have := List.all_eq_true.mp pyInt16_hex2_all x (List.mem_range.mpr h)
  simpa using this

theorem hexDigitUpper_clean : ∀ v, v < 16 →
    hexDigitUpper v ≠ STAR ∧ hexDigitUpper v ≠ COMMA ∧ isSpace (hexDigitUpper v) = false := by
  decide

/-- the bytes of `"{:02X}"` contain neither `*` nor `,` nor whitespace -/
theorem hex2_clean (x : Nat) : ∀ b ∈ hex2 x, b ≠ STAR ∧ b ≠ COMMA ∧ isSpace b = false := by
  intro b hb
  simp only [hex2, List.mem_cons, List.not_mem_nil, or_false] at hb
  rcases hb with rfl | rfl
  · exact hexDigitUpper_clean _ (Nat.mod_lt _ (by decide))
  · exact hexDigitUpper_clean _ (Nat.mod_lt _ (by decide))

theorem exists_last_occ (a : Nat) (s : List Nat) (h : a ∈ s) : ∃ u v, s = u ++ a :: v ∧ a ∉ v := by
  induction s with
  | nil => simp at h
  | cons x xs ih =>
    by_cases hx : a ∈ xs
    · obtain ⟨u, v, rfl, hv⟩ := ih hx
      exact ⟨x :: u, v, by simp, hv⟩
    · have : a = x := by
        rcases List.mem_cons.mp h with h | h
        · exact h
        · exact absurd h hx
      subst this
      exact ⟨[], xs, by simp, hx⟩

theorem lastField_of_not_mem (s : Bytes) (h : COMMA ∉ s) : (split COMMA s).getLastD [] = s := by
  simp [split, List.splitOn_eq_singleton h]

theorem lastField_of_last_occ (u v : Bytes) (h : COMMA ∉ v) :
    (split COMMA (u ++ COMMA :: v)).getLastD [] = v := by
  simp [split, List.splitOn_append_cons_self, List.splitOn_eq_singleton h]

/-- the last comma field of `s ++ t` when `t` contains no comma -/
theorem lastField_append (s t : Bytes) (ht : COMMA ∉ t) :
    (split COMMA (s ++ t)).getLastD [] = (split COMMA s).getLastD [] ++ t := by
  by_cases hs : COMMA ∈ s
  · obtain ⟨u, v, rfl, hv⟩ := exists_last_occ _ _ hs
    rw [lastField_of_last_occ u v hv]
    have : u ++ COMMA :: v ++ t = u ++ COMMA :: (v ++ t) := by simp
    rw [this, lastField_of_last_occ u (v ++ t) (by simp [hv, ht])]
  · rw [lastField_of_not_mem s hs, lastField_of_not_mem (s ++ t) (by simp [hs, ht])]

/-- the last comma field is a suffix of the line -/
theorem lastField_suffix (s : Bytes) : ∃ pre, s = pre ++ (split COMMA s).getLastD [] := by
  by_cases hs : COMMA ∈ s
  · obtain ⟨u, v, rfl, hv⟩ := exists_last_occ _ _ hs
    rw [lastField_of_last_occ u v hv]
    exact ⟨u ++ [COMMA], by simp⟩
  · rw [lastField_of_not_mem s hs]
    exact ⟨[], by simp⟩

/-- `chk_to_int` on `fill*HH` -/
theorem chkToInt_star (u hh : Bytes) (hu : STAR ∉ u) (hh' : STAR ∉ hh) :
    (chkToInt (u ++ [STAR] ++ hh)).2 = (match pyInt16 hh with | some i => i | none => -1) := by
  have h1 : split STAR (u ++ [STAR] ++ hh) = [u, hh] := by
    have : u ++ [STAR] ++ hh = u ++ STAR :: hh := by simp
    rw [this, split, List.splitOn_append_cons_self_of_not_mem hu, List.splitOn_eq_singleton hh']
  have h2 : (u ++ [STAR] ++ hh).isEmpty = false := by simp
  unfold chkToInt
  rw [h2, h1]
  first | rfl | (generalize pyInt16 hh = r; cases r <;> rfl)

theorem split1_of_not_mem (sep : Byte) (body rest : Bytes) (hb : sep ∉ body) :
    split1 sep (body ++ sep :: rest) = (body, some rest) := by
  induction body with
  | nil => simp [split1]
  | cons x xs ih =>
    have hx : x ≠ sep := fun h => hb (by simp [h])
    have hxs : sep ∉ xs := fun h => hb (by simp [h])
    simp [split1, hx, ih hxs]

/-- `msg[1:].split(b'*', 1)[0]` of `d body * rest` is `body` when `body` has no `*` -/
theorem checksumBody_eq (d : Byte) (body rest : Bytes) (hb : STAR ∉ body) :
    checksumBody ([d] ++ body ++ [STAR] ++ rest) = body := by
  have : ([d] ++ body ++ [STAR] ++ rest).drop 1 = body ++ STAR :: rest := by simp
  rw [checksumBody, this, split1_of_not_mem _ _ _ hb]

/-- **The validity flag, stated generally**: whatever the line looks like, if it parses, the flag
compares the number `chk_to_int` reads from the last comma field with the XOR of the body. -/
theorem nmeaInit_valid (raw : Bytes) (s : Sentence) (h : nmeaInit raw = .ok s) :
    s.isValid = ((chkToInt ((split COMMA raw).getLastD [])).2 == (xorAll (checksumBody raw) : Int)) ∧
    s.raw = raw := by
  simp only [nmeaInit, bind, Except.bind] at h
  split at h
  · cases h
  · split at h
    · cases h
    · split at h
      · cases h
      · rename_i cs hcs
        have hcs' : cs = xorAll (checksumBody raw) := by
          simp only [computeChecksum] at hcs
          split at hcs
          · cases hcs
          · exact (Except.ok.inj hcs).symm
        have := Except.ok.inj h
        subst this
        subst hcs'
        exact ⟨rfl, rfl⟩

/-- **The validity flag for sentences of the standard form** `d body * HH` (`HH` two hex digits,
no `*` in the body, `d` the start delimiter): valid iff `HH` is the XOR of the body. -/
theorem nmeaInit_flag (d : Byte) (body : Bytes) (x : Nat) (hd : d ≠ STAR) (hb : STAR ∉ body) (hx : x < 256)
    (s : Sentence) (h : nmeaInit ([d] ++ body ++ [STAR] ++ hex2 x) = .ok s) :
    s.isValid = decide (x = xorAll body) := by
  obtain ⟨hv, _⟩ := nmeaInit_valid _ s h
  rw [hv]
  have hraw : [d] ++ body ++ [STAR] ++ hex2 x = ([d] ++ body) ++ ([STAR] ++ hex2 x) := by simp
  have hclean := hex2_clean x
  have ht : COMMA ∉ [STAR] ++ hex2 x := by
    intro hm
    rcases List.mem_append.mp hm with hm | hm
    · simp [STAR, COMMA] at hm
    · exact (hclean _ hm).2.1 rfl
  have hlast : (split COMMA ([d] ++ body ++ [STAR] ++ hex2 x)).getLastD []
      = (split COMMA ([d] ++ body)).getLastD [] ++ [STAR] ++ hex2 x := by
    rw [hraw, lastField_append _ _ ht]; simp
  obtain ⟨pre, hpre⟩ := lastField_suffix ([d] ++ body)
  generalize (split COMMA ([d] ++ body)).getLastD [] = u at *
  have hu : STAR ∉ u := by
    intro hm
    have hmem : STAR ∈ [d] ++ body := by rw [hpre]; simp [hm]
    rcases List.mem_append.mp hmem with h1 | h1
    · have : STAR = d := by simpa using h1
      exact hd this.symm
    · exact hb h1
  rw [hlast, chkToInt_star u _ hu (fun hm => (hclean _ hm).1 rfl), pyInt16_hex2 x hx,
    checksumBody_eq d body _ hb]
  by_cases hxe : x = xorAll body
  · simp [hxe]
  · have : (x : Int) ≠ (xorAll body : Int) := by omega
    simp [hxe, this]

/-- the AIS and Gatehouse constructors only add fields to what `NMEASentence.__init__` computed -/
theorem aisInit_valid (k : NmeaConsts) (raw : Bytes) (s : Sentence) (h : aisInit k raw = .ok s) :
    ∃ s0, nmeaInit raw = .ok s0 ∧ s.isValid = s0.isValid ∧ s.raw = raw := by
  simp only [aisInit, bind, Except.bind] at h
  split at h
  · cases h
  · rename_i s0 h0
    have hraw := (nmeaInit_valid raw s0 h0).2
    refine ⟨s0, h0, ?_⟩
    split at h
    · cases h
    · split at h
      · cases h
      · split at h
        · cases h
        · split at h
          · cases h
          · split at h
            · cases h
            · cases h
              exact ⟨rfl, hraw⟩

theorem ghInit_valid (raw : Bytes) (s : Sentence) (h : ghInit raw = .ok s) :
    ∃ s0, nmeaInit raw = .ok s0 ∧ s.isValid = s0.isValid ∧ s.raw = raw := by
  simp only [ghInit, bind, Except.bind] at h
  split at h
  · cases h
  · rename_i s0 h0
    have hraw := (nmeaInit_valid raw s0 h0).2
    refine ⟨s0, h0, ?_⟩
    split at h
    · cases h
    · cases h
      exact ⟨rfl, hraw⟩

theorem dropWhile_id_of_head (p : Nat → Bool) (l : List Nat)
    (h : ∀ b, l.head? = some b → p b = false) : l.dropWhile p = l := by
  cases l with
  | nil => rfl
  | cons b bs => exact List.dropWhile_cons_of_neg (by simp [h b rfl])

/-- `strip` leaves a line alone that neither starts nor ends with whitespace -/
theorem strip_id (s : Bytes) (h1 : ∀ b, s.head? = some b → isSpace b = false)
    (h2 : ∀ b, s.getLast? = some b → isSpace b = false) : strip s = s := by
  unfold strip lstrip rstrip
  rw [dropWhile_id_of_head _ s h1, dropWhile_id_of_head _ s.reverse (by simpa using h2)]
  simp

theorem preProcess_plain (raw : Bytes) (d : Byte) (rest : Bytes) (hraw : raw = d :: rest)
    (hd : d ≠ BACKSLASH) (hs : strip raw = raw) : preProcess raw = .ok (raw, none) := by
  unfold preProcess
  rw [hs]
  subst hraw
  simp [hd]

theorem produce_plain (k : NmeaConsts) (raw : Bytes) (s : Sentence)
    (hp : preProcess raw = .ok (raw, none)) (h : produce k raw = .ok s) :
    produceRaw k raw = .ok s := by
  unfold produce at h
  split at h
  · cases h
  · simp only [hp, bind, Except.bind] at h
    cases hr : produceRaw k raw with
    | error e => simp [hr] at h; split at h <;> cases h
    | ok s' => simpa [hr] using h

theorem produceRaw_valid (k : NmeaConsts) (raw : Bytes) (s : Sentence) (h : produceRaw k raw = .ok s) :
    ∃ s0, nmeaInit raw = .ok s0 ∧ s.isValid = s0.isValid ∧ s.raw = raw := by
  unfold produceRaw at h
  simp only at h
  split at h
  · exact aisInit_valid k raw s h
  · split at h
    · exact ghInit_valid raw s h
    · cases h

/-- the factory on a line of the standard form without tag block and surrounding whitespace -/
theorem produce_flag (k : NmeaConsts) (d : Byte) (body : Bytes) (x : Nat)
    (hd : d ≠ STAR ∧ d ≠ BACKSLASH ∧ isSpace d = false) (hb : STAR ∉ body) (hx : x < 256)
    (s : Sentence) (h : produce k ([d] ++ body ++ [STAR] ++ hex2 x) = .ok s) :
    s.isValid = decide (x = xorAll body) := by
  have hstrip : strip ([d] ++ body ++ [STAR] ++ hex2 x) = [d] ++ body ++ [STAR] ++ hex2 x := by
    apply strip_id
    · intro b hb'
      have : b = d := by simpa using hb'.symm
      rw [this]; exact hd.2.2
    · intro b hb'
      have hm : b ∈ hex2 x := by
        have hl : [d] ++ body ++ [STAR] ++ hex2 x
            = ([d] ++ body ++ [STAR] ++ [hexDigitUpper (x / 16 % 16)]) ++ [hexDigitUpper (x % 16)] := by
          simp [hex2]
        rw [hl, List.getLast?_concat] at hb'
        simp [hex2, ← Option.some.inj hb']
      exact (hex2_clean x b hm).2.2
  have hp := preProcess_plain _ d (body ++ [STAR] ++ hex2 x) (by simp) hd.2.1 hstrip
  obtain ⟨s0, h0, hv, _⟩ := produceRaw_valid k _ s (produce_plain k _ s hp h)
  rw [hv]
  exact nmeaInit_flag d body x hd.1 hb hx s0 h0

theorem insertByNum_all (p : Sentence → Bool) (x : Sentence) (l : List Sentence) :
    (insertByNum x l).all p = (p x && l.all p) := by
  induction l with
  | nil => simp [insertByNum]
  | cons y ys ih =>
    unfold insertByNum
    split
    · simp [ih, Bool.and_left_comm]
    · simp

/-- sorting by fragment number does not change which sentences there are -/
theorem sortByNum_all (p : Sentence → Bool) (l : List Sentence) : (sortByNum l).all p = l.all p := by
  induction l with
  | nil => simp [sortByNum]
  | cons x xs ih =>
    have : sortByNum (x :: xs) = insertByNum x (sortByNum xs) := rfl
    rw [this, insertByNum_all, ih]; simp

/-- **Assembled validity** is the conjunction of the parts' validity. -/
theorem assemble_valid (ps : List Sentence) (s : Sentence) (h : assemble ps = some s) :
    s.isValid = ps.all (·.isValid) := by
  unfold assemble at h
  cases ps with
  | nil => cases h
  | cons m0 rest =>
    simp only at h
    cases h
    simp only [sortByNum_all]

/-- with every argument parsing, the strict collection loop fails exactly when some parsed argument
is flagged invalid, and otherwise does what the lenient loop does -/
theorem oneShotCollect_strict (k : NmeaConsts) (args : List Bytes) (ss : List Sentence)
    (hparse : args.map (produce k) = ss.map .ok) (temp : List Sentence) (cnt : Int) :
    oneShotCollect k true args temp cnt =
      if ss.all (·.isValid) then oneShotCollect k false args temp cnt
      else .error .invalidNMEAChecksum := by
  induction args generalizing ss temp cnt with
  | nil =>
    cases ss with
    | nil => simp [oneShotCollect]
    | cons s ss' => simp at hparse
  | cons a rest ih =>
    cases ss with
    | nil => simp at hparse
    | cons s ss' =>
      simp only [List.map_cons, List.cons.injEq] at hparse
      obtain ⟨hp, hrest⟩ := hparse
      unfold oneShotCollect
      rw [hp]
      simp only
      cases hv : s.isValid <;> cases ha : s.isAIS <;> simp [ih ss' hrest, hv]

end Model
