import PyaisVerif.Model.Codec
import PyaisVerif.Spec.Layout
import PyaisVerif.Lemmas.Bits
import PyaisVerif.Lemmas.Layout
import PyaisVerif.Lemmas.Encode
/-!
# Six-bit text: decode ∘ encode ∘ decode (text part of C02/C08)
-/
namespace Model
open Py Spec

/-- canonical decoded text: characters of the six-bit alphabet other than `@`, no outer blanks -/
def CanonText (s : List Nat) : Prop :=
  (∀ c ∈ s, 32 ≤ c ∧ c ≤ 95 ∧ c ≠ 64) ∧ strip s = s

/-- `to_six_bit` inverts the decoder's character map -/
theorem sixBitOf_sixToAscii (v : Nat) (h : v < 64) : sixBitOf (sixToAscii v) = some v := by
  have : ∀ v, v < 64 → sixBitOf (sixToAscii v) = some v := by decide
  exact this v h

theorem strip_sublist (l : Bytes) : (strip l).Sublist l := by
  unfold strip rstrip lstrip
  have h1 : ((l.dropWhile isSpace).reverse.dropWhile isSpace).Sublist (l.dropWhile isSpace).reverse :=
    List.dropWhile_sublist _
  have h2 := List.reverse_sublist.mpr h1
  rw [List.reverse_reverse] at h2
  exact h2.trans (List.dropWhile_sublist _)

theorem strip_head (l : Bytes) : ∀ b, (strip l).head? = some b → isSpace b = false := by
  intro b hb
  unfold strip lstrip at hb
  have hh := List.head?_dropWhile_not isSpace l
  cases hm : l.dropWhile isSpace with
  | nil => rw [hm] at hb; simp [rstrip] at hb
  | cons x xs =>
    rw [hm] at hb hh
    have hx : isSpace x = false := by simpa using hh
    rw [rstrip_cons_of_not_space x xs hx] at hb
    simp at hb; subst hb; exact hx

theorem strip_last (l : Bytes) : ∀ b, (strip l).getLast? = some b → isSpace b = false := by
  intro b hb
  unfold strip rstrip at hb
  rw [List.getLast?_reverse] at hb
  have hh := List.head?_dropWhile_not isSpace (lstrip l).reverse
  rw [hb] at hh; exact hh

theorem strip_idem (l : Bytes) : strip (strip l) = strip l :=
  strip_id _ (strip_head l) (strip_last l)

theorem ascii6Chars_cons (c : Bits) (cs : List Bits) :
    ascii6Chars (c :: cs) =
      if sixToAscii (fromBytes c >>> 2) = 64 then [] else sixToAscii (fromBytes c >>> 2) :: ascii6Chars cs := by
  rfl

theorem ascii6Chars_range (cs : List Bits) (h : ∀ c ∈ cs, 1 ≤ c.length ∧ c.length ≤ 6) :
    ∀ x ∈ ascii6Chars cs, 32 ≤ x ∧ x ≤ 95 ∧ x ≠ 64 := by
  induction cs with
  | nil => intro x hx; simp [ascii6Chars] at hx
  | cons c cs ih =>
    intro x hx
    have hlt := fromBytes_shift2_lt c (h c (by simp)).1 (h c (by simp)).2
    rw [ascii6Chars_cons] at hx
    split at hx
    · simp at hx
    · rename_i hne
      rcases List.mem_cons.mp hx with rfl | hx
      · by_cases h32 : fromBytes c >>> 2 < 32 <;>
          simp only [sixToAscii, h32, if_true, if_false] at hne ⊢ <;> omega
      · exact ih (fun c hc => h c (List.mem_cons_of_mem _ hc)) x hx

theorem ascii6Chars_length (cs : List Bits) : (ascii6Chars cs).length ≤ cs.length := by
  induction cs with
  | nil => simp [ascii6Chars]
  | cons c cs ih =>
    rw [ascii6Chars_cons]
    split
    · simp
    · simp only [List.length_cons]; omega

/-- what the decoder returns is canonical -/
theorem decodeAscii6_canon (bits : Bits) : CanonText (decodeAscii6 bits) := by
  unfold decodeAscii6
  refine ⟨?_, strip_idem _⟩
  intro c hc
  exact ascii6Chars_range _ (chunks6_len bits) c ((strip_sublist _).subset hc)

/-- the decoded text is never longer than the number of started six-bit groups -/
theorem decodeAscii6_length (bits : Bits) : (decodeAscii6 bits).length ≤ (bits.length + 5) / 6 := by
  unfold decodeAscii6
  have h1 := (strip_sublist (ascii6Chars (chunks 6 bits))).length_le
  have h2 := ascii6Chars_length (chunks 6 bits)
  have h3 := chunks_length 6 (by decide) bits
  have e : (bits.length + 6 - 1) / 6 = (bits.length + 5) / 6 := by congr 1
  omega

/-! ## encoding side -/

/-- the six-bit code of a character of the alphabet (`@` ↦ 0) -/
def sixCode (c : Nat) : Nat := if 64 ≤ c then c - 64 else c

theorem sixBitOf_sixCode (c : Nat) (h1 : 32 ≤ c) (h2 : c ≤ 95) :
    sixBitOf c = some (sixCode c) ∧ sixCode c < 64 ∧ sixToAscii (sixCode c) = c := by
  have : ∀ c, c < 96 → 32 ≤ c →
      sixBitOf c = some (sixCode c) ∧ sixCode c < 64 ∧ sixToAscii (sixCode c) = c := by decide
  exact this c (by omega) h1

theorem foldlM_blocks (f : Bits → Nat → Except Err Bits) (l : List Nat)
    (hf : ∀ acc c, c ∈ l → f acc c = .ok (acc ++ ofNat 6 (sixCode c))) (acc : Bits) :
    l.foldlM f acc = .ok (acc ++ (l.map fun c => ofNat 6 (sixCode c)).flatten) := by
  induction l generalizing acc with
  | nil => simp [List.foldlM]; rfl
  | cons c l ih =>
    rw [List.foldlM_cons, hf acc c (by simp)]
    show List.foldlM f (acc ++ ofNat 6 (sixCode c)) l = _
    rw [ih (fun acc c hc => hf acc c (List.mem_cons_of_mem _ hc))]
    simp [List.append_assoc]

/-- the loop of `str_to_bin` on characters of the alphabet -/
theorem strToBin_take (l : List Nat) (hl : ∀ c ∈ l, 32 ≤ c ∧ c ≤ 95) :
    l.foldlM (init := ([] : Bits)) (fun acc c =>
      match sixBitOf c with
      | some v => (.ok (acc ++ ofNat 6 v) : Except Err Bits)
      | Option.none => .error .valueError)
    = .ok ((l.map fun c => ofNat 6 (sixCode c)).flatten) := by
  rw [foldlM_blocks _ l _ []]
  · rfl
  · intro acc c hc
    simp only [(sixBitOf_sixCode c (hl c hc).1 (hl c hc).2).1]

theorem chunksAux_fuel {α} (n : Nat) (hn : 0 < n) (fuel : Nat) (l : List α) (h : l.length < fuel) :
    chunksAux n fuel l = chunks n l := by
  apply List.ext_getElem
  · rw [chunksAux_length n hn fuel l h, chunks_length n hn]
  · intro i h1 h2
    rw [chunksAux_getElem n hn fuel l h, chunks_getElem n hn]

theorem chunks_block (b rest : Bits) (hb : b.length = 6) :
    chunks 6 (b ++ rest) = b :: chunks 6 rest := by
  have hne : b ++ rest ≠ [] := by
    intro h; have := congrArg List.length h; rw [List.length_append, hb] at this; simp at this
  unfold chunks
  rw [chunksAux_cons _ _ _ hne, List.take_left' hb, List.drop_left' hb]
  congr 1
  exact chunksAux_fuel 6 (by decide) _ _ (by rw [List.length_append]; omega)

theorem chunks_blocks (bs : List Bits) (hb : ∀ b ∈ bs, b.length = 6) (rest : Bits) :
    chunks 6 (bs.flatten ++ rest) = bs ++ chunks 6 rest := by
  induction bs with
  | nil => simp
  | cons b bs ih =>
    rw [List.flatten_cons, List.append_assoc, chunks_block _ _ (hb b (by simp)),
      ih (fun b h => hb b (List.mem_cons_of_mem _ h))]
    rfl

theorem chunks_zeros (pad : Nat) : ∀ c ∈ chunks 6 (zeros pad), ∀ b ∈ c, b = false := by
  intro c hc b hb
  have : b ∈ (chunks 6 (zeros pad)).flatten := List.mem_flatten.mpr ⟨c, hc, hb⟩
  rw [chunks_flatten 6 (by decide)] at this
  exact (List.mem_replicate.mp this).2

theorem takeWhile_append_at (s rest : List Nat) (hs : ∀ c ∈ s, c ≠ 64) (hr : ∀ c ∈ rest, c = 64) :
    (s ++ rest).takeWhile (· ≠ 64) = s := by
  induction s with
  | nil =>
    cases rest with
    | nil => rfl
    | cons x xs => simp [hr x (by simp)]
  | cons c s ih =>
    have hc := hs c (by simp)
    simp only [List.cons_append]
    rw [List.takeWhile_cons_of_pos (by simpa using hc), ih (fun c h => hs c (List.mem_cons_of_mem _ h))]

/-- decoding the encoder's blocks, `@` blocks and zero padding bits -/
theorem decodeAscii6_blocks (s : List Nat) (hs : ∀ c ∈ s, 32 ≤ c ∧ c ≤ 95 ∧ c ≠ 64) (k pad : Nat) :
    decodeAscii6 (((s ++ List.replicate k 64).map fun c => ofNat 6 (sixCode c)).flatten ++ zeros pad)
      = strip s := by
  unfold decodeAscii6
  have hblk : ∀ b ∈ (s ++ List.replicate k 64).map (fun c => ofNat 6 (sixCode c)), b.length = 6 := by
    intro b hb
    obtain ⟨x, _, rfl⟩ := List.mem_map.mp hb
    simp
  have hok : ∀ c ∈ (s ++ List.replicate k 64).map (fun c => ofNat 6 (sixCode c)) ++ chunks 6 (zeros pad),
      ChunkOK c := by
    intro c hc
    rcases List.mem_append.mp hc with hc | hc
    · left; exact hblk c hc
    · right; exact chunks_zeros pad c hc
  rw [chunks_blocks _ hblk, ascii6Chars_eq _ hok]
  congr 1
  have e1 : s.map ((fun c => sixToAscii (toNat c)) ∘ fun c => ofNat 6 (sixCode c)) = s := by
    conv => rhs; rw [← List.map_id s]
    apply List.map_congr_left
    intro c hc
    have h := hs c hc
    have h' := sixBitOf_sixCode c h.1 h.2.1
    simp only [Function.comp, toNat_ofNat, id]
    rw [Nat.mod_eq_of_lt (by simpa using h'.2.1), h'.2.2]
  rw [List.map_append, List.map_map, List.map_append, List.append_assoc, e1]
  apply takeWhile_append_at s _ (fun c hc => (hs c hc).2.2)
  intro c hc
  rcases List.mem_append.mp hc with hc | hc
  · simp only [List.map_replicate, List.mem_replicate] at hc
    rw [hc.2]; decide
  · obtain ⟨ch, hch, rfl⟩ := List.mem_map.mp hc
    rw [(fromBytes_zeros ch (chunks_zeros pad ch hch)).2]; decide

theorem blocks_length (l : List Nat) :
    ((l.map fun c => ofNat 6 (sixCode c)).flatten).length = 6 * l.length := by
  induction l with
  | nil => rfl
  | cons c l ih => simp only [List.map_cons, List.flatten_cons, List.length_append, ofNat_length, ih,
      List.length_cons]; omega

/-- the bits `str_to_bin` produces for a canonical text without padding: six bits per character -/
theorem strToBin_canon (s : List Nat) (hs : CanonText s) (w : Nat) (hlen : s.length ≤ w / 6) :
    ∃ b, strToBin s w false = .ok b ∧ b.length = 6 * s.length ∧
      (s ≠ [] → decodeAscii6 b = s) := by
  have hr : ∀ c ∈ s, 32 ≤ c ∧ c ≤ 95 := fun c hc => ⟨(hs.1 c hc).1, (hs.1 c hc).2.1⟩
  refine ⟨(s.map fun c => ofNat 6 (sixCode c)).flatten, ?_, blocks_length s, ?_⟩
  · unfold strToBin
    simp only [Bool.false_eq_true, if_false]
    rw [List.take_of_length_le hlen]
    exact strToBin_take s hr
  · intro _
    have h := decodeAscii6_blocks s hs.1 0 0
    rw [hs.2] at h
    simpa [zeros] using h

/-- … and with `@` padding up to `w / 6` characters (fixed-width fields): decodes back to the text,
also for the empty text, and also when followed by zero padding bits -/
theorem strToBin_canon_padded (s : List Nat) (hs : CanonText s) (w : Nat) (hlen : s.length ≤ w / 6) (pad : Nat) :
    ∃ b, strToBin s w true = .ok b ∧ b.length = 6 * (w / 6) ∧ decodeAscii6 (b ++ zeros pad) = s := by
  have hr : ∀ c ∈ s ++ List.replicate (w / 6 - s.length) 64, 32 ≤ c ∧ c ≤ 95 := by
    intro c hc
    rcases List.mem_append.mp hc with hc | hc
    · exact ⟨(hs.1 c hc).1, (hs.1 c hc).2.1⟩
    · rw [(List.mem_replicate.mp hc).2]; omega
  have hl : (s ++ List.replicate (w / 6 - s.length) 64).length = w / 6 := by
    rw [List.length_append, List.length_replicate]; omega
  refine ⟨((s ++ List.replicate (w / 6 - s.length) 64).map fun c => ofNat 6 (sixCode c)).flatten,
    ?_, ?_, ?_⟩
  · unfold strToBin
    simp only [if_true]
    rw [List.take_of_length_le (Nat.le_of_eq hl)]
    exact strToBin_take _ hr
  · rw [blocks_length, hl]
  · rw [decodeAscii6_blocks s hs.1, hs.2]

/-- a text field that is already canonical on the wire (`@` only as trailing padding, no outer
blanks in the text part) is re-encoded bit for bit -/
def CanonWire (bits : Bits) : Prop :=
  ∃ b, strToBin (decodeAscii6 bits) bits.length true = .ok b ∧ b = bits

end Model
