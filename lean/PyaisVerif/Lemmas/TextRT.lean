import PyaisVerif.Model.Codec
import PyaisVerif.Spec.Layout
import PyaisVerif.Lemmas.Bits
import PyaisVerif.Lemmas.Layout
/-!
# Six-bit text: decode ∘ encode ∘ decode (text part of C02/C08)
-/
namespace Model
open Py Spec

/-- canonical decoded text: characters of the six-bit alphabet other than `@`, no outer blanks -/
def CanonText (s : List Nat) : Prop :=
  (∀ c ∈ s, 32 ≤ c ∧ c ≤ 95 ∧ c ≠ 64) ∧ strip s = s

/-- `to_six_bit` inverts the decoder's character map -/
theorem sixBitOf_sixToAscii (v : Nat) (h : v < 64) : sixBitOf (sixToAscii v) = some v := by
  sorry

/-- what the decoder returns is canonical -/
theorem decodeAscii6_canon (bits : Bits) : CanonText (decodeAscii6 bits) := by
  sorry

/-- the decoded text is never longer than the number of started six-bit groups -/
theorem decodeAscii6_length (bits : Bits) : (decodeAscii6 bits).length ≤ (bits.length + 5) / 6 := by
  sorry

/-- the bits `str_to_bin` produces for a canonical text without padding: six bits per character -/
theorem strToBin_canon (s : List Nat) (hs : CanonText s) (w : Nat) (hlen : s.length ≤ w / 6) :
    ∃ b, strToBin s w false = .ok b ∧ b.length = 6 * s.length ∧
      (s ≠ [] → decodeAscii6 b = s) := by
  sorry

/-- … and with `@` padding up to `w / 6` characters (fixed-width fields): decodes back to the text,
also for the empty text, and also when followed by zero padding bits -/
theorem strToBin_canon_padded (s : List Nat) (hs : CanonText s) (w : Nat) (hlen : s.length ≤ w / 6) (pad : Nat) :
    ∃ b, strToBin s w true = .ok b ∧ b.length = 6 * (w / 6) ∧ decodeAscii6 (b ++ zeros pad) = s := by
  sorry

/-- a text field that is already canonical on the wire (`@` only as trailing padding, no outer
blanks in the text part) is re-encoded bit for bit -/
def CanonWire (bits : Bits) : Prop :=
  ∃ b, strToBin (decodeAscii6 bits) bits.length true = .ok b ∧ b = bits

end Model
