import PyaisVerif.Model.Broker
/-!
# Lemmas about the event broker
-/
namespace Model

theorem attach_nodup (s : Subs) (e : Ev) (cb : Nat) (h : s.Nodup) : (attach s e cb).Nodup := by
  unfold attach
  split
  · exact h
  · rename_i hc
    rw [List.nodup_append]
    refine ⟨h, by simp, ?_⟩
    intro a ha b hb
    simp only [List.mem_singleton] at hb
    subst hb
    intro hab
    subst hab
    exact hc (List.contains_iff_mem.mpr ha)

theorem detach_nodup (s : Subs) (e : Ev) (cb : Nat) (h : s.Nodup) : (detach s e cb).Nodup :=
  h.erase _

theorem subs_nodup (ops : List SubOp) : ∀ s : Subs, s.Nodup → (ops.foldl subStep s).Nodup := by
  induction ops with
  | nil => intro s h; exact h
  | cons op ops ih =>
    intro s h
    apply ih
    cases op with
    | attach e cb => exact attach_nodup s e cb h
    | detach e cb => exact detach_nodup s e cb h

theorem mem_attach (s : Subs) (e : Ev) (cb : Nat) (p : Ev × Nat) :
    p ∈ attach s e cb ↔ p ∈ s ∨ p = (e, cb) := by
  unfold attach
  split
  · rename_i hc
    have := List.contains_iff_mem.mp hc
    constructor
    · intro h; exact Or.inl h
    · rintro (h | h)
      · exact h
      · rw [h]; exact this
  · simp

theorem mem_detach (s : Subs) (h : s.Nodup) (e : Ev) (cb : Nat) (p : Ev × Nat) :
    p ∈ detach s e cb ↔ p ∈ s ∧ p ≠ (e, cb) := by
  unfold detach
  rw [h.mem_erase_iff]
  exact And.comm

/-- a callback runs once for an event if it is subscribed to it, and not at all otherwise -/
theorem propagate_count (s : Subs) (h : s.Nodup) (e : Ev) (cb : Nat) :
    (propagate s e).count cb = if (e, cb) ∈ s then 1 else 0 := by
  unfold propagate
  induction s with
  | nil => simp
  | cons p s ih =>
    have hn := List.nodup_cons.mp h
    have ih := ih hn.2
    obtain ⟨pe, pc⟩ := p
    by_cases hpe : pe = e
    · subst hpe
      simp only [List.filter_cons, decide_true, if_true, List.map_cons, List.count_cons, List.mem_cons,
        Prod.mk.injEq, true_and]
      by_cases hc : pc = cb
      · subst hc
        have : (pe, pc) ∉ s := hn.1
        simp only [this, if_false] at ih
        simp [ih]
      · have hc' : ¬ cb = pc := fun h => hc h.symm
        simp only [beq_iff_eq, hc, if_false, Nat.add_zero, hc', false_or]
        exact ih
    · have hpe' : ¬ e = pe := fun h => hpe h.symm
      simp only [List.filter_cons, hpe, decide_false, Bool.false_eq_true, if_false, List.mem_cons,
        Prod.mk.injEq, hpe', false_and, false_or]
      exact ih

/-- the calls a callback receives for a list of events: one per event of a kind it is subscribed to -/
theorem deliver_calls (s : Subs) (h : s.Nodup) (evs : List (Ev × Int)) (cb : Nat) :
    ((deliver s evs).filter (·.1 = cb)).map (·.2) =
      evs.filter fun (e, _) => decide ((e, cb) ∈ s) := by
  unfold deliver
  induction evs with
  | nil => rfl
  | cons ev evs ih =>
    obtain ⟨e, m⟩ := ev
    simp only [List.flatMap_cons, List.filter_append, List.map_append, ih, List.filter_cons]
    have hc := propagate_count s h e cb
    have : ((List.map (fun c => (c, e, m)) (propagate s e)).filter (·.1 = cb)).map (·.2) =
        List.replicate ((propagate s e).count cb) (e, m) := by
      generalize propagate s e = l
      induction l with
      | nil => rfl
      | cons x l ihl =>
        simp only [List.map_cons, List.filter_cons, List.count_cons]
        by_cases hx : x = cb
        · subst hx
          simp only [decide_true, if_true, List.map_cons, ihl, beq_self_eq_true, List.replicate_succ]
        · simp only [hx, decide_false, Bool.false_eq_true, if_false, ihl, beq_iff_eq, Nat.add_zero]
    rw [this, hc]
    by_cases hm : (e, cb) ∈ s
    · simp [hm]
    · simp [hm]

end Model
