import PyaisVerif.Lemmas.MsgRT
/-!
# Re-encoding keeps a prefix of always-exact fields bit for bit

Used by C02: the type id and the variant discriminator bits sit behind fields that decoding never
normalises (unsigned integers, flags, spare bits, scaled coordinates), so the re-encoded payload of
*any* decoded message — whatever happened to its later fields — still selects the same class.
-/
namespace Model
open Py Spec

/-- a field that decoding never normalises and that occupies exactly its declared width -/
def prefixField (E : EnumInfo) (f : Field) : Bool :=
  !f.varlen &&
  (match kindOf E f with
   | some .u | some .uf | some .b | some .d | some .U1 | some .I1 | some .I4 | some .I600 => true
   | _ => false)

/-! ## the loop of `to_bitarray` -/

theorem foldlM_encStep_prefix (env : Env) (m : Msg) : ∀ (fs : List Field) (acc r : Bits),
    fs.foldlM (encStep env m) acc = .ok r → ∃ X, r = acc ++ X
  | [], acc, r, h => by
    simp only [List.foldlM_nil, pure, Except.pure] at h
    cases h
    exact ⟨[], by simp⟩
  | f :: fs, acc, r, h => by
    rw [List.foldlM_cons] at h
    cases hs : encStep env m acc f with
    | error e => rw [hs] at h; cases h
    | ok a =>
      rw [hs] at h
      have h' : fs.foldlM (encStep env m) a = .ok r := h
      obtain ⟨X, hX⟩ := foldlM_encStep_prefix env m fs a r h'
      have ha : ∃ Y, a = acc ++ Y := by
        unfold encStep at hs
        split at hs
        · cases hs; exact ⟨[], by simp⟩
        · cases he : encodeField env f (m.get f.name) with
          | error e => rw [he] at hs; cases hs
          | ok b => rw [he] at hs; cases hs; exact ⟨b, rfl⟩
      obtain ⟨Y, hY⟩ := ha
      exact ⟨Y ++ X, by rw [hX, hY, List.append_assoc]⟩

theorem foldlM_encStep_congr (env : Env) (m1 m2 : Msg) : ∀ (fs : List Field) (acc : Bits),
    (∀ f ∈ fs, m1.get f.name = m2.get f.name) →
    fs.foldlM (encStep env m1) acc = fs.foldlM (encStep env m2) acc
  | [], _, _ => rfl
  | f :: fs, acc, h => by
    rw [List.foldlM_cons, List.foldlM_cons]
    have h1 : encStep env m1 acc f = encStep env m2 acc f := by
      unfold encStep
      rw [h f (List.mem_cons_self ..)]
    rw [h1]
    cases encStep env m2 acc f with
    | error e => rfl
    | ok a => exact foldlM_encStep_congr env m1 m2 fs a (fun g hg => h g (List.mem_cons_of_mem _ hg))

theorem foldlM_encStep_allNone (env : Env) (m : Msg) : ∀ (fs : List Field) (acc : Bits),
    (∀ f ∈ fs, m.get f.name = .none) → fs.foldlM (encStep env m) acc = .ok acc
  | [], _, _ => rfl
  | f :: fs, acc, h => by
    rw [List.foldlM_cons, encStep_none env m acc f (h f (List.mem_cons_self ..))]
    exact foldlM_encStep_allNone env m fs acc (fun g hg => h g (List.mem_cons_of_mem _ hg))

theorem encodeField_length (env : Env) (f : Field) (v : Val) (b : Bits)
    (h : encodeField env f v = .ok b) : b.length ≤ f.width := by
  unfold encodeField at h
  simp only [bind, Except.bind] at h
  repeat' split at h
  all_goals first
    | (cases h; done)
    | (injection h with h; subst h; simp only [List.length_take]; omega)

theorem foldlM_encStep_length (env : Env) (m : Msg) : ∀ (fs : List Field) (acc r : Bits),
    fs.foldlM (encStep env m) acc = .ok r → r.length ≤ acc.length + widthSum fs
  | [], acc, r, h => by
    simp only [List.foldlM_nil, pure, Except.pure] at h
    cases h
    simp [widthSum]
  | f :: fs, acc, r, h => by
    rw [List.foldlM_cons] at h
    cases hs : encStep env m acc f with
    | error e => rw [hs] at h; cases h
    | ok a =>
      rw [hs] at h
      have h' : fs.foldlM (encStep env m) a = .ok r := h
      have ih := foldlM_encStep_length env m fs a r h'
      have ha : a.length ≤ acc.length + f.width := by
        unfold encStep at hs
        split at hs
        · cases hs; omega
        · cases he : encodeField env f (m.get f.name) with
          | error e => rw [he] at hs; cases hs
          | ok b =>
            rw [he] at hs; cases hs
            have := encodeField_length env f _ b he
            simp only [List.length_append]
            omega
      rw [widthSum_cons]
      omega

/-! ## offsets of a table split at a field boundary -/

theorem offsetsFrom_append (c : Nat) (a b : List Field) :
    offsetsFrom c (a ++ b) = offsetsFrom c a ++ offsetsFrom (c + widthSum a) b := by
  induction a generalizing c with
  | nil => simp [offsetsFrom, widthSum]
  | cons f a ih =>
    simp only [List.cons_append, offsetsFrom, widthSum_cons]
    rw [ih, Nat.add_assoc]

theorem offsetsFrom_bounds (c : Nat) (l : List Field) (p : Field × Nat) (h : p ∈ offsetsFrom c l) :
    p.1 ∈ l ∧ c ≤ p.2 ∧ p.2 + p.1.width ≤ c + widthSum l := by
  induction l generalizing c with
  | nil => simp [offsetsFrom] at h
  | cons f l ih =>
    simp only [offsetsFrom, List.mem_cons] at h
    rw [widthSum_cons]
    rcases h with rfl | h
    · exact ⟨List.mem_cons_self .., Nat.le_refl _, by simp only; omega⟩
    · obtain ⟨h1, h2, h3⟩ := ih _ h
      exact ⟨List.mem_cons_of_mem _ h1, by omega, by omega⟩

theorem offsetsFrom_map_fst (c : Nat) (l : List Field) : (offsetsFrom c l).map (·.1) = l := by
  induction l generalizing c with
  | nil => rfl
  | cons f l ih => simp [offsetsFrom, ih]

/-- every field of the table occurs in the offset list -/
theorem mem_offsetsFrom_of_mem (c : Nat) (l : List Field) (f : Field) (h : f ∈ l) :
    ∃ o, (f, o) ∈ offsetsFrom c l := by
  rw [← offsetsFrom_map_fst c l] at h
  obtain ⟨p, hp, rfl⟩ := List.mem_map.mp h
  exact ⟨p.2, hp⟩

/-! ## looking a decoded field up by name -/

theorem get_of_index (c : String) (kv : List (String × Val)) (hn : (kv.map (·.1)).Nodup)
    (i : Nat) (n : String) (v : Val) (hi : kv[i]? = some (n, v)) :
    ({ cls := c, fields := kv } : Msg).get n = v := by
  have hmem : (n, v) ∈ kv := List.mem_of_getElem? hi
  have := lookup_map_nodup (fun q : String × Val => q.1) (fun q => q.2) kv hn (n, v) hmem
  have e : (kv.map fun q => (q.1, q.2)) = kv := by simp
  rw [e] at this
  unfold Msg.get
  simp only [this]

/-- the value a successful decode holds under a field's name -/
theorem get_of_decode (env : Env) (c : String) (fs : List Field) (hn : (fs.map (·.name)).Nodup)
    (bits : Bits) (kv : List (String × Val)) (h : seqDecode env bits 0 fs = .ok kv)
    (f : Field) (o : Nat) (hm : (f, o) ∈ offsetsFrom 0 fs) :
    ∃ v, ({ cls := c, fields := kv } : Msg).get f.name = v ∧
      (if o ≥ bits.length then .ok .none else decodeField env f (fieldSlice bits o f.width))
        = Except.ok v := by
  obtain ⟨i, hi⟩ := List.getElem?_of_mem hm
  obtain ⟨v, h1, h2⟩ := seqDecode_getElem env fs bits kv h i f o hi
  refine ⟨v, ?_, h2⟩
  have hnames := seqDecode_names env fs bits 0 kv h
  exact get_of_index c kv (by rw [hnames]; exact hn) i f.name v h1

/-! ## the prefix theorem -/

theorem fieldSlice_nil_of_le (bits : Bits) (o w : Nat) (h : bits.length ≤ o) : fieldSlice bits o w = [] := by
  unfold fieldSlice
  rw [List.drop_eq_nil_of_le h]
  simp

theorem exactField_prefix (env : Env) (E : EnumInfo) (fromRot : List String) (f : Field) (k : Kind)
    (hp : prefixField E f = true) (hk : kindOf E f = some k) (bits : Bits) :
    ExactField env E fromRot f k bits := by
  unfold prefixField at hp
  rw [hk] at hp
  unfold ExactField
  cases k <;> simp_all

/-- **Prefix theorem.** If the first `j` fields of a good table are never normalised by decoding and
the payload covers them, the re-encoding of the decoded message starts with exactly those bits. -/
theorem reencode_prefix (env : Env) (E : EnumInfo) (fromRot : List String)
    (htab : TablesOk env E = true) (hrot : RotTablesOk env E fromRot = true)
    (henum : EnumRTOk env E = true)
    (cls : String) (fs : List Field) (ht : TableRT E fromRot fs = true)
    (j : Nat) (hpre : ∀ f ∈ fs.take j, prefixField E f = true)
    (bits : Bits) (hP : widthSum (fs.take j) ≤ bits.length)
    (kv : List (String × Val)) (bits' : Bits)
    (h1 : seqDecode env bits 0 fs = .ok kv)
    (h2 : toBitarray env fs { cls := cls, fields := kv } = .ok bits') :
    bits'.take (widthSum (fs.take j)) = bits.take (widthSum (fs.take j)) := by
  obtain ⟨hnd, hok⟩ := tableRT_spec E fromRot fs ht
  generalize hPdef : widthSum (fs.take j) = P at *
  have hlenP : (bits.take P).length = P := by simp only [List.length_take]; omega
  -- the table split at the boundary
  have hsplit : offsetsFrom 0 fs = offsetsFrom 0 (fs.take j) ++ offsetsFrom P (fs.drop j) := by
    have := offsetsFrom_append 0 (fs.take j) (fs.drop j)
    rw [List.take_append_drop, Nat.zero_add, hPdef] at this
    exact this
  have hin : ∀ p ∈ offsetsFrom 0 fs, p.2 < P → p.1 ∈ fs.take j ∧ p.2 + p.1.width ≤ P := by
    intro p hp hlt
    rw [hsplit, List.mem_append] at hp
    rcases hp with hp | hp
    · obtain ⟨a, _, c⟩ := offsetsFrom_bounds 0 _ p hp
      exact ⟨a, by rw [hPdef] at c; omega⟩
    · obtain ⟨_, b, _⟩ := offsetsFrom_bounds P _ p hp
      omega
  -- the truncated payload meets the hypotheses of the re-encoding theorem
  have hb : OnBoundary fs (bits.take P).length := by
    rw [hlenP]
    by_cases hj : j ≤ fs.length
    · exact Or.inl ⟨j, hj, hPdef.symm⟩
    · refine Or.inl ⟨fs.length, Nat.le_refl _, ?_⟩
      rw [← hPdef, List.take_of_length_le (by omega), List.take_length]
  have hpad : PadZero E fs (bits.take P) := by
    intro p hp hk b hb'
    by_cases hlt : p.2 < P
    · obtain ⟨hm, _⟩ := hin p hp hlt
      have := hpre p.1 hm
      unfold prefixField at this
      rw [hk] at this
      simp at this
    · rw [fieldSlice_nil_of_le _ _ _ (by rw [hlenP]; omega)] at hb'
      simp at hb'
  have hex : AllExact env E fromRot fs (bits.take P) := by
    intro p hp hlt k hk
    rw [hlenP] at hlt
    exact exactField_prefix env E fromRot p.1 k (hpre p.1 (hin p hp hlt).1) hk _
  have hrag : ¬ RaggedTail E fs (bits.take P) := by
    rintro ⟨f, hlast, hlt, hcase⟩
    rw [hlenP] at hlt
    -- the last field lies in the prefix
    have hfl : f ∈ fs.take j := by
      have hfs : fs = fs.dropLast ++ [f] := by
        have hne : fs ≠ [] := by intro e; rw [e] at hlast; simp at hlast
        rw [List.getLast?_eq_some_getLast hne] at hlast
        cases hlast
        exact (List.dropLast_concat_getLast hne).symm
      by_cases hj : j < fs.length
      · exfalso
        have hjl : j ≤ fs.dropLast.length := by simp only [List.length_dropLast]; omega
        have : fs.take j = fs.dropLast.take j := by
          conv => lhs; rw [hfs]
          rw [List.take_append_of_le_length hjl]
        have hle : widthSum (fs.dropLast.take j) ≤ widthSum fs.dropLast := by
          conv => rhs; rw [← List.take_append_drop j fs.dropLast]
          simp only [widthSum, List.map_append, List.sum_append]
          omega
        rw [← hPdef, this] at hlt
        omega
      · rw [List.take_of_length_le (by omega)]
        exact List.mem_of_getLast? hlast
    have hp := hpre f hfl
    unfold prefixField at hp
    simp only [Bool.and_eq_true, Bool.not_eq_true'] at hp
    obtain ⟨hv, hk⟩ := hp
    rcases hcase with ⟨_, hkt, _⟩ | ⟨hv', _⟩ | ⟨hv', _⟩
    · rw [hkt] at hk; simp at hk
    · rw [hv] at hv'; cases hv'
    · rw [hv] at hv'; cases hv'
  obtain ⟨kvP, bitsP, d1, d2, _, d4⟩ := msg_reencode env E fromRot htab hrot henum cls fs ht
    (bits.take P) hb hpad
  have hbP : bitsP = bits.take P := d4 hex hrag
  subst hbP
  -- the two messages agree under the names of the prefix fields; the rest is absent in the short one
  have hget_pre : ∀ f ∈ fs.take j,
      ({ cls := cls, fields := kv } : Msg).get f.name = ({ cls := cls, fields := kvP } : Msg).get f.name := by
    intro f hf
    obtain ⟨o, ho⟩ := mem_offsetsFrom_of_mem 0 (fs.take j) f hf
    have hofs : (f, o) ∈ offsetsFrom 0 fs := by rw [hsplit]; exact List.mem_append_left _ ho
    obtain ⟨_, _, hbound⟩ := offsetsFrom_bounds 0 _ _ ho
    simp only [Nat.zero_add, hPdef] at hbound
    have hw : 0 < f.width := by
      obtain ⟨_, _, _, hw, _⟩ := hok.field f (List.mem_of_mem_take hf)
      exact hw
    obtain ⟨v, g1, e1⟩ := get_of_decode env cls fs hnd bits kv h1 f o hofs
    obtain ⟨v', g2, e2⟩ := get_of_decode env cls fs hnd (bits.take P) kvP d1 f o hofs
    rw [if_neg (by omega)] at e1
    rw [hlenP, if_neg (by omega), fieldSlice_take bits P o f.width (by omega) hbound, e1] at e2
    cases e2
    rw [g1, g2]
  have hget_post : ∀ f ∈ fs.drop j, ({ cls := cls, fields := kvP } : Msg).get f.name = .none := by
    intro f hf
    obtain ⟨o, ho⟩ := mem_offsetsFrom_of_mem P (fs.drop j) f hf
    have hofs : (f, o) ∈ offsetsFrom 0 fs := by rw [hsplit]; exact List.mem_append_right _ ho
    obtain ⟨_, hlow, _⟩ := offsetsFrom_bounds P _ _ ho
    obtain ⟨v', g2, e2⟩ := get_of_decode env cls fs hnd (bits.take P) kvP d1 f o hofs
    rw [hlenP, if_pos hlow] at e2
    cases e2
    exact g2
  -- the loops
  rw [toBitarray_eq_fold] at h2 d2
  rw [← List.take_append_drop j fs, List.foldlM_append] at h2 d2
  have hfirst : (fs.take j).foldlM (encStep env { cls := cls, fields := kv }) [] =
      (fs.take j).foldlM (encStep env { cls := cls, fields := kvP }) [] :=
    foldlM_encStep_congr env _ _ _ [] hget_pre
  cases hA : (fs.take j).foldlM (encStep env { cls := cls, fields := kvP }) [] with
  | error e => rw [hA] at d2; cases d2
  | ok acc1 =>
    rw [hA] at d2
    rw [hfirst, hA] at h2
    have d2' : (fs.drop j).foldlM (encStep env { cls := cls, fields := kvP }) acc1 = .ok (bits.take P) := d2
    rw [foldlM_encStep_allNone env _ _ acc1 hget_post] at d2'
    cases d2'
    have h2' : (fs.drop j).foldlM (encStep env { cls := cls, fields := kv }) (bits.take P) = .ok bits' := h2
    obtain ⟨X, hX⟩ := foldlM_encStep_prefix env _ _ _ _ h2'
    rw [hX, List.take_append_of_le_length (by omega), List.take_of_length_le (by omega)]

end Model
