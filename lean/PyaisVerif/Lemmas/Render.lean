import PyaisVerif.Spec.Carrier
import PyaisVerif.Lemmas.Checksum
/-!
# parse ∘ render: the factory accepts every rendered fragment and reads back exactly what was
written (generic part of C04 / C09 / C16)
-/
namespace Model
open Py Spec

/-- decimal rendering is read back by `int()` (fragment numbers, fill bits, sequence ids) -/
theorem pyInt10_natToDec (n : Nat) (h : n ≤ 100) : pyInt10 (natToDec n) = some (n : Int) := by
  sorry

/-- decimal digits only -/
theorem natToDec_digits (n : Nat) (h : n ≤ 100) : ∀ b ∈ natToDec n, isDigit b = true := by
  sorry

theorem natToDec_ne_nil (n : Nat) : natToDec n ≠ [] := by
  sorry

/-- one-digit numbers render as one character -/
theorem natToDec_length_one (n : Nat) (h : n ≤ 9) : (natToDec n).length = 1 := by
  sorry

/-- de-armoring never fails on characters of the armoring alphabet with 0–5 fill bits -/
theorem dearmor_ok (chunk : Bytes) (fill : Nat) (h : chunk.all isArmorChar = true) :
    ∃ bits, dearmor chunk fill = .ok bits := by
  sorry

/-- **parse ∘ render.** For every well-formed fragment description the factory returns exactly the
expected sentence object: every carrier field read back as written, the checksum flag true, the
payload de-armored with the given fill-bit count. -/
theorem produce_renderFrag (k : NmeaConsts) (f : FragSpec) (hok : FragOK k f = true)
    (bits : Bits) (hb : dearmor f.chunk f.fill = .ok bits) :
    produce k (renderFrag f) = .ok (expectedSentence f bits) := by
  sorry

/-- trailing CR/LF/blanks do not matter -/
theorem produce_trailer (k : NmeaConsts) (line trailer : Bytes) (ht : trailer.all isSpace = true) :
    produce k (line ++ trailer) = produce k line := by
  sorry

/-- **A leading tag block never alters the sentence**: for a backslash-free, non-empty tag block
`tb` and a line without leading whitespace that does not itself start with a backslash, the factory
returns what it returns for the bare line, with the tag block attached. -/
theorem produce_tagblock (k : NmeaConsts) (tb line : Bytes) (htb : BACKSLASH ∉ tb) (htb0 : tb ≠ [])
    (hline : ∀ b, line.head? = some b → isSpace b = false ∧ b ≠ BACKSLASH) (hne : line ≠ []) :
    produce k ([BACKSLASH] ++ tb ++ [BACKSLASH] ++ line) =
      (match produce k line with
       | .ok s => .ok { s with tagBlock := some tb }
       | .error e => .error e) := by
  sorry

end Model
