import PyaisVerif.Spec.Carrier
import PyaisVerif.Lemmas.Checksum
/-!
# parse ∘ render: the factory accepts every rendered fragment and reads back exactly what was
written (generic part of C04 / C09 / C16)
-/
namespace Model
open Py Spec

/-! ## decimal rendering, de-armoring -/

theorem pyInt10_natToDec_all :
    (List.range 101).all (fun n => decide (pyInt10 (natToDec n) = some (n : Int))) = true := by
  decide +kernel

/-- decimal rendering is read back by `int()` (fragment numbers, fill bits, sequence ids) -/
theorem pyInt10_natToDec (n : Nat) (h : n ≤ 100) : pyInt10 (natToDec n) = some (n : Int) := by
  have := List.all_eq_true.mp pyInt10_natToDec_all n (List.mem_range.mpr (by omega))
  simpa using this

theorem natToDec_digits_all :
    (List.range 101).all (fun n => (natToDec n).all isDigit) = true := by
  decide +kernel

/-- decimal digits only -/
theorem natToDec_digits (n : Nat) (h : n ≤ 100) : ∀ b ∈ natToDec n, isDigit b = true := by
  have := List.all_eq_true.mp natToDec_digits_all n (List.mem_range.mpr (by omega))
  exact List.all_eq_true.mp this

theorem natToDecAux_ne_nil (fuel n : Nat) (acc : Bytes) (h : acc ≠ []) : natToDecAux fuel n acc ≠ [] := by
  induction fuel generalizing n acc with
  | zero => simpa [natToDecAux] using h
  | succ f ih =>
    unfold natToDecAux
    split
    · simp
    · exact ih _ _ (by simp)

theorem natToDec_ne_nil (n : Nat) : natToDec n ≠ [] := by
  unfold natToDec natToDecAux
  split
  · simp
  · exact natToDecAux_ne_nil _ _ _ (by simp)

/-- one-digit numbers render as one character -/
theorem natToDec_length_one (n : Nat) (h : n ≤ 9) : (natToDec n).length = 1 := by
  have : n < 10 := by omega
  simp [natToDec, natToDecAux, this]

theorem dearmorAux_ok (fill : Nat) (hf : fill ≤ 5) (chunk : Bytes) (h : chunk.all isArmorChar = true) :
    ∃ bits, dearmorAux (fill : Int) chunk = .ok bits := by
  induction chunk with
  | nil => exact ⟨[], rfl⟩
  | cons c cs ih =>
    simp only [List.all_cons, Bool.and_eq_true] at h
    obtain ⟨hc, hcs⟩ := h
    obtain ⟨r, hr⟩ := ih hcs
    have hc' : 0x20 ≤ c ∧ c ≤ 0x7e := by
      simp only [isArmorChar, Bool.or_eq_true, Bool.and_eq_true, decide_eq_true_eq] at hc
      omega
    unfold dearmorAux
    rw [if_neg (by simpa using hc')]
    simp only
    split
    · rw [if_neg (by omega), if_neg (by omega)]
      exact ⟨_, rfl⟩
    · rw [hr]; exact ⟨_, rfl⟩

/-- de-armoring never fails on characters of the armoring alphabet with 0–5 fill bits.
(The bound on `fill` is needed: `dearmor [48] (2^63 + 7)` is the `OverflowError` of `zfill`.) -/
theorem dearmor_ok (chunk : Bytes) (fill : Nat) (h : chunk.all isArmorChar = true) (hf : fill ≤ 5) :
    ∃ bits, dearmor chunk fill = .ok bits := dearmorAux_ok fill hf chunk h

/-! ## parse ∘ render -/

theorem strBytes_VDM : strBytes "VDM" = [86, 68, 77] := by decide
theorem strBytes_VDO : strBytes "VDO" = [86, 68, 79] := by decide

/-- bytes allowed between `!` and `*`: 7-bit and not `*` -/
def bodyByte (b : Nat) : Prop := b < 128 ∧ b ≠ STAR

theorem isAlnum_clean (c : Nat) (h : isAlnum c = true) : c < 128 ∧ c ≠ STAR ∧ c ≠ COMMA := by
  simp only [isAlnum, Bool.or_eq_true, Bool.and_eq_true, decide_eq_true_eq] at h
  simp only [STAR, COMMA]; omega

theorem isDigit_clean (c : Nat) (h : isDigit c = true) : c < 128 ∧ c ≠ STAR ∧ c ≠ COMMA := by
  simp only [isDigit, Bool.and_eq_true, decide_eq_true_eq] at h
  have h' : (48 : Nat) ≤ c ∧ c ≤ (57 : Nat) := h
  simp only [STAR, COMMA]; omega

theorem isArmorChar_clean (c : Nat) (h : isArmorChar c = true) : c < 128 ∧ c ≠ STAR ∧ c ≠ COMMA := by
  simp only [isArmorChar, Bool.or_eq_true, Bool.and_eq_true, decide_eq_true_eq] at h
  simp only [STAR, COMMA]; omega

theorem split_seven (a b c d e f g : Bytes) (ha : COMMA ∉ a) (hb : COMMA ∉ b) (hc : COMMA ∉ c)
    (hd : COMMA ∉ d) (he : COMMA ∉ e) (hf : COMMA ∉ f) (hg : COMMA ∉ g) :
    split COMMA (a ++ COMMA :: (b ++ COMMA :: (c ++ COMMA :: (d ++ COMMA :: (e ++ COMMA ::
      (f ++ COMMA :: g)))))) = [a, b, c, d, e, f, g] := by
  unfold split
  rw [List.splitOn_append_cons_self_of_not_mem ha, List.splitOn_append_cons_self_of_not_mem hb,
    List.splitOn_append_cons_self_of_not_mem hc, List.splitOn_append_cons_self_of_not_mem hd,
    List.splitOn_append_cons_self_of_not_mem he, List.splitOn_append_cons_self_of_not_mem hf,
    List.splitOn_eq_singleton hg]

theorem chkToInt_eq (u hh : Bytes) (i j : Int) (hu : STAR ∉ u) (hh' : STAR ∉ hh)
    (hi : pyInt10 u = some i) (hj : pyInt16 hh = some j) : chkToInt (u ++ [STAR] ++ hh) = (i, j) := by
  have h1 : split STAR (u ++ [STAR] ++ hh) = [u, hh] := by
    have : u ++ [STAR] ++ hh = u ++ STAR :: hh := by simp
    rw [this, split, List.splitOn_append_cons_self_of_not_mem hu, List.splitOn_eq_singleton hh']
  have h2 : (u ++ [STAR] ++ hh).isEmpty = false := by simp
  unfold chkToInt
  rw [h2, h1]
  simp [hi, hj]

/-- `NMEASentence.__init__` once the comma fields are known -/
theorem nmeaInit_of_split (raw head last : Bytes) (mid : List Bytes) (cs : Nat) (fill check : Int)
    (hs : split COMMA raw = head :: (mid ++ [last]))
    (htalk : isAscii (slice head 1 3) = true) (htyp : isAscii (head.drop 3) = true)
    (hchk : chkToInt last = (fill, check)) (hcs : computeChecksum raw = .ok cs) :
    nmeaInit raw = .ok {
      raw := raw, isAIS := false, delimiter := head.take 1,
      talker := slice head 1 3, typ := head.drop 3, checksum := check, fillBits := fill,
      isValid := (check == (cs : Int)), dataFields := mid } := by
  have hl : (head :: (mid ++ [last])).getLast?.getD [] = last := by
    rw [show head :: (mid ++ [last]) = (head :: mid) ++ [last] from rfl, List.getLast?_concat]; rfl
  unfold nmeaInit
  simp [hs, hl, decodeAscii, htalk, htyp, hchk, hcs, bind, Except.bind]

theorem produceRaw_ais (k : NmeaConsts) (raw head : Bytes) (rest : List Bytes)
    (hs : split COMMA raw = head :: rest)
    (hcode : upper (head.drop 3) = strBytes "VDM" ∨ upper (head.drop 3) = strBytes "VDO") :
    produceRaw k raw = aisInit k raw := by
  simp only [produceRaw, hs, List.headD_cons]
  split
  · rfl
  · rename_i h; exact absurd hcode h

/-- `AISSentence.__init__` once `NMEASentence.__init__` succeeded with five well-formed data fields -/
theorem aisInit_of_nmea (k : NmeaConsts) (raw : Bytes) (s0 : Sentence) (mf fn mid ch pl : Bytes)
    (c n : Nat) (sq : Option Int) (bits : Bits)
    (h0 : nmeaInit raw = .ok s0) (hdf : s0.dataFields = [mf, fn, mid, ch, pl])
    (hc : pyInt10 mf = some (c : Int)) (hn : pyInt10 fn = some (n : Int))
    (hsq : (mid = [] ∧ sq = none) ∨ (mid ≠ [] ∧ ∃ i, pyInt10 mid = some i ∧ sq = some i))
    (hch : isAscii ch = true) (hpl : pl.length ≤ k.maxPayloadLen)
    (hc1 : 1 ≤ c) (hc2 : c ≤ k.maxFragCnt) (hn1 : 1 ≤ n) (hn2 : n ≤ k.maxFragCnt)
    (hb : dearmor pl s0.fillBits = .ok bits) :
    aisInit k raw = .ok { s0 with
      isAIS := true, fragCnt := c, fragNum := n, seqId := sq,
      channel := ch, payload := pl, bits := bits, aisId := getInt bits 0 6 } := by
  unfold aisInit
  have e1 : ¬ (pl.length > k.maxPayloadLen) := by omega
  have e2 : ¬ ((c : Int) > k.maxFragCnt ∨ (n : Int) > k.maxFragCnt) := by omega
  have e3 : ¬ ((c : Int) < 1 ∨ (n : Int) < 1) := by omega
  rcases hsq with ⟨rfl, rfl⟩ | ⟨hm, i, hi, rfl⟩
  · simp only [h0, bind, Except.bind, hdf, List.take, hc, hn, hch, if_true, List.isEmpty_nil]
    rw [if_neg e1, if_neg e2, if_neg e3, hb]
  · have hm' : mid.isEmpty = false := by cases mid <;> simp_all
    simp only [h0, bind, Except.bind, hdf, List.take, hc, hn, hch, if_true, hm', hi,
      Bool.false_eq_true, if_false]
    rw [if_neg e1, if_neg e2, if_neg e3, hb]

theorem produce_of_plain (k : NmeaConsts) (raw : Bytes) (s : Sentence) (hne : raw ≠ [])
    (hp : preProcess raw = .ok (raw, none)) (h : produceRaw k raw = .ok s) :
    produce k raw = .ok s := by
  unfold produce
  have : raw.isEmpty = false := by cases raw <;> simp_all
  simp [this, hp, h, bind, Except.bind]

theorem renderFrag_eq (f : FragSpec) :
    renderFrag f = (33 :: (f.talker ++ f.kind)) ++ COMMA :: (natToDec f.cnt ++ COMMA ::
      (natToDec f.num ++ COMMA :: (seqBytes f.seq ++ COMMA :: (f.chan ++ COMMA :: (f.chunk ++ COMMA ::
        (natToDec f.fill ++ [STAR] ++ hex2 (xorAll (fragBody f)))))))) := by
  unfold renderFrag
  generalize hex2 (xorAll (fragBody f)) = hh
  simp [fragBody]

/-- every byte is 7-bit and neither `*` nor `,` -/
def Clean (l : Bytes) : Prop := ∀ b ∈ l, b < 128 ∧ b ≠ STAR ∧ b ≠ COMMA

/-- every byte is 7-bit and not `*` -/
def BodyOK (l : Bytes) : Prop := ∀ b ∈ l, b < 128 ∧ b ≠ STAR

theorem Clean.bodyOK {l : Bytes} (h : Clean l) : BodyOK l := fun b hb => ⟨(h b hb).1, (h b hb).2.1⟩
theorem Clean.no_comma {l : Bytes} (h : Clean l) : COMMA ∉ l := fun hm => (h _ hm).2.2 rfl
theorem Clean.no_star {l : Bytes} (h : Clean l) : STAR ∉ l := fun hm => (h _ hm).2.1 rfl
theorem Clean.ascii {l : Bytes} (h : Clean l) : isAscii l = true := by
  unfold isAscii
  exact List.all_eq_true.mpr fun b hb => by simpa using (h b hb).1

theorem BodyOK.append {a b : Bytes} (ha : BodyOK a) (hb : BodyOK b) : BodyOK (a ++ b) := by
  intro x hx
  rcases List.mem_append.mp hx with h | h
  · exact ha x h
  · exact hb x h

theorem bodyOK_comma : BodyOK [COMMA] := by
  intro b hb
  have : b = COMMA := by simpa using hb
  subst this; decide

theorem clean_of_all (p : Nat → Bool) (hp : ∀ c, p c = true → c < 128 ∧ c ≠ STAR ∧ c ≠ COMMA)
    (l : Bytes) (h : l.all p = true) : Clean l :=
  fun b hb => hp b (List.all_eq_true.mp h b hb)

theorem clean_natToDec (n : Nat) (h : n ≤ 100) : Clean (natToDec n) :=
  fun b hb => isDigit_clean b (natToDec_digits n h b hb)

theorem strip_std (d : Byte) (body : Bytes) (x : Nat) (hd : isSpace d = false) :
    strip ([d] ++ body ++ [STAR] ++ hex2 x) = [d] ++ body ++ [STAR] ++ hex2 x := by
  apply strip_id
  · intro b hb'
    have : b = d := by simpa using hb'.symm
    rw [this]; exact hd
  · intro b hb'
    have hm : b ∈ hex2 x := by
      have hl : [d] ++ body ++ [STAR] ++ hex2 x
          = ([d] ++ body ++ [STAR] ++ [hexDigitUpper (x / 16 % 16)]) ++ [hexDigitUpper (x % 16)] := by
        simp [hex2]
      rw [hl, List.getLast?_concat] at hb'
      simp [hex2, ← Option.some.inj hb']
    exact (hex2_clean x b hm).2.2

/-- **parse ∘ render.** For every well-formed fragment description the factory returns exactly the
expected sentence object: every carrier field read back as written, the checksum flag true, the
payload de-armored with the given fill-bit count. -/
theorem produce_renderFrag (k : NmeaConsts) (f : FragSpec) (hok : FragOK k f = true)
    (bits : Bits) (hb : dearmor f.chunk f.fill = .ok bits) :
    produce k (renderFrag f) = .ok (expectedSentence f bits) := by
  simp only [FragOK, Bool.and_eq_true, Bool.or_eq_true, beq_iff_eq, decide_eq_true_eq,
    and_assoc] at hok
  obtain ⟨htl, hta, hkind, hc1, hc2, hc3, hn1, hn2, hn3, hseq, hchan, hchunk, hlen, hfill⟩ := hok
  -- the pieces contain no `,`, no `*`, and are 7-bit
  have cTalker : Clean f.talker := clean_of_all _ isAlnum_clean _ hta
  have cKind : Clean f.kind := by
    rcases hkind with h | h
    · rw [h, strBytes_VDM]; unfold Clean; decide
    · rw [h, strBytes_VDO]; unfold Clean; decide
  have cCnt : Clean (natToDec f.cnt) := clean_natToDec _ hc3
  have cNum : Clean (natToDec f.num) := clean_natToDec _ hn3
  have cFill : Clean (natToDec f.fill) := clean_natToDec _ (by omega)
  have cChan : Clean f.chan := clean_of_all _ isAlnum_clean _ hchan
  have cChunk : Clean f.chunk := clean_of_all _ isArmorChar_clean _ hchunk
  have cSeq : Clean (seqBytes f.seq) := by
    cases hs : f.seq with
    | none => intro b hb; simp [seqBytes] at hb
    | some n =>
      rw [hs] at hseq
      exact clean_natToDec n (by simp at hseq; omega)
  have hbody : BodyOK (fragBody f) := by
    unfold fragBody
    repeat' apply BodyOK.append
    all_goals first | exact bodyOK_comma | exact Clean.bodyOK (by assumption)
  have hstar : STAR ∉ fragBody f := fun hm => (hbody _ hm).2 rfl
  have hx : xorAll (fragBody f) < 256 := xorAll_lt _ fun b hb => by have := (hbody b hb).1; omega
  have hhexS : STAR ∉ hex2 (xorAll (fragBody f)) := fun hm => (hex2_clean _ _ hm).1 rfl
  have hhexC : COMMA ∉ hex2 (xorAll (fragBody f)) := fun hm => (hex2_clean _ _ hm).2.1 rfl
  have hlastC : COMMA ∉ natToDec f.fill ++ [STAR] ++ hex2 (xorAll (fragBody f)) := by
    intro hm
    rcases List.mem_append.mp hm with hm | hm
    · rcases List.mem_append.mp hm with hm | hm
      · exact cFill.no_comma hm
      · simp [STAR, COMMA] at hm
    · exact hhexC hm
  have hheadC : COMMA ∉ 33 :: (f.talker ++ f.kind) := by
    intro hm
    rcases List.mem_cons.mp hm with hm | hm
    · simp [COMMA] at hm
    · rcases List.mem_append.mp hm with hm | hm
      · exact cTalker.no_comma hm
      · exact cKind.no_comma hm
  have hsplit : split COMMA (renderFrag f) = (33 :: (f.talker ++ f.kind)) ::
      ([natToDec f.cnt, natToDec f.num, seqBytes f.seq, f.chan, f.chunk] ++
        [natToDec f.fill ++ [STAR] ++ hex2 (xorAll (fragBody f))]) := by
    rw [renderFrag_eq, split_seven _ _ _ _ _ _ _ hheadC cCnt.no_comma cNum.no_comma cSeq.no_comma
      cChan.no_comma cChunk.no_comma hlastC]
    rfl
  have hslice : slice (33 :: (f.talker ++ f.kind)) 1 3 = f.talker := by
    show (f.talker ++ f.kind).take 2 = f.talker
    exact List.take_left' htl
  have hdrop : (33 :: (f.talker ++ f.kind)).drop 3 = f.kind := by
    show (f.talker ++ f.kind).drop 2 = f.kind
    exact List.drop_left' htl
  have hchk : chkToInt (natToDec f.fill ++ [STAR] ++ hex2 (xorAll (fragBody f)))
      = ((f.fill : Int), (xorAll (fragBody f) : Int)) :=
    chkToInt_eq _ _ _ _ cFill.no_star hhexS (pyInt10_natToDec _ (by omega)) (pyInt16_hex2 _ hx)
  have hcs : computeChecksum (renderFrag f) = .ok (xorAll (fragBody f)) := by
    have hne : (fragBody f).isEmpty = false := by
      have : COMMA ∈ fragBody f := by simp [fragBody]
      cases hfb : fragBody f with
      | nil => rw [hfb] at this; simp at this
      | cons _ _ => rfl
    unfold computeChecksum renderFrag
    rw [checksumBody_eq _ _ _ hstar]
    simp [hne]
  have h0 := nmeaInit_of_split (renderFrag f) _ _ _ _ _ _ hsplit (by rw [hslice]; exact cTalker.ascii)
    (by rw [hdrop]; exact cKind.ascii) hchk hcs
  simp only [hslice, hdrop, beq_self_eq_true] at h0
  have hsq : (seqBytes f.seq = [] ∧ f.seq.map Int.ofNat = none) ∨
      (seqBytes f.seq ≠ [] ∧ ∃ i, pyInt10 (seqBytes f.seq) = some i ∧ f.seq.map Int.ofNat = some i) := by
    cases hs : f.seq with
    | none => exact Or.inl ⟨rfl, rfl⟩
    | some n =>
      rw [hs] at hseq
      exact Or.inr ⟨natToDec_ne_nil n, n, pyInt10_natToDec n (by simp at hseq; omega), rfl⟩
  have h1 := aisInit_of_nmea k (renderFrag f) _ _ _ _ _ _ f.cnt f.num _ bits h0 rfl
    (pyInt10_natToDec _ hc3) (pyInt10_natToDec _ hn3) hsq cChan.ascii hlen hc1 hc2 hn1 hn2 hb
  have hcode : upper ((33 :: (f.talker ++ f.kind)).drop 3) = strBytes "VDM" ∨
      upper ((33 :: (f.talker ++ f.kind)).drop 3) = strBytes "VDO" := by
    rw [hdrop]
    rcases hkind with h | h
    · left; rw [h]; decide
    · right; rw [h]; decide
  have h2 := (produceRaw_ais k (renderFrag f) _ _ hsplit hcode).trans h1
  have hpp : preProcess (renderFrag f) = .ok (renderFrag f, none) :=
    preProcess_plain _ 33 (fragBody f ++ [STAR] ++ hex2 (xorAll (fragBody f))) (by simp [renderFrag])
      (by decide) (strip_std 33 _ _ (by decide))
  rw [produce_of_plain k _ _ (by simp [renderFrag]) hpp h2]
  rfl

/-! ## trailing whitespace -/

theorem dropWhile_eq_nil_of_all (p : Nat → Bool) (l : List Nat) (h : l.all p = true) :
    l.dropWhile p = [] := by
  induction l with
  | nil => rfl
  | cons x xs ih =>
    simp only [List.all_cons, Bool.and_eq_true] at h
    rw [List.dropWhile_cons_of_pos h.1, ih h.2]

theorem all_of_dropWhile_eq_nil (p : Nat → Bool) (l : List Nat) (h : l.dropWhile p = []) :
    l.all p = true := by
  induction l with
  | nil => rfl
  | cons x xs ih =>
    by_cases hx : p x = true
    · rw [List.dropWhile_cons_of_pos hx] at h
      simp [hx, ih h]
    · rw [List.dropWhile_cons_of_neg hx] at h
      cases h

theorem rstrip_nil : rstrip [] = [] := rfl

theorem rstrip_append_space (s t : Bytes) (ht : t.all isSpace = true) : rstrip (s ++ t) = rstrip s := by
  unfold rstrip
  rw [List.reverse_append, List.dropWhile_append,
    dropWhile_eq_nil_of_all _ _ (by simpa using ht)]
  simp

theorem strip_append_space (s t : Bytes) (ht : t.all isSpace = true) : strip (s ++ t) = strip s := by
  unfold strip lstrip
  rw [List.dropWhile_append]
  split
  · rename_i h
    have h' : s.dropWhile isSpace = [] := by simpa using h
    rw [h', dropWhile_eq_nil_of_all _ _ ht]
  · exact rstrip_append_space _ _ ht

theorem strip_space (t : Bytes) (ht : t.all isSpace = true) : strip t = [] := by
  have := strip_append_space [] t ht
  simpa [strip, lstrip, rstrip] using this

theorem preProcess_congr (a b : Bytes) (h : strip a = strip b) : preProcess a = preProcess b := by
  unfold preProcess
  rw [h]

/-- trailing CR/LF/blanks do not matter -/
theorem produce_trailer (k : NmeaConsts) (line trailer : Bytes) (ht : trailer.all isSpace = true) :
    produce k (line ++ trailer) = produce k line := by
  have hpp := preProcess_congr _ _ (strip_append_space line trailer ht)
  cases line with
  | nil =>
    cases trailer with
    | nil => rfl
    | cons t ts =>
      have : preProcess (t :: ts) = .error .indexError := by
        unfold preProcess
        rw [strip_space _ ht]
      unfold produce
      simp [this, bind, Except.bind, Err.isLibrary]
  | cons b bs =>
    unfold produce
    rw [hpp]
    simp

/-! ## leading tag block -/

/-- `rstrip` keeps a leading non-blank byte -/
theorem rstrip_cons_of_not_space (b : Byte) (l : Bytes) (hb : isSpace b = false) :
    rstrip (b :: l) = b :: rstrip l := by
  unfold rstrip
  rw [List.reverse_cons, List.dropWhile_append]
  split
  · rename_i h
    have h' : l.reverse.dropWhile isSpace = [] := by simpa using h
    rw [h', List.dropWhile_cons_of_neg (by simp [hb])]
    simp
  · simp

theorem rstrip_cons_of_ne_nil (x : Byte) (l : Bytes) (h : rstrip l ≠ []) :
    rstrip (x :: l) = x :: rstrip l := by
  unfold rstrip at *
  rw [List.reverse_cons, List.dropWhile_append]
  split
  · rename_i h'
    have h'' : l.reverse.dropWhile isSpace = [] := by simpa using h'
    rw [h''] at h
    simp at h
  · simp

theorem rstrip_append_of_ne_nil (a l : Bytes) (h : rstrip l ≠ []) :
    rstrip (a ++ l) = a ++ rstrip l := by
  induction a with
  | nil => rfl
  | cons x xs ih =>
    rw [List.cons_append, rstrip_cons_of_ne_nil _ _ (by rw [ih]; simp [h]), ih]
    rfl

theorem find_of_not_mem (sep : Byte) (tb r : Bytes) (h : sep ∉ tb) :
    find sep (tb ++ sep :: r) = tb.length := by
  induction tb with
  | nil => simp [find, List.findIdx?_cons]
  | cons x xs ih =>
    have hx : x ≠ sep := fun e => h (by simp [e])
    have hxs : sep ∉ xs := fun e => h (by simp [e])
    have ih' := ih hxs
    unfold find at ih' ⊢
    rw [List.cons_append, List.findIdx?_cons]
    simp only [beq_iff_eq, hx, if_false]
    cases hf : List.findIdx? (fun x => x == sep) (xs ++ sep :: r) with
    | none => rw [hf] at ih'; simp at ih'
    | some i => rw [hf] at ih'; simp at ih' ⊢; omega

/-- **A leading tag block never alters the sentence**: for a backslash-free, non-empty tag block
`tb` and a line without leading whitespace that does not itself start with a backslash, the factory
returns what it returns for the bare line, with the tag block attached. -/
theorem produce_tagblock (k : NmeaConsts) (tb line : Bytes) (htb : BACKSLASH ∉ tb) (htb0 : tb ≠ [])
    (hline : ∀ b, line.head? = some b → isSpace b = false ∧ b ≠ BACKSLASH) (hne : line ≠ []) :
    produce k ([BACKSLASH] ++ tb ++ [BACKSLASH] ++ line) =
      (match produce k line with
       | .ok s => .ok { s with tagBlock := some tb }
       | .error e => .error e) := by
  obtain ⟨b, rest, rfl⟩ : ∃ b rest, line = b :: rest := by
    cases line with
    | nil => exact absurd rfl hne
    | cons b rest => exact ⟨b, rest, rfl⟩
  obtain ⟨hbs, hb92⟩ := hline b rfl
  have hR : rstrip (b :: rest) = b :: rstrip rest := rstrip_cons_of_not_space b rest hbs
  -- the bare line
  have hstripR : strip (b :: rest) = b :: rstrip rest := by
    unfold strip lstrip
    rw [List.dropWhile_cons_of_neg (by simp [hbs]), hR]
  have hppR : preProcess (b :: rest) = .ok (b :: rstrip rest, none) := by
    unfold preProcess
    rw [hstripR]
    simp [hb92]
  -- the line with tag block
  have hstripL : strip ([BACKSLASH] ++ tb ++ [BACKSLASH] ++ b :: rest)
      = BACKSLASH :: (tb ++ BACKSLASH :: b :: rstrip rest) := by
    have e : [BACKSLASH] ++ tb ++ [BACKSLASH] ++ b :: rest
        = (BACKSLASH :: (tb ++ [BACKSLASH])) ++ (b :: rest) := by simp
    unfold strip lstrip
    rw [e, List.cons_append, List.dropWhile_cons_of_neg (by decide), ← List.cons_append,
      rstrip_append_of_ne_nil _ _ (by rw [hR]; simp), hR]
    simp
  have hppL : preProcess ([BACKSLASH] ++ tb ++ [BACKSLASH] ++ b :: rest)
      = .ok (b :: rstrip rest, some tb) := by
    unfold preProcess
    rw [hstripL]
    simp only [if_true]
    rw [find_of_not_mem _ _ _ htb]
    have e1 : ((tb.length : Int) + 1).toNat = tb.length + 1 := by omega
    rw [e1]
    have e2 : (BACKSLASH :: (tb ++ BACKSLASH :: b :: rstrip rest)).drop (tb.length + 1 + 1)
        = b :: rstrip rest := by
      simp
    have e3 : slice (BACKSLASH :: (tb ++ BACKSLASH :: b :: rstrip rest)) 1 (tb.length + 1) = tb := by
      simp [slice]
    rw [e2, e3]
  have htbE : tb.isEmpty = false := by
    cases tb with
    | nil => exact absurd rfl htb0
    | cons _ _ => rfl
  unfold produce
  rw [hppL, hppR]
  have hne1 : ([BACKSLASH] ++ tb ++ [BACKSLASH] ++ b :: rest).isEmpty = false := by simp
  rw [hne1]
  simp only [List.isEmpty_cons, bind, Except.bind, htbE, Bool.false_eq_true, if_false]
  cases produceRaw k (b :: rstrip rest) with
  | error e => simp only []; split <;> rfl
  | ok s => rfl

end Model
