import PyaisVerif.Model.Assemble
import PyaisVerif.Model.Socket
import PyaisVerif.Lemmas.Contract
import PyaisVerif.Lemmas.Render
import PyaisVerif.Lemmas.Socket
/-!
# The reader front-ends agree; Gatehouse wrappers (generic part of C07 and C18)
-/
namespace Model
open Py

/-! ## one step of the loops, by cases on what the factory says -/

/-- the tag block queue side effect never fails and only touches `tbq` -/
theorem addToTbq_total (k : AsmConsts) (st : AsmState) (s : Sentence) :
    ∃ st1 out, addToTbq k st s = .ok (st1, out) ∧ st1.buffer = st.buffer ∧ st1.wrapper = st.wrapper ∧
      st1.crash = st.crash ∧ (st.tbq = none → st1 = st ∧ out = []) ∧ (st1.tbq.isSome = st.tbq.isSome) := by
  unfold addToTbq
  cases hq : st.tbq with
  | none => exact ⟨st, [], rfl, rfl, rfl, rfl, fun _ => ⟨rfl, rfl⟩, by simp [hq]⟩
  | some q =>
    obtain ⟨⟨q', out⟩, hr⟩ := tbqPut_ok k.tagCodes q s s.tagBlock
    refine ⟨{ st with tbq := some q' }, out, ?_, rfl, rfl, rfl, fun h => (by cases h), rfl⟩
    simp [hr, bind, Except.bind]

theorem skippable_iff (e : Err) : e.isSkippable = true ↔
    (e = .invalidNMEAMessage ∨ e = .nonPrintableCharacter ∨ e = .unknownMessage) := by
  simp [Err.isSkippable, or_assoc]

/-- the stream step when the factory rejects the line -/
theorem streamStep_error (k : AsmConsts) (st : AsmState) (line : Bytes) (e : Err)
    (hp : produce k.nmea line = .error e) : streamStep k st line = (st, {}) := by
  have hsk := (skippable_iff e).mp (produce_error _ _ _ hp)
  unfold streamStep
  split
  · rfl
  · simp only [hp, bind, Except.bind]
    rw [if_pos hsk]

theorem queueStep_error (k : AsmConsts) (st : AsmState) (line : Bytes) (e : Err)
    (hp : produce k.nmea line = .error e) : queueStep k st line = (st, {}) := by
  have hsk := (skippable_iff e).mp (produce_error _ _ _ hp)
  unfold queueStep
  split
  · rfl
  · simp only [hp, bind, Except.bind]
    rw [if_pos (by rcases hsk with h | h | h <;> simp [h])]

/-- the stream step when the factory accepts the line -/
theorem streamStep_ok (k : AsmConsts) (st st1 : AsmState) (line : Bytes) (s : Sentence) (tout : List (List Sentence))
    (hc : st.crash = none) (hp : produce k.nmea line = .ok s) (ht : addToTbq k st s = .ok (st1, tout)) :
    streamStep k st line =
      (match s.gh with
      | some g => ({ st1 with wrapper := some g }, { tbqOut := tout })
      | none =>
        if ¬ s.isAIS then (st1, { tbqOut := tout })
        else if s.isSingle then
          ((attachWrapper st1 s).1, { delivered := [(attachWrapper st1 s).2], tbqOut := tout })
        else
          match bufferStep k.bufSize st1.buffer s with
          | none => ({ st1 with crash := some .indexError }, { tbqOut := tout })
          | some (buf, none) => ({ st1 with buffer := buf }, { tbqOut := tout })
          | some (buf, some full) =>
            ((attachWrapper { st1 with buffer := buf } full).1,
             { delivered := [(attachWrapper { st1 with buffer := buf } full).2], tbqOut := tout })) := by
  unfold streamStep
  rw [if_neg (by simp [hc])]
  simp only [hp, ht, bind, Except.bind]
  rfl

theorem queueStep_ok (k : AsmConsts) (st st1 : AsmState) (line : Bytes) (s : Sentence) (tout : List (List Sentence))
    (hc : st.crash = none) (hp : produce k.nmea line = .ok s) (ht : addToTbq k st s = .ok (st1, tout)) :
    queueStep k st line =
      (match s.gh with
      | some g => ({ st1 with wrapper := some g }, { tbqOut := tout })
      | none =>
        if ¬ s.isAIS then (st1, { tbqOut := tout })
        else if s.isSingle then
          ((attachWrapper st1 s).1, { delivered := [(attachWrapper st1 s).2], tbqOut := tout })
        else
          match bufferStep k.bufSize st1.buffer s with
          | none => ({ st1 with crash := some .indexError }, { tbqOut := tout })
          | some (buf, none) => ({ st1 with buffer := buf }, { tbqOut := tout })
          | some (buf, some full) =>
            ((attachWrapper { st1 with buffer := buf } full).1,
             { delivered := [(attachWrapper { st1 with buffer := buf } full).2], tbqOut := tout })) := by
  unfold queueStep
  rw [if_neg (by simp [hc])]
  simp only [hp, ht, bind, Except.bind]
  unfold attachWrapper
  cases hw : st1.wrapper <;> simp only [] <;> rfl

theorem streamStep_crashed (k : AsmConsts) (st : AsmState) (line : Bytes) (hc : st.crash.isSome = true) :
    streamStep k st line = (st, {}) := by
  unfold streamStep; rw [if_pos hc]

theorem queueStep_crashed (k : AsmConsts) (st : AsmState) (line : Bytes) (hc : st.crash.isSome = true) :
    queueStep k st line = (st, {}) := by
  unfold queueStep; rw [if_pos hc]

/-! ## the two loops are the same function -/

/-- **The stream loop and the queue loop are the same function** (they are duplicated code in
pyais): same state, same deliveries, same tag-block-queue output, for every state and every line. -/
theorem streamStep_eq_queueStep (k : AsmConsts) (st : AsmState) (line : Bytes) :
    streamStep k st line = queueStep k st line := by
  cases hc : st.crash with
  | some e => rw [streamStep_crashed _ _ _ (by simp [hc]), queueStep_crashed _ _ _ (by simp [hc])]
  | none =>
    cases hp : produce k.nmea line with
    | error e => rw [streamStep_error _ _ _ _ hp, queueStep_error _ _ _ _ hp]
    | ok s =>
      obtain ⟨st1, out, h1, -⟩ := addToTbq_total k st s
      rw [streamStep_ok _ _ _ _ _ _ hc hp h1, queueStep_ok _ _ _ _ _ _ hc hp h1]

theorem runLoop_stream_eq_queue (k : AsmConsts) (st : AsmState) (lines : List Bytes) :
    runLoop (streamStep k) st lines = runLoop (queueStep k) st lines := by
  have : streamStep k = queueStep k := by
    funext st line; exact streamStep_eq_queueStep k st line
  rw [this]

/-! ## the loop on a parsed AIS sentence is the reassembly core plus wrapper attachment -/

theorem addToTbq_none (k : AsmConsts) (st : AsmState) (s : Sentence) (h : st.tbq = none) :
    addToTbq k st s = .ok (st, []) := by
  unfold addToTbq; rw [h]

theorem produce_ais_gh (k : NmeaConsts) (raw : Bytes) (s : Sentence) (h : produce k raw = .ok s)
    (hs : s.isAIS = true) : s.gh = none := by
  have := (produce_gh k raw s h).1
  cases hg : s.gh with
  | none => rfl
  | some g => rw [hg] at this; simp [hs] at this

theorem streamStep_ais (k : AsmConsts) (st : AsmState) (line : Bytes) (s : Sentence)
    (hp : produce k.nmea line = .ok s) (hs : s.isAIS = true) (htbq : st.tbq = none) (hc : st.crash = none) :
    streamStep k st line =
      (match coreStep k.bufSize st.buffer s with
       | none => ({ st with crash := some .indexError }, {})
       | some (buf, []) => ({ st with buffer := buf }, {})
       | some (buf, d :: _) =>
         ({ st with buffer := buf, wrapper := none },
          { delivered := [match st.wrapper with
                          | some w => { d with wrapper := some w }
                          | none => d] })) := by
  rw [streamStep_ok k st st line s [] hc hp (addToTbq_none k st s htbq), produce_ais_gh _ _ _ hp hs]
  simp only [hs, not_true_eq_false, if_false]
  unfold coreStep
  by_cases h1 : s.isSingle = true
  · rw [if_pos h1, if_pos h1]
    unfold attachWrapper
    cases hw : st.wrapper with
    | some w => rfl
    | none =>
      simp only
      obtain ⟨b, w, t, c⟩ := st
      simp only at hw
      subst hw
      rfl
  · rw [if_neg h1, if_neg h1]
    cases hb : bufferStep k.bufSize st.buffer s with
    | none => rfl
    | some r =>
      obtain ⟨buf, o⟩ := r
      cases o with
      | none => rfl
      | some full =>
        simp only
        unfold attachWrapper
        cases hw : st.wrapper with
        | some w => rfl
        | none =>
          simp only

/-! ## filtering front-ends -/

/-- the deliveries of a run, in order -/
def deliveriesOf (r : AsmState × List StepOut) : List Sentence := r.2.flatMap (·.delivered)
def tbqOutOf (r : AsmState × List StepOut) : List (List Sentence) := r.2.flatMap (·.tbqOut)

theorem runLoop_cons (step : AsmState → Bytes → AsmState × StepOut) (st : AsmState) (l : Bytes)
    (ls : List Bytes) :
    runLoop step st (l :: ls) =
      ((runLoop step (step st l).1 ls).1, (step st l).2 :: (runLoop step (step st l).1 ls).2) := rfl

theorem deliveriesOf_cons (step : AsmState → Bytes → AsmState × StepOut) (st : AsmState) (l : Bytes)
    (ls : List Bytes) :
    deliveriesOf (runLoop step st (l :: ls)) =
      (step st l).2.delivered ++ deliveriesOf (runLoop step (step st l).1 ls) := by
  simp [deliveriesOf, runLoop_cons]

theorem tbqOutOf_cons (step : AsmState → Bytes → AsmState × StepOut) (st : AsmState) (l : Bytes)
    (ls : List Bytes) :
    tbqOutOf (runLoop step st (l :: ls)) =
      (step st l).2.tbqOut ++ tbqOutOf (runLoop step (step st l).1 ls) := by
  simp [tbqOutOf, runLoop_cons]

/-- dropping lines on which the loop does nothing changes neither the final state nor what is
delivered -/
theorem runLoop_filter (step : AsmState → Bytes → AsmState × StepOut) (p : Bytes → Bool)
    (st : AsmState) (lines : List Bytes)
    (h : ∀ l ∈ lines, p l = false → ∀ s, step s l = (s, {})) :
    (runLoop step st (lines.filter p)).1 = (runLoop step st lines).1 ∧
    deliveriesOf (runLoop step st (lines.filter p)) = deliveriesOf (runLoop step st lines) ∧
    tbqOutOf (runLoop step st (lines.filter p)) = tbqOutOf (runLoop step st lines) := by
  induction lines generalizing st with
  | nil => exact ⟨rfl, rfl, rfl⟩
  | cons l ls ih =>
    have ih' := fun st' => ih st' (fun l' hl' => h l' (by simp [hl']))
    cases hpl : p l with
    | true =>
      rw [List.filter_cons_of_pos hpl]
      rw [deliveriesOf_cons, deliveriesOf_cons, tbqOutOf_cons, tbqOutOf_cons, runLoop_cons, runLoop_cons]
      obtain ⟨h1, h2, h3⟩ := ih' (step st l).1
      exact ⟨h1, by rw [h2], by rw [h3]⟩
    | false =>
      rw [List.filter_cons_of_neg (by simp [hpl])]
      have hs := h l (by simp) hpl st
      rw [deliveriesOf_cons (l := l), tbqOutOf_cons (l := l), runLoop_cons (l := l), hs]
      obtain ⟨h1, h2, h3⟩ := ih' st
      exact ⟨h1, by simpa using h2, by simpa using h3⟩

/-- the loop only looks at the line through the factory: lines on which the factory agrees are
interchangeable (e.g. with and without trailing CR/LF/blanks: `produce_trailer`) -/
theorem streamStep_congr (k : AsmConsts) (st : AsmState) (l l' : Bytes)
    (h : produce k.nmea l = produce k.nmea l') : streamStep k st l = streamStep k st l' := by
  unfold streamStep
  rw [h]

/-- **File and socket front-ends**: a line with its terminator (`\n`, `\r\n`) and trailing blanks
is handled exactly like the bare line -/
theorem streamStep_trailer (k : AsmConsts) (st : AsmState) (l trailer : Bytes)
    (ht : trailer.all isSpace = true) : streamStep k st (l ++ trailer) = streamStep k st l :=
  streamStep_congr k st _ _ (produce_trailer k.nmea l trailer ht)

/-! ## Gatehouse wrappers -/

/-- a valid wrapper line only sets the pending wrapper (and feeds the tag block queue) -/
theorem streamStep_wrapper (k : AsmConsts) (st : AsmState) (line : Bytes) (s : Sentence) (g : GH)
    (hp : produce k.nmea line = .ok s) (hg : s.gh = some g) (htbq : st.tbq = none) (hc : st.crash = none) :
    streamStep k st line = ({ st with wrapper := some g }, {}) := by
  rw [streamStep_ok k st st line s [] hc hp (addToTbq_none k st s htbq), hg]

theorem attachWrapper_fst_wrapper (st : AsmState) (s : Sentence) : (attachWrapper st s).1.wrapper = none := by
  unfold attachWrapper
  cases hw : st.wrapper with
  | some w => rfl
  | none => simpa using hw

theorem attachWrapper_snd_wrapper (st : AsmState) (s : Sentence) (hs : s.wrapper = none) :
    (attachWrapper st s).2.wrapper = st.wrapper := by
  unfold attachWrapper
  cases hw : st.wrapper with
  | some w => rfl
  | none => simpa using hs

/-- a line that delivers nothing and is not a valid wrapper leaves the pending wrapper alone -/
theorem streamStep_keeps_wrapper (k : AsmConsts) (st : AsmState) (line : Bytes)
    (hnotgh : ∀ s, produce k.nmea line = .ok s → s.gh = none)
    (hnodel : (streamStep k st line).2.delivered = []) :
    (streamStep k st line).1.wrapper = st.wrapper ∨ (streamStep k st line).1.crash.isSome = true := by
  cases hc : st.crash with
  | some e => left; rw [streamStep_crashed _ _ _ (by simp [hc])]
  | none =>
    cases hp : produce k.nmea line with
    | error e => left; rw [streamStep_error _ _ _ _ hp]
    | ok s =>
      obtain ⟨st1, out, h1, -, hw, -⟩ := addToTbq_total k st s
      rw [streamStep_ok _ _ _ _ _ _ hc hp h1, hnotgh s hp] at hnodel ⊢
      simp only at hnodel ⊢
      split at hnodel
      · rename_i h; rw [if_pos h]; exact Or.inl hw
      · rename_i h; rw [if_neg h]
        split at hnodel
        · simp at hnodel
        · rename_i h2; rw [if_neg h2]
          split at hnodel
          · right; rfl
          · exact Or.inl hw
          · simp at hnodel

/-- the assembled message carries the wrapper field of one of its parts (the first argument) -/
theorem assemble_wrapper (parts : List Sentence) (full : Sentence) (h : assemble parts = some full) :
    ∃ m0 ∈ parts, full.wrapper = m0.wrapper := by
  cases parts with
  | nil => cases h
  | cons m0 rest =>
    simp only [assemble, Option.some.injEq] at h
    subst h
    exact ⟨m0, by simp, rfl⟩

theorem pySetIdx_mem {α} (l l' : List α) (i : Int) (v x : α) (h : pySetIdx l i v = some l') (hx : x ∈ l') :
    x ∈ l ∨ x = v := by
  unfold pySetIdx at h
  dsimp only at h
  by_cases hc : 0 ≤ (if i < 0 then i + (l.length : Int) else i) ∧
      (if i < 0 then i + (l.length : Int) else i) < l.length
  · rw [if_pos hc] at h; cases h; exact List.mem_or_eq_of_mem_set hx
  · rw [if_neg hc] at h; cases h

theorem bufferStep_wrapper_aux (s full : Sentence) (cur : List (Option Sentence))
    (A : List (Slot × List (Option Sentence)))
    (B : List (Option Sentence) → List (Slot × List (Option Sentence))) (buf : List (Slot × List (Option Sentence)))
    (hcur : ∀ x, some x ∈ cur → x.wrapper = none) (hs : s.wrapper = none)
    (h : (match pySetIdx cur (s.fragNum - 1) (some s) with
      | none => none
      | some cur' =>
        if (((cur'.take s.fragCnt.toNat).filterMap id).length : Int) = s.fragCnt then
          match assemble ((cur'.take s.fragCnt.toNat).filterMap id) with
          | some full => some (A, some full)
          | none => none
        else some (B cur', none) : Option (List (Slot × List (Option Sentence)) × Option Sentence))
        = some (buf, some full)) : full.wrapper = none := by
  cases hset : pySetIdx cur (s.fragNum - 1) (some s) with
  | none => rw [hset] at h; cases h
  | some cur' =>
    rw [hset] at h
    simp only at h
    have hcur'' : ∀ x, some x ∈ cur' → x.wrapper = none := by
      intro x hx
      rcases pySetIdx_mem _ _ _ _ _ hset hx with h1 | h1
      · exact hcur x h1
      · cases h1; exact hs
    split at h
    · cases hasm : assemble (List.filterMap id (List.take s.fragCnt.toNat cur')) with
      | none => rw [hasm] at h; cases h
      | some f =>
        rw [hasm] at h
        simp only [Option.some.injEq, Prod.mk.injEq] at h
        obtain ⟨-, rfl⟩ := h
        obtain ⟨m0, hm, hw⟩ := assemble_wrapper _ _ hasm
        rw [hw]
        rw [List.mem_filterMap] at hm
        obtain ⟨o, ho, rfl⟩ := hm
        exact hcur'' m0 (List.mem_of_mem_take ho)
    · cases h

/-- a message assembled from wrapper-free fragments has no wrapper -/
theorem bufferStep_wrapper (bufSize : Nat) (buffer : List (Slot × List (Option Sentence))) (s full : Sentence)
    (buf : List (Slot × List (Option Sentence)))
    (hb : ∀ k b, buffer.lookup k = some b → ∀ x, some x ∈ b → x.wrapper = none)
    (hs : s.wrapper = none)
    (h : bufferStep bufSize buffer s = some (buf, some full)) : full.wrapper = none := by
  unfold bufferStep at h
  simp only at h
  cases hl : List.lookup (slotOf s) buffer with
  | some b =>
    rw [hl] at h
    exact bufferStep_wrapper_aux s full b _ _ buf (hb _ _ hl) hs h
  | none =>
    rw [hl] at h
    exact bufferStep_wrapper_aux s full _ _ _ buf (by intro x hx; simp at hx) hs h

/-- **A delivered message takes the pending wrapper, and the wrapper is then gone** -/
theorem streamStep_delivers (k : AsmConsts) (st : AsmState) (line : Bytes) (d : Sentence)
    (hc : st.crash = none) (hb : BufOK k.bufSize st)
    (hd : d ∈ (streamStep k st line).2.delivered) :
    (streamStep k st line).2.delivered = [d] ∧ d.wrapper = st.wrapper ∧
    (streamStep k st line).1.wrapper = none := by
  cases hp : produce k.nmea line with
  | error e => rw [streamStep_error _ _ _ _ hp] at hd; simp at hd
  | ok s =>
    obtain ⟨st1, out, h1, hbuf, hw, -⟩ := addToTbq_total k st s
    rw [streamStep_ok _ _ _ _ _ _ hc hp h1] at hd ⊢
    cases hg : s.gh with
    | some g => rw [hg] at hd; simp at hd
    | none =>
      rw [hg] at hd
      simp only at hd ⊢
      split at hd
      · simp at hd
      · rename_i h
        rw [if_neg h]
        have hais : s.isAIS = true := by simpa using h
        have hsw : s.wrapper = none := (produce_ais_bounds _ _ _ hp hais).2.2.2.2.2.2
        split at hd
        · rename_i h2
          rw [if_pos h2]
          simp only [List.mem_singleton] at hd
          subst hd
          exact ⟨rfl, by rw [attachWrapper_snd_wrapper _ _ hsw, hw], attachWrapper_fst_wrapper _ _⟩
        · rename_i h2
          rw [if_neg h2]
          split at hd
          · simp at hd
          · simp at hd
          · rename_i buf full hbs
            simp only [List.mem_singleton] at hd ⊢
            subst hd
            have hfw : full.wrapper = none :=
              bufferStep_wrapper _ _ _ _ _ (fun k' b hl => (hb k' b (hbuf ▸ hl)).2) hsw hbs
            exact ⟨rfl, by rw [attachWrapper_snd_wrapper _ _ hfw]; exact hw, attachWrapper_fst_wrapper _ _⟩

theorem attachWrapper_fst_tbq (st : AsmState) (s : Sentence) : (attachWrapper st s).1.tbq = st.tbq := by
  unfold attachWrapper
  cases st.wrapper <;> rfl

/-- without a tag block queue attached, none appears -/
theorem streamStep_tbq_none (k : AsmConsts) (st : AsmState) (line : Bytes) (htbq : st.tbq = none) :
    (streamStep k st line).1.tbq = none := by
  cases hc : st.crash with
  | some e => rw [streamStep_crashed _ _ _ (by simp [hc])]; exact htbq
  | none =>
    cases hp : produce k.nmea line with
    | error e => rw [streamStep_error _ _ _ _ hp]; exact htbq
    | ok s =>
      rw [streamStep_ok k st st line s [] hc hp (addToTbq_none k st s htbq)]
      split
      · exact htbq
      · split
        · exact htbq
        · split
          · rw [attachWrapper_fst_tbq]; exact htbq
          · split
            · exact htbq
            · exact htbq
            · rw [attachWrapper_fst_tbq]; exact htbq

/-- a crashed reader stays as it is -/
theorem runLoop_crashed (k : AsmConsts) (st : AsmState) (lines : List Bytes) (hc : st.crash.isSome = true) :
    (runLoop (streamStep k) st lines).1 = st := by
  induction lines with
  | nil => rfl
  | cons l ls ih => rw [runLoop_cons, streamStep_crashed _ _ _ hc]; exact ih

theorem nmeaInit_fields (raw : Bytes) (s : Sentence) (h : nmeaInit raw = .ok s) :
    s.raw = raw ∧ s.dataFields = ((split COMMA raw).drop 1).dropLast ∧ s.gh = none ∧ s.isAIS = false ∧
      s.wrapper = none := by
  simp only [nmeaInit, bind, Except.bind] at h
  split at h
  · cases h
  · split at h
    · cases h
    · split at h
      · cases h
      · have := Except.ok.inj h
        subst this
        exact ⟨rfl, rfl, rfl, rfl, rfl⟩

theorem slice_1_8 {α} (f : List α) (a b c d e g h : α) (hs : slice f 1 8 = [a, b, c, d, e, g, h]) :
    f[1]? = some a ∧ f[2]? = some b ∧ f[3]? = some c ∧ f[4]? = some d ∧ f[5]? = some e ∧
      f[6]? = some g ∧ f[7]? = some h := by
  have key : ∀ i, i < 7 → f[1 + i]? = [a, b, c, d, e, g, h][i]? := by
    intro i hi
    rw [← hs, slice, List.getElem?_take_of_lt (by omega), List.getElem?_drop]
  exact ⟨key 0 (by omega), key 1 (by omega), key 2 (by omega), key 3 (by omega), key 4 (by omega),
    key 5 (by omega), key 6 (by omega)⟩

/-- the fields of a wrapper are those of the wrapper line -/
theorem ghInit_fields (raw : Bytes) (s : Sentence) (h : ghInit raw = .ok s) :
    ∃ g, s.gh = some g ∧ g.raw = raw ∧ s.raw = raw ∧
      ((split COMMA raw).drop 1).dropLast = s.dataFields ∧
      (s.dataFields[1]?.bind pyInt10 = g.ts[0]?) ∧ (s.dataFields[2]?.bind pyInt10 = g.ts[1]?) ∧
      (s.dataFields[3]?.bind pyInt10 = g.ts[2]?) ∧ (s.dataFields[4]?.bind pyInt10 = g.ts[3]?) ∧
      (s.dataFields[5]?.bind pyInt10 = g.ts[4]?) ∧ (s.dataFields[6]?.bind pyInt10 = g.ts[5]?) ∧
      ((s.dataFields[7]?.bind pyInt10).map (· * 1000) = g.ts[6]?) ∧
      s.dataFields[8]? = some g.country ∧ s.dataFields[9]? = some g.region ∧ s.dataFields[10]? = some g.pss ∧
      s.dataFields[11]?.bind pyInt10 = some g.online ∧
      (match g.ts with
       | [y, mo, d, hh, mi, sec, us] => datetimeOk y mo d hh mi sec us = true
       | _ => False) := by
  simp only [ghInit, bind, Except.bind] at h
  split at h
  · cases h
  · rename_i s0 h0
    obtain ⟨hraw, hdf, -⟩ := nmeaInit_fields raw s0 h0
    split at h
    · cases h
    · rename_i g hg
      cases h
      refine ⟨g, rfl, ?_⟩
      simp only
      rw [hraw]
      split at hg
      · rename_i y mo d hh mi sec ms hsl
        obtain ⟨e1, e2, e3, e4, e5, e6, e7⟩ := slice_1_8 _ _ _ _ _ _ _ _ hsl
        split at hg
        · rename_i y' mo' d' hh' mi' sec' ms' p1 p2 p3 p4 p5 p6 p7
          split at hg
          · rename_i hdt
            split at hg
            · rename_i c r p o q8 q9 q10 q11
              split at hg
              · split at hg
                · rename_i o' po
                  cases hg
                  simp only [e1, e2, e3, e4, e5, e6, e7, q8, q9, q10, q11, p1, p2, p3, p4, p5, p6, p7, po,
                    Option.bind_some, Option.map_some, List.getElem?_cons_zero, List.getElem?_cons_succ]
                  simp only [true_and]
                  exact ⟨hdf.symm, hdt⟩
                · cases hg
              · cases hg
            · cases hg
          · cases hg
        · cases hg
      · cases hg

/-! ### a line the factory accepts is long -/

theorem strip_length_le (l : Bytes) : (strip l).length ≤ l.length := by
  unfold strip rstrip lstrip
  rw [List.length_reverse]
  refine Nat.le_trans (List.dropWhile_sublist _).length_le ?_
  rw [List.length_reverse]
  exact (List.dropWhile_sublist _).length_le

theorem preProcess_length (raw body : Bytes) (tb : Option Bytes) (h : preProcess raw = .ok (body, tb)) :
    body.length ≤ raw.length := by
  have hs := strip_length_le raw
  unfold preProcess at h
  simp only at h
  split at h
  · cases h
  · split at h
    · cases h
      rw [List.length_drop]
      omega
    · cases h
      exact hs

theorem produce_ok_body (k : NmeaConsts) (raw : Bytes) (s : Sentence) (h : produce k raw = .ok s) :
    ∃ body s', produceRaw k body = .ok s' ∧ body.length ≤ raw.length := by
  unfold produce at h
  split at h
  · cases h
  · simp only [bind, Except.bind] at h
    cases hpp : preProcess raw with
    | error e => rw [hpp] at h; simp only at h; split at h <;> cases h
    | ok p =>
      obtain ⟨body, tb⟩ := p
      rw [hpp] at h
      simp only at h
      cases hr : produceRaw k body with
      | error e => rw [hr] at h; simp only at h; split at h <;> cases h
      | ok s' => exact ⟨body, s', hr, preProcess_length _ _ _ hpp⟩

/-- the first field and the number of separators fit into the line -/
theorem split_length_le (c : Byte) (s : Bytes) :
    ((split c s).headD []).length + ((split c s).length - 1) ≤ s.length := by
  unfold split
  induction s with
  | nil => simp
  | cons x xs ih =>
    rw [List.splitOn_cons_eq_if_modifyHead]
    have hne := List.splitOn_ne_nil c xs
    generalize List.splitOn c xs = ls at *
    cases ls with
    | nil => exact absurd rfl hne
    | cons hd tl =>
      split
      · simp at ih ⊢; omega
      · simp at ih ⊢; omega

theorem upper_length (s : Bytes) : (upper s).length = s.length := by simp [upper]

theorem aisInit_fields_len (k : NmeaConsts) (raw : Bytes) (s : Sentence) (h : aisInit k raw = .ok s) :
    5 ≤ ((split COMMA raw).drop 1).dropLast.length := by
  simp only [aisInit, bind, Except.bind] at h
  split at h
  · cases h
  · rename_i s0 h0
    obtain ⟨-, hdf, -⟩ := nmeaInit_fields raw s0 h0
    rw [← hdf]
    split at h
    · cases h
    · rename_i c n sq ch pl hparsed
      split at hparsed
      · rename_i mf fn mid ch' pl' htake
        have := congrArg List.length htake
        simp only [List.length_take, List.length_cons, List.length_nil] at this
        omega
      · cases hparsed

theorem produceRaw_ok_length (k : NmeaConsts) (body : Bytes) (s : Sentence) (h : produceRaw k body = .ok s) :
    10 < body.length := by
  have hlen := split_length_le COMMA body
  unfold produceRaw at h
  simp only at h
  split at h
  · rename_i hcode
    have h5 := aisInit_fields_len k body s h
    have h3 : (((split COMMA body).headD []).drop 3).length = 3 := by
      rw [← upper_length]
      rcases hcode with hc | hc <;> rw [hc] <;> rfl
    rw [List.length_drop] at h3
    rw [List.length_dropLast, List.length_drop] at h5
    omega
  · split at h
    · rename_i hcode
      obtain ⟨g, -, -, -, hdf, -, -, -, -, -, -, -, -, -, -, h11, -⟩ := ghInit_fields body s h
      have h2 : (((split COMMA body).headD []).drop 3).length = 2 := by
        rw [← upper_length, hcode.2]; rfl
      rw [List.length_drop] at h2
      have h12 : 11 < s.dataFields.length := by
        cases hx : s.dataFields[11]? with
        | none => rw [hx] at h11; simp at h11
        | some v => exact (List.getElem?_eq_some_iff.mp hx).1
      rw [← hdf, List.length_dropLast, List.length_drop] at h12
      omega
    · cases h

/-- a line that the factory accepts has more than ten bytes (so the length heuristic of
`Stream._iter_messages` never drops a deliverable line) -/
theorem produce_ok_length (k : NmeaConsts) (raw : Bytes) (s : Sentence) (h : produce k raw = .ok s) :
    10 < raw.length := by
  obtain ⟨body, s', hr, hl⟩ := produce_ok_body k raw s h
  have := produceRaw_ok_length k body s' hr
  omega

end Model
