import PyaisVerif.Lemmas.Tracker
/-!
# The tracker refines the abstract tracker; life cycle of events (generic part of C12, C15)

Helper lemmas live in the namespace `Model.Refine`.
-/
namespace Model
open Spec

/-! ## list helpers: lookup by key in a list with unique keys -/

abbrev Refine.KeysDistinct (l : List Track) : Prop := l.Pairwise (fun a b => a.mmsi ≠ b.mmsi)

theorem Refine.find_mem_unique {l : List Track} (hk : Refine.KeysDistinct l) {t : Track} (ht : t ∈ l) :
    l.find? (·.mmsi = t.mmsi) = some t := by
  induction l with
  | nil => cases ht
  | cons x xs ih =>
    rw [Refine.KeysDistinct, List.pairwise_cons] at hk
    rcases List.mem_cons.1 ht with rfl | h
    · simp
    · have : x.mmsi ≠ t.mmsi := hk.1 t h
      simp [this, ih hk.2 h]

theorem Refine.find_key {l : List Track} {m : Int} {t : Track} (h : l.find? (·.mmsi = m) = some t) :
    t.mmsi = m ∧ t ∈ l := by
  have h1 := List.find?_some h
  have h2 := List.mem_of_find?_eq_some h
  simp at h1
  exact ⟨h1, h2⟩

theorem Refine.find_none_key {l : List Track} {m : Int} (h : l.find? (·.mmsi = m) = none) :
    ∀ t ∈ l, t.mmsi ≠ m := by
  rw [List.find?_eq_none] at h
  intro t ht; simpa using h t ht

/-- with unique keys, the tracks with key `m` are the looked-up track -/
theorem Refine.filter_key_eq {l : List Track} (hk : Refine.KeysDistinct l) (m : Int) :
    l.filter (fun t => decide (t.mmsi = m)) = (l.find? (·.mmsi = m)).toList := by
  induction l with
  | nil => rfl
  | cons x xs ih =>
    rw [Refine.KeysDistinct, List.pairwise_cons] at hk
    by_cases hx : x.mmsi = m
    · have : xs.filter (fun t => decide (t.mmsi = m)) = [] := by
        rw [List.filter_eq_nil_iff]
        intro t ht; subst hx; simpa using fun h => hk.1 t ht h.symm
      simp [hx, this]
    · simp [hx, ih hk.2]

/-- with unique keys, lookup in a filtered list is the filtered lookup -/
theorem Refine.find_filter {l : List Track} (hk : Refine.KeysDistinct l) (p : Track → Bool) (m : Int) :
    (l.filter p).find? (·.mmsi = m) = (l.find? (·.mmsi = m)).filter p := by
  induction l with
  | nil => rfl
  | cons x xs ih =>
    rw [Refine.KeysDistinct, List.pairwise_cons] at hk
    by_cases hx : x.mmsi = m
    · by_cases hp : p x = true
      · simp [hp, hx, Option.filter]
      · have hnone : (xs.filter p).find? (·.mmsi = m) = none := by
          rw [List.find?_eq_none]
          intro t ht
          have := hk.1 t (List.mem_filter.1 ht).1
          subst hx; simpa using fun h => this h.symm
        simp [hp, hx, Option.filter, hnone]
    · by_cases hp : p x = true
      · simp [hp, hx, ih hk.2]
      · simp [hp, hx, ih hk.2]

theorem Refine.any_key_eq (l : List Track) (m : Int) :
    l.any (·.mmsi = m) = (l.find? (·.mmsi = m)).isSome := by
  rw [Bool.eq_iff_iff, List.any_eq_true, List.find?_isSome]

/-- split a list with unique keys at key `m` -/
theorem Refine.perm_split_key {l : List Track} (hk : Refine.KeysDistinct l) (m : Int) :
    l.Perm (l.filter (·.mmsi ≠ m) ++ (l.find? (·.mmsi = m)).toList) := by
  rw [← Refine.filter_key_eq hk m]
  have h := List.filter_append_perm (fun t : Track => decide (t.mmsi ≠ m)) l
  refine h.symm.trans ?_
  apply List.Perm.append_left
  apply List.Perm.of_eq
  apply List.filter_congr
  intro x _; simp

/-- lookup after removing key `m` (no uniqueness needed) -/
theorem Refine.find_filter_ne (l : List Track) (m k : Int) :
    (l.filter (·.mmsi ≠ m)).find? (·.mmsi = k) = if k = m then none else l.find? (·.mmsi = k) := by
  induction l with
  | nil => simp
  | cons x xs ih =>
    by_cases hx : x.mmsi = m
    · by_cases hk : k = m
      · simp_all
      · have : ¬ m = k := fun h => hk h.symm
        simp_all
    · by_cases hxk : x.mmsi = k
      · have : ¬ k = m := fun h => hx (hxk.trans h)
        simp [hxk, this]
      · simp_all

/-! ## abstraction -/

/-- abstraction relation between a concrete run and the abstract machine -/
structure Abs (r : TrkRun) (a : AState) : Prop where
  ttl : a.ttl = r.st.ttl
  ordered : a.ordered = r.st.ordered
  now : a.now = r.now
  keys : a.keys.Perm (r.st.tracks.map (·.mmsi))
  get : ∀ m, a.get m = (r.st.tracks.find? (·.mmsi = m)).map fun t => { attrs := t.attrs, lu := t.lu }

theorem abs_init (ordered : Bool) (ttl : Option Int) :
    Abs { st := { ordered := ordered, ttl := ttl } } (AState.init ordered ttl) := by
  constructor <;> simp [AState.init]

/-- the verdict of `update` is the conjunction of the order check and the own-track check -/
theorem Refine.update_verdict (s : TrkState) (m : Int) (attrs : List (String × Val)) (ts now : Int) :
    (update s m attrs ts now).2.2 =
      ((match s.ordered, s.tracks.getLast? with
        | true, some latest => !(decide (ts < latest.lu))
        | _, _ => true) &&
       (match s.tracks.find? (·.mmsi = m) with
        | some old => !(decide (ts < old.lu))
        | none => true)) := by
  unfold update
  cases hf : s.tracks.find? (·.mmsi = m) with
  | none =>
    cases ho : s.ordered <;> cases hl : s.tracks.getLast? <;> simp <;> split <;> simp_all
  | some old =>
    by_cases hlt : ts < old.lu
    · cases ho : s.ordered <;> cases hl : s.tracks.getLast? <;> simp [hlt]
    · cases ho : s.ordered <;> cases hl : s.tracks.getLast? <;> simp [hlt] <;> split <;> simp_all

/-- in a list sorted by `lu` the last element dominates -/
theorem Refine.last_check_eq_all (l : List Track) (hs : l.Pairwise (fun a b => a.lu ≤ b.lu)) (ts : Int) :
    (match l.getLast? with
     | some latest => !(decide (ts < latest.lu))
     | none => true) = l.all (fun t => !(decide (ts < t.lu))) := by
  cases hl : l.getLast? with
  | none =>
    rw [List.getLast?_eq_none_iff] at hl; subst hl; rfl
  | some last =>
    obtain ⟨ys, rfl⟩ := List.getLast?_eq_some_iff.1 hl
    rw [List.pairwise_append] at hs
    have hle : ∀ t ∈ ys, t.lu ≤ last.lu := fun t ht => hs.2.2 t ht last (by simp)
    rw [Bool.eq_iff_iff, List.all_eq_true]
    simp only [Bool.not_eq_true', decide_eq_false_iff_not, List.mem_append, List.mem_singleton]
    constructor
    · rintro h t (ht | rfl)
      · have := hle t ht; omega
      · exact h
    · intro h; exact h last (Or.inr rfl)

theorem Refine.order_check_eq (s : TrkState) (hinv : TrkInv s) (ts : Int) :
    (match s.ordered, s.tracks.getLast? with
      | true, some latest => !(decide (ts < latest.lu))
      | _, _ => true) = (!s.ordered || s.tracks.all (fun t => !(decide (ts < t.lu)))) := by
  cases ho : s.ordered with
  | false => simp
  | true =>
    rw [← Refine.last_check_eq_all _ (hinv.sorted ho)]
    cases s.tracks.getLast? <;> simp

theorem Refine.abs_keys_all (r : TrkRun) (a : AState) (hinv : TrkInv r.st) (habs : Abs r a) (ts : Int) :
    (a.keys.all fun k => match a.get k with
      | some t => !(decide (ts < t.lu))
      | none => true) = r.st.tracks.all (fun t => !(decide (ts < t.lu))) := by
  rw [habs.keys.all_eq, List.all_map]
  rw [Bool.eq_iff_iff, List.all_eq_true, List.all_eq_true]
  have : ∀ t ∈ r.st.tracks, a.get t.mmsi = some { attrs := t.attrs, lu := t.lu } := by
    intro t ht; rw [habs.get, Refine.find_mem_unique hinv.keys ht]; rfl
  constructor
  · intro h t ht; have h' := h t ht; simp only [Function.comp, this t ht] at h'; exact h'
  · intro h t ht; simp only [Function.comp, this t ht]; exact h t ht

/-- the concrete acceptance test (own track; last dict entry in ordered mode) is the abstract one
(own track; every track in ordered mode) -/
theorem accepts_iff (r : TrkRun) (a : AState) (hinv : TrkInv r.st) (habs : Abs r a)
    (m : Int) (attrs : List (String × Val)) (ts : Int) :
    (update r.st m attrs ts r.now).2.2 = a.accepts m ts := by
  unfold AState.accepts
  rw [Refine.update_verdict, Refine.order_check_eq _ hinv, Bool.and_comm]
  congr 1
  · rw [habs.get]
    cases r.st.tracks.find? (·.mmsi = m) <;> rfl
  · rw [habs.ordered]
    congr 1
    exact (Refine.abs_keys_all r a hinv habs ts).symm

/-! ## refinement of single steps -/

theorem Refine.abs_congr {r r' : TrkRun} {a : AState} (hst : r'.st = r.st) (hnow : r'.now = r.now)
    (habs : Abs r a) : Abs r' a := by
  constructor
  · rw [hst]; exact habs.ttl
  · rw [hst]; exact habs.ordered
  · rw [hnow]; exact habs.now
  · rw [hst]; exact habs.keys
  · rw [hst]; exact habs.get

theorem Refine.abs_isStale {r : TrkRun} {a : AState} (habs : Abs r a) (k : Int) :
    a.isStale k = (r.st.tracks.find? (·.mmsi = k)).any (fun t => staleAt r.st.ttl r.now t.lu) := by
  unfold AState.isStale
  rw [habs.get, habs.ttl, habs.now]
  cases r.st.tracks.find? (·.mmsi = k) <;> rfl

/-- expiry: the concrete early-exit scan and the abstract exact filter agree -/
theorem Refine.abs_expire {r r' : TrkRun} {a : AState} (hinv : TrkInv r.st) (habs : Abs r a)
    (hst : r'.st = (cleanup r.st r.now).1) (hnow : r'.now = r.now) : Abs r' a.expire := by
  obtain ⟨htr, _, httl, hord⟩ := cleanup_exact r.st hinv r.now
  have hstale' : ∀ t ∈ r.st.tracks, a.isStale t.mmsi = staleAt r.st.ttl r.now t.lu := by
    intro t ht; rw [Refine.abs_isStale habs, Refine.find_mem_unique hinv.keys ht]; rfl
  constructor
  · rw [hst, httl]; exact habs.ttl
  · rw [hst, hord]; exact habs.ordered
  · rw [hnow]; exact habs.now
  · rw [hst, htr]
    show (a.keys.filter (fun m => !a.isStale m)).Perm _
    refine (habs.keys.filter _).trans ?_
    rw [List.filter_map]
    apply List.Perm.of_eq
    congr 1
    apply List.filter_congr
    intro t ht; simp [Function.comp, hstale' t ht]
  · intro k
    rw [hst, htr, Refine.find_filter hinv.keys]
    show (if a.isStale k then none else a.get k) = _
    rw [Refine.abs_isStale habs, habs.get]
    cases r.st.tracks.find? (·.mmsi = k) with
    | none => simp
    | some t => by_cases h : staleAt r.st.ttl r.now t.lu = true <;> simp [Option.filter, h]

theorem Refine.popTrack_fst (s : TrkState) (m : Int) :
    (popTrack s m).1 = { s with tracks := s.tracks.filter (·.mmsi ≠ m) } := by
  unfold popTrack
  cases hf : s.tracks.find? (·.mmsi = m) with
  | some t => rfl
  | none =>
    have : s.tracks.filter (·.mmsi ≠ m) = s.tracks := by
      rw [List.filter_eq_self]; intro t ht; simpa using Refine.find_none_key hf t ht
    simp only [this]

theorem Refine.abs_remove {r r' : TrkRun} {a : AState} (habs : Abs r a) (m : Int)
    (hst : r'.st = (popTrack r.st m).1) (hnow : r'.now = r.now) : Abs r' (a.remove m) := by
  rw [Refine.popTrack_fst] at hst
  constructor
  · rw [hst]; exact habs.ttl
  · rw [hst]; exact habs.ordered
  · rw [hnow]; exact habs.now
  · rw [hst]
    show (a.keys.filter (· ≠ m)).Perm ((r.st.tracks.filter (·.mmsi ≠ m)).map (·.mmsi))
    refine (habs.keys.filter _).trans ?_
    rw [List.filter_map]
    apply List.Perm.of_eq
    congr 1
  · intro k
    rw [hst]
    show (if k = m then none else a.get k) = ((r.st.tracks.filter (·.mmsi ≠ m)).find? (·.mmsi = k)).map _
    rw [Refine.find_filter_ne, habs.get]
    by_cases hk : k = m <;> simp [hk]

/-! ### insertion (the first half of an accepted `update`) -/

def Refine.mergedTrack (s : TrkState) (m : Int) (attrs : List (String × Val)) (ts : Int) : Track :=
  match s.tracks.find? (·.mmsi = m) with
  | some old => { mmsi := m, attrs := mergeAttrs old.attrs attrs, lu := ts }
  | none => { mmsi := m, attrs := attrs, lu := ts }

def Refine.insertState (s : TrkState) (m : Int) (attrs : List (String × Val)) (ts : Int) : TrkState :=
  { s with tracks := s.tracks.filter (·.mmsi ≠ m) ++ [Refine.mergedTrack s m attrs ts],
           oldest := setOldest s.oldest ts }

def Refine.mergedA (a : AState) (m : Int) (attrs : List (String × Val)) (ts : Int) : ATrack :=
  match a.get m with
  | some old => { attrs := mergeA old.attrs attrs, lu := ts }
  | none => { attrs := attrs, lu := ts }

def Refine.insertA (a : AState) (m : Int) (attrs : List (String × Val)) (ts : Int) : AState :=
  { a with keys := if a.keys.contains m then a.keys else a.keys ++ [m],
           get := fun k => if k = m then some (Refine.mergedA a m attrs ts) else a.get k }

theorem Refine.update_accepted' (s : TrkState) (m : Int) (attrs : List (String × Val)) (ts now : Int)
    (h : (update s m attrs ts now).2.2 = true) :
    (update s m attrs ts now).1 = (cleanup (Refine.insertState s m attrs ts) now).1 ∧
    (update s m attrs ts now).2.1 =
      ((if (s.tracks.find? (·.mmsi = m)).isSome then Ev.updated else Ev.created), m) ::
        (cleanup (Refine.insertState s m attrs ts) now).2 :=
  update_accepted s m attrs ts now h

theorem Refine.step_update (a : AState) (m : Int) (attrs : List (String × Val)) (ts : Option Int) :
    a.step (.update m attrs ts) =
      if a.accepts m (ts.getD a.now) then (Refine.insertA a m attrs (ts.getD a.now)).expire else a := rfl

theorem Refine.mergedTrack_mmsi (s : TrkState) (m : Int) (attrs : List (String × Val)) (ts : Int) :
    (Refine.mergedTrack s m attrs ts).mmsi = m := by
  unfold Refine.mergedTrack; split <;> rfl

theorem Refine.mergedTrack_lu (s : TrkState) (m : Int) (attrs : List (String × Val)) (ts : Int) :
    (Refine.mergedTrack s m attrs ts).lu = ts := by
  unfold Refine.mergedTrack; split <;> rfl

/-- the state between insertion and expiry satisfies the invariants (`inv_update` only speaks about
the state after expiry) -/
theorem Refine.inv_insert (s : TrkState) (hinv : TrkInv s) (m : Int) (attrs : List (String × Val)) (ts now : Int)
    (h : (update s m attrs ts now).2.2 = true) : TrkInv (Refine.insertState s m attrs ts) := by
  rw [Refine.update_verdict, Refine.order_check_eq _ hinv] at h
  have hord : s.ordered = true → ∀ t ∈ s.tracks, t.lu ≤ ts := by
    intro ho t ht
    simp only [ho, Bool.not_true, Bool.false_or, Bool.and_eq_true, List.all_eq_true] at h
    have := h.1 t ht
    simp at this; exact this
  constructor
  · show (s.tracks.filter (·.mmsi ≠ m) ++ [Refine.mergedTrack s m attrs ts]).Pairwise _
    rw [List.pairwise_append]
    refine ⟨hinv.keys.filter _, List.pairwise_singleton _ _, ?_⟩
    intro x hx y hy
    rw [List.mem_singleton] at hy; subst hy
    rw [Refine.mergedTrack_mmsi]
    simpa using (List.mem_filter.1 hx).2
  · intro o ho t ht
    change setOldest s.oldest ts = some o at ho
    change t ∈ s.tracks.filter (·.mmsi ≠ m) ++ [Refine.mergedTrack s m attrs ts] at ht
    rw [List.mem_append, List.mem_singleton] at ht
    cases hso : s.oldest with
    | none =>
      rw [hso] at ho
      simp only [setOldest, Option.some.injEq] at ho
      have hnil : s.tracks = [] := by
        cases hn : s.tracks with
        | nil => rfl
        | cons _ _ => exact absurd hso (hinv.cached (by rw [hn]; simp))
      rcases ht with ht | rfl
      · rw [hnil] at ht; simp at ht
      · rw [Refine.mergedTrack_lu]; omega
    | some x =>
      rw [hso] at ho
      simp only [setOldest, Option.some.injEq] at ho
      rcases ht with ht | rfl
      · have := hinv.lower x hso t (List.mem_filter.1 ht).1
        omega
      · rw [Refine.mergedTrack_lu]; omega
  · intro _
    show setOldest s.oldest ts ≠ none
    unfold setOldest; split <;> simp
  · intro ho
    change s.ordered = true at ho
    show (s.tracks.filter (·.mmsi ≠ m) ++ [Refine.mergedTrack s m attrs ts]).Pairwise _
    rw [List.pairwise_append]
    refine ⟨(hinv.sorted ho).filter _, List.pairwise_singleton _ _, ?_⟩
    intro x hx y hy
    rw [List.mem_singleton] at hy; subst hy
    rw [Refine.mergedTrack_lu]
    exact hord ho x (List.mem_filter.1 hx).1

theorem Refine.abs_insert {r r' : TrkRun} {a : AState} (hinv : TrkInv r.st) (habs : Abs r a)
    (m : Int) (attrs : List (String × Val)) (ts : Int)
    (hst : r'.st = Refine.insertState r.st m attrs ts) (hnow : r'.now = r.now) :
    Abs r' (Refine.insertA a m attrs ts) := by
  constructor
  · rw [hst]; exact habs.ttl
  · rw [hst]; exact habs.ordered
  · rw [hnow]; exact habs.now
  · rw [hst]
    show (if a.keys.contains m then a.keys else a.keys ++ [m]).Perm
      ((r.st.tracks.filter (·.mmsi ≠ m) ++ [Refine.mergedTrack r.st m attrs ts]).map (·.mmsi))
    have hk := habs.keys.trans ((Refine.perm_split_key hinv.keys m).map (·.mmsi))
    rw [List.map_append, List.map_singleton, Refine.mergedTrack_mmsi]
    cases hf : r.st.tracks.find? (·.mmsi = m) with
    | none =>
      have hc : a.keys.contains m = false := by
        rw [habs.keys.contains_eq]
        simpa using Refine.find_none_key hf
      rw [hf] at hk
      simp only [hc, Option.toList_none, List.append_nil] at hk ⊢
      exact hk.append_right [m]
    | some old =>
      have hm := Refine.find_key hf
      have hc : m ∈ a.keys := habs.keys.mem_iff.2 (List.mem_map.2 ⟨old, hm.2, hm.1⟩)
      rw [hf] at hk
      simpa [hc, hm.1] using hk
  · intro k
    rw [hst]
    show (if k = m then some (Refine.mergedA a m attrs ts) else a.get k) =
      ((r.st.tracks.filter (·.mmsi ≠ m) ++ [Refine.mergedTrack r.st m attrs ts]).find? (·.mmsi = k)).map _
    rw [List.find?_append, Refine.find_filter_ne]
    by_cases hk : k = m
    · subst hk
      simp only [↓reduceIte, Option.none_or, List.find?_cons, Refine.mergedTrack_mmsi, decide_true,
        Option.map_some]
      unfold Refine.mergedA Refine.mergedTrack
      rw [habs.get]
      cases r.st.tracks.find? (·.mmsi = k) <;> rfl
    · have : ¬ m = k := fun h => hk h.symm
      simp [hk, Refine.mergedTrack_mmsi, this, habs.get]

theorem Refine.trkStep_update (r : TrkRun) (m : Int) (attrs : List (String × Val)) (ts : Option Int) :
    trkStep r (.update m attrs ts) =
      { r with st := (update r.st m attrs (ts.getD r.now) r.now).1,
               events := r.events ++ (update r.st m attrs (ts.getD r.now) r.now).2.1,
               verdicts := r.verdicts ++ [(update r.st m attrs (ts.getD r.now) r.now).2.2] } := rfl

theorem Refine.trkStep_pop (r : TrkRun) (m : Int) :
    trkStep r (.pop m) =
      { r with st := (popTrack r.st m).1, events := r.events ++ (popTrack r.st m).2.1 } := rfl

theorem Refine.trkStep_cleanup (r : TrkRun) :
    trkStep r .cleanup =
      { r with st := (cleanup r.st r.now).1, events := r.events ++ (cleanup r.st r.now).2 } := rfl

/-- **Refinement step.** -/
theorem refine_step (r : TrkRun) (a : AState) (hinv : TrkInv r.st) (habs : Abs r a) (op : TrkOp) :
    Abs (trkStep r op) (a.step op) := by
  cases op with
  | update m attrs ts =>
    have hv := accepts_iff r a hinv habs m attrs (ts.getD r.now)
    rw [Refine.step_update, habs.now, ← hv, Refine.trkStep_update]
    cases hacc : (update r.st m attrs (ts.getD r.now) r.now).2.2 with
    | false =>
      have := update_rejected _ _ _ _ _ hacc
      exact Refine.abs_congr this.1 rfl habs
    | true =>
      have hup := Refine.update_accepted' _ _ _ _ _ hacc
      let r1 : TrkRun := { r with st := Refine.insertState r.st m attrs (ts.getD r.now) }
      have hinv1 : TrkInv r1.st := Refine.inv_insert _ hinv _ _ _ _ hacc
      have habs1 : Abs r1 (Refine.insertA a m attrs (ts.getD r.now)) := Refine.abs_insert hinv habs _ _ _ rfl rfl
      exact Refine.abs_expire hinv1 habs1 hup.1 rfl
  | pop m => exact Refine.abs_remove habs m rfl rfl
  | cleanup => exact Refine.abs_expire hinv habs rfl rfl
  | tick t =>
    exact ⟨habs.ttl, habs.ordered, rfl, habs.keys, habs.get⟩
  | setTtl ttl =>
    exact ⟨rfl, habs.ordered, habs.now, habs.keys, habs.get⟩

/-! ## whole histories -/

theorem Refine.refine_run_gen (ops : List TrkOp) : ∀ (r : TrkRun) (a : AState), TrkInv r.st → Abs r a →
    TrkInv (ops.foldl trkStep r).st ∧ Abs (ops.foldl trkStep r) (ops.foldl AState.step a) := by
  induction ops with
  | nil => intro r a hinv habs; exact ⟨hinv, habs⟩
  | cons op ops ih =>
    intro r a hinv habs
    exact ih _ _ (inv_step r hinv op) (refine_step r a hinv habs op)

/-- **Refinement.** After any history the concrete tracker holds exactly what the abstract tracker
holds. -/
theorem refine_run (ordered : Bool) (ttl : Option Int) (ops : List TrkOp) :
    Abs (trkRun ordered ttl ops) (AState.run ordered ttl ops) :=
  (Refine.refine_run_gen ops _ _ (inv_init ordered ttl) (abs_init ordered ttl)).2

/-- per-update verdicts agree with the abstract acceptance rule along the whole history -/
def specVerdicts (ordered : Bool) (ttl : Option Int) : List TrkOp → List Bool
  | ops => (ops.foldl (fun (acc : AState × List Bool) op =>
      match op with
      | .update m _ ts => (acc.1.step op, acc.2 ++ [acc.1.accepts m (ts.getD acc.1.now)])
      | _ => (acc.1.step op, acc.2)) (AState.init ordered ttl, [])).2

/-- the step function folded by `specVerdicts` -/
def Refine.verdictStep (acc : AState × List Bool) (op : TrkOp) : AState × List Bool :=
  match op with
  | .update m _ ts => (acc.1.step op, acc.2 ++ [acc.1.accepts m (ts.getD acc.1.now)])
  | _ => (acc.1.step op, acc.2)

theorem Refine.specVerdicts_eq (ordered : Bool) (ttl : Option Int) (ops : List TrkOp) :
    specVerdicts ordered ttl ops = (ops.foldl Refine.verdictStep (AState.init ordered ttl, [])).2 := rfl

theorem Refine.verdictStep_eq (r : TrkRun) (a : AState) (hinv : TrkInv r.st) (habs : Abs r a) (op : TrkOp) :
    Refine.verdictStep (a, r.verdicts) op = (a.step op, (trkStep r op).verdicts) := by
  cases op with
  | update m attrs ts =>
    show (_, r.verdicts ++ [a.accepts m (ts.getD a.now)]) = (_, _)
    rw [Refine.trkStep_update, habs.now, ← accepts_iff r a hinv habs m attrs]
  | pop m => rfl
  | cleanup => rfl
  | tick t => rfl
  | setTtl ttl => rfl

theorem Refine.verdicts_gen (ops : List TrkOp) : ∀ (r : TrkRun) (a : AState), TrkInv r.st → Abs r a →
    (ops.foldl trkStep r).verdicts = (ops.foldl Refine.verdictStep (a, r.verdicts)).2 := by
  induction ops with
  | nil => intro r a _ _; rfl
  | cons op ops ih =>
    intro r a hinv habs
    rw [List.foldl_cons, List.foldl_cons, Refine.verdictStep_eq r a hinv habs]
    exact ih _ _ (inv_step r hinv op) (refine_step r a hinv habs op)

theorem verdicts_run (ordered : Bool) (ttl : Option Int) (ops : List TrkOp) :
    (trkRun ordered ttl ops).verdicts = specVerdicts ordered ttl ops := by
  rw [Refine.specVerdicts_eq]
  exact Refine.verdicts_gen ops _ _ (inv_init ordered ttl) (abs_init ordered ttl)

/-- the value of an attribute after a merge: the new value if the new message carries one,
otherwise the old value -/
theorem mergeAttrs_lookup (old new : List (String × Val)) (a : String) :
    (mergeAttrs old new).lookup a =
      (match old.lookup a with
       | none => none
       | some v => match new.lookup a with
         | some .none => some v
         | some w => some w
         | none => some v) := by
  induction old with
  | nil => rfl
  | cons x xs ih =>
    obtain ⟨n, v⟩ := x
    have hcons : mergeAttrs ((n, v) :: xs) new =
        (match new.lookup n with
         | some .none => (n, v)
         | some w => (n, w)
         | none => (n, v)) :: mergeAttrs xs new := rfl
    rw [hcons]
    by_cases h : a = n
    · subst h
      cases hn : new.lookup a with
      | none => simp
      | some w => cases w <;> simp
    · have h' : (a == n) = false := by simpa using h
      cases hn : new.lookup n with
      | none => simp [List.lookup_cons, h', ih]
      | some w => cases w <;> simp [List.lookup_cons, h', ih]

/-! ## events -/

theorem Refine.lifeRun_append (m : Int) (e1 e2 : List (Ev × Int)) :
    lifeRun m (e1 ++ e2) =
      (e2.filter (·.2 = m)).foldl (fun a e => lifeStep a e.1) (lifeRun m e1) := by
  unfold lifeRun; rw [List.filter_append, List.foldl_append]

/-- `pop_track` fires DELETED exactly once iff the track existed -/
theorem Refine.popTrack_events (s : TrkState) (m : Int) :
    (popTrack s m).2.1 = if s.tracks.any (·.mmsi = m) then [(Ev.deleted, m)] else [] := by
  rw [Refine.any_key_eq]
  unfold popTrack
  cases s.tracks.find? (·.mmsi = m) <;> rfl

/-- every event fired by `cleanup` is a DELETED event (no invariant needed) -/
theorem Refine.cleanup_events_deleted (s : TrkState) (now : Int) :
    ∀ e ∈ (cleanup s now).2, e.1 = Ev.deleted := by
  unfold cleanup
  intro e he
  split at he
  · split at he
    · simp at he
    · simp only [List.mem_map] at he
      obtain ⟨_, _, rfl⟩ := he
      rfl
  · simp at he

/-- the DELETED events of an expiry that concern `m`: one iff `m` has a stale track -/
theorem Refine.cleanup_events_key (s : TrkState) (hinv : TrkInv s) (now : Int) (m : Int) :
    (cleanup s now).2.filter (·.2 = m) =
      if (s.tracks.find? (·.mmsi = m)).any (fun t => staleAt s.ttl now t.lu)
      then [(Ev.deleted, m)] else [] := by
  obtain ⟨_, hev, _, _⟩ := cleanup_exact s hinv now
  have h1 := hev.filter (fun e => decide (e.2 = m))
  rw [List.filter_map] at h1
  have h2 : (s.tracks.filter (fun t => staleAt s.ttl now t.lu)).filter
        ((fun e : Ev × Int => decide (e.2 = m)) ∘ fun t => (Ev.deleted, t.mmsi)) =
      ((s.tracks.find? (·.mmsi = m)).toList).filter (fun t => staleAt s.ttl now t.lu) := by
    rw [← Refine.filter_key_eq hinv.keys, List.filter_filter, List.filter_filter]
    apply List.filter_congr
    intro x _; simp [Bool.and_comm]
  rw [h2] at h1
  cases hf : s.tracks.find? (·.mmsi = m) with
  | none =>
    rw [hf] at h1
    simpa using h1
  | some t =>
    have hm := (Refine.find_key hf).1
    rw [hf] at h1
    by_cases hs : staleAt s.ttl now t.lu = true
    · simpa [hs, hm] using h1
    · simpa [hs] using h1

theorem Refine.cleanup_any_key (s : TrkState) (hinv : TrkInv s) (now : Int) (m : Int) :
    (cleanup s now).1.tracks.any (·.mmsi = m) =
      (s.tracks.find? (·.mmsi = m)).any (fun t => !staleAt s.ttl now t.lu) := by
  rw [(cleanup_exact s hinv now).1, Refine.any_key_eq, Refine.find_filter hinv.keys]
  cases s.tracks.find? (·.mmsi = m) with
  | none => rfl
  | some t => by_cases hs : staleAt s.ttl now t.lu = true <;> simp [Option.filter, hs]

/-- expiry advances the life-cycle acceptor of every MMSI consistently -/
theorem Refine.life_cleanup (s : TrkState) (hinv : TrkInv s) (now : Int) (m : Int) :
    ((cleanup s now).2.filter (·.2 = m)).foldl (fun a e => lifeStep a e.1)
        (some (s.tracks.any (·.mmsi = m))) =
      some ((cleanup s now).1.tracks.any (·.mmsi = m)) := by
  rw [Refine.cleanup_events_key s hinv, Refine.cleanup_any_key s hinv, Refine.any_key_eq]
  cases s.tracks.find? (·.mmsi = m) with
  | none => rfl
  | some t => by_cases hs : staleAt s.ttl now t.lu = true <;> simp [hs, lifeStep]

theorem Refine.insert_any_key (s : TrkState) (m' : Int) (attrs : List (String × Val)) (ts : Int) (m : Int) :
    (Refine.insertState s m' attrs ts).tracks.any (·.mmsi = m) =
      if m = m' then true else s.tracks.any (·.mmsi = m) := by
  rw [Refine.any_key_eq, Refine.any_key_eq]
  show ((s.tracks.filter (·.mmsi ≠ m') ++ [Refine.mergedTrack s m' attrs ts]).find? (·.mmsi = m)).isSome = _
  rw [List.find?_append, Refine.find_filter_ne]
  by_cases hk : m = m'
  · simp [hk, Refine.mergedTrack_mmsi]
  · have : ¬ m' = m := fun h => hk h.symm
    simp [hk, Refine.mergedTrack_mmsi, this]

/-- events fired by one step, per MMSI: the life-cycle acceptor advances consistently with
membership in the dict -/
theorem life_step (r : TrkRun) (hinv : TrkInv r.st) (op : TrkOp) (m : Int)
    (h : lifeRun m r.events = some (r.st.tracks.any (·.mmsi = m))) :
    lifeRun m (trkStep r op).events = some ((trkStep r op).st.tracks.any (·.mmsi = m)) := by
  cases op with
  | tick t => exact h
  | setTtl ttl => exact h
  | cleanup =>
    rw [Refine.trkStep_cleanup]
    show lifeRun m (r.events ++ (cleanup r.st r.now).2) = some ((cleanup r.st r.now).1.tracks.any _)
    rw [Refine.lifeRun_append, h]
    exact Refine.life_cleanup _ hinv _ _
  | pop m' =>
    rw [Refine.trkStep_pop]
    show lifeRun m (r.events ++ (popTrack r.st m').2.1) = some ((popTrack r.st m').1.tracks.any _)
    rw [Refine.lifeRun_append, h, Refine.popTrack_fst, Refine.popTrack_events]
    show _ = some ((r.st.tracks.filter (·.mmsi ≠ m')).any (·.mmsi = m))
    rw [Refine.any_key_eq (r.st.tracks.filter (·.mmsi ≠ m')), Refine.find_filter_ne]
    by_cases hk : m = m'
    · subst hk
      cases hany : r.st.tracks.any (·.mmsi = m) <;> simp [lifeStep]
    · have : ¬ m' = m := fun h => hk h.symm
      rw [Refine.any_key_eq]
      cases r.st.tracks.any (·.mmsi = m') <;> simp [hk, this]
  | update m' attrs ts =>
    rw [Refine.trkStep_update]
    show lifeRun m (r.events ++ (update r.st m' attrs (ts.getD r.now) r.now).2.1) =
      some ((update r.st m' attrs (ts.getD r.now) r.now).1.tracks.any _)
    rw [Refine.lifeRun_append, h]
    cases hacc : (update r.st m' attrs (ts.getD r.now) r.now).2.2 with
    | false =>
      have hr := update_rejected _ _ _ _ _ hacc
      rw [hr.1, hr.2]; rfl
    | true =>
      have hup := Refine.update_accepted' _ _ _ _ _ hacc
      have hinv1 := Refine.inv_insert _ hinv _ _ _ _ hacc
      have hc := Refine.life_cleanup _ hinv1 r.now m
      rw [Refine.insert_any_key] at hc
      rw [hup.1, hup.2, ← hc]
      by_cases hk : m = m'
      · subst hk
        rw [Refine.any_key_eq]
        cases r.st.tracks.find? (·.mmsi = m) <;> simp [lifeStep]
      · have : ¬ m' = m := fun h => hk h.symm
        simp [hk, this]

theorem Refine.life_run_gen (ops : List TrkOp) (m : Int) : ∀ (r : TrkRun), TrkInv r.st →
    lifeRun m r.events = some (r.st.tracks.any (·.mmsi = m)) →
    lifeRun m (ops.foldl trkStep r).events = some ((ops.foldl trkStep r).st.tracks.any (·.mmsi = m)) := by
  induction ops with
  | nil => intro r _ h; exact h
  | cons op ops ih =>
    intro r hinv h
    exact ih _ (inv_step r hinv op) (life_step r hinv op m h)

/-- **C15 core.** For every history and every MMSI the events form
(CREATED UPDATED* DELETED)* (CREATED UPDATED*)? and the acceptor ends "alive" iff the MMSI has a
track. -/
theorem life_run (ordered : Bool) (ttl : Option Int) (ops : List TrkOp) (m : Int) :
    lifeRun m (trkRun ordered ttl ops).events =
      some ((trkRun ordered ttl ops).st.tracks.any (·.mmsi = m)) :=
  Refine.life_run_gen ops m _ (inv_init ordered ttl) rfl

end Model
