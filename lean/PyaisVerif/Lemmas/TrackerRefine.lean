import PyaisVerif.Lemmas.Tracker
/-!
# The tracker refines the abstract tracker; life cycle of events (generic part of C12, C15)
-/
namespace Model
open Spec

/-- abstraction relation between a concrete run and the abstract machine -/
structure Abs (r : TrkRun) (a : AState) : Prop where
  ttl : a.ttl = r.st.ttl
  ordered : a.ordered = r.st.ordered
  now : a.now = r.now
  keys : a.keys.Perm (r.st.tracks.map (·.mmsi))
  get : ∀ m, a.get m = (r.st.tracks.find? (·.mmsi = m)).map fun t => { attrs := t.attrs, lu := t.lu }

theorem abs_init (ordered : Bool) (ttl : Option Int) :
    Abs { st := { ordered := ordered, ttl := ttl } } (AState.init ordered ttl) := by
  sorry

/-- the concrete acceptance test (own track; last dict entry in ordered mode) is the abstract one
(own track; every track in ordered mode) -/
theorem accepts_iff (r : TrkRun) (a : AState) (hinv : TrkInv r.st) (habs : Abs r a)
    (m : Int) (attrs : List (String × Val)) (ts : Int) :
    (update r.st m attrs ts r.now).2.2 = a.accepts m ts := by
  sorry

/-- **Refinement step.** -/
theorem refine_step (r : TrkRun) (a : AState) (hinv : TrkInv r.st) (habs : Abs r a) (op : TrkOp) :
    Abs (trkStep r op) (a.step op) := by
  sorry

/-- **Refinement.** After any history the concrete tracker holds exactly what the abstract tracker
holds. -/
theorem refine_run (ordered : Bool) (ttl : Option Int) (ops : List TrkOp) :
    Abs (trkRun ordered ttl ops) (AState.run ordered ttl ops) := by
  sorry

/-- per-update verdicts agree with the abstract acceptance rule along the whole history -/
def specVerdicts (ordered : Bool) (ttl : Option Int) : List TrkOp → List Bool
  | ops => (ops.foldl (fun (acc : AState × List Bool) op =>
      match op with
      | .update m _ ts => (acc.1.step op, acc.2 ++ [acc.1.accepts m (ts.getD acc.1.now)])
      | _ => (acc.1.step op, acc.2)) (AState.init ordered ttl, [])).2

theorem verdicts_run (ordered : Bool) (ttl : Option Int) (ops : List TrkOp) :
    (trkRun ordered ttl ops).verdicts = specVerdicts ordered ttl ops := by
  sorry

/-- the value of an attribute after a merge: the new value if the new message carries one,
otherwise the old value -/
theorem mergeAttrs_lookup (old new : List (String × Val)) (a : String) :
    (mergeAttrs old new).lookup a =
      (match old.lookup a with
       | none => none
       | some v => match new.lookup a with
         | some .none => some v
         | some w => some w
         | none => some v) := by
  sorry

/-! ## events -/

/-- events fired by one step, per MMSI: the life-cycle acceptor advances consistently with
membership in the dict -/
theorem life_step (r : TrkRun) (hinv : TrkInv r.st) (op : TrkOp) (m : Int)
    (h : lifeRun m r.events = some (r.st.tracks.any (·.mmsi = m))) :
    lifeRun m (trkStep r op).events = some ((trkStep r op).st.tracks.any (·.mmsi = m)) := by
  sorry

/-- **C15 core.** For every history and every MMSI the events form
(CREATED UPDATED* DELETED)* (CREATED UPDATED*)? and the acceptor ends "alive" iff the MMSI has a
track. -/
theorem life_run (ordered : Bool) (ttl : Option Int) (ops : List TrkOp) (m : Int) :
    lifeRun m (trkRun ordered ttl ops).events =
      some ((trkRun ordered ttl ops).st.tracks.any (·.mmsi = m)) := by
  sorry

end Model
