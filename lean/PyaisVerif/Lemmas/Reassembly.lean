import PyaisVerif.Model.Assemble
/-!
# Multipart reassembly: interleavings are projected away, one slot in isolation (generic part of C03)
-/
namespace Model

abbrev SlotBuf := List (Option Sentence)

/-- does this (multi-fragment) sentence belong to slot `k`? -/
def inSlot (s : Sentence) (k : Slot) : Bool := !s.isSingle && slotOf s == k

/-- the reassembly buffer restricted to one slot: state = the slot's dict entry; `none` result =
IndexError -/
def slotStep (bufSize : Nat) (st : Option SlotBuf) (msg : Sentence) : Option (Option SlotBuf × List Sentence) :=
  let cur := match st with
    | some b => b
    | none => List.replicate (max msg.fragCnt.toNat bufSize) none
  match pySetIdx cur (msg.fragNum - 1) (some msg) with
  | none => none
  | some cur' =>
    let parts := (cur'.take msg.fragCnt.toNat).filterMap id
    if (parts.length : Int) = msg.fragCnt then
      match assemble parts with
      | some full => some (none, [full])
      | none => none
    else some (some cur', [])

/-- run one slot: per-position outputs, final state, and whether no IndexError occurred -/
def slotRun (bufSize : Nat) : Option SlotBuf → List Sentence → List (List Sentence) × Option SlotBuf × Bool
  | st, [] => ([], st, true)
  | st, s :: rest =>
    match slotStep bufSize st s with
    | none => ([], st, false)
    | some (st', out) =>
      let (outs, fin, ok) := slotRun bufSize st' rest
      (out :: outs, fin, ok)

/-- single sentences are delivered immediately and leave the buffer alone -/
theorem coreStep_single (bufSize : Nat) (buf : List (Slot × SlotBuf)) (s : Sentence) (h : s.isSingle = true) :
    coreStep bufSize buf s = some (buf, [s]) := by
  sorry

/-- a fragment only touches its own slot's entry, and does to it what `slotStep` does -/
theorem coreStep_multi (bufSize : Nat) (buf : List (Slot × SlotBuf)) (s : Sentence) (h : s.isSingle = false) :
    (match coreStep bufSize buf s, slotStep bufSize (buf.lookup (slotOf s)) s with
     | none, none => True
     | some (buf', out), some (st', out') =>
        out = out' ∧ ∀ k, buf'.lookup k = if k = slotOf s then st' else buf.lookup k
     | _, _ => False) := by
  sorry

/-- fragments with `1 ≤ frag_num ≤ bufSize` and `1 ≤ frag_cnt` never raise IndexError -/
theorem coreRun_ok (bufSize : Nat) (buf : List (Slot × SlotBuf)) (xs : List Sentence)
    (hbuf : ∀ k b, buf.lookup k = some b → bufSize ≤ b.length)
    (h : ∀ s ∈ xs, s.isSingle = false → 1 ≤ s.fragNum ∧ s.fragNum ≤ bufSize ∧ 1 ≤ s.fragCnt) :
    (coreRun bufSize buf xs).2 = true ∧ (coreRun bufSize buf xs).1.length = xs.length := by
  sorry

/-- **Interleavings are projected away**: what is delivered at the positions of slot `k`'s fragments
is what the one-slot machine delivers on the subsequence of those fragments, whatever single
sentences and fragments of other slots are interleaved with them. -/
theorem coreRun_project (bufSize : Nat) (buf : List (Slot × SlotBuf)) (xs : List Sentence) (k : Slot)
    (hok : (coreRun bufSize buf xs).2 = true) :
    ((xs.zip (coreRun bufSize buf xs).1).filter (fun p => inSlot p.1 k)).map (·.2)
      = (slotRun bufSize (buf.lookup k) (xs.filter (fun s => inSlot s k))).1 := by
  sorry

/-- single sentences are delivered at their own position, unchanged, in arrival order -/
theorem coreRun_single (bufSize : Nat) (buf : List (Slot × SlotBuf)) (xs : List Sentence) (i : Nat) (s : Sentence)
    (hok : (coreRun bufSize buf xs).2 = true) (hi : xs[i]? = some s) (h : s.isSingle = true) :
    (coreRun bufSize buf xs).1[i]? = some [s] := by
  sorry

/-- runs compose -/
theorem slotRun_append (bufSize : Nat) (st : Option SlotBuf) (a b : List Sentence) :
    slotRun bufSize st (a ++ b) =
      (match slotRun bufSize st a with
       | (outs, fin, true) =>
         let (outs', fin', ok') := slotRun bufSize fin b
         (outs ++ outs', fin', ok')
       | (outs, fin, false) => (outs, fin, false)) := by
  sorry

/-- **One message in isolation.** Any permutation of the fragments `1 … n` of one message
(`all k` is fragment `k`, `n ≤ bufSize`) put into a free slot: nothing is delivered before the last
fragment arrives; then exactly one assembled message, built from the fragments in fragment-number
order; the slot is free again. -/
theorem slotRun_block (bufSize n : Nat) (hn1 : 1 ≤ n) (hn : n ≤ bufSize) (all : Nat → Sentence)
    (hall : ∀ k, (all k).fragNum = (k : Int) ∧ (all k).fragCnt = (n : Int))
    (ks : List Nat) (hperm : ks.Perm (List.range' 1 n)) :
    slotRun bufSize none (ks.map all) =
      (List.replicate (n - 1) [] ++ [(assemble ((List.range' 1 n).map all)).toList], none, true) := by
  sorry

/-- an incomplete fragment set is never delivered -/
theorem slotRun_incomplete (bufSize n : Nat) (hn : n ≤ bufSize) (all : Nat → Sentence)
    (hall : ∀ k, (all k).fragNum = (k : Int) ∧ (all k).fragCnt = (n : Int))
    (ks : List Nat) (hsub : ∀ k ∈ ks, 1 ≤ k ∧ k ≤ n) (hnodup : ks.Nodup) (hlt : ks.length < n) :
    (slotRun bufSize none (ks.map all)).1 = List.replicate ks.length [] ∧
    (slotRun bufSize none (ks.map all)).2.2 = true := by
  sorry

/-- what an assembled message is: the first fragment's carrier fields, the raw lines joined by
newlines, payload and bits concatenated in fragment-number order, validity the conjunction -/
theorem assemble_canon (n : Nat) (hn1 : 1 ≤ n) (all : Nat → Sentence)
    (hall : ∀ k, (all k).fragNum = (k : Int)) :
    assemble ((List.range' 1 n).map all) =
      some { all 1 with
        raw := [10].intercalate ((List.range' 1 n).map fun k => (all k).raw),
        payload := ((List.range' 1 n).map fun k => (all k).payload).flatten,
        bits := ((List.range' 1 n).map fun k => (all k).bits).flatten,
        isValid := (List.range' 1 n).all fun k => (all k).isValid,
        aisId := getInt (((List.range' 1 n).map fun k => (all k).bits).flatten) 0 6 } := by
  sorry

end Model
