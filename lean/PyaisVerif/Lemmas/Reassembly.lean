import PyaisVerif.Model.Assemble
/-!
# Multipart reassembly: interleavings are projected away, one slot in isolation (generic part of C03)
-/
namespace Model

abbrev SlotBuf := List (Option Sentence)

/-- does this (multi-fragment) sentence belong to slot `k`? -/
def inSlot (s : Sentence) (k : Slot) : Bool := !s.isSingle && slotOf s == k

/-- the reassembly buffer restricted to one slot: state = the slot's dict entry; `none` result =
IndexError -/
def slotStep (bufSize : Nat) (st : Option SlotBuf) (msg : Sentence) : Option (Option SlotBuf × List Sentence) :=
  let cur := match st with
    | some b => b
    | none => List.replicate (max msg.fragCnt.toNat bufSize) none
  match pySetIdx cur (msg.fragNum - 1) (some msg) with
  | none => none
  | some cur' =>
    let parts := (cur'.take msg.fragCnt.toNat).filterMap id
    if (parts.length : Int) = msg.fragCnt then
      match assemble parts with
      | some full => some (none, [full])
      | none => none
    else some (some cur', [])

/-- run one slot: per-position outputs, final state, and whether no IndexError occurred -/
def slotRun (bufSize : Nat) : Option SlotBuf → List Sentence → List (List Sentence) × Option SlotBuf × Bool
  | st, [] => ([], st, true)
  | st, s :: rest =>
    match slotStep bufSize st s with
    | none => ([], st, false)
    | some (st', out) =>
      let (outs, fin, ok) := slotRun bufSize st' rest
      (out :: outs, fin, ok)

/-! ## association lists (`List.lookup` with any lawful `BEq`; `Slot` uses the product instance) -/

theorem lookup_cons_ite' {κ ν} [DecidableEq κ] [BEq κ] [LawfulBEq κ] (a k : κ) (b : ν) (es : List (κ × ν)) :
    ((k, b) :: es).lookup a = if a = k then some b else es.lookup a := by
  rw [List.lookup_cons]
  by_cases h : a = k
  · simp [h]
  · have : (a == k) = false := by simpa using h
    simp [this, h]

theorem lookup_append_single' {κ ν} [DecidableEq κ] [BEq κ] [LawfulBEq κ] (l : List (κ × ν)) (k k' : κ) (v : ν)
    (h : l.any (·.1 = k) = false) :
    (l ++ [(k, v)]).lookup k' = if k' = k then some v else l.lookup k' := by
  induction l with
  | nil => simp [lookup_cons_ite']
  | cons p l ih =>
    obtain ⟨a, b⟩ := p
    simp only [List.any_cons, Bool.or_eq_false_iff, decide_eq_false_iff_not] at h
    simp only [List.cons_append, lookup_cons_ite', ih h.2]
    by_cases hka : k' = a
    · subst hka
      simp [h.1]
    · simp [hka]

theorem lookup_map_set_ne' {κ ν} [DecidableEq κ] [BEq κ] [LawfulBEq κ] (l : List (κ × ν)) (k k' : κ) (v : ν)
    (hk : k' ≠ k) :
    (l.map (fun p => if p.1 = k then (k, v) else p)).lookup k' = l.lookup k' := by
  induction l with
  | nil => rfl
  | cons p l ih =>
    obtain ⟨a, b⟩ := p
    simp only [List.map_cons]
    by_cases hak : a = k
    · subst hak
      simp [lookup_cons_ite', ih, hk]
    · simp [lookup_cons_ite', ih, hak]

theorem lookup_map_set_eq' {κ ν} [DecidableEq κ] [BEq κ] [LawfulBEq κ] (l : List (κ × ν)) (k : κ) (v : ν)
    (h : l.any (·.1 = k) = true) :
    (l.map (fun p => if p.1 = k then (k, v) else p)).lookup k = some v := by
  induction l with
  | nil => simp at h
  | cons p l ih =>
    obtain ⟨a, b⟩ := p
    simp only [List.map_cons]
    by_cases hak : a = k
    · subst hak
      simp
    · have hl : l.any (·.1 = k) = true := by
        simpa only [List.any_cons, hak, decide_false, Bool.false_or] using h
      have hka : ¬ k = a := fun e => hak e.symm
      simp [lookup_cons_ite', ih hl, hak, hka]

theorem lookup_map_set' {κ ν} [DecidableEq κ] [BEq κ] [LawfulBEq κ] (l : List (κ × ν)) (k k' : κ) (v : ν)
    (h : l.any (·.1 = k) = true) :
    (l.map (fun p => if p.1 = k then (k, v) else p)).lookup k'
      = if k' = k then some v else l.lookup k' := by
  by_cases hk : k' = k
  · subst hk; simp [lookup_map_set_eq' l k' v h]
  · simp [hk, lookup_map_set_ne' l k k' v hk]

theorem lookup_assocSet' {κ ν} [DecidableEq κ] [BEq κ] [LawfulBEq κ] (l : List (κ × ν)) (k k' : κ) (v : ν) :
    (assocSet l k v).lookup k' = if k' = k then some v else l.lookup k' := by
  unfold assocSet
  by_cases h : l.any (·.1 = k) = true
  · rw [if_pos h]; exact lookup_map_set' l k k' v h
  · rw [if_neg h]; exact lookup_append_single' l k k' v (Bool.eq_false_iff.mpr h)

theorem lookup_assocErase' {κ ν} [DecidableEq κ] [BEq κ] [LawfulBEq κ] (l : List (κ × ν)) (k k' : κ) :
    (assocErase l k).lookup k' = if k' = k then none else l.lookup k' := by
  unfold assocErase
  induction l with
  | nil => simp
  | cons p l ih =>
    obtain ⟨a, b⟩ := p
    rw [List.filter_cons]
    by_cases hak : a = k
    · have : decide ((a, b).1 ≠ k) = false := by simp [hak]
      rw [this, if_neg (by simp), ih, lookup_cons_ite']
      by_cases hka : k' = k
      · simp [hka]
      · have : ¬ k' = a := fun e => hka (e.trans hak)
        simp [hka, this]
    · have : decide ((a, b).1 ≠ k) = true := by simp [hak]
      rw [this, if_pos rfl, lookup_cons_ite', lookup_cons_ite', ih]
      by_cases hka : k' = a
      · subst hka
        simp [hak]
      · simp [hka]


/-! ## core step vs. slot step -/

/-- single sentences are delivered immediately and leave the buffer alone -/
theorem coreStep_single (bufSize : Nat) (buf : List (Slot × SlotBuf)) (s : Sentence) (h : s.isSingle = true) :
    coreStep bufSize buf s = some (buf, [s]) := by
  simp [coreStep, h]

/-- a fragment only touches its own slot's entry, and does to it what `slotStep` does -/
theorem coreStep_multi (bufSize : Nat) (buf : List (Slot × SlotBuf)) (s : Sentence) (h : s.isSingle = false) :
    (match coreStep bufSize buf s, slotStep bufSize (buf.lookup (slotOf s)) s with
     | none, none => True
     | some (buf', out), some (st', out') =>
        out = out' ∧ ∀ k, buf'.lookup k = if k = slotOf s then st' else buf.lookup k
     | _, _ => False) := by
  have key : ∀ cur : SlotBuf,
      (match (match (match pySetIdx cur (s.fragNum - 1) (some s) with
        | none => none
        | some cur' =>
          if ((List.filterMap id (List.take s.fragCnt.toNat cur')).length : Int) = s.fragCnt then
            match assemble (List.filterMap id (List.take s.fragCnt.toNat cur')) with
            | some full => some (assocErase buf (slotOf s), some full)
            | none => none
          else some (assocSet buf (slotOf s) cur', none) : Option (List (Slot × SlotBuf) × Option Sentence)) with
        | none => none
        | some (buf, none) => some (buf, [])
        | some (buf, some full) => some (buf, [full]) : Option (List (Slot × SlotBuf) × List Sentence)),
        (match pySetIdx cur (s.fragNum - 1) (some s) with
        | none => none
        | some cur' =>
          if ((List.filterMap id (List.take s.fragCnt.toNat cur')).length : Int) = s.fragCnt then
            match assemble (List.filterMap id (List.take s.fragCnt.toNat cur')) with
            | some full => some (none, [full])
            | none => none
          else some (some cur', []) : Option (Option SlotBuf × List Sentence)) with
      | none, none => True
      | some (buf', out), some (st', out') =>
        out = out' ∧ ∀ k, buf'.lookup k = if k = slotOf s then st' else buf.lookup k
      | _, _ => False) := by
    intro cur
    cases pySetIdx cur (s.fragNum - 1) (some s) with
    | none => trivial
    | some cur' =>
      dsimp only
      by_cases hc : ((List.filterMap id (List.take s.fragCnt.toNat cur')).length : Int) = s.fragCnt
      · rw [if_pos hc, if_pos hc]
        cases assemble (List.filterMap id (List.take s.fragCnt.toNat cur')) with
        | none => trivial
        | some full =>
          dsimp only
          exact ⟨rfl, fun k => lookup_assocErase' _ _ _⟩
      · rw [if_neg hc, if_neg hc]
        dsimp only
        exact ⟨rfl, fun k => lookup_assocSet' _ _ _ _⟩
  unfold coreStep bufferStep slotStep
  rw [if_neg (by simp [h])]
  dsimp only
  cases hl : List.lookup (slotOf s) buf with
  | none => exact key _
  | some b => exact key _

/-! ## unfolding lemmas for the two runs -/

theorem coreRun_cons_none {bufSize : Nat} {buf : List (Slot × SlotBuf)} {s : Sentence} (rest : List Sentence)
    (h : coreStep bufSize buf s = none) : coreRun bufSize buf (s :: rest) = ([], false) := by
  simp only [coreRun, h]

theorem coreRun_cons_some {bufSize : Nat} {buf buf' : List (Slot × SlotBuf)} {s : Sentence} {out : List Sentence}
    (rest : List Sentence) (h : coreStep bufSize buf s = some (buf', out)) :
    coreRun bufSize buf (s :: rest) = (out :: (coreRun bufSize buf' rest).1, (coreRun bufSize buf' rest).2) := by
  simp only [coreRun, h]

theorem slotRun_cons_none {bufSize : Nat} {st : Option SlotBuf} {s : Sentence} (rest : List Sentence)
    (h : slotStep bufSize st s = none) : slotRun bufSize st (s :: rest) = ([], st, false) := by
  simp only [slotRun, h]

theorem slotRun_cons_some {bufSize : Nat} {st st' : Option SlotBuf} {s : Sentence} {out : List Sentence}
    (rest : List Sentence) (h : slotStep bufSize st s = some (st', out)) :
    slotRun bufSize st (s :: rest) =
      (out :: (slotRun bufSize st' rest).1, (slotRun bufSize st' rest).2.1, (slotRun bufSize st' rest).2.2) := by
  simp only [slotRun, h]

/-- a successful core step on a sentence outside slot `k` leaves slot `k` alone -/
theorem coreStep_lookup_other {bufSize : Nat} {buf buf' : List (Slot × SlotBuf)} {s : Sentence}
    {out : List Sentence} (hc : coreStep bufSize buf s = some (buf', out)) (k : Slot)
    (hk : inSlot s k = false) : buf'.lookup k = buf.lookup k := by
  cases hs : s.isSingle with
  | true =>
    rw [coreStep_single bufSize buf s hs] at hc
    simp only [Option.some.injEq, Prod.mk.injEq] at hc
    rw [← hc.1]
  | false =>
    have hne : k ≠ slotOf s := by
      intro e
      simp [inSlot, hs, e] at hk
    have hm := coreStep_multi bufSize buf s hs
    rw [hc] at hm
    cases hst : slotStep bufSize (buf.lookup (slotOf s)) s with
    | none => rw [hst] at hm; exact hm.elim
    | some r =>
      obtain ⟨st', out'⟩ := r
      rw [hst] at hm
      have := hm.2 k
      rw [if_neg hne] at this
      exact this

/-- a successful core step on a fragment of slot `k` is a successful slot step on that slot's entry -/
theorem coreStep_lookup_self {bufSize : Nat} {buf buf' : List (Slot × SlotBuf)} {s : Sentence}
    {out : List Sentence} (hc : coreStep bufSize buf s = some (buf', out)) (k : Slot)
    (hk : inSlot s k = true) : slotStep bufSize (buf.lookup k) s = some (buf'.lookup k, out) := by
  simp only [inSlot, Bool.and_eq_true, Bool.not_eq_true', beq_iff_eq] at hk
  obtain ⟨hs, rfl⟩ := hk
  have hm := coreStep_multi bufSize buf s hs
  rw [hc] at hm
  cases hst : slotStep bufSize (buf.lookup (slotOf s)) s with
  | none => rw [hst] at hm; exact hm.elim
  | some r =>
    obtain ⟨st', out'⟩ := r
    rw [hst] at hm
    have := hm.2 (slotOf s)
    rw [if_pos rfl] at this
    rw [this, hm.1]

/-- **Interleavings are projected away**: what is delivered at the positions of slot `k`'s fragments
is what the one-slot machine delivers on the subsequence of those fragments, whatever single
sentences and fragments of other slots are interleaved with them. -/
theorem coreRun_project (bufSize : Nat) (buf : List (Slot × SlotBuf)) (xs : List Sentence) (k : Slot)
    (hok : (coreRun bufSize buf xs).2 = true) :
    ((xs.zip (coreRun bufSize buf xs).1).filter (fun p => inSlot p.1 k)).map (·.2)
      = (slotRun bufSize (buf.lookup k) (xs.filter (fun s => inSlot s k))).1 := by
  induction xs generalizing buf with
  | nil => simp [coreRun, slotRun]
  | cons s xs ih =>
    cases hc : coreStep bufSize buf s with
    | none => rw [coreRun_cons_none xs hc] at hok; exact absurd hok (by decide)
    | some r =>
      obtain ⟨buf', out⟩ := r
      rw [coreRun_cons_some xs hc] at hok ⊢
      have ih' := ih buf' hok
      simp only [List.zip_cons_cons, List.filter_cons]
      cases hk : inSlot s k with
      | true =>
        simp only [if_true, List.map_cons]
        rw [slotRun_cons_some _ (coreStep_lookup_self hc k hk), ih']
      | false =>
        simp only [Bool.false_eq_true, if_false]
        rw [ih', coreStep_lookup_other hc k hk]

/-- single sentences are delivered at their own position, unchanged, in arrival order -/
theorem coreRun_single (bufSize : Nat) (buf : List (Slot × SlotBuf)) (xs : List Sentence) (i : Nat) (s : Sentence)
    (hok : (coreRun bufSize buf xs).2 = true) (hi : xs[i]? = some s) (h : s.isSingle = true) :
    (coreRun bufSize buf xs).1[i]? = some [s] := by
  induction xs generalizing buf i with
  | nil => simp at hi
  | cons x xs ih =>
    cases hc : coreStep bufSize buf x with
    | none => rw [coreRun_cons_none xs hc] at hok; exact absurd hok (by decide)
    | some r =>
      obtain ⟨buf', out⟩ := r
      rw [coreRun_cons_some xs hc] at hok ⊢
      cases i with
      | zero =>
        simp only [List.getElem?_cons_zero, Option.some.injEq] at hi
        subst hi
        rw [coreStep_single bufSize buf x h] at hc
        simp only [Option.some.injEq, Prod.mk.injEq] at hc
        simp [hc.2]
      | succ j =>
        simp only [List.getElem?_cons_succ] at hi ⊢
        exact ih buf' j hok hi

/-- runs compose -/
theorem slotRun_append (bufSize : Nat) (st : Option SlotBuf) (a b : List Sentence) :
    slotRun bufSize st (a ++ b) =
      (match slotRun bufSize st a with
       | (outs, fin, true) =>
         let (outs', fin', ok') := slotRun bufSize fin b
         (outs ++ outs', fin', ok')
       | (outs, fin, false) => (outs, fin, false)) := by
  induction a generalizing st with
  | nil => simp [slotRun]
  | cons s a ih =>
    cases hs : slotStep bufSize st s with
    | none => rw [List.cons_append, slotRun_cons_none _ hs, slotRun_cons_none _ hs]
    | some r =>
      obtain ⟨st', out⟩ := r
      rw [List.cons_append, slotRun_cons_some _ hs, slotRun_cons_some _ hs, ih st']
      rcases slotRun bufSize st' a with ⟨outs, fin, ok⟩
      cases ok <;> simp

/-! ## no IndexError -/

theorem pySetIdx_ok {α} (l : List α) (i : Int) (v : α) (h0 : 0 ≤ i) (h1 : i < l.length) :
    pySetIdx l i v = some (l.set i.toNat v) := by
  unfold pySetIdx
  have e : (if i < 0 then i + (l.length : Int) else i) = i := if_neg (by omega)
  simp only [e]
  rw [if_pos ⟨h0, h1⟩]

theorem assemble_isSome_of_ne_nil (l : List Sentence) (h : l ≠ []) : ∃ full, assemble l = some full := by
  cases l with
  | nil => exact absurd rfl h
  | cons a l => exact ⟨_, rfl⟩

/-- one slot step in bounds succeeds and keeps the buffer at least `bufSize` long -/
theorem slotStep_ok (bufSize : Nat) (st : Option SlotBuf) (s : Sentence)
    (hst : ∀ b, st = some b → bufSize ≤ b.length)
    (h : 1 ≤ s.fragNum ∧ s.fragNum ≤ bufSize ∧ 1 ≤ s.fragCnt) :
    ∃ st' out, slotStep bufSize st s = some (st', out) ∧ ∀ b, st' = some b → bufSize ≤ b.length := by
  unfold slotStep
  dsimp only
  generalize hcur : (match st with
    | some b => b
    | none => List.replicate (max s.fragCnt.toNat bufSize) none) = cur
  have hlen : bufSize ≤ cur.length := by
    cases st with
    | none => subst hcur; simp only [List.length_replicate]; omega
    | some b => subst hcur; exact hst b rfl
  rw [pySetIdx_ok cur (s.fragNum - 1) (some s) (by omega) (by omega)]
  dsimp only
  split
  · rename_i hc
    have hne : List.filterMap id (List.take s.fragCnt.toNat (cur.set (s.fragNum - 1).toNat (some s))) ≠ [] := by
      intro e
      rw [e] at hc
      simp only [List.length_nil] at hc
      omega
    obtain ⟨full, hf⟩ := assemble_isSome_of_ne_nil _ hne
    rw [hf]
    exact ⟨none, [full], rfl, fun b hb => by cases hb⟩
  · refine ⟨_, _, rfl, fun b hb => ?_⟩
    simp only [Option.some.injEq] at hb
    subst hb
    simpa using hlen

theorem coreStep_ok (bufSize : Nat) (buf : List (Slot × SlotBuf)) (s : Sentence)
    (hbuf : ∀ k b, buf.lookup k = some b → bufSize ≤ b.length)
    (h : s.isSingle = false → 1 ≤ s.fragNum ∧ s.fragNum ≤ bufSize ∧ 1 ≤ s.fragCnt) :
    ∃ buf' out, coreStep bufSize buf s = some (buf', out) ∧
      ∀ k b, buf'.lookup k = some b → bufSize ≤ b.length := by
  cases hs : s.isSingle with
  | true => exact ⟨buf, [s], coreStep_single bufSize buf s hs, hbuf⟩
  | false =>
    obtain ⟨st', out', hst, hlen⟩ := slotStep_ok bufSize (buf.lookup (slotOf s)) s (hbuf _) (h hs)
    have hm := coreStep_multi bufSize buf s hs
    rw [hst] at hm
    cases hc : coreStep bufSize buf s with
    | none => rw [hc] at hm; exact hm.elim
    | some r =>
      obtain ⟨buf', out⟩ := r
      rw [hc] at hm
      refine ⟨buf', out, rfl, fun k b hb => ?_⟩
      rw [hm.2 k] at hb
      by_cases hk : k = slotOf s
      · rw [if_pos hk] at hb; exact hlen b hb
      · rw [if_neg hk] at hb; exact hbuf k b hb

/-- fragments with `1 ≤ frag_num ≤ bufSize` and `1 ≤ frag_cnt` never raise IndexError -/
theorem coreRun_ok (bufSize : Nat) (buf : List (Slot × SlotBuf)) (xs : List Sentence)
    (hbuf : ∀ k b, buf.lookup k = some b → bufSize ≤ b.length)
    (h : ∀ s ∈ xs, s.isSingle = false → 1 ≤ s.fragNum ∧ s.fragNum ≤ bufSize ∧ 1 ≤ s.fragCnt) :
    (coreRun bufSize buf xs).2 = true ∧ (coreRun bufSize buf xs).1.length = xs.length := by
  induction xs generalizing buf with
  | nil => simp [coreRun]
  | cons s xs ih =>
    obtain ⟨buf', out, hc, hbuf'⟩ := coreStep_ok bufSize buf s hbuf (h s (by simp))
    rw [coreRun_cons_some xs hc]
    have := ih buf' hbuf' (fun s' hs' => h s' (by simp [hs']))
    simp only [List.length_cons]
    exact ⟨this.1, by rw [this.2]⟩

/-! ## one message in isolation -/

theorem slot_filterMap_set_len {α} (l : List (Option α)) (i : Nat) (x : α) (h : l[i]? = some none) :
    ((l.set i (some x)).filterMap id).length = (l.filterMap id).length + 1 := by
  induction l generalizing i with
  | nil => simp at h
  | cons a as ih =>
    cases i with
    | zero =>
      simp at h; subst h; simp
    | succ j =>
      simp at h
      cases a <;> simp [List.set, ih j h]

theorem slot_filterMap_id_map_some {α β} (f : α → β) (l : List α) :
    (l.map (fun x => some (f x))).filterMap id = l.map f := by
  induction l with
  | nil => rfl
  | cons a l ih => simp [ih]

/-- the slot step on fragment `k` of `n` (`n ≤ bufSize`), with the casts removed -/
theorem slotStep_frag (bufSize n k : Nat) (hn : n ≤ bufSize) (hk1 : 1 ≤ k) (hkn : k ≤ n) (s : Sentence)
    (hnum : s.fragNum = (k : Int)) (hcnt : s.fragCnt = (n : Int)) (st : Option SlotBuf)
    (hlen : (st.getD (List.replicate bufSize none)).length = bufSize) :
    slotStep bufSize st s =
      if ((((st.getD (List.replicate bufSize none)).set (k - 1) (some s)).take n).filterMap id).length = n then
        (match assemble ((((st.getD (List.replicate bufSize none)).set (k - 1) (some s)).take n).filterMap id) with
         | some full => some (none, [full])
         | none => none)
      else some (some ((st.getD (List.replicate bufSize none)).set (k - 1) (some s)), []) := by
  unfold slotStep
  dsimp only
  have hcur : (match (generalizing := false) st with
      | some b => b
      | none => List.replicate (max s.fragCnt.toNat bufSize) none) = st.getD (List.replicate bufSize none) := by
    cases st with
    | none => simp [hcnt, Nat.max_eq_right hn]
    | some b => rfl
  rw [hcur, pySetIdx_ok _ _ _ (by omega) (by omega)]
  have e1 : (s.fragNum - 1).toNat = k - 1 := by omega
  have e2 : s.fragCnt.toNat = n := by omega
  rw [e1, e2, hcnt]
  dsimp only
  simp only [Int.natCast_inj]

/-- pointwise description of a slot buffer -/
def SlotDesc (L : Nat) (b : SlotBuf) (g : Nat → Option Sentence) : Prop :=
  b.length = L ∧ ∀ i, i < L → b[i]? = some (g i)

theorem take_eq_map_of_slotDesc {L : Nat} {b : SlotBuf} {g : Nat → Option Sentence} (h : SlotDesc L b g)
    (n : Nat) (hn : n ≤ L) : b.take n = (List.range n).map g := by
  apply List.ext_getElem?
  intro i
  by_cases hi : i < n
  · rw [List.getElem?_take_of_lt hi, h.2 i (by omega)]
    simp [hi]
  · rw [List.getElem?_eq_none (by simp [List.length_take]; omega)]
    rw [List.getElem?_eq_none (by simp; omega)]

theorem slotDesc_set {L : Nat} {b : SlotBuf} {g : Nat → Option Sentence} (h : SlotDesc L b g) (k : Nat)
    (f : Sentence) (hk : k < L) :
    SlotDesc L (b.set k (some f)) (fun i => if i = k then some f else g i) := by
  refine ⟨by simp [h.1], ?_⟩
  intro i hi
  rw [List.getElem?_set]
  by_cases hik : k = i
  · subst hik; simp [h.1, hk]
  · have : i ≠ k := fun e => hik e.symm
    simp [hik, this, h.2 i hi]

theorem slotDesc_empty (L : Nat) : SlotDesc L (List.replicate L none) (fun _ => none) := by
  refine ⟨by simp, ?_⟩
  intro i hi
  simp [hi]

/-- the buffer contents after the fragments with numbers in `q` have arrived -/
def slotFragFn (all : Nat → Sentence) (q : List Nat) : Nat → Option Sentence :=
  fun i => if i + 1 ∈ q then some (all (i + 1)) else none

/-- the state reached after the fragments with numbers in `q` of an `n`-fragment message -/
structure SlotInv (bufSize n : Nat) (all : Nat → Sentence) (q : List Nat) (st : Option SlotBuf) : Prop where
  desc : SlotDesc bufSize (st.getD (List.replicate bufSize none)) (slotFragFn all q)
  cnt : (((st.getD (List.replicate bufSize none)).take n).filterMap id).length = q.length

theorem slotInv_init (bufSize n : Nat) (all : Nat → Sentence) : SlotInv bufSize n all [] none := by
  constructor
  · have : slotFragFn all [] = fun _ => none := by funext i; simp [slotFragFn]
    rw [this]
    exact slotDesc_empty bufSize
  · simp

theorem slotStep_spec (bufSize n : Nat) (hn : n ≤ bufSize) (all : Nat → Sentence)
    (hall : ∀ k, (all k).fragNum = (k : Int) ∧ (all k).fragCnt = (n : Int))
    (q : List Nat) (st : Option SlotBuf) (hinv : SlotInv bufSize n all q st)
    (k : Nat) (hk1 : 1 ≤ k) (hkn : k ≤ n) (hkq : k ∉ q) :
    (q.length + 1 = n → slotStep bufSize st (all k) =
        (match assemble (((List.range n).map (slotFragFn all (k :: q))).filterMap id) with
         | some full => some (none, [full])
         | none => none)) ∧
    (q.length + 1 ≠ n → ∃ st', slotStep bufSize st (all k) = some (st', []) ∧
        SlotInv bufSize n all (k :: q) st') := by
  have hdesc := hinv.desc
  have hk' : k - 1 < bufSize := by omega
  have hnone : (st.getD (List.replicate bufSize none))[k - 1]? = some none := by
    have := hdesc.2 (k - 1) hk'
    have e : k - 1 + 1 = k := by omega
    simpa [slotFragFn, e, hkq] using this
  have hdesc' := slotDesc_set hdesc (k - 1) (all k) hk'
  have hg : (fun i => if i = k - 1 then some (all k) else slotFragFn all q i) = slotFragFn all (k :: q) := by
    funext i
    simp only [slotFragFn, List.mem_cons]
    by_cases hi : i = k - 1
    · subst hi
      have e : k - 1 + 1 = k := by omega
      simp [e]
    · have : i + 1 ≠ k := by omega
      simp [hi, this]
  rw [hg] at hdesc'
  have hlen : ((((st.getD (List.replicate bufSize none)).set (k - 1) (some (all k))).take n).filterMap id).length
      = q.length + 1 := by
    rw [List.take_set, slot_filterMap_set_len _ _ _ (by rw [List.getElem?_take_of_lt (by omega)]; exact hnone),
      hinv.cnt]
  rw [slotStep_frag bufSize n k hn hk1 hkn (all k) (hall k).1 (hall k).2 st hdesc.1, hlen]
  constructor
  · intro hfull
    rw [if_pos hfull, take_eq_map_of_slotDesc hdesc' n hn]
  · intro hnot
    rw [if_neg hnot]
    refine ⟨_, rfl, ?_, ?_⟩
    · simpa using hdesc'
    · simpa using hlen

/-- when every fragment number is present, the collected parts are the fragments in order -/
theorem slotParts_complete (n : Nat) (all : Nat → Sentence) (q : List Nat)
    (hq : ∀ j, 1 ≤ j → j ≤ n → j ∈ q) :
    ((List.range n).map (slotFragFn all q)).filterMap id = (List.range' 1 n).map all := by
  have : (List.range n).map (slotFragFn all q) = (List.range n).map (fun i => some (all (1 + i))) := by
    apply List.map_congr_left
    intro i hi
    rw [List.mem_range] at hi
    simp [slotFragFn, hq (i + 1) (by omega) (by omega), Nat.add_comm]
  rw [this, slot_filterMap_id_map_some, List.range'_eq_map_range, List.map_map]
  rfl

/-- the rest of a block: the fragments `q` have arrived, the fragments `post` complete the set -/
theorem slotRun_rest (bufSize n : Nat) (hn : n ≤ bufSize) (all : Nat → Sentence)
    (hall : ∀ k, (all k).fragNum = (k : Int) ∧ (all k).fragCnt = (n : Int))
    (post : List Nat) (hpost : post ≠ []) (q : List Nat) (st : Option SlotBuf)
    (hinv : SlotInv bufSize n all q st) (hperm : (q ++ post).Perm (List.range' 1 n)) :
    slotRun bufSize st (post.map all) =
      (List.replicate (post.length - 1) [] ++ [(assemble ((List.range' 1 n).map all)).toList], none, true) := by
  induction post generalizing q st with
  | nil => exact absurd rfl hpost
  | cons k post ih =>
    have hnd : (q ++ k :: post).Nodup := hperm.nodup_iff.mpr (List.nodup_range' 1)
    have hk : 1 ≤ k ∧ k ≤ n := by
      have : k ∈ List.range' 1 n := hperm.mem_iff.mp (by simp)
      rw [List.mem_range'_1] at this
      omega
    have hkq : k ∉ q := by
      intro hkq
      rw [List.nodup_append] at hnd
      exact hnd.2.2 k hkq k (by simp) rfl
    have hlen : q.length + (post.length + 1) = n := by
      have := hperm.length_eq
      simpa using this
    have hspec := slotStep_spec bufSize n hn all hall q st hinv k hk.1 hk.2 hkq
    have hperm' : ((k :: q) ++ post).Perm (List.range' 1 n) := List.perm_middle.symm.trans hperm
    cases post with
    | nil =>
      have hfull : q.length + 1 = n := by simpa using hlen
      have hs := hspec.1 hfull
      rw [slotParts_complete n all (k :: q) (fun j h1 h2 => by
        have : j ∈ List.range' 1 n := by rw [List.mem_range'_1]; omega
        simpa using hperm'.mem_iff.mpr this)] at hs
      have hne : (List.range' 1 n).map all ≠ [] := by
        intro e
        have := congrArg List.length e
        simp at this
        omega
      obtain ⟨full, hf⟩ := assemble_isSome_of_ne_nil _ hne
      rw [hf] at hs ⊢
      simp only [List.map_cons, List.map_nil]
      rw [slotRun_cons_some _ hs]
      simp [slotRun]
    | cons k' post =>
      have hnot : q.length + 1 ≠ n := by simp at hlen; omega
      obtain ⟨st', hs, hinv'⟩ := hspec.2 hnot
      rw [List.map_cons, slotRun_cons_some _ hs, ih (by simp) (k :: q) st' hinv' hperm']
      simp [List.replicate_succ]

/-- **One message in isolation.** Any permutation of the fragments `1 … n` of one message
(`all k` is fragment `k`, `n ≤ bufSize`) put into a free slot: nothing is delivered before the last
fragment arrives; then exactly one assembled message, built from the fragments in fragment-number
order; the slot is free again. -/
theorem slotRun_block (bufSize n : Nat) (hn1 : 1 ≤ n) (hn : n ≤ bufSize) (all : Nat → Sentence)
    (hall : ∀ k, (all k).fragNum = (k : Int) ∧ (all k).fragCnt = (n : Int))
    (ks : List Nat) (hperm : ks.Perm (List.range' 1 n)) :
    slotRun bufSize none (ks.map all) =
      (List.replicate (n - 1) [] ++ [(assemble ((List.range' 1 n).map all)).toList], none, true) := by
  have hlen : ks.length = n := by simpa using hperm.length_eq
  have hne : ks ≠ [] := by
    intro e
    rw [e] at hlen
    simp at hlen
    omega
  rw [slotRun_rest bufSize n hn all hall ks hne [] none (slotInv_init bufSize n all) (by simpa using hperm), hlen]

/-- fragments `post` arrive after `q`, the set stays incomplete -/
theorem slotRun_partial (bufSize n : Nat) (hn : n ≤ bufSize) (all : Nat → Sentence)
    (hall : ∀ k, (all k).fragNum = (k : Int) ∧ (all k).fragCnt = (n : Int))
    (post : List Nat) (q : List Nat) (st : Option SlotBuf)
    (hinv : SlotInv bufSize n all q st) (hsub : ∀ k ∈ post, 1 ≤ k ∧ k ≤ n)
    (hnodup : (q ++ post).Nodup) (hlt : q.length + post.length < n) :
    (slotRun bufSize st (post.map all)).1 = List.replicate post.length [] ∧
    (slotRun bufSize st (post.map all)).2.2 = true := by
  induction post generalizing q st with
  | nil => simp [slotRun]
  | cons k post ih =>
    have hk := hsub k (by simp)
    have hkq : k ∉ q := by
      intro hkq
      rw [List.nodup_append] at hnodup
      exact hnodup.2.2 k hkq k (by simp) rfl
    have hnot : q.length + 1 ≠ n := by simp at hlt; omega
    obtain ⟨st', hs, hinv'⟩ := (slotStep_spec bufSize n hn all hall q st hinv k hk.1 hk.2 hkq).2 hnot
    have hnd' : ((k :: q) ++ post).Nodup := List.perm_middle.nodup_iff.mp hnodup
    have := ih (k :: q) st' hinv' (fun j hj => hsub j (by simp [hj])) hnd' (by simp at hlt ⊢; omega)
    rw [List.map_cons, slotRun_cons_some _ hs]
    simp only [List.length_cons, List.replicate_succ]
    exact ⟨by rw [this.1], this.2⟩

/-- an incomplete fragment set is never delivered -/
theorem slotRun_incomplete (bufSize n : Nat) (hn : n ≤ bufSize) (all : Nat → Sentence)
    (hall : ∀ k, (all k).fragNum = (k : Int) ∧ (all k).fragCnt = (n : Int))
    (ks : List Nat) (hsub : ∀ k ∈ ks, 1 ≤ k ∧ k ≤ n) (hnodup : ks.Nodup) (hlt : ks.length < n) :
    (slotRun bufSize none (ks.map all)).1 = List.replicate ks.length [] ∧
    (slotRun bufSize none (ks.map all)).2.2 = true :=
  slotRun_partial bufSize n hn all hall ks [] none (slotInv_init bufSize n all) hsub (by simpa using hnodup)
    (by simpa using hlt)

/-! ## what the assembled message is -/

theorem insertByNum_lt' (x y : Sentence) (ys : List Sentence) (h : x.fragNum < y.fragNum) :
    insertByNum x (y :: ys) = x :: y :: ys := by
  simp only [insertByNum]
  rw [if_neg (by omega)]

/-- a list that is strictly ascending in the fragment number is left alone by the stable sort -/
theorem sortByNum_sorted' (l : List Sentence) (h : l.Pairwise (fun a b => a.fragNum < b.fragNum)) :
    sortByNum l = l := by
  induction l with
  | nil => rfl
  | cons x xs ih =>
    rw [List.pairwise_cons] at h
    have e : sortByNum (x :: xs) = insertByNum x (sortByNum xs) := rfl
    rw [e, ih h.2]
    cases xs with
    | nil => rfl
    | cons y ys => exact insertByNum_lt' x y ys (h.1 y (by simp))

/-- what an assembled message is: the first fragment's carrier fields, the raw lines joined by
newlines, payload and bits concatenated in fragment-number order, validity the conjunction -/
theorem assemble_canon (n : Nat) (hn1 : 1 ≤ n) (all : Nat → Sentence)
    (hall : ∀ k, (all k).fragNum = (k : Int)) :
    assemble ((List.range' 1 n).map all) =
      some { all 1 with
        raw := [10].intercalate ((List.range' 1 n).map fun k => (all k).raw),
        payload := ((List.range' 1 n).map fun k => (all k).payload).flatten,
        bits := ((List.range' 1 n).map fun k => (all k).bits).flatten,
        isValid := (List.range' 1 n).all fun k => (all k).isValid,
        aisId := getInt (((List.range' 1 n).map fun k => (all k).bits).flatten) 0 6 } := by
  obtain ⟨m, rfl⟩ : ∃ m, n = m + 1 := ⟨n - 1, by omega⟩
  have hs : sortByNum ((List.range' 1 (m + 1)).map all) = (List.range' 1 (m + 1)).map all := by
    apply sortByNum_sorted'
    rw [List.pairwise_map]
    refine (List.pairwise_lt_range' 1).imp ?_
    intro a b hab
    rw [hall a, hall b]
    omega
  have hcons : (List.range' 1 (m + 1)).map all = all 1 :: (List.range' 2 m).map all := by
    rw [List.range'_succ, List.map_cons]
  have hasm : assemble ((List.range' 1 (m + 1)).map all) =
      some { all 1 with
        raw := [10].intercalate ((sortByNum ((List.range' 1 (m + 1)).map all)).map (·.raw)),
        payload := ((sortByNum ((List.range' 1 (m + 1)).map all)).map (·.payload)).flatten,
        bits := ((sortByNum ((List.range' 1 (m + 1)).map all)).map (·.bits)).flatten,
        isValid := (sortByNum ((List.range' 1 (m + 1)).map all)).all (·.isValid),
        aisId := getInt (((sortByNum ((List.range' 1 (m + 1)).map all)).map (·.bits)).flatten) 0 6 } := by
    rw [hcons]
    rfl
  rw [hasm, hs]
  simp only [List.map_map, List.all_map, Function.comp_def]

end Model
