/-!
# Python primitives used by pyais, modelled once

Bytes are `List Nat` (each element `< 256` by construction of the harness), exceptions are values of
`Err`.  Nothing here depends on pyais; every definition follows CPython 3.12 behaviour as probed in
the sandbox (see DESIGN.md §3).
-/
namespace Py

abbrev Byte := Nat
abbrev Bytes := List Nat

/-- The Python exception classes that matter for the properties.  The first block is the library's
own hierarchy (`AISBaseException` and subclasses), the second block are builtins that must never
escape (C05). `outsideModel` marks inputs the model deliberately does not cover (the harness must
never generate them; seeing one in a correspondence run is reported as a harness error). -/
inductive Err
  | invalidNMEAMessage | invalidNMEAChecksum | unknownMessage | missingMultipart | tooManyMessages
  | unknownPartNo | invalidDataType | nonPrintableCharacter | missingPayload
  | tagBlockNotInitialized
  | valueError | unicodeDecodeError | indexError | keyError | typeError | overflowError
  | outsideModel
  deriving DecidableEq, Repr, Inhabited

/-- Is the exception a subclass of `AISBaseException`? -/
def Err.isLibrary : Err → Bool
  | .invalidNMEAMessage | .invalidNMEAChecksum | .unknownMessage | .missingMultipart
  | .tooManyMessages | .unknownPartNo | .invalidDataType | .nonPrintableCharacter
  | .missingPayload => true
  | _ => false

def Err.name : Err → String
  | .invalidNMEAMessage => "InvalidNMEAMessageException"
  | .invalidNMEAChecksum => "InvalidNMEAChecksum"
  | .unknownMessage => "UnknownMessageException"
  | .missingMultipart => "MissingMultipartMessageException"
  | .tooManyMessages => "TooManyMessagesException"
  | .unknownPartNo => "UnknownPartNoException"
  | .invalidDataType => "InvalidDataTypeException"
  | .nonPrintableCharacter => "NonPrintableCharacterException"
  | .missingPayload => "MissingPayloadException"
  | .tagBlockNotInitialized => "TagBlockNotInitializedException"
  | .valueError => "ValueError"
  | .unicodeDecodeError => "UnicodeDecodeError"
  | .indexError => "IndexError"
  | .keyError => "KeyError"
  | .typeError => "TypeError"
  | .overflowError => "OverflowError"
  | .outsideModel => "OUTSIDE-MODEL"

/-- `isinstance(e, ValueError)`: `UnicodeDecodeError` is a subclass of `ValueError`. -/
def Err.isValueError : Err → Bool
  | .valueError | .unicodeDecodeError => true
  | _ => false

/-! ## bytes helpers -/

/-- ASCII whitespace as understood by `bytes.strip()` / `int()`: space, \t \n \r \x0b \x0c. -/
def isSpace (b : Byte) : Bool := b == 32 || (9 ≤ b && b ≤ 13)

def lstrip (s : Bytes) : Bytes := s.dropWhile isSpace
def rstrip (s : Bytes) : Bytes := (s.reverse.dropWhile isSpace).reverse
/-- `bytes.strip()` -/
def strip (s : Bytes) : Bytes := rstrip (lstrip s)

/-- `bytes.split(sep)` for a one-byte separator (never returns `[]`; `b''.split(b',') = [b'']`). -/
def split (sep : Byte) (s : Bytes) : List Bytes := s.splitOn sep

/-- `s.split(sep, 1)`: at most one split. -/
def split1 (sep : Byte) : Bytes → Bytes × Option Bytes
  | [] => ([], none)
  | b :: bs =>
    if b = sep then ([], some bs)
    else
      let (h, t) := split1 sep bs
      (b :: h, t)

/-- `s.find(b)` as an `Int` (−1 when absent). -/
def find (sep : Byte) (s : Bytes) : Int :=
  match s.findIdx? (· == sep) with
  | some i => i
  | none => -1

/-- Python slice `s[a:b]` for non-negative `a`, `b` (clamped). -/
def slice (s : List α) (a b : Nat) : List α := (s.drop a).take (b - a)

def isDigit (b : Byte) : Bool := 48 ≤ b && b ≤ 57
def isAscii (s : Bytes) : Bool := s.all (· < 128)

/-- `bytes.upper()` (ASCII letters only). -/
def upper (s : Bytes) : Bytes := s.map fun b => if 97 ≤ b && b ≤ 122 then b - 32 else b

/-- value of a hex digit, upper or lower case -/
def hexVal (b : Byte) : Option Nat :=
  if 48 ≤ b && b ≤ 57 then some (b - 48)
  else if 65 ≤ b && b ≤ 70 then some (b - 55)
  else if 97 ≤ b && b ≤ 102 then some (b - 87)
  else none

def digitVal (base : Nat) (b : Byte) : Option Nat :=
  match hexVal b with
  | some v => if v < base then some v else none
  | none => none

/-- digits with single underscores allowed only *between* digits (PEP 515), as accepted by `int()`.
`accDigits base acc prevDigit s` -/
def parseDigits (base : Nat) : Nat → Bool → Bytes → Option Nat
  | acc, prev, [] => if prev then some acc else none
  | acc, prev, b :: bs =>
    if b = 95 then  -- '_'
      if prev then parseDigits base acc false bs else none
    else
      match digitVal base b with
      | some v => parseDigits base (acc * base + v) true bs
      | none => none

/-- `int(b)` / `int(b, 10)` on a bytes object: optional surrounding ASCII whitespace, optional single
sign, digits with single inner underscores. `none` = `ValueError`. -/
def pyInt10 (s : Bytes) : Option Int :=
  let s := strip s
  match s with
  | [] => none
  | 43 :: r => (parseDigits 10 0 false r).map Int.ofNat       -- '+'
  | 45 :: r => (parseDigits 10 0 false r).map fun n => - Int.ofNat n   -- '-'
  | r => (parseDigits 10 0 false r).map Int.ofNat

/-- body after the sign for base 16: optional `0x`/`0X` which may be followed by one underscore -/
def pyInt16Body (r : Bytes) : Option Nat :=
  match r with
  | 48 :: x :: r' =>
    if x = 120 || x = 88 then
      match r' with
      | 95 :: r'' => parseDigits 16 0 false r''
      | _ => parseDigits 16 0 false r'
    else parseDigits 16 0 false r
  | _ => parseDigits 16 0 false r

/-- `int(b, 16)` on a bytes object. -/
def pyInt16 (s : Bytes) : Option Int :=
  let s := strip s
  match s with
  | [] => none
  | 43 :: r => (pyInt16Body r).map Int.ofNat
  | 45 :: r => (pyInt16Body r).map fun n => - Int.ofNat n
  | r => (pyInt16Body r).map Int.ofNat

/-- decimal rendering of a natural number as ASCII bytes (`str(n).encode()`). -/
def natToDecAux : Nat → Nat → Bytes → Bytes
  | 0, _, acc => acc
  | fuel+1, n, acc =>
    if n < 10 then (48 + n) :: acc
    else natToDecAux fuel (n / 10) ((48 + n % 10) :: acc)
def natToDec (n : Nat) : Bytes := natToDecAux (n + 1) n []

def intToDec (i : Int) : Bytes :=
  if i < 0 then 45 :: natToDec i.natAbs else natToDec i.natAbs

def hexDigitUpper (v : Nat) : Byte := if v < 10 then 48 + v else 55 + v

/-- `"{:02X}".format(n)` for `n < 256` -/
def hex2 (n : Nat) : Bytes := [hexDigitUpper (n / 16 % 16), hexDigitUpper (n % 16)]

/-- `hex(n)[2:].upper()` (no padding) -/
def hexUpperAux : Nat → Nat → Bytes → Bytes
  | 0, _, acc => acc
  | fuel+1, n, acc =>
    if n < 16 then hexDigitUpper n :: acc
    else hexUpperAux fuel (n / 16) (hexDigitUpper (n % 16) :: acc)
def hexUpper (n : Nat) : Bytes := hexUpperAux (n + 1) n []

/-- XOR of all bytes (`reduce(xor, s)` for non-empty `s`; the empty case is a `TypeError` in Python
and is handled by the callers). -/
def xorAll (l : Bytes) : Nat := l.foldl (· ^^^ ·) 0

def strBytes (s : String) : Bytes := s.toList.map Char.toNat

end Py
