# (executed by manifest_gen.py)
FLOAT_NOTE = ('Trusted: Lean kernel; axioms propext/Classical.choice/Quot.sound; translator (field tables, constants '
              'regenerated from source each run); correspondence check for the hand-written model parts. ')

claim('C20', 'Lean theorems for all radio values (omega over div/mod) + complete model-vs-code enumeration',
      'Theorems C20_sotdma/C20_itdma/C20_reconstruct_*/C20_classify/C20_report prove for every radio value that each '
      'reported field is the ITU bit range, inapplicable keys are None, the raw value is reconstructible and the '
      'SOTDMA/ITDMA classification is exclusive and by type/selector bit; masks and type sets are regenerated from '
      'the source and pinned by a kernel-decide obligation; the model is tied to util.py/messages.py by running both '
      'on all 2^19 values (complete) and on type x radio samples (all 2^20 in the thorough tier).',
      FLOAT_NOTE + 'Model of the three comm-state functions is hand-written (tie complete: finite domain).',
      'DESIGN.md §5 C20')

for p in ['C01', 'C02', 'C03', 'C04', 'C05', 'C06', 'C07', 'C08', 'C09', 'C10', 'C11', 'C12', 'C13', 'C14', 'C15',
          'C16', 'C17', 'C18', 'C19']:
    PENDING[p] = 'check under construction in this commit (model exists, theorems and harness not yet registered); will be claimed at proof level'
