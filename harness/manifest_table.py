# (executed by manifest_gen.py)
FLOAT_NOTE = ('Trusted: Lean kernel; axioms propext/Classical.choice/Quot.sound; translator (field tables, constants '
              'regenerated from source each run); correspondence check for the hand-written model parts. ')

claim('C20', 'Lean theorems for all radio values (omega over div/mod) + complete model-vs-code enumeration',
      'Theorems C20_sotdma/C20_itdma/C20_reconstruct_*/C20_classify/C20_report prove for every radio value that each '
      'reported field is the ITU bit range, inapplicable keys are None, the raw value is reconstructible and the '
      'SOTDMA/ITDMA classification is exclusive and by type/selector bit; masks and type sets are regenerated from '
      'the source and pinned by a kernel-decide obligation; the model is tied to util.py/messages.py by running both '
      'on all 2^19 values (complete) and on type x radio samples (all 2^20 in the thorough tier).',
      FLOAT_NOTE + 'Model of the three comm-state functions is hand-written (tie complete: finite domain).',
      'DESIGN.md §5 C20')

claim('C01', 'Lean theorem over all payloads (table-generic induction + kernel-decided table = layout obligations on tables regenerated from source)',
      'C01_decode_matches_layout: for every payload bit string of nominal length, the message decoded by the model '
      'with the field tables read from the current source has the class the payload\'s own type/discriminator bits '
      'select and every field equals what the independent layout specification (Spec/Layout.lean, from ITU-R M.1371 / '
      'gpsd) assigns to the bits at its offset (signedness, scale, six-bit text, enumeration, rate of turn); '
      'C01_rejects for unsupported types/part numbers. 35 table=layout equalities, MSG_CLASS, dispatch trees, enum and '
      'ROT tables are kernel-decided on every run from the regenerated tables. The generic engine is tied to '
      'Payload.from_bitarray by differential execution on per-field sentinel sweeps for all 35 layouts, and pyais is '
      'checked against the Lean layout spec on the same inputs.',
      FLOAT_NOTE + 'Spec/Layout.lean is trusted to say what the standard says. Float results are compared as exact '
      'decimals (IEEE rounding inside round()/division modelled in exact arithmetic).',
      'DESIGN.md §5 C01')

claim('C11', 'Lean theorems for every payload, every cut position (per-offset characterisation of the cursor loop) + converter-totality obligations decided on regenerated tables',
      'C11_total (decoding never fails, any length), C11_covered (a field inside the first L bits has the same value '
      'in the truncated and the full message), C11_absent (a field starting at or beyond L is None), C11_variant '
      '(a prefix containing the discriminator bits selects the same variant) for all tables read from the source; '
      'tie to the code by differential execution on every class x every prefix length, directly and through armored '
      'sentences; the implementation is additionally checked against the property itself on the same prefixes.',
      FLOAT_NOTE + 'The value of a field cut in the middle is unspecified by the property and not compared.',
      'DESIGN.md §5 C11')

claim('C06', 'Lean theorem by induction over the chunk list (all segmentations of every stream) + exhaustive model-vs-code enumeration of small streams',
      'C06_chunking / C06_independent / C06_lines: for every byte stream in which CR occurs only in CRLF and every way '
      'of cutting it into non-empty recv() results, the model of SocketStream.read (carry-over of the partial line, '
      'Python splitlines(keepends=True) with LF, CR and CRLF boundaries) yields exactly the LF-terminated lines of '
      'the stream, each once, complete, in order; the exponential quantifier is discharged by induction. The model is '
      'tied to stream.py by running both on ALL segmentations of ALL such streams up to 8 bytes (11 thorough) over '
      '{x, CR, LF} and on random chunkings of AIS streams through the whole socket front-end; pyais is also checked '
      'directly against the property on the same inputs.',
      FLOAT_NOTE + 'The kernel/TCP/UDP stack is not modelled: recv() is assumed to return consecutive non-empty '
      'pieces of the stream.',
      'DESIGN.md §5 C06')

claim('C10', 'Lean theorems for every body, position and replacement byte (XOR algebra, split lemmas) + differential execution on checksum matrices',
      'C10_flag (a parsed sentence d body*HH is flagged valid iff HH = XOR(body)), C10_general (any accepted line: '
      'the number chk_to_int reads equals the XOR), C10_assembled (conjunction over parts), C10_strict (strict '
      'decode raises the checksum error exactly when a parsed part is invalid, else equals lenient), '
      'C10_single_byte (every single-byte corruption that does not forge a * is rejected or flagged) about the '
      'sentence-layer model; tie to messages.py/util.py/decode.py by differential execution on all 255 wrong '
      'checksums, a checksum-field token matrix, byte substitutions at body positions and all corrupted subsets of '
      'multi-part messages, lenient and strict.',
      FLOAT_NOTE, 'DESIGN.md §5 C10')

claim('C09', 'Lean theorems for every armored payload up to nine fragments (parse-after-render inverse, chunking and armoring lemmas) + differential execution over all payload lengths',
      'C09_structure (the encoder output is exactly the rendering of n = ceil(len/max_len) fragments numbered 1..n of n '
      'with common sequence id, chunks of the payload, fill bits on the last only, two-digit XOR checksum), C09_length '
      '(<= 82 incl. CR LF), C09_head_checksum, C09_fill (alphabet, fill = padding to six bits, de-armoring gives the '
      'bits back), C09_parse (every emitted sentence is accepted by the parser model and read back as written), '
      'C09_accepted (one-shot assembly of the emitted sentences carries exactly the bits), C09_domain (every class '
      '<= 1064 bits); max_len, MAX_FRAG_CNT, MAX_PAYLOAD_LEN regenerated from source; tie to encode.py/util.py by '
      'differential execution on every payload length 1..200 (+ up to 540) x talkers x channels x fill, every bit '
      'length 0..130, and encode_msg of all 35 classes; pyais output also checked against the property directly.',
      FLOAT_NOTE, 'DESIGN.md §5 C09')

claim('C12', 'Lean refinement theorem over unbounded histories (invariant induction; abstract tracker = finite map with override-merge) + exhaustive small-history differential execution',
      'C12_refines: after any history of update/pop_track/cleanup/clock advances/TTL changes, ordered or unordered, the '
      'model of AISTracker (dict in insertion order, cached oldest_timestamp, early-exit scan) holds exactly what the '
      'abstract tracker holds (one track per MMSI, attributes = override-merge of accepted updates, last_updated); '
      'C12_verdicts (acceptance = not older than own track / any track in ordered mode), C12_rejected_is_noop, '
      'C12_latest_value, C12_one_track_per_mmsi; tie to tracker.py by running model and code on all histories of 3 '
      'operations x modes x TTL and long random histories, comparing state, verdict and events after every operation.',
      FLOAT_NOTE + 'Times/TTL are modelled as integers (exact arithmetic); the two float comparisons (t - ttl) < oldest and (t - lu) < ttl could differ at sub-ulp coincidences, which the model cannot exhibit. time.time() is replaced by a harness-controlled clock. msg_to_track projection is modelled through the decoded message (codec model) and the generated AISTrack field list.', 'DESIGN.md §5 C12')

claim('C13', 'Lean theorem: expiry scan with cached lower bound removes exactly the stale tracks in every reachable state (invariants I1/I2) + differential execution with exact age = TTL ties',
      'C13_cleanup / C13_update / C13_events / C13_none: in every reachable state, both modes, any TTL, cleanup() and '
      'the expiry inside update() keep exactly the tracks with t - last_updated < TTL and fire DELETED exactly for '
      'the others; with TTL None nothing expires. Proved from the invariants (cache is a lower bound; ordered dict '
      'sorted) established by induction over histories.',
      FLOAT_NOTE + 'Times/TTL are modelled as integers (exact arithmetic); the two float comparisons (t - ttl) < oldest and (t - lu) < ttl could differ at sub-ulp coincidences, which the model cannot exhibit. time.time() is replaced by a harness-controlled clock. msg_to_track projection is modelled through the decoded message (codec model) and the generated AISTrack field list.', 'DESIGN.md §5 C13')

claim('C14', 'Lean theorem over all reachable states and all n >= 0 (sortedness invariants, stable-sort lemmas) + differential execution',
      'C14: n_latest_tracks(n) returns min(n, #tracks) distinct tracks of the tracker, no track left out is newer than '
      'one returned, unordered mode sorted newest first; for every reachable state of the model in both modes.',
      FLOAT_NOTE + 'Times/TTL are modelled as integers (exact arithmetic); the two float comparisons (t - ttl) < oldest and (t - lu) < ttl could differ at sub-ulp coincidences, which the model cannot exhibit. time.time() is replaced by a harness-controlled clock. msg_to_track projection is modelled through the decoded message (codec model) and the generated AISTrack field list.', 'DESIGN.md §5 C14')

claim('C15', 'Lean theorem: per-MMSI event sequence accepted by the life-cycle automaton for every history, final automaton state = membership + differential execution with callbacks',
      'C15_lifecycle: for every history and MMSI the fired events form (CREATED UPDATED* DELETED)* (CREATED UPDATED*)? '
      'and the automaton ends alive iff the MMSI has a track; C15_update_event, C15_pop_event, C15_rejected_silent.',
      FLOAT_NOTE + 'Times/TTL are modelled as integers (exact arithmetic); the two float comparisons (t - ttl) < oldest and (t - lu) < ttl could differ at sub-ulp coincidences, which the model cannot exhibit. time.time() is replaced by a harness-controlled clock. msg_to_track projection is modelled through the decoded message (codec model) and the generated AISTrack field list.', 'DESIGN.md §5 C15')

claim('C17', 'Lean theorems for any interleaving of any number of groups (projection lemma + one-group induction) + exhaustive small-schedule differential execution',
      'C17_singletons, C17_independent (outputs at a group\'s positions depend only on that group\'s subsequence), C17 '
      '(first sentence then tot-1 others in any order, interleaved with anything: nothing before the last sentence, '
      'then the whole group once, in arrival order), C17_incomplete; about the model of TagBlockQueue.put_sentence; '
      'tie to stream.py by differential execution on all interleavings of small group configurations and random '
      'larger ones, directly and through IterMessages/NMEAQueue with tbq.',
      FLOAT_NOTE + 'Group ids unique per group; tag block parsing (tb.init) is part of the model and of the tie.',
      'DESIGN.md §5 C17')

claim('C19', 'Lean theorems about the filter-chain model for every distance function (uninterpreted) + differential execution incl. truncated position reports',
      'C19_exact (chain output = order-preserving subsequence of exactly the messages passing every filter), '
      'C19_order (any permutation of the filters), C19_sublist, C19_mem, C19_distance (strict), C19_grid (closed), '
      'messages without position pass the geographic filters; the great-circle distance is an uninterpreted '
      'parameter. Tie to filter.py by differential execution of chains of 1-5 filters in all orders on decoded '
      'messages of all kinds; haversine itself is compared with an independent formula (differential testing, '
      'not proof).',
      FLOAT_NOTE + 'Partial: numerical accuracy of haversine (libm) is not proved. Filters are modelled with fresh '
      'filter objects (re-using one filter object in two chains leaves a stale next_filter; out of scope).',
      'DESIGN.md §5 C19')

for p in ['C02', 'C03', 'C04', 'C05', 'C07', 'C08', 'C16', 'C18']:
    PENDING[p] = 'check under construction in this commit (model exists, theorems and harness not yet registered); will be claimed at proof level'
