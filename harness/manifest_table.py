# (executed by manifest_gen.py)
FLOAT_NOTE = ('Trusted: Lean kernel; axioms propext/Classical.choice/Quot.sound; translator (field tables, constants '
              'regenerated from source each run); correspondence check for the hand-written model parts. ')

claim('C20', 'Lean theorems for all radio values (omega over div/mod) about the source text itself (functions translated statement by statement on every run) + complete model-vs-code enumeration',
      'Theorems C20_sotdma/C20_itdma/C20_reconstruct_*/C20_classify/C20_report prove for every radio value that each '
      'reported field is the ITU bit range, inapplicable keys are None, the raw value is reconstructible and the '
      'SOTDMA/ITDMA classification is exclusive and by type/selector bit; masks and type sets are regenerated from '
      'the source and pinned by a kernel-decide obligation; the model is tied to util.py/messages.py by running both '
      'on all 2^19 values (complete) and on type x radio samples (all 2^20 in the thorough tier). Since the function '
      'translator (harness/translate_fn.py) the five functions are also rendered statement by statement from the '
      'current source into Generated/Funcs.lean, and C20_src_* prove that text equal to the model for every input, '
      'C20_source_sotdma/_itdma/_classify/_raw state the property about the source text directly.',
      FLOAT_NOTE + 'Both ties apply to the comm-state functions: translated text (grammar: integer/bit arithmetic, '
      'constant-key dict bookkeeping, if-chains, IntEnum(x) as membership in the present members, raise; anything else is '
      'refused, tag cs) and complete enumeration of the finite domain against the hand-written model. '
      'get_communication_state() itself (dict.update of the two results) is modelled by hand.',
      'DESIGN.md §5 C20')

claim('C01', 'Lean theorem over all payloads (table-generic induction + kernel-decided table = layout obligations on tables regenerated from source)',
      'C01_decode_matches_layout: for every payload bit string of nominal length, the message decoded by the model '
      'with the field tables read from the current source has the class the payload\'s own type/discriminator bits '
      'select and every field equals what the independent layout specification (Spec/Layout.lean, from ITU-R M.1371 / '
      'gpsd) assigns to the bits at its offset (signedness, scale, six-bit text, enumeration, rate of turn); '
      'C01_rejects for unsupported types/part numbers. 35 table=layout equalities, MSG_CLASS, dispatch trees, enum and '
      'ROT tables are kernel-decided on every run from the regenerated tables. The generic engine is tied to '
      'Payload.from_bitarray by differential execution on per-field sentinel sweeps for all 35 layouts, and pyais is '
      'checked against the Lean layout spec on the same inputs.',
      FLOAT_NOTE + 'Spec/Layout.lean is trusted to say what the standard says. Float results are compared as exact '
      'decimals (IEEE rounding inside round()/division modelled in exact arithmetic).',
      'DESIGN.md §5 C01')

claim('C11', 'Lean theorems for every payload, every cut position (per-offset characterisation of the cursor loop) + converter-totality obligations decided on regenerated tables',
      'C11_total (decoding never fails, any length), C11_covered (a field inside the first L bits has the same value '
      'in the truncated and the full message), C11_absent (a field starting at or beyond L is None), C11_variant '
      '(a prefix containing the discriminator bits selects the same variant) for all tables read from the source; '
      'tie to the code by differential execution on every class x every prefix length, directly and through armored '
      'sentences; the implementation is additionally checked against the property itself on the same prefixes.',
      FLOAT_NOTE + 'The value of a field cut in the middle is unspecified by the property and not compared.',
      'DESIGN.md §5 C11')

claim('C06', 'Lean theorem by induction over the chunk list (all segmentations of every stream) + exhaustive model-vs-code enumeration of small streams',
      'C06_chunking / C06_independent / C06_lines: for every byte stream in which CR occurs only in CRLF and every way '
      'of cutting it into non-empty recv() results, the model of SocketStream.read (carry-over of the partial line, '
      'Python splitlines(keepends=True) with LF, CR and CRLF boundaries) yields exactly the LF-terminated lines of '
      'the stream, each once, complete, in order; the exponential quantifier is discharged by induction. The model is '
      'tied to stream.py by running both on ALL segmentations of ALL such streams up to 8 bytes (11 thorough) over '
      '{x, CR, LF} and on random chunkings of AIS streams through the whole socket front-end; pyais is also checked '
      'directly against the property on the same inputs.',
      FLOAT_NOTE + 'The kernel/TCP/UDP stack is not modelled: recv() is assumed to return consecutive non-empty '
      'pieces of the stream.',
      'DESIGN.md §5 C06')

claim('C10', 'Lean theorems for every body, position and replacement byte (XOR algebra, split lemmas) + differential execution on checksum matrices',
      'C10_flag (a parsed sentence d body*HH is flagged valid iff HH = XOR(body)), C10_general (any accepted line: '
      'the number chk_to_int reads equals the XOR), C10_assembled (conjunction over parts), C10_strict (strict '
      'decode raises the checksum error exactly when a parsed part is invalid, else equals lenient), '
      'C10_single_byte (every single-byte corruption that does not forge a * is rejected or flagged) about the '
      'sentence-layer model; tie to messages.py/util.py/decode.py by differential execution on all 255 wrong '
      'checksums, a checksum-field token matrix, byte substitutions at body positions and all corrupted subsets of '
      'multi-part messages, lenient and strict.',
      FLOAT_NOTE, 'DESIGN.md §5 C10')

claim('C09', 'Lean theorems for every armored payload up to nine fragments (parse-after-render inverse, chunking and armoring lemmas) + differential execution over all payload lengths',
      'C09_structure (the encoder output is exactly the rendering of n = ceil(len/max_len) fragments numbered 1..n of n '
      'with common sequence id, chunks of the payload, fill bits on the last only, two-digit XOR checksum), C09_length '
      '(<= 82 incl. CR LF), C09_head_checksum, C09_fill (alphabet, fill = padding to six bits, de-armoring gives the '
      'bits back), C09_parse (every emitted sentence is accepted by the parser model and read back as written), '
      'C09_accepted (one-shot assembly of the emitted sentences carries exactly the bits), C09_domain (every class '
      '<= 1064 bits); max_len, MAX_FRAG_CNT, MAX_PAYLOAD_LEN regenerated from source; tie to encode.py/util.py by '
      'differential execution on every payload length 1..200 (+ up to 540) x talkers x channels x fill, every bit '
      'length 0..130, and encode_msg of all 35 classes; pyais output also checked against the property directly.',
      FLOAT_NOTE, 'DESIGN.md §5 C09')

claim('C12', 'Lean refinement theorem over unbounded histories (invariant induction; abstract tracker = finite map with override-merge) + exhaustive small-history differential execution',
      'C12_refines: after any history of update/pop_track/cleanup/clock advances/TTL changes, ordered or unordered, the '
      'model of AISTracker (dict in insertion order, cached oldest_timestamp, early-exit scan) holds exactly what the '
      'abstract tracker holds (one track per MMSI, attributes = override-merge of accepted updates, last_updated); '
      'C12_verdicts (acceptance = not older than own track / any track in ordered mode), C12_rejected_is_noop, '
      'C12_latest_value, C12_one_track_per_mmsi; tie to tracker.py by running model and code on all histories of 3 '
      'operations x modes x TTL and long random histories, comparing state, verdict and events after every operation.',
      FLOAT_NOTE + 'Times/TTL are modelled as integers (exact arithmetic); the two float comparisons (t - ttl) < oldest and (t - lu) < ttl could differ at sub-ulp coincidences, which the model cannot exhibit. time.time() is replaced by a harness-controlled clock. msg_to_track projection is modelled through the decoded message (codec model) and the generated AISTrack field list.', 'DESIGN.md §5 C12')

claim('C13', 'Lean theorem: expiry scan with cached lower bound removes exactly the stale tracks in every reachable state (invariants I1/I2) + differential execution with exact age = TTL ties',
      'C13_cleanup / C13_update / C13_events / C13_none: in every reachable state, both modes, any TTL, cleanup() and '
      'the expiry inside update() keep exactly the tracks with t - last_updated < TTL and fire DELETED exactly for '
      'the others; with TTL None nothing expires. Proved from the invariants (cache is a lower bound; ordered dict '
      'sorted) established by induction over histories.',
      FLOAT_NOTE + 'Times/TTL are modelled as integers (exact arithmetic); the two float comparisons (t - ttl) < oldest and (t - lu) < ttl could differ at sub-ulp coincidences, which the model cannot exhibit. time.time() is replaced by a harness-controlled clock. msg_to_track projection is modelled through the decoded message (codec model) and the generated AISTrack field list.', 'DESIGN.md §5 C13')

claim('C14', 'Lean theorem over all reachable states and all n >= 0 (sortedness invariants, stable-sort lemmas) + differential execution',
      'C14: n_latest_tracks(n) returns min(n, #tracks) distinct tracks of the tracker, no track left out is newer than '
      'one returned, unordered mode sorted newest first; for every reachable state of the model in both modes.',
      FLOAT_NOTE + 'Times/TTL are modelled as integers (exact arithmetic); the two float comparisons (t - ttl) < oldest and (t - lu) < ttl could differ at sub-ulp coincidences, which the model cannot exhibit. time.time() is replaced by a harness-controlled clock. msg_to_track projection is modelled through the decoded message (codec model) and the generated AISTrack field list.', 'DESIGN.md §5 C14')

claim('C15', 'Lean theorem: per-MMSI event sequence accepted by the life-cycle automaton for every history, final automaton state = membership + differential execution with callbacks',
      'C15_lifecycle: for every history and MMSI the fired events form (CREATED UPDATED* DELETED)* (CREATED UPDATED*)? '
      'and the automaton ends alive iff the MMSI has a track; C15_update_event, C15_pop_event, C15_rejected_silent.',
      FLOAT_NOTE + 'Times/TTL are modelled as integers (exact arithmetic); the two float comparisons (t - ttl) < oldest and (t - lu) < ttl could differ at sub-ulp coincidences, which the model cannot exhibit. time.time() is replaced by a harness-controlled clock. msg_to_track projection is modelled through the decoded message (codec model) and the generated AISTrack field list.', 'DESIGN.md §5 C15')

claim('C17', 'Lean theorems for any interleaving of any number of groups (projection lemma + one-group induction) + exhaustive small-schedule differential execution',
      'C17_singletons, C17_independent (outputs at a group\'s positions depend only on that group\'s subsequence), C17 '
      '(first sentence then tot-1 others in any order, interleaved with anything: nothing before the last sentence, '
      'then the whole group once, in arrival order), C17_incomplete; about the model of TagBlockQueue.put_sentence; '
      'tie to stream.py by differential execution on all interleavings of small group configurations and random '
      'larger ones, directly and through IterMessages/NMEAQueue with tbq.',
      FLOAT_NOTE + 'Group ids unique per group; tag block parsing (tb.init) is part of the model and of the tie.',
      'DESIGN.md §5 C17')

claim('C19', 'Lean theorems about the filter-chain model for every distance function (uninterpreted) + differential execution incl. truncated position reports',
      'C19_exact (chain output = order-preserving subsequence of exactly the messages passing every filter), '
      'C19_order (any permutation of the filters), C19_sublist, C19_mem, C19_distance (strict), C19_grid (closed), '
      'messages without position pass the geographic filters; the great-circle distance is an uninterpreted '
      'parameter. Tie to filter.py by differential execution of chains of 1-5 filters in all orders on decoded '
      'messages of all kinds; haversine itself is compared with an independent formula (differential testing, '
      'not proof). The grid test is additionally tied by translation: filter.is_in_grid is rendered from the current '
      'source on every run (Generated.isInGridFn) and C19_src_grid / C19_source_grid prove that text to be the closed '
      'box the model and the property use.',
      FLOAT_NOTE + 'Partial: numerical accuracy of haversine (libm) is not proved. Filters are modelled with fresh '
      'filter objects (re-using one filter object in two chains leaves a stale next_filter; out of scope).',
      'DESIGN.md §5 C19')

claim('C03', 'Lean theorems for any interleaving and any per-message fragment permutation (slot projection lemma + one-slot block induction) + exhaustive small-schedule differential execution',
      'C03_singles (single sentences delivered immediately at their own position), C03_no_mixing (what is delivered at '
      'a slot\'s positions depends only on that slot\'s fragments), C03_delivery (a sequence of complete fragment sets '
      'per slot, each any permutation of fragments 1..n, slot reuse included: nothing before the last fragment of a '
      'set, then exactly one message assembled in fragment-number order), C03_assembled (payload/bits concatenated, '
      'validity = conjunction), C03_incomplete, C03_no_index_error; about the reassembly core of both loops; '
      'MAX_FRAG_CNT and both buffer sizes regenerated from source; tie by differential execution of IterMessages and '
      'NMEAQueue on all interleavings x permutations of small configurations and random large schedules, compared '
      'per input position, and against expected deliveries computed from the construction of the schedule.',
      FLOAT_NOTE + 'Quantifier as in the property: complete fragment sets, in-flight messages in distinct slots.',
      'DESIGN.md §5 C03')

claim('C04', 'Lean theorem: one-shot decoding of ANY carrier of a payload equals decoding the payload bits (parse-after-render inverse, stable-sort canonical form, de-armoring distributes over fragments) + differential execution over carrier variations',
      'C04_is_payload_decode: for every armored payload and every carrier (any talker/type/channel/sequence id, any '
      'cut into fragments, any hand-over order, trailing CR/LF/blanks, leading tag blocks) decode() of the model equals '
      'decoding the payload bits; C04_carrier_independent; C04_swap (decode(part2, part1) = decode(part1, part2)). Tie '
      'to decode.py/messages.py by differential execution on structured payloads of all 35 layouts x seeded carrier '
      'variations incl. str arguments.',
      FLOAT_NOTE + 'str versus bytes input is exercised by the harness only (UTF-8 encoding of ASCII text).',
      'DESIGN.md §5 C04')

claim('C05', 'Lean theorems about the Except-modelled parse layer and reader loops for all byte strings and line sequences (case analysis of every raising primitive under its handler; buffer-bound invariant) + malformed-input matrix differential execution',
      'C05_decode_contract (decode() of any byte strings returns a message or raises a library exception), '
      'C05_factory (the factory raises only the three exceptions the readers catch), C05_readers_total (iterating a '
      'stream reader or feeding an NMEAQueue never raises, with or without tag block queue), C05_bystanders (a '
      'rejected line changes neither state nor output); converter totality, dispatcher leaves/raises and buffer '
      'bounds decided on tables/constants regenerated from source; tie by differential execution of decode() and of '
      'all reader front-ends on a field x sub-field x token matrix, truncations, byte flips and insertions of six '
      'kinds of valid lines, comparing exception classes and deliveries.',
      FLOAT_NOTE + 'Python exception behaviour of int(), decode(), >>, zfill, reduce, unpacking, indexing, datetime is '
      'modelled (Py/Basic.lean and the sentence model); lines > 4096 bytes, int digit limits and MemoryError are '
      'outside the modelled domain; int(str) on non-ASCII decimal digits / Unicode spaces inside tag blocks is not modelled.',
      'DESIGN.md §5 C05')

claim('C07', 'Lean theorems: stream loop = queue loop as functions; filtering front-ends drop only no-op lines; terminators irrelevant; one-shot assembly agrees with reader assembly + six-front-end differential execution',
      'C07_iter_eq_queue (IterMessages and NMEAQueue: identical state, deliveries, tag-block-queue output at every '
      'position, all line sequences), C07_bytestream (the Stream heuristic only drops lines the factory rejects, under '
      'the documented domain), C07_length_filter, C07_terminators, C07_socket (with C06), C07_oneshot (decode() of the '
      'parts has the payload, bits, validity and id of the sentence the readers assemble, hence decodes alike); tie '
      'by feeding fixture files and generated mixes to IterMessages, ByteStream, BinaryIOStream, SocketStream '
      '(random chunking), NMEAQueue and decode(), with and without tag block queue.',
      FLOAT_NOTE + 'Lines with leading whitespace or a start delimiter other than $ ! \\ are the documented difference '
      'between the iterator/queue and the Stream front-ends and are excluded (hypothesis of C07_bytestream).',
      'DESIGN.md §5 C07')

claim('C16', 'Lean theorems: create-then-parse round trip for all field subsets/orders/values and group triples (splitOn/intercalate inverse, decimal and hex rendering inverses), validity flag, ignored fields, sentence unchanged + differential execution',
      'C16_roundtrip / C16_roundtrip_group (any non-empty selection of the text fields in any keyword order with '
      'separator-free UTF-8 values, any group triple: the created block initialises, is valid with matching '
      'checksums, every field parses back to its text, fields not given are None), C16_valid_iff, '
      'C16_unknown_ignored, C16_sentence_unchanged (the factory returns for a tag-blocked line what it returns for the '
      'bare line, with the tag block attached), C16_surrounding_whitespace (blanks and line terminators around the '
      'line change nothing); FIELD_CODES regenerated from source and pinned by decide.',
      FLOAT_NOTE + 'int(str) on non-ASCII digits/Unicode spaces is outside the model (ASCII group members and checksums).',
      'DESIGN.md §5 C16')

claim('C18', 'Lean theorems: pending-wrapper invariant along any stretch of non-delivering lines; every delivery takes the pending wrapper and clears it; queue = stream + differential execution over wrapper/delivery patterns',
      'C18_pending (the pending wrapper is the latest valid wrapper line since the last delivery; invalid wrapper '
      'lines leave it alone), C18_attach (a delivered message, single or assembled, carries exactly the pending '
      'wrapper, which is then cleared: at most one message per wrapper, none without), C18_queue, C18_fields '
      '(timestamp and station fields are those of the wrapper line; only calendar-valid dates).',
      FLOAT_NOTE + 'datetime() validity is modelled by an explicit calendar (leap years, ranges).',
      'DESIGN.md §5 C18')

claim('C08', 'Lean theorems over all payloads of all 35 tables (field-level decode-encode-decode lemmas per ITU kind, table-generic induction along the cursor; enum / rate-of-turn side conditions kernel-decided on regenerated tables) + differential execution on every class x every boundary length x sentinel sweeps',
      'C08_idempotent (for every class of the source and every payload ending on a field boundary or inside its '
      'variable-length tail, sub-character padding zero: decode, to_bitarray, decode again yields the identical '
      'message, except a variable-length text that decodes to the empty string - findings F12/F13 with kernel-checked '
      'witness) and C08_bit_exact (if no present field is normalised - enum raw is a member, text canonical on the '
      'wire, rate of turn a fixed point - the re-encoded payload is bit for bit the received one, except the '
      'sub-character padding bits of a text field of ragged width - findings F27/F28 with witnesses); tables_rt, '
      'enum_rt_ok, rot_tables_ok decided by the kernel on the tables regenerated from source. Tie: from_bitarray / '
      'to_bitarray of pyais vs the model on every class x boundary length x per-field raw sweeps (all 256 rate-of-turn '
      'values, all enum codes); pyais is checked directly for idempotence and, with an exactness predicate written '
      'from the standard, for bit exactness.',
      FLOAT_NOTE + 'Float fields are exact decimals in the model (IEEE rounding inside round()/division modelled in '
      'exact arithmetic; validated exhaustively for the 8-bit rate of turn and on sentinel sweeps elsewhere).',
      'DESIGN.md §5 C08')

claim('C02', 'Lean theorems: whole-path round trip encode_msg -> sentences -> decode() for every message that decoding can produce, of every layout and every boundary length (composition of C08 idempotence, the prefix theorem, C09 acceptance, C01 variant selection), encode_dict = create + encode_msg, quantisation laws by integer arithmetic + differential execution on in-range assignments for all 35 classes through all three entry points',
      'C02_roundtrip (any class of the source, any payload that selects it, contains its discriminator bits and ends '
      'on a field boundary or inside the variable-length tail, padding zero; m = the decoded message, i.e. m ranges '
      'over all messages the library can decode, shorter forms and normalised fields included: encode_msg(m) with any '
      'admissible talker/channel yields sentences that decode() maps back to exactly m - same class/variant, every '
      'field equal; exception: variable-length text decoding to the empty string, findings F12/F13), '
      'C02_roundtrip_values (value side: give every field a value the layout specification of C01 assigns to some '
      'bit pattern of its width - any number of the wire grid, enum member, canonical text, binary content; shorter '
      'variable-length tail allowed - with type/discriminator patterns selecting the class: encode_msg then decode() '
      'returns exactly these values; wire_unsigned/_bool/_enum/_tenths/_position/_text give the explicit ranges), '
      'prefix_tables '
      '(kernel-decided on the regenerated tables: the fields in front of the discriminator bits are never normalised), '
      'variants_consistent (for the four multi-layout types the class create() chooses for every assignment of the '
      'discriminator keywords is the class the decoder chooses for those discriminator bits - kernel-decided on the '
      'two trees read from the source), C02_encode_dict (encode_dict with `type` or `msg_type` is create followed by encode_msg), C02_create (create '
      'with all fields given builds exactly those values), C02_quantisation_positions/_decode/_tenths (encode rounds '
      'positions to the nearest wire step, at most half a step; decode yields the nearest six-decimal number; tenths '
      'are truncated toward zero, less than one step), C02_position_field / C02_tenths_field (the same laws as '
      'statements about the field codec of the model: to_bitarray writes the nearest / truncated wire value, '
      'from_bitarray reads it back), C02_representable_fixed (wire-representable values come back unchanged); known findings F15-F26 carry kernel-checked witnesses. Tie: encode_dict / encode_msg / decode of '
      'pyais vs the model on seeded in-range assignments of all 35 classes via `type`, `msg_type` and create(); pyais '
      'is checked directly against expected values computed from the standard.',
      FLOAT_NOTE + 'The theorems quantify over wire-representable values (the image of decoding, characterised on the '
      'value side by Model.Wire); that create() coerces other in-range input (ints as str, floats off the wire '
      'grid) into such a message is covered by C02_create, the quantisation theorems (exact arithmetic, not IEEE '
      'arithmetic) and the correspondence run, not by one theorem.',
      'DESIGN.md §0.2, §5 C02')
