# (executed by manifest_gen.py)
FLOAT_NOTE = ('Trusted: Lean kernel; axioms propext/Classical.choice/Quot.sound; translator (field tables, constants '
              'regenerated from source each run); correspondence check for the hand-written model parts. ')

claim('C20', 'Lean theorems for all radio values (omega over div/mod) + complete model-vs-code enumeration',
      'Theorems C20_sotdma/C20_itdma/C20_reconstruct_*/C20_classify/C20_report prove for every radio value that each '
      'reported field is the ITU bit range, inapplicable keys are None, the raw value is reconstructible and the '
      'SOTDMA/ITDMA classification is exclusive and by type/selector bit; masks and type sets are regenerated from '
      'the source and pinned by a kernel-decide obligation; the model is tied to util.py/messages.py by running both '
      'on all 2^19 values (complete) and on type x radio samples (all 2^20 in the thorough tier).',
      FLOAT_NOTE + 'Model of the three comm-state functions is hand-written (tie complete: finite domain).',
      'DESIGN.md §5 C20')

claim('C01', 'Lean theorem over all payloads (table-generic induction + kernel-decided table = layout obligations on tables regenerated from source)',
      'C01_decode_matches_layout: for every payload bit string of nominal length, the message decoded by the model '
      'with the field tables read from the current source has the class the payload\'s own type/discriminator bits '
      'select and every field equals what the independent layout specification (Spec/Layout.lean, from ITU-R M.1371 / '
      'gpsd) assigns to the bits at its offset (signedness, scale, six-bit text, enumeration, rate of turn); '
      'C01_rejects for unsupported types/part numbers. 35 table=layout equalities, MSG_CLASS, dispatch trees, enum and '
      'ROT tables are kernel-decided on every run from the regenerated tables. The generic engine is tied to '
      'Payload.from_bitarray by differential execution on per-field sentinel sweeps for all 35 layouts, and pyais is '
      'checked against the Lean layout spec on the same inputs.',
      FLOAT_NOTE + 'Spec/Layout.lean is trusted to say what the standard says. Float results are compared as exact '
      'decimals (IEEE rounding inside round()/division modelled in exact arithmetic).',
      'DESIGN.md §5 C01')

claim('C11', 'Lean theorems for every payload, every cut position (per-offset characterisation of the cursor loop) + converter-totality obligations decided on regenerated tables',
      'C11_total (decoding never fails, any length), C11_covered (a field inside the first L bits has the same value '
      'in the truncated and the full message), C11_absent (a field starting at or beyond L is None), C11_variant '
      '(a prefix containing the discriminator bits selects the same variant) for all tables read from the source; '
      'tie to the code by differential execution on every class x every prefix length, directly and through armored '
      'sentences; the implementation is additionally checked against the property itself on the same prefixes.',
      FLOAT_NOTE + 'The value of a field cut in the middle is unspecified by the property and not compared.',
      'DESIGN.md §5 C11')

claim('C06', 'Lean theorem by induction over the chunk list (all segmentations of every stream) + exhaustive model-vs-code enumeration of small streams',
      'C06_chunking / C06_independent / C06_lines: for every byte stream in which CR occurs only in CRLF and every way '
      'of cutting it into non-empty recv() results, the model of SocketStream.read (carry-over of the partial line, '
      'Python splitlines(keepends=True) with LF, CR and CRLF boundaries) yields exactly the LF-terminated lines of '
      'the stream, each once, complete, in order; the exponential quantifier is discharged by induction. The model is '
      'tied to stream.py by running both on ALL segmentations of ALL such streams up to 8 bytes (11 thorough) over '
      '{x, CR, LF} and on random chunkings of AIS streams through the whole socket front-end; pyais is also checked '
      'directly against the property on the same inputs.',
      FLOAT_NOTE + 'The kernel/TCP/UDP stack is not modelled: recv() is assumed to return consecutive non-empty '
      'pieces of the stream.',
      'DESIGN.md §5 C06')

claim('C10', 'Lean theorems for every body, position and replacement byte (XOR algebra, split lemmas) + differential execution on checksum matrices',
      'C10_flag (a parsed sentence d body*HH is flagged valid iff HH = XOR(body)), C10_general (any accepted line: '
      'the number chk_to_int reads equals the XOR), C10_assembled (conjunction over parts), C10_strict (strict '
      'decode raises the checksum error exactly when a parsed part is invalid, else equals lenient), '
      'C10_single_byte (every single-byte corruption that does not forge a * is rejected or flagged) about the '
      'sentence-layer model; tie to messages.py/util.py/decode.py by differential execution on all 255 wrong '
      'checksums, a checksum-field token matrix, byte substitutions at body positions and all corrupted subsets of '
      'multi-part messages, lenient and strict.',
      FLOAT_NOTE, 'DESIGN.md §5 C10')

for p in ['C02', 'C03', 'C04', 'C05', 'C07', 'C08', 'C09', 'C12', 'C13', 'C14', 'C15',
          'C16', 'C17', 'C18', 'C19']:
    PENDING[p] = 'check under construction in this commit (model exists, theorems and harness not yet registered); will be claimed at proof level'
