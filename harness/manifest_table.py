# (executed by manifest_gen.py)
FLOAT_NOTE = ('Trusted: Lean kernel; axioms propext/Classical.choice/Quot.sound; translator (field tables, constants '
              'regenerated from source each run); correspondence check for the hand-written model parts. ')

claim('C20', 'Lean theorems for all radio values (omega over div/mod) + complete model-vs-code enumeration',
      'Theorems C20_sotdma/C20_itdma/C20_reconstruct_*/C20_classify/C20_report prove for every radio value that each '
      'reported field is the ITU bit range, inapplicable keys are None, the raw value is reconstructible and the '
      'SOTDMA/ITDMA classification is exclusive and by type/selector bit; masks and type sets are regenerated from '
      'the source and pinned by a kernel-decide obligation; the model is tied to util.py/messages.py by running both '
      'on all 2^19 values (complete) and on type x radio samples (all 2^20 in the thorough tier).',
      FLOAT_NOTE + 'Model of the three comm-state functions is hand-written (tie complete: finite domain).',
      'DESIGN.md §5 C20')

claim('C01', 'Lean theorem over all payloads (table-generic induction + kernel-decided table = layout obligations on tables regenerated from source)',
      'C01_decode_matches_layout: for every payload bit string of nominal length, the message decoded by the model '
      'with the field tables read from the current source has the class the payload\'s own type/discriminator bits '
      'select and every field equals what the independent layout specification (Spec/Layout.lean, from ITU-R M.1371 / '
      'gpsd) assigns to the bits at its offset (signedness, scale, six-bit text, enumeration, rate of turn); '
      'C01_rejects for unsupported types/part numbers. 35 table=layout equalities, MSG_CLASS, dispatch trees, enum and '
      'ROT tables are kernel-decided on every run from the regenerated tables. The generic engine is tied to '
      'Payload.from_bitarray by differential execution on per-field sentinel sweeps for all 35 layouts, and pyais is '
      'checked against the Lean layout spec on the same inputs.',
      FLOAT_NOTE + 'Spec/Layout.lean is trusted to say what the standard says. Float results are compared as exact '
      'decimals (IEEE rounding inside round()/division modelled in exact arithmetic).',
      'DESIGN.md §5 C01')

claim('C11', 'Lean theorems for every payload, every cut position (per-offset characterisation of the cursor loop) + converter-totality obligations decided on regenerated tables',
      'C11_total (decoding never fails, any length), C11_covered (a field inside the first L bits has the same value '
      'in the truncated and the full message), C11_absent (a field starting at or beyond L is None), C11_variant '
      '(a prefix containing the discriminator bits selects the same variant) for all tables read from the source; '
      'tie to the code by differential execution on every class x every prefix length, directly and through armored '
      'sentences; the implementation is additionally checked against the property itself on the same prefixes.',
      FLOAT_NOTE + 'The value of a field cut in the middle is unspecified by the property and not compared.',
      'DESIGN.md §5 C11')

for p in ['C02', 'C03', 'C04', 'C05', 'C06', 'C07', 'C08', 'C09', 'C10', 'C12', 'C13', 'C14', 'C15',
          'C16', 'C17', 'C18', 'C19']:
    PENDING[p] = 'check under construction in this commit (model exists, theorems and harness not yet registered); will be claimed at proof level'
