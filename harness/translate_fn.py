"""Tie 1 for straight-line integer code: a small Python -> Lean translator for the functions whose whole
body is integer / bit arithmetic, dictionary bookkeeping with constant keys and if-chains
(`util.get_sotdma_comm_state`, `util.get_itdma_comm_state`, `CommunicationStateMixin.is_sotdma`,
`.is_itdma`, `.communication_state_raw`).

The output (`Generated/Funcs.lean`) is a *statement-by-statement* rendering of the current source: one
`let` per assignment, one `if … then … else` per branch (the statements that follow an `if` are repeated in
both arms), `raise` = `none`, `Enum(x)` = membership test in the members of the enum as they are now.
Nothing is simplified; that the result equals the hand-written `Model.sotdma` … (and hence the ITU
specification) is a theorem of `Properties/C20.lean`, re-checked against the regenerated text on every
run.  Whatever lies outside the grammar raises `Refuse` — the caller lists it as untranslatable (tag `cs`)
and emits a stub, it is never approximated.
"""
import ast
import enum
import inspect
import textwrap

CS_KEYS = ['received_stations', 'slot_number', 'utc_hour', 'utc_minute', 'slot_offset', 'slot_timeout',
           'sync_state', 'keep_flag', 'slot_increment', 'num_slots']


class Refuse(Exception):
    pass


BINOPS = {ast.RShift: '>>>', ast.LShift: '<<<', ast.BitAnd: '&&&', ast.BitOr: '|||', ast.BitXor: '^^^',
          ast.Add: '+', ast.Mult: '*', ast.FloorDiv: '/', ast.Mod: '%'}
CMPOPS = {ast.Eq: '=', ast.NotEq: '≠', ast.LtE: '≤', ast.Lt: '<', ast.GtE: '≥', ast.Gt: '>'}


class FnTranslator:
    """one function; `params` maps python parameter / `self.attr` names to Lean variable names; `glob` is
    the namespace constants are looked up in; `owner` the class for `self.CONST`"""

    def __init__(self, fn, params, self_attrs=None, owner=None, numty='Nat'):
        self.numty = numty          # 'Nat': non-negative integers only, no subtraction; 'Int': exact integers / decimals
        self.fn = fn
        self.src = textwrap.dedent(inspect.getsource(fn))
        self.node = ast.parse(self.src).body[0]
        if not isinstance(self.node, ast.FunctionDef):
            raise Refuse('not a plain function')
        self.params = dict(params)
        self.self_attrs = dict(self_attrs or {})
        self.owner = owner
        self.glob = fn.__globals__
        self.locals = set()
        self.dicts = set()          # local names bound to a CommState-like dict
        self.kind = None            # 'dict' | 'bool' | 'nat'
        self.raises = False

    # -- expressions ------------------------------------------------------------------------
    def const_of(self, v, what):
        if isinstance(v, bool):
            return 'true' if v else 'false', 'bool'
        if isinstance(v, int):
            if v < 0:
                if self.numty != 'Int':
                    raise Refuse('negative constant %s' % what)
                return '(%d : Int)' % int(v), 'nat'
            return str(int(v)), 'nat'
        if isinstance(v, (tuple, list, frozenset, set)) and all(isinstance(x, int) and not isinstance(x, bool)
                                                                 and x >= 0 for x in v):
            return '[%s]' % ', '.join(str(int(x)) for x in (sorted(v) if isinstance(v, (set, frozenset)) else v)), 'list'
        raise Refuse('constant %s of unsupported type %s' % (what, type(v).__name__))

    def expr(self, n):
        """-> (lean text, kind) with kind in nat | bool | list | none"""
        if isinstance(n, ast.Constant):
            if n.value is None:
                return 'none', 'none'
            return self.const_of(n.value, repr(n.value))
        if isinstance(n, ast.Name):
            if n.id in self.params:
                return self.params[n.id], 'nat'
            if n.id in self.locals:
                return n.id, 'nat'
            if n.id in self.glob:
                return self.const_of(self.glob[n.id], n.id)
            raise Refuse('unknown name %s' % n.id)
        if isinstance(n, ast.Attribute) and isinstance(n.value, ast.Name) and n.value.id == 'self':
            if n.attr in self.self_attrs:
                return self.self_attrs[n.attr], 'nat'
            if self.owner is not None and n.attr in vars(self.owner) or any(n.attr in vars(k) for k in
                                                                           (self.owner.__mro__ if self.owner else ())):
                v = getattr(self.owner, n.attr)
                if isinstance(v, property) or callable(v):
                    raise Refuse('self.%s is not a constant' % n.attr)
                return self.const_of(v, 'self.' + n.attr)
            raise Refuse('unknown attribute self.%s' % n.attr)
        if isinstance(n, ast.Tuple) or isinstance(n, ast.List):
            parts = [self.expr(e) for e in n.elts]
            if not all(k == 'nat' for _, k in parts):
                raise Refuse('tuple of non-integers')
            return '[%s]' % ', '.join(t for t, _ in parts), 'list'
        if isinstance(n, ast.BinOp):
            op = BINOPS.get(type(n.op))
            if op is None and isinstance(n.op, ast.Sub) and self.numty == 'Int':
                op = '-'
            if op is None or (self.numty == 'Int' and op not in ('+', '*', '-')):
                raise Refuse('operator %s' % type(n.op).__name__)
            (a, ka), (b, kb) = self.expr(n.left), self.expr(n.right)
            if ka != 'nat' or kb != 'nat':
                raise Refuse('arithmetic on non-integers')
            return '((%s) %s (%s))' % (a, op, b), 'nat'
        if isinstance(n, ast.Compare) and len(n.ops) > 1:
            # a chained comparison  a <= b <= c  is the conjunction of its links (every operand is a name or a constant
            # here, so evaluating the middle one once or twice makes no difference)
            operands = [n.left] + list(n.comparators)
            if not all(isinstance(o, (ast.Name, ast.Constant)) for o in operands):
                raise Refuse('chained comparison of compound operands')
            links = [self.expr(ast.Compare(left=a, ops=[op], comparators=[b]))
                     for a, op, b in zip(operands, n.ops, operands[1:])]
            return '(%s)' % ' && '.join(t for t, _ in links), 'bool'
        if isinstance(n, ast.Compare) and len(n.ops) == 1:
            (a, ka) = self.expr(n.left)
            (b, kb) = self.expr(n.comparators[0])
            if isinstance(n.ops[0], (ast.In, ast.NotIn)):
                if ka != 'nat' or kb != 'list':
                    raise Refuse('membership test on unsupported operands')
                t = '(%s).contains (%s)' % (b, a)
                return ('(!%s)' % t if isinstance(n.ops[0], ast.NotIn) else '(%s)' % t), 'bool'
            op = CMPOPS.get(type(n.ops[0]))
            if op is None or ka != 'nat' or kb != 'nat':
                raise Refuse('comparison %s' % type(n.ops[0]).__name__)
            return '(decide ((%s) %s (%s)))' % (a, op, b), 'bool'
        if isinstance(n, ast.BoolOp):
            parts = [self.expr(v) for v in n.values]
            if not all(k == 'bool' for _, k in parts):
                raise Refuse('and/or on non-booleans')
            return '(%s)' % (' && ' if isinstance(n.op, ast.And) else ' || ').join(t for t, _ in parts), 'bool'
        if isinstance(n, ast.UnaryOp) and isinstance(n.op, ast.Not):
            t, k = self.expr(n.operand)
            if k != 'bool':
                raise Refuse('not on non-boolean')
            return '(!%s)' % t, 'bool'
        raise Refuse('expression %s' % ast.dump(n)[:80])

    def enum_call(self, n):
        """`SomeIntEnum(expr)` -> (member values, lean expr) or None"""
        if isinstance(n, ast.Call) and isinstance(n.func, ast.Name) and len(n.args) == 1 and not n.keywords:
            cls = self.glob.get(n.func.id)
            if isinstance(cls, type) and issubclass(cls, enum.Enum) and issubclass(cls, int):
                if '_missing_' in vars(cls):
                    raise Refuse('enum %s has a _missing_ hook' % cls.__name__)
                t, k = self.expr(n.args[0])
                if k != 'nat':
                    raise Refuse('enum call on non-integer')
                return sorted(int(m.value) for m in cls), t
            if n.func.id == 'int':
                t, k = self.expr(n.args[0])
                if k == 'nat':
                    return None, t
        return None

    def dict_literal(self, n):
        out = {}
        for k, v in zip(n.keys, n.values):
            if not (isinstance(k, ast.Constant) and isinstance(k.value, str)):
                raise Refuse('dictionary key that is not a string literal')
            if k.value not in CS_KEYS:
                raise Refuse('dictionary key %r is not a communication state key' % k.value)
            out[k.value] = v           # later duplicates win, as in Python
        return out

    # -- statements -------------------------------------------------------------------------
    def set_kind(self, k):
        if self.kind not in (None, k):
            raise Refuse('function returns both %s and %s' % (self.kind, k))
        self.kind = k

    def ret(self, text):
        return text if self.kind != 'dict' else 'some (%s)' % text

    def block(self, stmts, ind):
        """stmts -> list of lean lines (an expression of the function's result type)"""
        pad = '  ' * ind
        if not stmts:
            raise Refuse('a path through the function ends without return')
        s, rest = stmts[0], stmts[1:]
        if isinstance(s, ast.Expr) and isinstance(s.value, ast.Constant) and isinstance(s.value.value, str):
            return self.block(rest, ind)                                  # docstring
        if isinstance(s, ast.Pass):
            return self.block(rest, ind)
        if isinstance(s, ast.Return):
            if s.value is None:
                raise Refuse('bare return')
            if isinstance(s.value, ast.Dict):
                self.set_kind('dict')
                return self.with_dict(self.dict_literal(s.value), lambda text: [pad + 'some (%s)' % text], ind)
            if isinstance(s.value, ast.Name) and s.value.id in self.dicts:
                self.set_kind('dict')
                return [pad + 'some %s' % s.value.id]
            t, k = self.expr(s.value)
            if k not in ('nat', 'bool'):
                raise Refuse('return of %s' % k)
            self.set_kind(k)
            return [pad + t]
        if isinstance(s, ast.Raise):
            self.raises = True
            return [pad + 'none']
        if isinstance(s, ast.If):
            t, k = self.expr(s.test)
            if k != 'bool':
                raise Refuse('if on a non-boolean')
            a = self.block(list(s.body) + rest, ind + 1)
            saved = (set(self.locals), set(self.dicts))
            b = self.block(list(s.orelse) + rest, ind + 1)
            self.locals, self.dicts = saved
            return [pad + 'if %s = true then' % t] + a + [pad + 'else'] + b
        if isinstance(s, ast.Try) and len(s.handlers) == 1 and not s.orelse and not s.finalbody \
                and isinstance(s.handlers[0].type, ast.Name) and s.handlers[0].type.id == 'AttributeError':
            # `try: return self.radio & … except AttributeError: raise ValueError` — the handler is about
            # objects without the attribute, which the model's parameters always have
            return self.block(list(s.body) + rest, ind)
        if isinstance(s, (ast.Assign, ast.AnnAssign)):
            tgt = s.targets[0] if isinstance(s, ast.Assign) else s.target
            if isinstance(s, ast.Assign) and len(s.targets) != 1:
                raise Refuse('multiple assignment')
            val = s.value
            if isinstance(tgt, ast.Name):
                if isinstance(val, ast.Dict):
                    d = self.dict_literal(val)
                    name = tgt.id

                    def k(text):
                        self.dicts.add(name)
                        return [pad + 'let %s : CommState := %s' % (name, text)] + self.block(rest, ind)
                    return self.with_dict(d, k, ind)
                t, kd = self.expr(val)
                if kd != 'nat':
                    raise Refuse('assignment of a %s' % kd)
                self.locals.add(tgt.id)
                self.dicts.discard(tgt.id)
                return [pad + 'let %s := %s' % (tgt.id, t)] + self.block(rest, ind)
            if isinstance(tgt, ast.Subscript) and isinstance(tgt.value, ast.Name) and tgt.value.id in self.dicts \
                    and isinstance(tgt.slice, ast.Constant) and tgt.slice.value in CS_KEYS:
                name, key = tgt.value.id, tgt.slice.value
                ec = self.enum_call(val)
                if ec is not None:
                    members, t = ec
                    upd = [pad + '  let %s : CommState := { %s with %s := some (%s) }' % (name, name, key, t)]
                    if members is None:
                        return [u[2:] for u in upd] + self.block(rest, ind)
                    self.raises = True
                    return [pad + 'if ([%s] : List Nat).contains (%s) = true then' % (', '.join(map(str, members)), t)] \
                        + upd + self.block(rest, ind + 1) + [pad + 'else', pad + '  none']
                t, kd = self.expr(val)
                if kd == 'none':
                    return [pad + 'let %s : CommState := { %s with %s := none }' % (name, name, key)] + self.block(rest, ind)
                if kd != 'nat':
                    raise Refuse('dictionary value of kind %s' % kd)
                return [pad + 'let %s : CommState := { %s with %s := some (%s) }' % (name, name, key, t)] \
                    + self.block(rest, ind)
            raise Refuse('assignment target %s' % ast.dump(tgt)[:60])
        raise Refuse('statement %s' % type(s).__name__)

    def with_dict(self, d, k, ind):
        """render a dict literal (values: None | int expressions | enum calls) and pass the text to k"""
        parts = []
        guards = []
        for key in CS_KEYS:
            if key not in d:
                continue
            ec = self.enum_call(d[key])
            if ec is not None:
                members, t = ec
                if members is not None:
                    guards.append((members, t))
                parts.append('%s := some (%s)' % (key, t))
                continue
            t, kd = self.expr(d[key])
            if kd == 'none':
                parts.append('%s := none' % key)
            elif kd == 'nat':
                parts.append('%s := some (%s)' % (key, t))
            else:
                raise Refuse('dictionary value of kind %s' % kd)
        text = '{ %s }' % ', '.join(parts) if parts else '{}'
        if not guards:
            return k(text)
        pad = '  ' * ind
        self.raises = True
        cond = ' && '.join('([%s] : List Nat).contains (%s)' % (', '.join(map(str, m)), t) for m, t in guards)
        return [pad + 'if (%s) = true then' % cond] + ['  ' + l for l in k(text)] + [pad + 'else', pad + '  none']

    def translate(self, lean_name, lean_params):
        if self.node.args.vararg or self.node.args.kwarg or self.node.args.kwonlyargs or self.node.args.defaults:
            raise Refuse('signature')
        names = [a.arg for a in self.node.args.args]
        expect = (['self'] if self.self_attrs or self.owner else []) + list(self.params)
        if names != expect:
            raise Refuse('parameters %r (expected %r)' % (names, expect))
        body = self.block(list(self.node.body), 1)
        if self.kind == 'dict':
            ty = 'Option CommState'
        elif self.raises:
            raise Refuse('a %s-valued function that raises' % self.kind)
        else:
            ty = {'bool': 'Bool', 'nat': 'Nat'}[self.kind]
        head = 'def %s %s : %s :=' % (lean_name, ' '.join('(%s : %s)' % (p, self.numty) for p in lean_params), ty)
        return '\n'.join([head] + body), ty


STUBS = {'Option CommState': 'none', 'Bool': 'false', 'Nat': '0'}


def translate_all(U, M, untrans, F=None):
    """-> source text of Generated/Funcs.lean"""
    out = ['import PyaisVerif.Model.CommState',
           '/-! GENERATED by harness/translate_fn.py from the pyais source tree — do not edit.',
           'Statement-by-statement rendering of the straight-line integer functions of the current source. -/',
           'namespace Generated', 'open Model', '']
    mix = getattr(M, 'CommunicationStateMixin', None)

    def prop_fn(name):
        p = None
        for k in (mix.__mro__ if mix else ()):
            if name in vars(k):
                p = vars(k)[name]
                break
        if isinstance(p, property):
            return p.fget
        if p is None:
            raise Refuse('no attribute %s' % name)
        return p

    jobs = [
        ('sotdmaFn', ['radio'], 'Option CommState',
         lambda: FnTranslator(getattr(U, 'get_sotdma_comm_state'), {'radio': 'radio'})),
        ('itdmaFn', ['radio'], 'Option CommState',
         lambda: FnTranslator(getattr(U, 'get_itdma_comm_state'), {'radio': 'radio'})),
        ('isSotdmaFn', ['msgType', 'radio'], 'Bool',
         lambda: FnTranslator(prop_fn('is_sotdma'), {}, {'msg_type': 'msgType', 'radio': 'radio'}, mix)),
        ('isItdmaFn', ['msgType', 'radio'], 'Bool',
         lambda: FnTranslator(prop_fn('is_itdma'), {}, {'msg_type': 'msgType', 'radio': 'radio'}, mix)),
        ('commStateRawFn', ['radio'], 'Nat',
         lambda: FnTranslator(prop_fn('communication_state_raw'), {}, {'radio': 'radio'}, mix)),
    ]
    grid_params = ['lat', 'lon', 'lat_min', 'lon_min', 'lat_max', 'lon_max']
    jobs.append(('isInGridFn', grid_params, 'Bool',
                 lambda: FnTranslator(getattr(F, 'is_in_grid'), {p: p for p in grid_params}, numty='Int')))
    done = []
    for lean_name, lean_params, want, make in jobs:
        tag, what, numty = ('filter', 'filter function', 'Int') if lean_name == 'isInGridFn' else ('cs', 'comm-state function', 'Nat')
        try:
            tr = make()
            text, ty = tr.translate(lean_name, lean_params)
            if ty != want:
                raise Refuse('result type %s, expected %s' % (ty, want))
            out.append(text)
            done.append(lean_name)
        except Exception as e:  # noqa
            untrans('%s %s: %s' % (what, lean_name, e), tag)
            out.append('def %s %s : %s := %s' % (lean_name, ' '.join('(_%s : %s)' % (p, numty) for p in lean_params), want,
                                                  STUBS[want]))
        out.append('')
    out.append('end Generated')
    return '\n'.join(out) + '\n', done
