"""Sentence-level case generators: base sentences, carrier variations, malformed-line matrix."""
from . import gen

TALKERS = ['AB', 'AD', 'AI', 'AN', 'AR', 'AS', 'AT', 'AX', 'BS', 'SA']

TOKENS = [b'', b'-1', b'0', b'1', b'2', b'9', b'10', b'1_0', b'+1', b' 1', b'1 ', b'0x1', b'0X1', b'00', b'01',
          b'1' * 40, b'-255', b'-256', b'-254', b'101', b'100', b'256', b'255', b'x', b'A', b'1.0', b'\xff', b'\xc3\xa9',
          b'*', b',', b'\\', b'\x00', b'  ', b'\t', b'--1', b'_1', b'1_', b'1__0', b'9223372036854775813',
          b'9223372036854775815', b'-0', b'1e3', b'$', b'!']


def base_sentences(rng):
    """a small corpus of valid lines: single, two-part, three-part, wrapper, tag-blocked, tag-blocked group"""
    single = gen.render(gen.payload_bits(rng, 'MessageType1'), chan='B')[0]
    two = gen.render(gen.payload_bits(rng, 'MessageType5'), seq='3', cuts=[40])
    three = gen.render(gen.payload_bits(rng, 'MessageType8', length=700), seq='7', chan='B', cuts=[40, 80])
    wrapper = gen.gatehouse()
    tb = gen.tag_block(b's:station1,c:1671533231') + gen.render(gen.payload_bits(rng, 'MessageType18'))[0]
    grp = [gen.tag_block(b'g:%d-2-77,s:x' % (i + 1)) + s
           for i, s in enumerate(gen.render(gen.payload_bits(rng, 'MessageType5'), seq='5', cuts=[35]))]
    return {'single': single, 'two': two, 'three': three, 'wrapper': wrapper, 'tagged': tb, 'group': grp}


def split_subfields(line):
    """positions (start, end) of every comma field and of the interesting sub-fields of `line`"""
    spans = []
    start = 0
    # tag block sub-fields
    if line.startswith(b'\\'):
        end = line.find(b'\\', 1)
        if end > 0:
            spans.append((1, end))                      # whole tag block
            star = line.find(b'*', 1, end)
            if star > 0:
                spans.append((star + 1, end))           # tag block checksum
                pos = 1
                for fld in line[1:star].split(b','):
                    spans.append((pos, pos + len(fld)))
                    c = fld.find(b':')
                    if c >= 0:
                        spans.append((pos, pos + c))            # key
                        spans.append((pos + c + 1, pos + len(fld)))  # value
                        if fld[:c] == b'g':
                            p2 = pos + c + 1
                            for member in fld[c + 1:].split(b'-'):
                                spans.append((p2, p2 + len(member)))
                                p2 += len(member) + 1
                    pos += len(fld) + 1
            start = end + 1
    pos = start
    fields = line[start:].split(b',')
    for i, fld in enumerate(fields):
        spans.append((pos, pos + len(fld)))
        if i == 0 and len(fld) >= 6:
            spans.append((pos, pos + 1))          # delimiter
            spans.append((pos + 1, pos + 3))      # talker
            spans.append((pos + 3, pos + len(fld)))   # type
        if i == len(fields) - 1:
            star = fld.find(b'*')
            if star >= 0:
                spans.append((pos, pos + star))           # fill bits
                spans.append((pos + star + 1, pos + len(fld)))  # checksum
                spans.append((pos + star, pos + star + 1))  # the '*'
        pos += len(fld) + 1
    return sorted(set(spans))


def malformed_lines(rng, line, tier):
    """(label, mutated line) for one valid line"""
    out = []
    for (a, b) in split_subfields(line):
        for tok in TOKENS:
            out.append(('sub[%d:%d]=%r' % (a, b, tok), line[:a] + tok + line[b:]))
    for i in range(len(line) + 1):
        out.append(('trunc%d' % i, line[:i]))
    flips = range(256) if tier == 'thorough' else [0, 9, 10, 11, 12, 13, 28, 31, 32, 42, 44, 45, 48, 49, 92, 126, 127, 128, 133, 160, 255]
    for i in range(len(line)):
        for v in (flips if tier == 'thorough' else rng.sample(list(flips), 5)):
            if line[i] != v:
                out.append(('flip%d=%d' % (i, v), line[:i] + bytes([v]) + line[i + 1:]))
    for i in rng.sample(range(len(line) + 1), min(len(line) + 1, 12 if tier == 'quick' else 60)):
        for tok in (b',', b'*', b'\\', b'\n', b'\xff', b'0', b'-'):
            out.append(('ins%d=%r' % (i, tok), line[:i] + tok + line[i:]))
    out += [('noise1', b'\xff\xfe\xfd'), ('noise2', b'!\xc3\xa9'), ('noise3', b'$\xf8'), ('noise4', b'caf\xe9 du port'),
            ('noise5', b'\\\xe6\xb8\xaf'), ('noise6', b'!AIVDM,\xff'), ('noise7', b'\xe2\x82'),
            ('ws', b' '), ('ws2', b'\r\n'), ('empty', b''), ('bang-star', b'!*xVDM,1,1,,A,1,0*00'),
            ('only-tag', b'\\s:x*11\\'), ('no-close', b'\\s:x*11!AIVDM,1,1,,A,15M67FC000G?ufbE`FepT@3n00Sa,0*5C')]
    return out


def carriers(rng, bits, n, talker_table=TALKERS):
    """n carrier variations of the same payload bits: list of (label, [lines])"""
    payload, fill = gen.armor(bits)
    out = []
    for _ in range(n):
        talker = rng.choice(talker_table) + rng.choice(['VDM', 'VDO'])
        chan = rng.choice(['A', 'B', '1', '2', ''])
        k = rng.randint(1, min(5, max(1, len(payload))))
        if len(payload) >= 15 and rng.random() < 0.15:
            k = rng.choice([9, 10, 11, 12, 15])      # two-digit fragment numbers
        cuts = sorted(rng.sample(range(1, len(payload)), k - 1)) if len(payload) > 1 and k > 1 else []
        # every part must fit the 200-character payload limit of the parser
        pts = [0] + cuts + [len(payload)]
        if any(b - a > 200 for a, b in zip(pts, pts[1:])):
            cuts = list(range(150, len(payload), 150))
        seq = str(rng.randint(0, 9)) if cuts or rng.random() < 0.3 else ''
        if cuts and seq == '':
            seq = '1'
        lines = gen.render(bits, talker=talker, chan=chan, seq=seq, cuts=cuts)
        if cuts and len(bits) > 12 and rng.random() < 0.2:
            # fragments cut at arbitrary bit positions, each padded on its own (its own fill bits)
            bc = sorted(rng.sample(range(1, len(bits)), min(len(cuts), 4)))
            if all(b - a <= 1200 for a, b in zip([0] + bc, bc + [len(bits)])):
                lines = gen.render_ragged(bits, bc, talker=talker, chan=chan, seq=seq)
        if len(lines) == 1 and seq not in ('', '0'):
            # a lone sentence with a sequence id is still complete for decode()
            pass
        perm = list(range(len(lines)))
        rng.shuffle(perm)
        lines = [lines[i] for i in perm]
        trailer = rng.choice([b'', b'\r\n', b'\n', b' ', b'\t', b' \r\n', b'\r\n ', b'\n\t', b'\r \n', b'\r\n\r\n', b' \n \n'])
        lines = [l + trailer for l in lines]
        tagged = rng.random() < 0.3
        if tagged:
            # (free text in a tag block may be any UTF-8: Latin-1, Greek, CJK station names)
            txt = rng.choice([b'', b'', b',t:G\xc3\xb6teborg', b',t:\xce\xa0\xce\xb5\xce\xb9\xcf\x81\xce\xb1\xce\xb9\xce\xac\xcf\x82',
                              b',t:\xe6\xb8\xaf', b',t:Hello World', b',t:a\tb', b',T:2015-03-11 00.00.01',
                              b',i:<T>A:12344 F:+30000</T>'])
            lines = [gen.tag_block(b's:st%d,c:%d' % (i, 1600000000 + i) + txt) + l for i, l in enumerate(lines)]
        out.append(('%s chan=%r seq=%r parts=%d perm=%s trailer=%r tag=%s' % (talker, chan, seq, len(lines), perm,
                                                                              trailer, tagged), lines))
    return out
