"""Shared infrastructure of the checks: build, Lean property audit, model driver, evidence, replays."""
import fcntl
import hashlib
import json
import os
import random
import re
import subprocess
import sys
import time

VERIF = os.path.dirname(os.path.dirname(os.path.abspath(__file__)))
LEAN = os.path.join(VERIF, 'lean')
REPO = os.environ.get('PYAIS_REPO', '/repo')
PY = '/venv/bin/python'
DRIVER = os.path.join(LEAN, '.lake', 'build', 'bin', 'driver')
SPECDRIVER = os.path.join(LEAN, '.lake', 'build', 'bin', 'specdriver')
GENERATED = os.path.join(LEAN, 'PyaisVerif', 'Generated')
ALLOWED_AXIOMS = {'propext', 'Classical.choice', 'Quot.sound'}
FORBIDDEN = re.compile(r'\b(sorry|admit|native_decide|bv_decide|implemented_by|unsafe)\b|^\s*axiom\s|maxHeartbeats\s+0\b')

TRUSTED_BASE = [
    'Lean 4.33.0 kernel (lean --json elaboration of the property file; leanchecker in the thorough tier)',
    'axioms admitted: propext, Classical.choice, Quot.sound (audited with #print axioms on every run); '
    'no sorry/admit/native_decide/bv_decide/own axioms (grepped on every run)',
    'harness/translate.py: regenerates Generated/*.lean (field tables, MSG_CLASS, dispatch trees, converter '
    'shapes and tabulations, constants) from the current pyais source on every run; harness/translate_fn.py renders '
    'the straight-line integer functions (comm-state extraction and classification) statement by statement into '
    'Generated/Funcs.lean',
    'correspondence check (harness/impl.py vs lean/Driver.lean): differential execution of the hand-written '
    'model parts against the real pyais on generated inputs; reach bounded by the generators',
    'CPython semantics of the primitives modelled in lean/PyaisVerif/Py/Basic.lean; attrs, bitarray',
]


class Infra(Exception):
    """infrastructure failure (exit 2, never a VIOLATION)"""


def sh(cmd, cwd=None, timeout=None, env=None, input=None):
    e = dict(os.environ)
    if env:
        e.update(env)
    return subprocess.run(cmd, cwd=cwd, timeout=timeout, env=e, input=input, capture_output=True, text=True)


class BuildLock:
    def __enter__(self):
        os.makedirs(os.path.join(LEAN, '.lake'), exist_ok=True)
        self.f = open(os.path.join(LEAN, '.lake', 'verif.lock'), 'w')
        fcntl.flock(self.f, fcntl.LOCK_EX)
        return self

    def __exit__(self, *a):
        fcntl.flock(self.f, fcntl.LOCK_UN)
        self.f.close()


def regenerate():
    """tie 1: regenerate Generated/*.lean from the current source tree"""
    r = sh([PY, os.path.join(VERIF, 'harness', 'translate.py'), REPO, GENERATED],
           env={'PYTHONPATH': REPO, 'PYTHONDONTWRITEBYTECODE': '1'}, timeout=300)
    if r.returncode != 0:
        raise Infra('translator failed (does pyais still import?):\n' + r.stderr[-3000:])
    return json.loads(r.stdout.strip().splitlines()[-1])


def check_root_imports():
    """every module outside Properties/ must be imported by the library root, otherwise a clean
    `lake build` leaves it uncompiled and the property files that import it cannot be elaborated"""
    root = open(os.path.join(LEAN, 'PyaisVerif.lean')).read()
    have = set(re.findall(r'^import (\S+)', root, re.M))
    missing = []
    for d in ('Py', 'Model', 'Spec', 'Generated', 'Lemmas'):
        for fn in sorted(os.listdir(os.path.join(LEAN, 'PyaisVerif', d))):
            if fn.endswith('.lean') and 'PyaisVerif.%s.%s' % (d, fn[:-5]) not in have:
                missing.append('PyaisVerif.%s.%s' % (d, fn[:-5]))
    if missing:
        raise Infra('lean/PyaisVerif.lean does not import: %s' % ', '.join(missing))


def lake_build():
    # the specification driver does not depend on the generated tables: build it first so that it
    # is available for the failing-input search even when the rest no longer builds
    sh(['lake', 'build', 'specdriver'], cwd=LEAN, timeout=3000)
    r = sh(['lake', 'build'], cwd=LEAN, timeout=3000)
    return r.returncode == 0, (r.stdout + r.stderr)


def ensure_built():
    """regenerate + build library and driver, serialised across parallel checks"""
    with BuildLock():
        t0 = time.time()
        info = regenerate()
        check_root_imports()
        ok, log = lake_build()
        info['build_ok'] = ok
        info['build_log'] = log[-6000:] if not ok else ''
        info['build_s'] = round(time.time() - t0, 2)
        return info


def tree_hash():
    h = hashlib.sha256()
    for root, dirs, files in os.walk(LEAN):
        dirs[:] = sorted(d for d in dirs if d != '.lake')
        for fn in sorted(files):
            if fn.endswith('.lean') or fn == 'lakefile.toml':
                p = os.path.join(root, fn)
                h.update(p.encode())
                h.update(open(p, 'rb').read())
    return h.hexdigest()


def closure_hash(relpath):
    """hash of a file and of everything of the project it (transitively) imports, plus the lakefile:
    the cache key of its elaboration result and of its .olean"""
    h = hashlib.sha256()
    for rp in import_closure([relpath]) + ['lakefile.toml']:
        p = os.path.join(LEAN, rp)
        if os.path.exists(p):
            h.update(rp.encode())
            h.update(open(p, 'rb').read())
    return h.hexdigest()


def strip_comments(src):
    """remove Lean comments (nested block comments and line comments) for the forbidden-token grep"""
    out = []
    i, depth, n = 0, 0, len(src)
    while i < n:
        if src.startswith('/-', i):
            depth += 1
            i += 2
        elif depth and src.startswith('-/', i):
            depth -= 1
            i += 2
        elif depth:
            if src[i] == '\n':
                out.append('\n')
            i += 1
        elif src.startswith('--', i):
            while i < n and src[i] != '\n':
                i += 1
        else:
            out.append(src[i])
            i += 1
    return ''.join(out)


def import_closure(relpaths):
    """project files transitively imported by the given files (relative to lean/)"""
    seen, todo = set(), list(relpaths)
    while todo:
        rp = todo.pop()
        if rp in seen or not os.path.exists(os.path.join(LEAN, rp)):
            continue
        seen.add(rp)
        for m in re.finditer(r'^import\s+(PyaisVerif(?:\.[A-Za-z0-9_]+)*)', open(os.path.join(LEAN, rp)).read(), re.M):
            todo.append(m.group(1).replace('.', '/') + '.lean')
    return sorted(seen)


def grep_forbidden(relpaths):
    """forbidden tokens in the property files and everything of the project they import
    (comments excluded)"""
    hits = []
    for rp in import_closure(relpaths):
        body = strip_comments(open(os.path.join(LEAN, rp)).read())
        for ln, line in enumerate(body.splitlines(), 1):
            if FORBIDDEN.search(line):
                hits.append('%s:%d: %s' % (rp, ln, line.strip()[:120]))
    return hits


DECL_RE = re.compile(r'^(?:private\s+|protected\s+)?(theorem|example|lemma)\b\s*([A-Za-z0-9_.\']*)')


def ensure_property_oleans(relpath, _seen=None):
    """Property files may import other property files (C02 builds on C01, C04, C08, C09).  Property
    files are not part of the lake library (a failing obligation must not break the build of
    everything else), so their .olean files are produced on demand here; a property file whose
    obligations fail yields no .olean and every file importing it then fails to elaborate - which
    is the intended meaning: the importing theorems are no longer shown."""
    _seen = _seen if _seen is not None else set()
    text = open(os.path.join(LEAN, relpath)).read()
    for m in re.finditer(r'^import\s+(PyaisVerif\.Properties\.[A-Za-z0-9_]+)', text, re.M):
        mod = m.group(1)
        rp = mod.replace('.', '/') + '.lean'
        if rp in _seen:
            continue
        _seen.add(rp)
        ensure_property_oleans(rp, _seen)
        th = closure_hash(rp)
        odir = os.path.join(LEAN, '.lake', 'build', 'lib', 'lean', 'PyaisVerif', 'Properties')
        os.makedirs(odir, exist_ok=True)
        base = os.path.join(odir, os.path.basename(rp)[:-5])
        marker = base + '.olean.hash'
        if os.path.exists(base + '.olean') and os.path.exists(marker) and open(marker).read() == th:
            continue
        for ext in ('.olean', '.ilean', '.olean.hash'):
            if os.path.exists(base + ext):
                os.remove(base + ext)
        r = sh(['lake', 'env', 'lean', '-o', base + '.olean', '-i', base + '.ilean', rp], cwd=LEAN, timeout=3000)
        if r.returncode == 0 and os.path.exists(base + '.olean'):
            with open(marker, 'w') as f:
                f.write(th)


def lean_check_file(relpath, use_cache=True):
    """Elaborate one property file with `lean --json`; returns per-obligation status.

    result = {'obligations': [{'name', 'kind', 'line', 'ok', 'errors': [...], 'axioms': [...]|None}],
              'file_errors': [...], 'wall_s': float}
    """
    path = os.path.join(LEAN, relpath)
    cache_dir = os.path.join(LEAN, '.lake', 'propcache')
    os.makedirs(cache_dir, exist_ok=True)
    key = hashlib.sha256((closure_hash(relpath) + relpath).encode()).hexdigest()
    cpath = os.path.join(cache_dir, key + '.json')
    if use_cache and os.path.exists(cpath):
        res = json.load(open(cpath))
        res['cached'] = True
        return res
    t0 = time.time()
    ensure_property_oleans(relpath)
    # audit copy: the property file plus `#print axioms` for every theorem that lacks one, so that
    # every theorem (helpers included) is audited; original line numbers are preserved
    text = open(path).read()
    ns = re.search(r'^namespace\s+([A-Za-z0-9_.]+)', text, re.M)
    prefix = (ns.group(1) + '.') if ns else ''
    names = [m.group(2) for m in (DECL_RE.match(l) for l in text.splitlines()) if m and m.group(1) != 'example'
             and m.group(2) and not m.string.lstrip().startswith('private')]
    extra = [n for n in names if not re.search(r'^#print axioms\s+%s\s*$' % re.escape(n), text, re.M)]
    audit_dir = os.path.join(LEAN, '.lake', 'audit')
    os.makedirs(audit_dir, exist_ok=True)
    apath = os.path.join(audit_dir, os.path.basename(relpath))
    with open(apath, 'w') as f:
        f.write(text + '\n' + ''.join('#print axioms %s%s\n' % (prefix, n) for n in extra))
    r = sh(['lake', 'env', 'lean', '--json', apath], cwd=LEAN, timeout=3000)
    msgs = []
    for line in r.stdout.splitlines():
        line = line.strip()
        if line.startswith('{'):
            try:
                msgs.append(json.loads(line))
            except ValueError:
                pass
    src = open(path).read().splitlines()
    decls = []
    for i, line in enumerate(src, 1):
        m = DECL_RE.match(line)
        if m:
            kind, name = m.group(1), m.group(2)
            if line.lstrip().startswith('private'):
                kind = 'helper'     # audited transitively through the theorems that use it
            decls.append({'name': name or ('example@%d' % i), 'kind': kind, 'line': i, 'ok': True,
                          'errors': [], 'axioms': None})

    def owner(line):
        cur = None
        for d in decls:
            if d['line'] <= line:
                cur = d
        return cur

    file_errors = []
    ax_re = re.compile(r"^'([^']+)' (?:depends on axioms: \[(.*)\]|does not depend on any axioms)", re.S)
    for m in msgs:
        sev = m.get('severity')
        pos = (m.get('pos') or {}).get('line', 0)
        data = m.get('data', '')
        if sev == 'error':
            d = owner(pos)
            if d is None:
                file_errors.append('%d: %s' % (pos, data[:500]))
            else:
                d['ok'] = False
                d['errors'].append(data[:800])
        elif sev == 'warning' and 'sorry' in data:
            d = owner(pos)
            if d is not None:
                d['ok'] = False
                d['errors'].append('uses sorry')
        elif sev == 'information':
            mm = ax_re.match(data.strip())
            if mm:
                name = mm.group(1)
                axioms = [a.strip() for a in (mm.group(2) or '').replace('\n', ' ').split(',') if a.strip()]
                for d in decls:
                    if d['name'] == name or name.endswith('.' + d['name']):
                        d['axioms'] = axioms
    if r.returncode != 0 and not any(not d['ok'] for d in decls) and not file_errors:
        file_errors.append('lean exited with %d: %s' % (r.returncode, (r.stderr or r.stdout)[-800:]))
    for d in decls:
        if d['kind'] in ('theorem', 'lemma') and d['axioms'] is None and d['ok']:
            # every named theorem must be audited
            d['ok'] = False
            d['errors'].append('no #print axioms output for this theorem')
        if d['axioms'] is not None:
            bad = [a for a in d['axioms'] if a not in ALLOWED_AXIOMS]
            if bad:
                d['ok'] = False
                d['errors'].append('inadmissible axioms: %s' % bad)
    res = {'obligations': decls, 'file_errors': file_errors, 'wall_s': round(time.time() - t0, 2),
           'cached': False}
    with open(cpath + '.tmp', 'w') as f:
        json.dump(res, f)
    os.replace(cpath + '.tmp', cpath)
    return res


def leanchecker_file(relpath):
    """thorough tier: compile the property file to an .olean and let `leanchecker` (the toolchain's
    independent re-checker) replay every declaration of the module through the kernel"""
    t0 = time.time()
    mod = relpath[:-5].replace('/', '.')
    odir = os.path.join(LEAN, '.lake', 'build', 'lib', 'lean', os.path.dirname(relpath))
    os.makedirs(odir, exist_ok=True)
    base = os.path.join(odir, os.path.basename(relpath)[:-5])
    with BuildLock():
        ensure_property_oleans(relpath)
        r = sh(['lake', 'env', 'lean', '-o', base + '.olean', '-i', base + '.ilean', relpath], cwd=LEAN, timeout=3000)
        if r.returncode != 0 or not os.path.exists(base + '.olean'):
            return {'ok': False, 'wall_s': round(time.time() - t0, 1), 'detail': 'no .olean: ' + (r.stdout + r.stderr)[-400:]}
        with open(base + '.olean.hash', 'w') as f:
            f.write(closure_hash(relpath))
    r = sh(['lake', 'env', 'leanchecker', mod], cwd=LEAN, timeout=6000)
    out = (r.stdout + r.stderr).strip()
    return {'ok': r.returncode == 0 and 'exception' not in out.lower() and 'error' not in out.lower(),
            'wall_s': round(time.time() - t0, 1), 'detail': out[-400:], 'module': mod}


def run_spec(lines, timeout=3000):
    """pipe lines through the specification driver (independent of the generated tables)"""
    if not lines:
        return []
    if not os.path.exists(SPECDRIVER):
        raise Infra('specification driver not built')
    r = subprocess.run([SPECDRIVER], input='\n'.join(lines) + '\n', capture_output=True, text=True, timeout=timeout)
    if r.returncode != 0:
        raise Infra('specification driver crashed: ' + r.stderr[-2000:])
    out = r.stdout.split('\n')
    if out and out[-1] == '':
        out.pop()
    if len(out) != len(lines):
        raise Infra('specification driver answered %d lines for %d operations' % (len(out), len(lines)))
    return out


def run_model(lines, timeout=3000):
    """pipe operation lines through the compiled Lean driver; one output line per input line"""
    if not lines:
        return []
    return run_model_parallel(lines, timeout)


def _run_model_one(lines, timeout=3000):
    if not lines:
        return []
    if not os.path.exists(DRIVER):
        raise Infra('model driver not built')
    data = '\n'.join(lines) + '\n'
    r = subprocess.run([DRIVER], input=data, capture_output=True, text=True, timeout=timeout)
    if r.returncode != 0:
        raise Infra('model driver crashed: ' + r.stderr[-2000:])
    out = r.stdout.split('\n')
    if out and out[-1] == '':
        out.pop()
    if len(out) != len(lines):
        raise Infra('model driver answered %d lines for %d operations' % (len(out), len(lines)))
    return out


_POOL = None
NPROC = max(1, min(16, (os.cpu_count() or 2) - 1))


def ensure_pool():
    """create the worker pool now (workers are forked from the current state of this process)"""
    global _POOL
    if _POOL is None and NPROC >= 2 and not os.environ.get('VERIF_SERIAL'):
        import multiprocessing
        _POOL = multiprocessing.get_context('fork').Pool(NPROC)


def pmap(fn, items, threshold=800):
    """map a stateless module-level function over many items on all cores (fork pool; the order of
    the results is the order of the items); small batches run in-process"""
    global _POOL
    items = list(items)
    if len(items) < threshold or NPROC < 2 or os.environ.get('VERIF_SERIAL'):
        return [fn(x) for x in items]
    import multiprocessing
    if _POOL is None:
        _POOL = multiprocessing.get_context('fork').Pool(NPROC)
    return _POOL.map(fn, items, chunksize=max(1, len(items) // (NPROC * 8)))


def run_model_parallel(lines, timeout=3000):
    """the compiled model driver on all cores: the operation lines are cut into contiguous chunks, one
    driver process per chunk (every operation line is independent of the others)"""
    n = min(NPROC, max(1, len(lines) // 300))
    if n < 2:
        return _run_model_one(lines, timeout)
    size = (len(lines) + n - 1) // n
    chunks = [lines[i:i + size] for i in range(0, len(lines), size)]
    from concurrent.futures import ThreadPoolExecutor
    with ThreadPoolExecutor(len(chunks)) as ex:
        outs = list(ex.map(lambda c: _run_model_one(c, timeout), chunks))
    return [o for part in outs for o in part]


def seed_from_env():
    try:
        return int(os.environ.get('VERIF_SEED', '0'))
    except ValueError:
        return 0


def rng_for(seed, salt):
    return random.Random('%d/%s' % (seed, salt))


def write_json(path, obj):
    os.makedirs(os.path.dirname(path), exist_ok=True)
    with open(path + '.tmp', 'w') as f:
        json.dump(obj, f, indent=1, sort_keys=False, default=str)
    os.replace(path + '.tmp', path)


def load_known_findings():
    p = os.path.join(VERIF, 'known_findings.json')
    if not os.path.exists(p):
        return []
    return json.load(open(p)).get('findings', [])
