"""Tie 2, implementation side: the real pyais behind the same line protocol as lean/Driver.lean."""
import enum
from decimal import Decimal

import pyais
from pyais import messages as M
from pyais import util as U
from pyais import exceptions as X
from bitarray import bitarray

ERR_NAMES = {
    'InvalidNMEAMessageException', 'InvalidNMEAChecksum', 'UnknownMessageException',
    'MissingMultipartMessageException', 'TooManyMessagesException', 'UnknownPartNoException',
    'InvalidDataTypeException', 'NonPrintableCharacterException', 'MissingPayloadException',
    'TagBlockNotInitializedException', 'ValueError', 'UnicodeDecodeError', 'IndexError', 'KeyError',
    'TypeError', 'OverflowError',
}


def err(e):
    n = type(e).__name__
    if n not in ERR_NAMES:
        for c in type(e).__mro__:
            if c.__name__ in ERR_NAMES:
                n = c.__name__
                break
    return 'ERR:' + n


def canon_val(v):
    if v is None:
        return 'N'
    if isinstance(v, enum.Enum):
        val = v.value
        if isinstance(val, float) and val == int(val):
            val = int(val)
        return 'e:%s:%s' % (type(v).__name__, val)
    if isinstance(v, bool):
        return 'b:1' if v else 'b:0'
    if isinstance(v, int):
        return 'i:%d' % v
    if isinstance(v, float):
        d = Decimal(repr(v)) * 1000000
        if d == d.to_integral_value():
            return 'f:%d' % int(d)
        return 'f?%r' % v
    if isinstance(v, str):
        return 's:' + ''.join('%02x' % (ord(c) if ord(c) < 256 else 0xff) for c in v)
    if isinstance(v, (bytes, bytearray)):
        return 'y:' + bytes(v).hex()
    return '?%r' % (v,)


def _views(msg, d):
    """the other views of a decoded message (attribute access, asdict(enum_as_int=True), to_json()) show the
    values asdict() shows; returns a description of the first difference"""
    import base64
    import json
    for k, v in d.items():
        a = getattr(msg, k, '<no such attribute>')
        if type(a) is not type(v) or a != v:
            return 'attribute %s=%r asdict=%r' % (k, a, v)
    di = msg.asdict(enum_as_int=True)
    if list(di) != list(d):
        return 'asdict(enum_as_int=True) keys %r' % (list(di),)
    for k, v in d.items():
        want = int(v) if isinstance(v, enum.Enum) else v
        if isinstance(v, enum.Enum) and di[k] is v:
            continue        # (the library leaves some enumerations, e.g. the rate-of-turn codes, as they are)
        if type(di[k]) is not type(want) or di[k] != want:
            return 'asdict(enum_as_int=True) %s=%r asdict=%r' % (k, di[k], v)
    dj = json.loads(msg.to_json())
    if list(dj) != list(d):
        return 'to_json keys %r' % (list(dj),)
    for k, v in d.items():
        if isinstance(v, enum.Enum):
            want = v.value
        elif isinstance(v, (bytes, bytearray)):
            want = base64.b64encode(v).decode('ascii')
        else:
            want = v
        if dj[k] != want or (isinstance(want, bool) != isinstance(dj[k], bool)):
            return 'to_json %s=%r asdict=%r' % (k, dj[k], v)
    return None


def canon_msg(msg):
    d = msg.asdict()
    diff = _views(msg, d)
    if diff:
        return 'READERS-DIFFER views of one decoded message: ' + diff
    d.pop('full_name', None)
    return type(msg).__name__ + '|' + ';'.join('%s=%s' % (k, canon_val(v)) for k, v in d.items())


def parse_bits(s):
    return bitarray('' if s == '-' else s)


def show_bits(b):
    s = b.to01()
    return s if s else '-'


def show_opt(v):
    return 'N' if v is None else str(int(v))


CS_KEYS = [('rs', 'received_stations'), ('sn', 'slot_number'), ('uh', 'utc_hour'), ('um', 'utc_minute'),
           ('so', 'slot_offset'), ('st', 'slot_timeout'), ('ss', 'sync_state'), ('kf', 'keep_flag'),
           ('si', 'slot_increment'), ('ns', 'num_slots')]


def show_cs(d, strict=False):
    """`strict`: the state a message reports must carry every field (None where it does not apply)"""
    return ','.join('%s=%s' % (a, show_opt(d[k]) if k in d else ('MISSING' if strict else 'N')) for a, k in CS_KEYS)


def _cs_twice(fn, strict=False):
    """the reported state is the caller's: the first result is taken apart in place (as an application that
    post-processes it might), then the same question is asked again - the answer must be the same"""
    r1 = fn()
    s1 = show_cs(r1, strict)
    try:
        for k in list(r1):
            r1[k] = 63
        r1.clear()
    except Exception:  # noqa
        pass
    s2 = show_cs(fn(), strict)
    if s1 != s2:
        return 'RESULT-DEPENDS-ON-EARLIER-RESULT first=%s second=%s' % (s1, s2)
    return s2


class _Radio(M.CommunicationStateMixin):
    def __init__(self, t, r):
        self.msg_type = t
        self.radio = r


def _bit_siblings(bits, cls):
    """decode close relatives of the payload first (one bit shorter, last bit flipped, the bits after the
    type id inverted): a decoder that remembers something under an incomplete key answers the real call
    with a relative's result"""
    n = len(bits)
    rel = []
    if n > 8:
        rel.append(bits[:n - 1])
        b = bitarray(bits)
        b[n - 1] = not b[n - 1]
        rel.append(b)
        b = bitarray(bits)
        b[6:] = ~b[6:]
        rel.append(b)
    for r in rel:
        try:
            cls.from_bitarray(r) if cls is not None else decode_bits(r)
        except Exception:  # noqa
            pass


def decode_bits(bits):
    """MSG_CLASS[ais_id].from_bitarray with the KeyError translation of AISSentence.decode"""
    ais_id = U.get_int(bits, 0, 6)
    try:
        return M.MSG_CLASS[ais_id].from_bitarray(bits)
    except KeyError as e:
        raise X.UnknownMessageException('unknown') from e


def step(line):
    p = line.split()
    try:
        cmd = p[0]
        if cmd == 'frombits':
            _bit_siblings(parse_bits(p[1]), None)
            return canon_msg(decode_bits(parse_bits(p[1])))
        if cmd == 'frombits_cls':
            _bit_siblings(parse_bits(p[2]), getattr(M, p[1]))
            return canon_msg(getattr(M, p[1]).from_bitarray(parse_bits(p[2])))
        if cmd == 'dearmor':
            data = b'' if p[1] == '-' else bytes.fromhex(p[1])
            for d in (1, 3):            # the same characters with other fill-bit counts first
                try:
                    U.decode_into_bit_array(data, (int(p[2]) + d) % 6)
                except Exception:  # noqa
                    pass
            return show_bits(U.decode_into_bit_array(data, int(p[2])))
        if cmd == 'armor':
            # one bit vector armored twice (a report sent on channel A and then on B): the same answer, and the
            # caller's vector is still what it was
            bits = parse_bits(p[1])
            s, f = U.encode_ascii_6(bits)
            s2, f2 = U.encode_ascii_6(bits)
            if (s, f) != (s2, f2) or bits != parse_bits(p[1]):
                return 'RESULT-DEPENDS-ON-EARLIER-RESULT first=%s,%d second=%s,%d vector-now=%s' % (
                    s.encode().hex() or '-', f, s2.encode().hex() or '-', f2, show_bits(bits)[:80])
            return '%s %d' % (s.encode().hex() or '-', f)
        if cmd == 'sotdma':
            return _cs_twice(lambda: U.get_sotdma_comm_state(int(p[1])))
        if cmd == 'itdma':
            return _cs_twice(lambda: U.get_itdma_comm_state(int(p[1])))
        if cmd == 'commstate_bits':
            m = decode_bits(parse_bits(p[1]))
            # (a decoded message that reported its state and is then given another radio value - a template advanced
            # to the next frame - reports the state of the new value)
            other = decode_bits(parse_bits(p[1][:-19] + ''.join('1' if c == '0' else '0' for c in p[1][-19:])))
            other.get_communication_state(), other.communication_state_raw
            other.radio = m.radio
            a = (other.is_sotdma, other.is_itdma, other.communication_state_raw, show_cs(other.get_communication_state(), True))
            b = (m.is_sotdma, m.is_itdma, m.communication_state_raw, show_cs(m.get_communication_state(), True))
            if a != b:
                return 'RESULT-DEPENDS-ON-EARLIER-RESULT message-with-changed-radio=%s fresh-message=%s' % (a, b)
            return '%s %s %d %s' % (str(m.is_sotdma).lower(), str(m.is_itdma).lower(), m.communication_state_raw,
                                    _cs_twice(lambda: decode_bits(parse_bits(p[1])).get_communication_state(), True))
        if cmd == 'commstate':
            # (first: a message object that reported its state and then got another radio value must report the
            # state of the new value)
            other = _Radio(int(p[1]), int(p[2]) ^ 0x2aaaa)
            other.get_communication_state(), other.communication_state_raw, other.is_sotdma, other.is_itdma
            other.radio = int(p[2])
            fresh = _Radio(int(p[1]), int(p[2]))
            a = (other.is_sotdma, other.is_itdma, other.communication_state_raw, show_cs(other.get_communication_state(), True))
            b = (fresh.is_sotdma, fresh.is_itdma, fresh.communication_state_raw, show_cs(fresh.get_communication_state(), True))
            if a != b:
                return 'RESULT-DEPENDS-ON-EARLIER-RESULT object-with-changed-radio=%s fresh-object=%s' % (a, b)
            m = _Radio(int(p[1]), int(p[2]))
            return '%s %s %d %s' % (str(m.is_sotdma).lower(), str(m.is_itdma).lower(), m.communication_state_raw,
                                    _cs_twice(lambda: _Radio(int(p[1]), int(p[2])).get_communication_state(), True))
        return 'BAD-OP'
    except Exception as e:  # noqa
        return err(e)


# ------------------------------------------------------------------------------------------------
# sentence layer
# ------------------------------------------------------------------------------------------------
import io
import os
from decimal import Decimal as _D
from fractions import Fraction

import importlib

K = importlib.import_module('pyais.constants')
ST = importlib.import_module('pyais.stream')
Q = importlib.import_module('pyais.queue')
DEC = importlib.import_module('pyais.decode')      # `pyais.decode` the attribute is the function
ENC = importlib.import_module('pyais.encode')
TR = importlib.import_module('pyais.tracker')
FL = importlib.import_module('pyais.filter')


def hx(b):
    if isinstance(b, str):
        b = b.encode('latin-1', 'replace')
    return bytes(b).hex() if len(b) else '-'


def unhx(s):
    return b'' if s == '-' else bytes.fromhex(s)


def show_gh(g):
    t = g.timestamp
    return '%s/%s/%s/%s/%s/%d' % (hx(g.raw), ','.join(str(x) for x in (t.year, t.month, t.day, t.hour, t.minute,
                                                                      t.second, t.microsecond)),
                                  hx(g.country), hx(g.region), hx(g.pss), g.online_data)


def show_sentence(s):
    parts = ['raw=' + hx(s.raw), 'ais=%d' % (1 if s.TYPE == 'AIS' else 0), 'delim=' + hx(s.delimiter),
             'talker=' + hx(s.talker_id), 'typ=' + hx(s.type), 'chk=%d' % s.checksum, 'fill=%d' % s.fill_bits,
             'valid=%d' % (1 if s.is_valid else 0), 'df=' + ','.join(hx(f) for f in s.data_fields),
             'tb=' + ('N' if s.tag_block is None else hx(s.tag_block.raw)),
             'w=' + ('N' if s.wrapper_msg is None else show_gh(s.wrapper_msg))]
    if s.TYPE == 'AIS':
        parts.append('fc=%d fn=%d seq=%s ch=%s pl=%s bits=%s id=%d' % (
            s.frag_cnt, s.frag_num, 'N' if s.seq_id is None else str(s.seq_id), hx(s.channel), hx(s.payload),
            show_bits(s.bit_array), s.ais_id))
    else:
        parts.append('gh=' + show_gh(s))
    return ' '.join(parts)


class _IdxTbq(ST.TagBlockQueue):
    """TagBlockQueue that remembers at which input position each list was put"""

    def __init__(self, counter):
        super().__init__()
        self._counter = counter
        self.log = []
        self.first_raw = {}      # id(sentence) -> raw bytes when the sentence entered the queue
        self.keep = []           # keeps the objects alive so that ids stay unique

    def put_sentence(self, sentence):
        # assemble_from_iterable later mutates fragment objects in place (aliasing); sentences are
        # identified by the raw line they were parsed from
        if id(sentence) not in self.first_raw:
            self.first_raw[id(sentence)] = bytes(sentence.raw)
            self.keep.append(sentence)
        super().put_sentence(sentence)

    def _put(self, item):
        self.log.append((self._counter[0] - 1, [self.first_raw.get(id(s), bytes(s.raw)) for s in item]))
        super()._put(item)


class _FakeSock:
    """A scripted socket.  Stream flavour (TCP): the chunks are the pieces in which the bytes become
    available; `recv(n)` returns at most n bytes of what is available and keeps the rest; between two
    chunks the line is quiet for an unspecified time - a socket that was given a timeout raises
    `socket.timeout` there (once), a blocking socket just waits.  Datagram flavour (UDP): every chunk is
    one datagram, `recv(n)` returns its first n bytes and discards the rest.  When the script is over
    the peer closes (b'')."""

    def __init__(self, chunks, dgram=False):
        self.chunks = [c for c in chunks]
        self.dgram = dgram
        self.avail = b''
        self.timeout = None
        self.quiet = False        # the next recv on an empty buffer meets a quiet line first

    def settimeout(self, t):
        self.timeout = t

    def gettimeout(self):
        return self.timeout

    def setblocking(self, flag):
        self.timeout = None if flag else 0.0

    def setsockopt(self, *a):
        pass

    def connect(self, addr):
        pass

    def bind(self, addr):
        pass

    def fileno(self):
        return -1

    def recv(self, n=65536, flags=0):
        import socket as _s
        peek = bool(flags & _s.MSG_PEEK)
        if self.dgram:
            if not self.chunks:
                return b''
            d = self.chunks[0]
            if not peek:
                self.chunks.pop(0)
            return d[:n]
        if not self.avail:
            if not self.chunks:
                return b''
            if self.quiet and self.timeout is not None:
                self.quiet = False
                raise _s.timeout('timed out')
            self.avail = self.chunks.pop(0)
        out = self.avail[:n]
        if not peek:
            self.avail = self.avail[n:]
            if not self.avail:
                self.quiet = True
        return out

    def recvfrom(self, n=65536, flags=0):
        # (datagram flavour: every datagram comes from another source port - a peer that opens a socket per write)
        if self.dgram:
            self.sent = getattr(self, 'sent', 0) + (0 if flags else 1)
            return (self.recv(n, flags), ('127.0.0.1', 40000 + self.sent % 20000))
        return (self.recv(n, flags), ('127.0.0.1', 1))

    def recv_into(self, buf, nbytes=0, flags=0):
        d = self.recv(nbytes or len(buf), flags)
        buf[:len(d)] = d
        return len(d)

    def recvfrom_into(self, buf, nbytes=0, flags=0):
        d, addr = self.recvfrom(nbytes or len(buf), flags)
        buf[:len(d)] = d
        return (len(d), addr)

    def shutdown(self, how):
        pass

    def close(self):
        pass

    def __enter__(self):
        return self

    def __exit__(self, *a):
        pass


def _emit(events, crash):
    # events: list of (index, kind, text) ; order per index: delivered first, then tbq lists
    events.sort(key=lambda e: (e[0], 0 if e[1] == 'D' else 1))
    out = ['%s%d:[%s]' % (k, i, t) for i, k, t in events]
    if crash:
        out.append('CRASH:' + crash)
    return ' ; '.join(out) if out else '-'


class _Decoy:
    """A second, independent instance of the same reader class, fed the same lines in reverse order
    in lockstep with the instance under observation.  Instances share nothing, so this changes
    nothing - unless reassembly buffers, open groups or pending wrappers live in class-level or
    module-level state.  What the decoy delivers or raises is ignored."""

    def __init__(self, fe, tbq, lines):
        self.src = iter(list(reversed(list(lines))))
        self.q = ST.TagBlockQueue() if tbq else None
        self.nq = Q.NMEAQueue(tbq=self.q) if fe == 'queue' else None
        self.it = None
        if fe == 'iter':
            self.it = iter(ST.IterMessages(self.src, tbq=self.q))
        elif fe == 'bytestream':
            self.it = iter(ST.ByteStream(self.src, tbq=self.q))

    def tick(self):
        try:
            if self.nq is not None:
                l = next(self.src, None)
                if l is not None:
                    self.nq.put_line(l)
                    while self.nq.get_or_none() is not None:
                        pass
            elif self.it is not None:
                next(self.it, None)
            if self.q is not None:
                while not self.q.empty():
                    self.q.get_nowait()
        except Exception:  # noqa
            pass


class _JumpClock:
    """While a reader or queue is being fed, the clocks of the `time` module leap an hour ahead at every line: what
    is delivered for a sequence of lines does not depend on how long the lines took to arrive."""

    NAMES = ('monotonic', 'time', 'perf_counter', 'monotonic_ns', 'time_ns')

    def __init__(self):
        import time as _t
        self.t = _t
        self.real = {n: getattr(_t, n) for n in self.NAMES}
        self.offset = 0.0

    def __enter__(self):
        for n in self.NAMES:
            real = self.real[n]
            if n.endswith('_ns'):
                setattr(self.t, n, lambda real=real: real() + int(self.offset * 1e9))
            else:
                setattr(self.t, n, lambda real=real: real() + self.offset)
        return self

    def leap(self):
        self.offset += 3600.0

    def __exit__(self, *a):
        for n in self.NAMES:
            setattr(self.t, n, self.real[n])


def run_stream(fe, tbq, lines, indexed=True):
    with _JumpClock() as clock:
        return _run_stream(fe, tbq, lines, indexed, clock)


def _run_stream(fe, tbq, lines, indexed, clock):
    counter = [0]
    decoy = _Decoy(fe, tbq, lines)

    def gen():
        for l in lines:
            decoy.tick()
            clock.leap()
            counter[0] += 1
            yield l

    q = _IdxTbq(counter) if tbq else None
    events, crash = [], None
    try:
        if fe == 'queue':
            nq = Q.NMEAQueue(tbq=q)
            for l in gen():
                nq.put_line(l)
                while True:
                    m = nq.get_or_none()
                    if m is None:
                        break
                    events.append((counter[0] - 1, 'D', show_sentence(m)))
        else:
            if fe == 'iter':
                it = ST.IterMessages(gen(), tbq=q)
            elif fe == 'bytestream':
                it = ST.ByteStream(gen(), tbq=q)
            else:
                raise ValueError(fe)
            for m in it:
                events.append((counter[0] - 1, 'D', show_sentence(m)))
    except Exception as e:  # noqa
        crash = err(e)[4:]
    if q is not None:
        for i, item in q.log:
            events.append((i, 'T', '|'.join(hx(r) for r in item)))
    if not indexed:
        events = [(0, k, t) for _, k, t in events]
    if fe == 'queue' and not tbq and crash is None:
        # the same lines through a second queue that is emptied with the blocking interface of queue.Queue
        alt = []
        try:
            nq2 = Q.NMEAQueue()
            for l in lines:
                nq2.put_line(l)
                while not nq2.empty():
                    alt.append(show_sentence(nq2.get(block=True, timeout=5)))
            if nq2.qsize() != 0 or nq2.get_or_none() is not None:
                alt.append('NOT-EMPTY')
        except Exception as e:  # noqa
            alt = err(e)
        if alt != [t for _, k, t in events if k == 'D']:
            return 'READERS-DIFFER get_or_none=%d deliveries get()=%s' % (
                len([1 for _, k, _ in events if k == 'D']), alt if isinstance(alt, str) else '%d deliveries' % len(alt))
    if fe == 'queue' and not tbq and crash is None:
        diff = _bounded_queue(lines, events)
        if diff:
            return diff
    if fe in ('iter', 'bytestream') and not tbq and crash is None:
        diff = _two_passes(fe, lines, [t for _, k, t in events if k == 'D'])
        if diff:
            return diff
    if fe == 'bytestream' and not tbq and crash is None:
        # log formats: every line carries a prefix / a suffix that a preprocessor removes again
        ref_d = [t for _, k, t in events if k == 'D']
        for name, deco, pre in (('prefix', lambda l: b'[1700000000] ' + l, _StripPrefix()),
                                ('suffix', lambda l: l + b';1700000000', _StripSuffix())):
            try:
                alt = [show_sentence(m) for m in ST.ByteStream([deco(l) for l in lines], preprocessor=pre)]
            except Exception as e:  # noqa
                alt = err(e)
            # (a bare line of ten bytes or less is dropped before the preprocessor would see it; decorated it is
            # longer - but nothing that short is a sentence)
            if alt != ref_d:
                return 'READERS-DIFFER ByteStream=%d deliveries with-%s-stripping-preprocessor=%s' % (
                    len(ref_d), name, alt if isinstance(alt, str) else '%d deliveries' % len(alt))
    if fe in ('iter', 'bytestream') and not tbq and crash is None:
        # the same reader consumed with next() instead of a for loop ("Returns the next decoded NMEA message")
        alt = _by_next((ST.IterMessages if fe == 'iter' else ST.ByteStream)(list(lines)), len(lines))
        ref_d = [t for _, k, t in events if k == 'D']
        if alt != ref_d:
            return 'READERS-DIFFER for-loop=%d deliveries next()=%s' % (len(ref_d), alt if isinstance(alt, str) else
                                                                       '%d deliveries' % len(alt))
    if fe == 'bytestream' and not tbq and crash is None:
        # a preprocessor that hands every line on as it is changes nothing
        try:
            alt = [show_sentence(m) for m in ST.ByteStream(list(lines), preprocessor=_Identity())]
        except Exception as e:  # noqa
            alt = err(e)
        if alt != [t for _, k, t in events if k == 'D']:
            return 'READERS-DIFFER ByteStream=%d deliveries with-identity-preprocessor=%s' % (
                len([1 for _, k, _ in events if k == 'D']), alt if isinstance(alt, str) else '%d deliveries' % len(alt))
    if fe == 'iter' and not tbq and crash is None and len(lines) == 1:
        # a single line may be handed over as it is instead of in a list
        try:
            alt = [show_sentence(m) for m in ST.IterMessages(lines[0])]
        except Exception as e:  # noqa
            alt = err(e)
        if alt != [t for _, k, t in events if k == 'D']:
            return 'READERS-DIFFER IterMessages([line])=%d deliveries IterMessages(line)=%s' % (
                len([1 for _, k, _ in events if k == 'D']), alt if isinstance(alt, str) else '%d deliveries' % len(alt))
    if fe == 'iter' and not tbq and crash is None:
        # the same lines as text through IterMessages.from_strings: the same deliveries
        try:
            texts = [l.decode('utf-8') for l in lines]
            if [t.encode('utf-8') for t in texts] == list(lines):
                alt = [show_sentence(m) for m in ST.IterMessages.from_strings(texts)]
                if alt != [t for _, k, t in events if k == 'D']:
                    return 'READERS-DIFFER IterMessages=%d deliveries from_strings=%d deliveries' % (
                        len([1 for _, k, _ in events if k == 'D']), len(alt))
        except UnicodeDecodeError:
            pass
        except Exception as e:  # noqa
            return 'READERS-DIFFER from_strings raised ' + err(e)
    return _emit(events, crash)


class _Identity:
    def process(self, line):
        return line


class _StripPrefix:
    def process(self, line):
        return line.partition(b'] ')[2]


class _StripSuffix:
    def process(self, line):
        return line.rpartition(b';')[0]


def _bounded_queue(lines, events):
    """A bounded NMEAQueue fed without blocking loses the messages it has no room for (queue.Full), but what it
    does deliver is what the unbounded queue delivers for the same line - never anything else."""
    import queue as _q
    ref = {}
    for i, k, t in events:
        if k == 'D':
            ref.setdefault(i, []).append(t)
    for drain_every in (3, 1000):
        nq = Q.NMEAQueue(maxsize=1)
        got = []
        try:
            for i, l in enumerate(lines):
                try:
                    nq.put_line(l, block=False)
                except _q.Full:
                    pass
                if i % drain_every == drain_every - 1 or i == len(lines) - 1:
                    while True:
                        m = nq.get_or_none()
                        if m is None:
                            break
                        got.append((i, show_sentence(m)))
        except Exception as e:  # noqa
            return 'READERS-DIFFER bounded NMEAQueue raised ' + err(e)
        allowed = [t for i in sorted(ref) for t in ref[i]]
        pos = 0
        for i, t in got:
            try:
                pos = allowed.index(t, pos) + 1
            except ValueError:
                return ('READERS-DIFFER a bounded NMEAQueue (maxsize=1, drained every %d lines) delivered a sentence the '
                        'unbounded queue does not deliver (or not in this order): %s' % (drain_every, t[:200]))
    return None


class _Feed:
    """a polled source: iteration stops when the current batch is used up and goes on after more() """

    def __init__(self):
        self.items = []
        self.taken = 0

    def more(self, batch):
        self.items.extend(batch)

    def __iter__(self):
        return self

    def __next__(self):
        if self.taken >= len(self.items):
            raise StopIteration
        self.taken += 1
        return self.items[self.taken - 1]


def _is_multi_fragment(line):
    body = line[line.rfind(b'\\') + 1:] if line.startswith(b'\\') else line
    f = body.split(b',')
    return len(f) > 2 and f[0][3:6] in (b'VDM', b'VDO') and f[1].strip() not in (b'1', b'')


def _two_passes(fe, lines, ref_d):
    """One reader consumed in two steps.  (1) Left after its k-th delivery (next() calls, or a for loop with
    break) and resumed with a for loop: the rest is what a fresh reader delivers for the remaining lines - what
    the first pass had buffered is gone, nothing else is carried over.  (2) A polled source that runs dry right
    after a wrapper line, before any multi-fragment message was seen, and continues later: the same
    deliveries as in one pass (the pending wrapper lives in the reader)."""
    cls = ST.IterMessages if fe == 'iter' else ST.ByteStream
    ks = sorted({1, len(ref_d) // 2 + 1, len(ref_d)} & set(range(1, len(ref_d) + 1)))
    for k in ks:
        for how in ('next', 'break'):
            feed = _Feed()
            feed.more(lines)
            try:
                rd = cls(feed)
                first = []
                if how == 'next':
                    for _ in range(k):
                        first.append(show_sentence(next(rd)))
                else:
                    for m in rd:
                        first.append(show_sentence(m))
                        if len(first) == k:
                            break
                consumed = feed.taken
                second = [show_sentence(m) for m in rd]
                fresh = [show_sentence(m) for m in cls(list(lines[consumed:]))]
            except Exception as e:  # noqa
                return 'READERS-DIFFER reader consumed in two steps raised ' + err(e)
            if first != ref_d[:k]:
                return 'READERS-DIFFER the first %d deliveries by %s differ from a plain for loop' % (k, how)
            if how == 'break' and second != fresh:
                return ('READERS-DIFFER reader left after delivery %d (for/break) and resumed: %d deliveries, a fresh '
                        'reader over the remaining lines: %d (first difference: %s)' % (
                            k, len(second), len(fresh), next((a[:160] for a, b in zip(second + [''], fresh + ['']) if a != b), '')))
            if how == 'next' and first + second != ref_d and second != fresh:
                return ('READERS-DIFFER reader advanced by %d next() calls and then iterated: neither the deliveries of '
                        'one pass nor those of a fresh reader over the remaining lines' % k)
    for p in range(1, len(lines)):
        if lines[p - 1].lstrip().startswith(b'$PGHP') or lines[p - 1].startswith(b'\\') and b'$PGHP' in lines[p - 1]:
            if any(_is_multi_fragment(l) for l in lines[:p]):
                break
            feed = _Feed()
            feed.more(lines[:p])
            try:
                rd = cls(feed)
                got = [show_sentence(m) for m in rd]
                feed.more(lines[p:])
                got += [show_sentence(m) for m in rd]
            except Exception as e:  # noqa
                return 'READERS-DIFFER reader over a polled source raised ' + err(e)
            if got != ref_d:
                return ('READERS-DIFFER source ran dry after line %d (a wrapper) and continued: %d deliveries, in one '
                        'pass %d (or other wrappers)' % (p, len(got), len(ref_d)))
            # ... and the same, the second pass left after its first delivery (which carries the inherited wrapper) and
            # a third pass for the rest: the wrapper is not attached a second time
            feed = _Feed()
            feed.more(lines[:p])
            try:
                rd = cls(feed)
                got1 = [show_sentence(m) for m in rd]
                feed.more(lines[p:])
                got2 = []
                for m in rd:
                    got2.append(show_sentence(m))
                    break
                consumed = feed.taken
                got3 = [show_sentence(m) for m in rd]
                fresh = [show_sentence(m) for m in cls(list(lines[consumed:]))]
            except Exception as e:  # noqa
                return 'READERS-DIFFER reader over a polled source (three passes) raised ' + err(e)
            if got1 + got2 != ref_d[:len(got1) + len(got2)] or got3 != fresh:
                return ('READERS-DIFFER polled source, second pass left after its first delivery: the third pass delivers '
                        '%d sentences, a fresh reader over the remaining lines %d (or other wrappers)' % (len(got3), len(fresh)))
            break
    return None


def _by_next(reader, bound):
    """what a reader delivers when it is consumed by next() calls (at most `bound` + 1 of them)"""
    out = []
    try:
        with reader as r:
            for _ in range(bound + 1):
                try:
                    out.append(show_sentence(next(r)))
                except StopIteration:
                    break
    except Exception as e:  # noqa
        return err(e)
    return out


def run_unindexed(make_stream, tbq):
    counter = [1]
    q = _IdxTbq(counter) if tbq else None
    events, crash = [], None
    try:
        for m in make_stream(q):
            events.append((0, 'D', show_sentence(m)))
            if q is not None:
                # attribute tbq lists put so far *before* this delivery … the model orders per line;
                # without indices we only compare the two sequences separately (see _emit)
                pass
    except Exception as e:  # noqa
        crash = err(e)[4:]
    if q is not None:
        for _, item in q.log:
            events.append((0, 'T', '|'.join(hx(r) for r in item)))
    return _emit(events, crash)


def make_socket_stream(chunks, q, cls=None):
    """the reader classes are built by their own constructors (so that whatever they do to their socket when
    connecting / binding is in force), on a scripted socket"""
    cls = cls or ST.SocketStream
    # an earlier connection that was closed in the middle of a line (its carry-over must die with it)
    d = ST.SocketStream(_FakeSock([b'!AIVDM,1,1,,A,15M67FC000G?ufbE`FepT@3n00Sa,0*5C\r\n!AIVDM,1,1,,B,1decoy']), tbq=None)
    try:
        list(d.read())
    except Exception:  # noqa
        pass
    if cls is ST.SocketStream:
        return cls(_FakeSock(chunks), tbq=q)
    made = []

    def fake_socket(family=-1, kind=-1, *a, **k):
        import socket as _s
        dgram = (kind == _s.SOCK_DGRAM)
        # (a datagram longer than the reader's buffer would be cut off by the operating system: such a piece is sent
        # as several datagrams)
        size = getattr(cls, 'BUF_SIZE', 4096)
        pieces = [c[i:i + size] for c in chunks for i in range(0, max(len(c), 1), size)] if dgram else chunks
        made.append(_FakeSock(pieces, dgram=dgram))
        return made[-1]

    # (the constructors reach the socket class through the name `socket` imported into pyais.stream - or, after a
    # rewrite, through the socket module itself: both are replaced while the reader is being built)
    import socket as _s
    real_mod = _s.socket
    real = getattr(ST, 'socket', None)
    if real is not None and not isinstance(real, type(_s)):
        ST.socket = fake_socket
    _s.socket = fake_socket
    try:
        return cls('127.0.0.1', 9, tbq=q)
    finally:
        _s.socket = real_mod
        if real is not None and not isinstance(real, type(_s)):
            ST.socket = real


SOCKET_CLASSES = [ST.SocketStream, ST.TCPConnection, ST.UDPReceiver]


def _try(fn):
    try:
        return fn()
    except Exception as e:  # noqa
        return err(e)


def _family(results):
    """the members of a reader family (the generic socket reader, the TCP and the UDP reader; the
    file-object and the file-name reader) share one contract: what differs between them is reported"""
    names = list(results)
    first = results[names[0]]
    for n in names[1:]:
        if results[n] != first:
            return 'READERS-DIFFER %s=%s %s=%s' % (names[0], first[:300], n, results[n][:300])
    return first


def sock_read(chunks):
    out = {}
    for cls in SOCKET_CLASSES:
        try:
            # a second connection of the same kind is read alternately with the observed one (other bytes, cut in the
            # middle of its lines): two connections share nothing
            other = make_socket_stream([b'!AIVDM,1,1,,B,1other', b'connection,0*00\r\n!AIVDM,1,1,', b',A,xx,0*11\n!x'] * 3,
                                       None, cls).read()
            got = []
            for l in make_socket_stream(chunks, None, cls).read():
                got.append(l)
                next(other, None)
            out[cls.__name__] = '[' + ','.join(hx(l) for l in got) + ']'
        except Exception as e:  # noqa
            out[cls.__name__] = err(e)
    return _family(out)


def file_readers(content, tbq):
    import tempfile
    out = {'BinaryIOStream': run_unindexed(lambda q: ST.BinaryIOStream(io.BytesIO(content), tbq=q), tbq)}
    with tempfile.NamedTemporaryFile(suffix='.nmea') as f:
        f.write(content)
        f.flush()

        def mk(q):
            return ST.FileReaderStream(f.name, tbq=q)
        out['FileReaderStream'] = run_unindexed(mk, tbq)
        if not tbq and 'CRASH' not in out['FileReaderStream']:
            alt = _by_next(ST.FileReaderStream(f.name), content.count(b'\n') + 1)
            out['FileReaderStream by next()'] = alt if isinstance(alt, str) else _emit([(0, 'D', t) for t in alt], None)
    if not tbq:
        diff = _cli(content)
        if diff:
            return diff
    return _family(out)


def _cli(content):
    """The command line front-end (pyais/main.py) is one more ingestion path: `ais-decode -f FILE -o OUT` prints
    str(msg.decode()) for every sentence the file reader delivers, `ais-decode single LINE...` the same for the
    lines given as arguments (plus a warning line after a sentence whose checksum is wrong)."""
    import argparse
    import contextlib
    import pyais.main as CLI

    def expected(reader, warn):
        exp = []
        try:
            for m in reader:
                exp.append(str(m.decode()))
                if warn and not m.is_valid:
                    exp.append('WARNING: Checksum invalid')
        except Exception as e:  # noqa
            return ''.join(x + '\n' for x in exp), type(e).__name__
        return ''.join(x + '\n' for x in exp), None

    def actual(fn, ns):
        buf = io.StringIO()
        ns.out_file = buf
        try:
            with contextlib.redirect_stdout(buf):
                rc = fn(ns)
        except Exception as e:  # noqa
            return buf.getvalue(), type(e).__name__
        return buf.getvalue(), None if rc == 0 else 'exit code %r' % (rc,)

    exp = expected(ST.BinaryIOStream(io.BytesIO(content)), False)
    got = actual(CLI.decode_from_file, argparse.Namespace(in_file=io.BytesIO(content)))
    if exp != got:
        return 'READERS-DIFFER BinaryIOStream+decode=%s ais-decode -f=%s' % (_cli_show(exp), _cli_show(got))
    try:
        texts = [l.decode('utf-8') for l in content.split(b'\n')]
    except UnicodeDecodeError:
        return None
    exp = expected(ST.ByteStream([t.encode() for t in texts]), True)
    got = actual(CLI.decode_single, argparse.Namespace(messages=texts))
    if exp != got:
        return 'READERS-DIFFER ByteStream+decode=%s ais-decode single=%s' % (_cli_show(exp), _cli_show(got))
    return None


def _cli_show(r):
    text, e = r
    return '%d lines%s' % (text.count('\n'), '' if e is None else ' then ' + e)


def show_tb(tb):
    g = tb.group
    def o(v):
        return 'N' if v is None else hx(v.encode('utf-8'))
    return ' '.join(['valid=%d' % (1 if tb.is_valid else 0), 'actual=%d' % tb.actual_checksum,
                     'expected=%d' % tb.expected_checksum, 'c=' + o(tb.receiver_timestamp),
                     'd=' + o(tb.destination_station), 'n=' + o(tb.line_count), 'r=' + o(tb.relative_time),
                     's=' + o(tb.source_station), 't=' + o(tb.text),
                     'g=' + ('N' if g is None else '%d-%d-%d' % (g.sentence_num, g.sentence_tot, g.group_id))])


def run_tbq(lines):
    decoy = ST.TagBlockQueue()      # an independent queue seeing the same sentences in reverse order
    rev = list(reversed(lines))
    q = ST.TagBlockQueue()
    out = []
    for i, l in enumerate(lines):
        try:
            decoy.put_sentence(M.NMEASentenceFactory.produce(rev[i]))
            while not decoy.empty():
                decoy.get_nowait()
        except Exception:  # noqa
            pass
        try:
            s = M.NMEASentenceFactory.produce(l)
            q.put_sentence(s)
        except Exception as e:  # noqa
            out.append('T%d:%s' % (i, err(e)))
            continue
        while not q.empty():
            item = q.get_nowait()
            out.append('T%d:[%s]' % (i, '|'.join(hx(s.raw) for s in item)))
    return ' ; '.join(out) if out else '-'


# ------------------------------------------------------------------------------------------------
# kwargs / values
# ------------------------------------------------------------------------------------------------

def parse_val(s):
    if s == 'N':
        return None
    p = s.split(':')
    if p[0] == 'i':
        return int(p[1])
    if p[0] == 'b':
        return p[1] == '1'
    if p[0] == 'f':
        return float(_D(int(p[1])) / 1000000)
    if p[0] == 's':
        return unhx(p[1] or '-').decode('latin-1')
    if p[0] == 'y':
        return unhx(p[1] or '-')
    if p[0] == 'e':
        cls = getattr(K, p[1])
        return cls(float(p[2])) if issubclass(cls, float) else cls(int(p[2]))
    raise ValueError(s)


def parse_kw(s):
    if s == '-':
        return {}
    d = {}
    for kv in s.split(';'):
        k, v = kv.split('=')
        d[k] = parse_val(v)
    return d


def show_kw(d):
    return ';'.join('%s=%s' % (k, canon_val(v)) for k, v in d.items()) or '-'


# ------------------------------------------------------------------------------------------------
# tracker
# ------------------------------------------------------------------------------------------------

class _Clock:
    def __init__(self):
        self.t = 0.0

    def time(self):
        return self.t


CLOCK = _Clock()
TR.time = CLOCK       # `now()` looks up the module global `time` at call time

TRACK_ATTRS = [f.name for f in TR.FIELDS if f.name not in ('mmsi', 'last_updated')]


TIME_SCALE = [1]        # histories may count time in fractions of a second (op `s:<k>`: unit = 1/k s, k a power of two)


def show_time(x):
    if isinstance(x, int) and not isinstance(x, bool):
        return str(x * TIME_SCALE[0])
    d = _D(repr(float(x))) * TIME_SCALE[0]
    return str(int(d)) if d == d.to_integral_value() else 't?%r' % x


def show_track(t):
    attrs = ','.join('%s=%s' % (n, canon_val(getattr(t, n))) for n in TRACK_ATTRS if getattr(t, n) is not None)
    return '%d@%s(%s)' % (t.mmsi, show_time(t.last_updated), attrs)


_DECOY_MSG = None


def run_tracker_reentrant(ordered, ttl, mode, ops):
    """A tracker whose second subscriber acts on the tracker from inside its callback (implementation only; the
    oracle is the life cycle seen by the first subscriber and the set of tracks after every operation):
      pop    - on DELETED of a vessel, removes a companion vessel by hand
      reseed - on DELETED of a vessel, reports that vessel again (a pinned vessel)
      new    - on DELETED of a vessel, reports a vessel never seen before, stamped a little in the past
      raise  - on UPDATED of the companion vessel, raises KeyError (an application bug in a handler)
    Output per operation: events seen by the first subscriber, then the MMSIs with a track, then the MMSIs whose
    age has reached the TTL (checked by the caller only where the implementation promises expiry)."""
    tr = TR.AISTracker(ttl_in_seconds=ttl, stream_is_ordered=ordered)
    evs = []
    tr.register_callback(TR.AISTrackEvent.CREATED, lambda t: evs.append('C%d' % t.mmsi))
    tr.register_callback(TR.AISTrackEvent.UPDATED, lambda t: evs.append('U%d' % t.mmsi))
    tr.register_callback(TR.AISTrackEvent.DELETED, lambda t: evs.append('D%d' % t.mmsi))
    CLOCK.t = 0.0
    TIME_SCALE[0] = 1
    seen_lines = {}
    fresh_ids = [900001]
    depth = [0]
    companion = [None]

    def on_deleted(t):
        if depth[0] > 3:
            return
        depth[0] += 1
        try:
            if mode == 'pop' and companion[0] is not None and companion[0] != t.mmsi:
                tr.pop_track(companion[0])
            elif mode == 'reseed' and t.mmsi in seen_lines:
                tr.update(DEC._assemble_messages(seen_lines[t.mmsi]), CLOCK.t)
            elif mode == 'new' and seen_lines:
                line = next(iter(seen_lines.values()))
                # the same report under a new MMSI is not possible without re-encoding: take a vessel of the pool that
                # has no track at the moment
                for m_, l_ in seen_lines.items():
                    if tr.get_track(m_) is None and m_ != t.mmsi:
                        tr.update(DEC._assemble_messages(l_), CLOCK.t - (max((tr.ttl_in_seconds or 2) - 1, 0)))
                        break
        except ValueError:
            pass
        finally:
            depth[0] -= 1

    def on_updated(t):
        if mode == 'raise' and companion[0] == t.mmsi:
            raise KeyError(t.mmsi)

    tr.register_callback(TR.AISTrackEvent.DELETED, on_deleted)
    tr.register_callback(TR.AISTrackEvent.UPDATED, on_updated)
    out = []
    for op in ops:
        p = op.split(':')
        note = ''
        try:
            if p[0] == 't':
                CLOCK.t = float(p[1])
                continue
            if p[0] == 'c':
                tr.cleanup()
            elif p[0] == 'p':
                tr.pop_track(int(p[1]))
            elif p[0] == 'u':
                sobj = DEC._assemble_messages(unhx(p[1]))
                mm = sobj.decode().mmsi
                seen_lines.setdefault(mm, unhx(p[1]))
                if companion[0] is None:
                    companion[0] = mm
                tr.update(sobj, None if p[2] == 'N' else float(p[2]))
        except ValueError:
            note = 'rejected'
        except KeyError:
            note = 'handler-raised'
        stale = [] if tr.ttl_in_seconds is None else \
            sorted(t.mmsi for t in tr.tracks if not (CLOCK.t - t.last_updated < tr.ttl_in_seconds))
        # what n_latest_tracks says right now, held against the tracks the tracker shows
        nl = '-'
        try:
            ts_ = list(tr.tracks)
            lus = {t.mmsi: t.last_updated for t in ts_}
            for n_ in range(0, len(ts_) + 2):
                r_ = [t.mmsi for t in tr.n_latest_tracks(n_)]
                left = [m_ for m_ in lus if m_ not in r_]
                if len(r_) != min(n_, len(ts_)) or len(set(r_)) != len(r_) or any(m_ not in lus for m_ in r_) or \
                        (r_ and left and max(lus[m_] for m_ in left) > min(lus[m_] for m_ in r_)) or \
                        (not ordered and [lus[m_] for m_ in r_] != sorted((lus[m_] for m_ in r_), reverse=True)):
                    nl = 'n_latest_tracks(%d)=%s;tracks=%s' % (n_, '/'.join(map(str, r_)),
                                                               '/'.join('%d@%s' % (m_, show_time(lus[m_])) for m_ in lus))
                    break
        except Exception as e:  # noqa
            nl = 'n_latest_tracks-raised-' + type(e).__name__
        out.append('%s[%s]%s {%s} stale=%s nl=%s' % (p[0], ','.join(evs), note, ' '.join(str(t.mmsi) for t in tr.tracks),
                                                    ','.join(map(str, stale)) or '-', nl.replace(' ', '')))
        del evs[:]
    return ' ; '.join(out)


class _Gone:
    """a subscriber that lives only through its subscription: the object is created, its bound method registered, and
    the last reference of the caller dropped - it keeps being notified (it counts the calls in a list it shares)"""

    def __init__(self, counter=None):
        self.counter = counter if counter is not None else [0]

    def handle(self, track):
        self.counter[0] += 1


def run_tracker(ordered, ttl, ops):
    # an independent tracker with its own observers, busy while the observed one runs: its tracks and
    # events are its own
    global _DECOY_MSG
    if _DECOY_MSG is None:
        _DECOY_MSG = DEC._assemble_messages(b'!AIVDM,1,1,,A,15M67FC000G?ufbE`FepT@3n00Sa,0*5C')
    decoy = TR.AISTracker(ttl_in_seconds=None, stream_is_ordered=False)
    for ev in TR.AISTrackEvent:
        decoy.register_callback(ev, lambda t: None)
    # (an unordered tracker is what the constructor builds by default: built that way every other time)
    if not ordered and len(ops) % 2:
        tr = TR.AISTracker(ttl_in_seconds=ttl)
    else:
        tr = TR.AISTracker(ttl_in_seconds=ttl, stream_is_ordered=ordered)
    # a subscriber that registered a bound method and has since gone out of scope, in front of the observers
    # (each of its registrations sits directly in front of the observer's registration for the same event)
    gone_calls = [0]
    gone = _Gone(gone_calls)
    evs = []
    tr.register_callback(TR.AISTrackEvent.CREATED, gone.handle)
    tr.register_callback(TR.AISTrackEvent.CREATED, lambda t: evs.append(('C', t.mmsi)))
    tr.register_callback(TR.AISTrackEvent.UPDATED, gone.handle)
    tr.register_callback(TR.AISTrackEvent.UPDATED, lambda t: evs.append(('U', t.mmsi)))
    tr.register_callback(TR.AISTrackEvent.DELETED, gone.handle)
    tr.register_callback(TR.AISTrackEvent.DELETED, lambda t: evs.append(('D', t.mmsi)))
    del gone
    # a second observer: ONE callable registered for all three events (it cannot tell the events apart, but it
    # must be called once per event)
    calls = [0]

    inside = []

    # (the questions are asked in every other history only: n_latest_tracks is read-only for the caller, but an
    # implementation may tidy its table while answering - a history without questions must be right as well)
    import zlib
    asks = zlib.crc32(' '.join(ops).encode()) % 2 == 0

    def any_event(t):
        calls[0] += 1
        if not asks:
            return
        # "at every moment": what the tracker answers while it is delivering an event (read-only questions)
        try:
            now_tracks = tr.tracks
            ids = [x.mmsi for x in now_tracks]
            if len(set(ids)) != len(ids):
                inside.append('two-tracks-for-one-mmsi-inside-a-callback')
            k = min(2, len(now_tracks))
            latest = tr.n_latest_tracks(k)
            lus = {x.mmsi: x.last_updated for x in now_tracks}
            left = [m for m in lus if m not in [x.mmsi for x in latest]]
            if len(latest) != k or len({x.mmsi for x in latest}) != k or any(x.mmsi not in lus for x in latest) or \
                    (latest and left and max(lus[m] for m in left) > min(lus[x.mmsi] for x in latest)):
                inside.append('n_latest_tracks-inside-a-callback-leaves-out-a-newer-track')
            if tr.get_track(t.mmsi) is not None and t.mmsi not in ids:
                inside.append('get_track-and-tracks-disagree-inside-a-callback')
        except Exception as e:  # noqa
            inside.append('query-inside-a-callback-raised-' + type(e).__name__)

    for ev in TR.AISTrackEvent:
        tr.register_callback(ev, any_event)
    total = [0]
    CLOCK.t = 0.0
    TIME_SCALE[0] = 1
    out = []
    # a third observer, one callable per event, that unsubscribes from single events and subscribes again in the
    # course of the history (ops r:<event> / a:<event>): it must be called exactly for the events of the kinds it
    # is subscribed to at that moment - and its coming and going must not disturb the others
    EV = {'C': TR.AISTrackEvent.CREATED, 'U': TR.AISTrackEvent.UPDATED, 'D': TR.AISTrackEvent.DELETED}
    third = {k: 0 for k in EV}
    third_exp = {k: 0 for k in EV}
    subscribed = {k: True for k in EV}
    third_cb = {'C': lambda t: third.__setitem__('C', third['C'] + 1),
                'U': lambda t: third.__setitem__('U', third['U'] + 1),
                'D': lambda t: third.__setitem__('D', third['D'] + 1)}
    for k_, ev in EV.items():
        tr.register_callback(ev, third_cb[k_])

    seen = {'C': 0, 'U': 0, 'D': 0, 'any': 0}

    def take():
        total[0] += len(evs)
        for kind, _ in evs:
            if kind in subscribed and subscribed[kind]:
                third_exp[kind] += 1
        # calls received by the third observer's three callbacks and by the one-for-all callable during this
        # operation (the model computes them from its subscription list)
        delta = '~%d,%d,%d,%d' % (third['C'] - seen['C'], third['U'] - seen['U'], third['D'] - seen['D'],
                                   calls[0] - seen['any'])
        seen.update(C=third['C'], U=third['U'], D=third['D'], any=calls[0])
        if inside:
            evs.append(('OBSERVER-CALLED-AND-SAW-%s-' % inside[0], 0))
            del inside[:]
        elif calls[0] != total[0]:
            evs.append(('OBSERVER-CALLED-%d-TIMES-FOR-%d-EVENTS-' % (calls[0], total[0]), 0))
        elif gone_calls[0] != total[0]:
            evs.append(('OBSERVER-CALLED-%d-TIMES-FOR-%d-EVENTS-(a-subscriber-nobody-else-refers-to)-' % (gone_calls[0], total[0]), 0))
            gone_calls[0] = total[0]
        elif third != third_exp:
            evs.append(('OBSERVER-CALLED-%s-EXPECTED-%s-' % (sorted(third.items()), sorted(third_exp.items())), 0))
            third_exp.update(third)
        others = ['%s%d' % e for e in evs if e[0] != 'D']
        dels = ['D%d' % m for m in sorted(m for k, m in evs if k == 'D')]
        del evs[:]
        return ','.join(others + dels) + ']' + delta

    quiet = [False]      # op z:1 - very long histories print the whole table only with the n_latest queries

    def state(full=False):
        if quiet[0] and not full:
            return '{~%d}' % len(tr.tracks)
        return '{' + ' '.join(show_track(t) for t in tr.tracks) + '}'

    for k, op in enumerate(ops):
        try:
            if k % 3 == 2:
                decoy.pop_track(_DECOY_MSG.decode().mmsi)
            else:
                decoy.update(_DECOY_MSG, float(k))
        except Exception:  # noqa
            pass
        p = op.split(':')
        if p[0] == 't':
            CLOCK.t = float(p[1]) / TIME_SCALE[0]
        elif p[0] == 'z':
            quiet[0] = p[1] == '1'
        elif p[0] == 's':
            TIME_SCALE[0] = int(p[1])       # from here on clock values and time stamps are in units of 1/k second
        elif p[0] == 'l':
            tr.ttl_in_seconds = None if p[1] == 'N' else int(p[1])
        elif p[0] == 'r':
            tr.remove_callback(EV[p[1]], third_cb[p[1]])
            subscribed[p[1]] = False
        elif p[0] == 'a':
            # (subscribing twice is subscribing: one notification per event)
            tr.register_callback(EV[p[1]], third_cb[p[1]])
            subscribed[p[1]] = True
        elif p[0] == 'g':
            m_ = int(p[1])
            t = tr.get_track(str(m_) if k % 2 else m_)
            out.append('g%s %s' % ('N' if t is None else show_track(t), state()))
        elif p[0] == 'c':
            tr.cleanup()
            out.append('c[%s %s' % (take(), state()))
        elif p[0] == 'p':
            t = tr.pop_track(str(int(p[1])) if k % 2 else int(p[1]))       # (the MMSI may be given as str or int)
            out.append('p[%s%s %s' % (take(), 'N' if t is None else show_track(t), state()))
        elif p[0] == 'n':
            out.append('n[%s] %s' % (' '.join(str(t.mmsi) for t in tr.n_latest_tracks(int(p[1]))), state(full=True)))
        elif p[0] == 'u':
            try:
                s = DEC._assemble_messages(unhx(p[1]))
            except Exception as e:  # noqa
                out.append('u%s %s' % (err(e), state()))
                continue
            try:
                if p[2] != 'N' and TIME_SCALE[0] == 1 and p[2].lstrip('-').isdigit() and int(p[2]) > 2 ** 53:
                    # (a time stamp beyond the integers a float can hold - nanoseconds since the epoch - is handed
                    # over as the int it is)
                    tr.update(s, int(p[2]))
                else:
                    tr.update(s, None if p[2] == 'N' else float(p[2]) / TIME_SCALE[0])
                out.append('u+[%s %s' % (take(), state()))
            except ValueError:
                out.append('u-[%s %s' % (take(), state()))
            except Exception as e:  # noqa
                out.append('u%s %s' % (err(e), state()))
        else:
            out.append('BAD-OP')
    if len(ops) <= 120 and zlib.crc32(' '.join(ops).encode()) % 3 == 0 and not any(o.startswith('OBSERVER') for o in out):
        diff = _tracker_copies(ordered, ttl, ops)
        if diff:
            out[-1] = diff if out else diff
    return ' ; '.join(out)


def _tracker_copies(ordered, ttl, ops):
    """Copies of a tracker are trackers.  A tracker without subscribers is run through the first half of the history and
    copied: the deep copy is taken through the second half next to the original and must end in the same state; the
    shallow copy is left alone while the original goes on, and whatever it then shows must still be consistent in
    itself (n_latest_tracks against its own tracks).  Returns a marker line or None."""
    import copy
    CLOCK.t = 0.0
    TIME_SCALE[0] = 1
    tr = TR.AISTracker(ttl_in_seconds=ttl, stream_is_ordered=ordered)
    others = []
    half = len(ops) // 2

    def apply(t, k, p):
        try:
            if p[0] == 'c':
                t.cleanup()
            elif p[0] == 'p':
                t.pop_track(int(p[1]))
            elif p[0] == 'l':
                t.ttl_in_seconds = None if p[1] == 'N' else int(p[1])
            elif p[0] == 'n':
                t.n_latest_tracks(int(p[1]))
            elif p[0] == 'u':
                sn = DEC._assemble_messages(unhx(p[1]))
                if p[2] != 'N' and TIME_SCALE[0] == 1 and p[2].lstrip('-').isdigit() and int(p[2]) > 2 ** 53:
                    t.update(sn, int(p[2]))
                else:
                    t.update(sn, None if p[2] == 'N' else float(p[2]) / TIME_SCALE[0])
        except Exception as e:  # noqa
            return type(e).__name__
        return None

    def show(t):
        return sorted((x.mmsi, x.last_updated) for x in t.tracks)

    def nlatest_ok(t):
        ts = list(t.tracks)
        lus = {x.mmsi: x.last_updated for x in ts}
        for n in range(0, len(ts) + 2):
            r = [x.mmsi for x in t.n_latest_tracks(n)]
            left = [m for m in lus if m not in r]
            if len(r) != min(n, len(ts)) or len(set(r)) != len(r) or any(m not in lus for m in r) or \
                    (r and left and max(lus[m] for m in left) > min(lus[m] for m in r)):
                return 'n_latest_tracks(%d) = %s of tracks %s' % (n, r, sorted(lus.items(), key=lambda kv: kv[1]))
        return None

    shallow = None
    for k, op in enumerate(ops):
        p = op.split(':')
        if k == half:
            try:
                others = [copy.deepcopy(tr)]
                shallow = copy.copy(tr)
            except Exception as e:  # noqa
                return 'RESULT-DEPENDS-ON-EARLIER-RESULT copying a tracker raised ' + err(e)
        if p[0] == 't':
            CLOCK.t = float(p[1]) / TIME_SCALE[0]
            continue
        if p[0] == 's':
            TIME_SCALE[0] = int(p[1])
            continue
        r0 = apply(tr, k, p)
        for o in others:
            r1 = apply(o, k, p)
            if r1 != r0:
                return ('RESULT-DEPENDS-ON-EARLIER-RESULT a deep copy of the tracker answers operation %d (%s) with %s, the '
                        'original with %s' % (k, op[:20], r1, r0))
    try:
        for o in others:
            if show(o) != show(tr):
                return ('RESULT-DEPENDS-ON-EARLIER-RESULT a deep copy of the tracker (taken after operation %d) ends with '
                        'tracks %s, the original with %s' % (half, show(o)[:6], show(tr)[:6]))
        for name, t in [('deep copy', o) for o in others] + ([('shallow copy', shallow)] if shallow is not None else []):
            bad = nlatest_ok(t)
            if bad:
                return 'RESULT-DEPENDS-ON-EARLIER-RESULT the %s of the tracker (taken after operation %d): %s' % (name, half, bad)
    except Exception as e:  # noqa
        return 'RESULT-DEPENDS-ON-EARLIER-RESULT asking a copy of the tracker raised ' + err(e)
    return None


# ------------------------------------------------------------------------------------------------
# filters
# ------------------------------------------------------------------------------------------------

def make_pred(spec):
    if spec[0] == 'always':
        return lambda m: True
    if spec[0] == 'never':
        return lambda m: False
    if spec[0] == 'has':
        return lambda m: hasattr(m, spec[1])
    if spec[0] == 'truthy':
        # a predicate that hands back the attribute itself (None, '', 0, 0.0, b'' and a zero enum member are "no")
        return lambda m: getattr(m, spec[1], None)
    if spec[0] == 'lt':
        bound = _D(int(spec[2])) / 1000000

        def lt(m):
            v = getattr(m, spec[1], None)
            if v is None or isinstance(v, (str, bytes)):
                return False
            return _D(repr(float(v))) < bound
        return lt
    if spec[0] == 'eq':
        want = ':'.join(spec[2:])
        return lambda m: hasattr(m, spec[1]) and canon_val(getattr(m, spec[1])) == want
    raise ValueError(spec)


def make_filter(s, reconfigure=False):
    """`reconfigure`: the filter is built with other parameters and then given the wanted ones through its public
    attributes (a long-lived filter that is re-targeted)"""
    f = _make_filter(s)
    if not reconfigure:
        return f
    if isinstance(f, FL.MessageTypeFilter):
        g = FL.MessageTypeFilter(1, 2, 3, 27)
        g.types = f.types
    elif isinstance(f, FL.NoneFilter):
        g = FL.NoneFilter('mmsi', 'no_such_attribute')
        g.attrs = f.attrs
    elif isinstance(f, FL.DistanceFilter):
        g = FL.DistanceFilter((0.0, 0.0), 1.0)
        g.ref_lat_lon, g.distance_km = f.ref_lat_lon, f.distance_km
    elif isinstance(f, FL.GridFilter):
        g = FL.GridFilter(-1.0, -1.0, 1.0, 1.0)
        g.lat_min, g.lon_min, g.lat_max, g.lon_max = f.lat_min, f.lon_min, f.lat_max, f.lon_max
    elif isinstance(f, FL.AttributeFilter):
        g = FL.AttributeFilter(lambda m: False)
        g.ff = f.ff
    else:
        g = f
    return g


def _make_filter(s):
    p = s.split(':')
    if p[0] == 'A':
        return FL.AttributeFilter(make_pred(p[1:]))
    if p[0] == 'N':
        return FL.NoneFilter(*([] if p[1] == '-' else p[1].split(',')))
    if p[0] == 'T':
        return FL.MessageTypeFilter(*([] if p[1] == '-' else [int(x) for x in p[1].split(',')]))
    if p[0] == 'D':
        return FL.DistanceFilter((float(_D(int(p[1])) / 1000000), float(_D(int(p[2])) / 1000000)),
                                 float(_D(int(p[3])) / 1000000000))
    if p[0] == 'G':
        return FL.GridFilter(*[float(_D(int(x)) / 1000000) for x in p[1:5]])
    raise ValueError(s)


class _Wrap:
    """a stream element whose decode() returns a tagged decoded message"""

    def __init__(self, idx, line):
        self.idx, self.line = idx, line

    def decode(self):
        m = pyais.decode(self.line)
        IDX[id(m)] = self.idx
        KEEP.append(m)
        return m


IDX, KEEP = {}, []


_SIB_SEEN = set()


def run_chain(fspec, lines):
    IDX.clear()
    del KEEP[:]
    filters = [make_filter(s) for s in fspec.split('+')]
    chain = FL.FilterChain(filters)
    elems = []
    fresh = [l for l in lines if l not in _SIB_SEEN]      # once per process and line is enough here
    _SIB_SEEN.update(fresh)
    _siblings(fresh)
    for i, l in enumerate(lines):
        try:
            pyais.decode(l)
        except Exception:  # noqa  (undecodable lines are not part of the input of the chain)
            continue
        elems.append(_Wrap(i, l))
    out = [IDX[id(m)] for m in chain.filter(elems)]
    res = '[' + ','.join(str(i) for i in out) + ']'
    # one chain object serves any number of streams
    again = _try(lambda: '[' + ','.join(str(IDX[id(m)]) for m in chain.filter(list(elems))) + ']')
    if again != res:
        return 'READERS-DIFFER chain-first-stream=%s same-chain-second-stream=%s' % (res, again)
    # a stream that delivers nothing (an empty log, noise only, a message that never completes) gives nothing
    for what, empty in (('an empty list', lambda: []), ('an exhausted iterator', lambda: iter(())),
                        ('a reader that delivers nothing', lambda: ST.IterMessages(
                            [b'$GPGGA,123519,4807.038,N,01131.000,E,1,08,0.9,545.4,M,46.9,M,,*47', b'',
                             b'!AIVDM,2,1,3,A,55?MbV02;H;s<HtKR20EHE:0@T4@Dn2222222216L961O5Gf0NSQEp6ClRp8,0*1C']))):
        got = _try(lambda: [1 for _ in FL.FilterChain([make_filter(x) for x in fspec.split('+')]).filter(empty())])
        if got != []:
            return 'READERS-DIFFER chain-over-%s=%s expected-nothing' % (what.replace(' ', '-'), got if isinstance(got, str) else
                                                                        '%d messages' % len(got))
    # filters that were built for something else and then re-targeted through their public attributes
    rec = _try(lambda: '[' + ','.join(str(IDX[id(m)]) for m in FL.FilterChain(
        [make_filter(x, reconfigure=True) for x in fspec.split('+')]).filter(list(elems))) + ']')
    if rec != res:
        return 'READERS-DIFFER chain-of-fresh-filters=%s chain-of-reconfigured-filters=%s' % (res, rec)
    # the same chain (fresh filter objects) over the sentence objects a reader delivers
    try:
        sents = []
        for e in elems:
            sobj = next(iter(ST.IterMessages([e.line])))
            sobj.__class__ = _sent_class()
            SENT_IDX[id(sobj)] = e.idx
            sents.append(sobj)
    except (TypeError, StopIteration):
        return res
    chain2 = FL.FilterChain([make_filter(s) for s in fspec.split('+')])
    try:
        out2 = [IDX[id(m)] for m in chain2.filter(iter(sents))]
        res2 = '[' + ','.join(str(i) for i in out2) + ']'
    except Exception as e:  # noqa
        res2 = err(e)
    if res2 == res:
        # a reader object (not an iterator) can be filtered more than once
        try:
            rd = ST.IterMessages([e.line for e in elems])
            n1 = len(list(chain2.filter(rd)))
            n2 = len(list(chain2.filter(rd)))
            n3 = len(list(FL.FilterChain([make_filter(s) for s in fspec.split('+')]).filter(rd)))
            if not (n1 == n2 == n3 == len(out)):
                res2 = 'one reader filtered three times: %d, %d, %d messages (expected %d each)' % (n1, n2, n3, len(out))
        except Exception as e:  # noqa
            res2 = 'filtering a reader raised ' + err(e)
    SENT_IDX.clear()
    if res2 != res:
        return 'READERS-DIFFER chain-over-decodables=%s chain-over-sentences=%s' % (res, res2)
    return res


SENT_IDX = {}
_SENT_CLASS = []


def _sent_class():
    if not _SENT_CLASS:
        class _Sent(M.AISSentence):
            __slots__ = ()

            def decode(self):
                m = M.AISSentence.decode(self)
                IDX[id(m)] = SENT_IDX[id(self)]
                KEEP.append(m)
                return m
        _SENT_CLASS.append(_Sent)
    return _SENT_CLASS[0]


def step2(line):
    p = line.split()
    cmd = p[0]
    if cmd == 'parse':
        _siblings([unhx(p[1])])
        raw = unhx(p[1])
        fam = {'NMEASentenceFactory.produce': _try(lambda: show_sentence(M.NMEASentenceFactory.produce(raw))),
               'decode_nmea_line': _try(lambda: show_sentence(DEC.decode_nmea_line(raw)))}
        if ' ais=1 ' in fam['NMEASentenceFactory.produce'] and ' tb=N ' in fam['NMEASentenceFactory.produce'] \
                and fam['NMEASentenceFactory.produce'].startswith('raw=%s ' % hx(raw)):
            # (the factory strips blanks and tag blocks first; a line it takes as it is ...)
            # an AIS sentence without tag block can also be built directly
            fam['AISSentence.from_bytes'] = _try(lambda: show_sentence(M.AISSentence.from_bytes(raw)))
            try:
                text = raw.decode('utf-8')
                if text.encode('utf-8') == raw:
                    fam['AISSentence.from_string'] = _try(lambda: show_sentence(M.AISSentence.from_string(text)))
            except UnicodeDecodeError:
                pass
        return _family(fam)
    if cmd == 'decode':
        args = [unhx(x) for x in p[2:]]
        strict = (p[1] == '1')
        _siblings(args)
        fam = {'decode': _try(lambda: canon_msg(pyais.decode(*args, error_if_checksum_invalid=strict))),
               'decode_nmea_and_ais': _try(lambda: canon_msg(DEC.decode_nmea_and_ais(*args, error_if_checksum_invalid=strict)[1]))}
        try:
            sargs = [a.decode('utf-8') for a in args]
            if [a.encode('utf-8') for a in sargs] == args:
                fam['decode(str)'] = _try(lambda: canon_msg(pyais.decode(*sargs, error_if_checksum_invalid=strict)))
        except UnicodeDecodeError:
            pass
        if len(args) == 1 and not strict and not fam['decode'].startswith('ERR') and args[0][:1] in (b'!', b'$') \
                and args[0] == args[0].strip():
            # a sentence object built directly from a line that still carries its line terminator
            for term in (b'\r\n', b'\n'):
                fam['AISSentence.from_bytes(line + %r).decode()' % term] = _try(
                    lambda: canon_msg(M.AISSentence.from_bytes(args[0] + term).decode()))
        if not fam['decode'].startswith('ERR'):
            def again_after_modification():
                first = pyais.decode(*args, error_if_checksum_invalid=strict)
                for name in list(first.asdict()):
                    try:
                        setattr(first, name, None)
                    except Exception:  # noqa
                        pass
                return canon_msg(pyais.decode(*args, error_if_checksum_invalid=strict))
            fam['decode again after the caller modified the first result'] = _try(again_after_modification)
        if len(args) > 1 and not strict and not fam['decode'].startswith('ERR'):
            def peek_then_assemble():
                sents = [M.NMEASentenceFactory.produce(a) for a in args]
                ais = [x for x in sents if x.TYPE == 'AIS']
                for x in ais:
                    try:
                        x.decode()              # a look at the fragment on its own (may raise: incomplete)
                    except Exception:  # noqa
                        pass
                return canon_msg(M.AISSentence.assemble_from_iterable(ais).decode())
            if all(' ais=1 ' in _try(lambda a=a: show_sentence(M.NMEASentenceFactory.produce(a))) for a in args):
                fam['assemble_from_iterable after each fragment was decoded on its own'] = _try(peek_then_assemble)
        if len(args) == 1 and not strict and not fam['decode'].startswith('ERR'):
            # a single line may be handed to the in-memory reader as it is (bytes, or str through from_strings)
            def one(reader):
                got = [canon_msg(m.decode()) for m in reader]
                return got[0] if len(got) == 1 else '%d deliveries' % len(got)
            fam['IterMessages(line)'] = _try(lambda: one(ST.IterMessages(args[0])))
            if 'decode(str)' in fam:
                fam['IterMessages.from_strings(line)'] = _try(lambda: one(ST.IterMessages.from_strings(args[0].decode('utf-8'))))
        res = _family(fam)
        if not res.startswith(('ERR', 'READERS-DIFFER')):
            # the merged view of sentence and decoded message shows the decoded fields as decode() does
            try:
                sobj = DEC._assemble_messages(*args, error_if_checksum_invalid=strict)
                merged = sobj.decode_and_merge()
                plain = sobj.decode().asdict()
                bad = [k for k, v in plain.items() if k not in merged or merged[k] != v or type(merged[k]) is not type(v)]
                if bad or 'bit_array' in merged:
                    return 'READERS-DIFFER decode_and_merge shows other values than decode(): %s' % (bad[:5] or 'bit_array')
            except Exception:  # noqa  (the merged view is not part of decode()'s contract: compared only where it exists)
                pass
        return res
    if cmd == 'assemble':
        _siblings([unhx(x) for x in p[2:]])
        return show_sentence(DEC._assemble_messages(*[unhx(x) for x in p[2:]], error_if_checksum_invalid=(p[1] == '1')))
    if cmd == 'stream':
        return run_stream(p[1], p[2] == '1', [unhx(x) for x in p[3:]])
    if cmd == 'file':
        return file_readers(unhx(p[2]), p[1] == '1')
    if cmd == 'socket':
        chunks = [unhx(x) for x in p[2:]]
        fam = {cls.__name__: run_unindexed(lambda q, cls=cls: make_socket_stream(chunks, q, cls), p[1] == '1')
               for cls in SOCKET_CLASSES}
        if p[1] != '1' and 'CRASH' not in fam['SocketStream']:
            alt = _by_next(make_socket_stream(chunks, None, ST.TCPConnection), b''.join(chunks).count(b'\n') + 1)
            fam['TCPConnection by next()'] = alt if isinstance(alt, str) else _emit([(0, 'D', t) for t in alt], None)
        return _family(fam)
    if cmd == 'sock':
        return sock_read([unhx(x) for x in p[1:]])
    if cmd == 'tbq':
        return run_tbq([unhx(x) for x in p[1:]])
    if cmd == 'tagblock.parse':
        tb = M.TagBlock(unhx(p[1]))
        tb.init()
        res = show_tb(tb)
        # what a tag block parses to does not depend on what a caller did to an earlier result
        try:
            if tb.group is not None:
                tb.group.group_id += 100000
                tb.group.sentence_tot = 9
        except Exception:  # noqa
            pass
        tb2 = M.TagBlock(unhx(p[1]))
        tb2.init()
        if show_tb(tb2) != res:
            return 'RESULT-DEPENDS-ON-EARLIER-RESULT first=%s second=%s' % (res, show_tb(tb2))
        return res
    if cmd == 'tagblock.create':
        fields = {}
        if p[1] != '-':
            for kv in p[1].split(';'):
                k, v = kv.split('=')
                fields[k] = None if v == 'N' else unhx(v).decode('utf-8')
        return _family({'TagBlock.create': _try(lambda: hx(M.TagBlock.create(**fields))),
                        'TagBlock.create_str': _try(lambda: hx(M.TagBlock.create_str(**fields).encode('utf-8')))})
    if cmd == 'cycle_msg':
        m = getattr(M, p[1]).from_bitarray(parse_bits(p[2]))
        try:
            sents = ENC.encode_msg(m, talker_id='AIVDM', radio_channel='B')
        except Exception:  # noqa
            return 'SKIP'          # not re-encodable: reported by the to_bitarray part of the check
        fam = {'decode(sentences as emitted)': _try(lambda: canon_msg(pyais.decode(*sents)))}

        def again_after_modification():
            first = pyais.decode(*sents)
            for name in list(first.asdict()):
                try:
                    setattr(first, name, None)
                except Exception:  # noqa
                    pass
            return canon_msg(pyais.decode(*sents))
        fam['decode again after the caller modified the first result'] = _try(again_after_modification)
        if len(sents) > 1:
            fam['decode(sentences reversed)'] = _try(lambda: canon_msg(pyais.decode(*sents[::-1])))
            # the re-encoded log read back through ONE queue for the whole run, every message with its sentences in
            # reverse order (all re-encoded multi-sentence messages share the slot (0, B))

            def through_queue():
                _CYCLE_N[0] += 1
                for x in (sents[::-1] if _CYCLE_N[0] % 2 else sents):      # alternately reversed and as emitted
                    _CYCLE_Q.put_line(x.encode('ascii'))
                got = []
                while True:
                    g = _CYCLE_Q.get_or_none()
                    if g is None:
                        break
                    got.append(canon_msg(g.decode()))
                return got[0] if len(got) == 1 else '%d deliveries: %s' % (len(got), got)
            fam['one long-lived NMEAQueue, sentences alternately reversed'] = _try(through_queue)
        return _family(fam)
    if cmd == 'reencode':
        return show_bits(getattr(M, p[1]).from_bitarray(parse_bits(p[2])).to_bitarray())
    if cmd == 'create':
        return canon_msg(getattr(M, p[1]).create(**parse_kw(p[2])))
    if cmd == 'tobits':
        return show_bits(getattr(M, p[1]).create(**parse_kw(p[2])).to_bitarray())
    if cmd in ('encode_dict', 'encode_msg'):
        # close relatives first: the same message with its variable-length tail one octet / one character shorter
        # (an encoder that remembers results under an incomplete key answers the real call from them)
        try:
            kw_ = parse_kw(p[3] if cmd == 'encode_dict' else p[4])
            for name in ('data', 'text', 'name_ext'):
                if isinstance(kw_.get(name), (bytes, str)) and len(kw_[name]) > 1:
                    k2_ = dict(kw_)
                    k2_[name] = kw_[name][:-1]
                    if cmd == 'encode_dict':
                        ENC.encode_dict(k2_, talker_id='AIVDM', radio_channel='A')
                    else:
                        ENC.encode_msg(getattr(M, p[1]).create(**k2_))
        except Exception:  # noqa
            pass
    if cmd == 'encode_dict':
        r = _twice(lambda: ENC.encode_dict(parse_kw(p[3]), talker_id=unhx(p[1]).decode('latin-1'),
                                           radio_channel=unhx(p[2]).decode('latin-1')))
        return ','.join(hx(s.encode('latin-1')) for s in r)
    if cmd == 'encode_msg':
        m = getattr(M, p[1]).create(**parse_kw(p[4]))
        talker, chan = unhx(p[2]).decode('latin-1'), unhx(p[3]).decode('latin-1')
        r = _twice(lambda: ENC.encode_msg(m, talker_id=talker, radio_channel=chan))
        res = ','.join(hx(s.encode('latin-1')) for s in r)
        if talker in ('AIVDM', 'AIVDO') and chan in ('A', 'B'):
            # the same message by hand: Payload.encode() / to_bitarray() + encode_ascii_6, then ais_to_nmea_0183
            fam = {'encode_msg': res}
            fam['msg.encode() + ais_to_nmea_0183'] = _try(lambda: ','.join(
                hx(x.encode('latin-1')) for x in ENC.ais_to_nmea_0183(m.encode()[0], talker, chan, m.encode()[1])))
            fam['to_bitarray() + encode_ascii_6 + ais_to_nmea_0183'] = _try(lambda: ','.join(
                hx(x.encode('latin-1')) for x in _manual_encode(m, talker, chan)))
            # a message object is encoded, changed, encoded, changed back and encoded again: the last result is the first
            try:
                old = m.mmsi
                m.mmsi = 123456789 if int(old or 0) != 123456789 else 987654321
                ENC.encode_msg(m, talker_id=talker, radio_channel=chan)
                m.mmsi = old
                fam['encode_msg after the object was changed and changed back'] = ','.join(
                    hx(x.encode('latin-1')) for x in ENC.encode_msg(m, talker_id=talker, radio_channel=chan))
            except AttributeError:
                pass
            return _family(fam)
        return res
    if cmd == 'nmea':
        r = _twice(lambda: ENC.ais_to_nmea_0183(unhx(p[1]).decode('latin-1'), unhx(p[2]).decode('latin-1'),
                                                unhx(p[3]).decode('latin-1'), int(p[4])))
        return ','.join(hx(s.encode('latin-1')) for s in r) if r else '-'
    if cmd == 'tracker_re':
        return run_tracker_reentrant(p[1] == '1', None if p[2] == 'N' else int(p[2]), p[3], p[4:])
    if cmd == 'tracker':
        return run_tracker(p[1] == '1', None if p[2] == 'N' else int(p[2]), p[3:])
    if cmd == 'chain':
        return run_chain(p[1], [unhx(x) for x in p[3:]])
    return None


def _siblings(lines):
    """Decoding is a function of the sentences handed in, not of what was decoded before: first decode
    close relatives of every AIS line (same payload with other fill-bit counts, same line with
    another payload), so that a result memoised under an incomplete key shows up in the real call."""
    for l in lines:
        try:
            head, star, chk = l.rpartition(b'*')
            f = head.split(b',')
            if star and len(f) >= 7 and f[-1][:1].isdigit():
                for d in (1, 3):
                    g = list(f)
                    g[-1] = b'%d' % ((int(f[-1][:1]) + d) % 6)
                    try:
                        pyais.decode(b','.join(g) + b'*00')
                    except Exception:  # noqa
                        pass
                g = list(f)
                g[-2] = (f[-2][1:] + f[-2][:1]) if len(f[-2]) > 1 else b'0'
                try:
                    pyais.decode(b','.join(g) + b'*00')
                except Exception:  # noqa
                    pass
        except Exception:  # noqa
            pass


_CYCLE_Q = Q.NMEAQueue()
_CYCLE_N = [0]


def _manual_encode(m, talker, chan):
    armored, fill = U.encode_ascii_6(m.to_bitarray())
    return ENC.ais_to_nmea_0183(armored, talker, chan, fill)


def _twice(fn):
    """The encoder is a function of its arguments: call it, let the caller consume the returned list in
    place (as a sender popping the sentences would), call it again with the same arguments and report
    what the second caller gets (a result that aliases state of the first call shows up here)."""
    first = fn()
    snapshot = list(first)
    try:
        first.clear()
    except Exception:  # noqa
        pass
    second = fn()
    return list(second) if list(second) != snapshot else snapshot


_step1 = step


_NOISE = []


def _start_noise():
    """Another thread of the application decodes, encodes and parses all the time (VERIF_NOISE=1): what the observed
    calls return does not depend on it."""
    import threading
    lines = [b'!AIVDM,1,1,,A,15M67FC000G?ufbE`FepT@3n00Sa,0*5C', b'!AIVDM,1,1,,B,B52KB8h006fu`Q6:g1McCwb5oP06,0*00',
             b'!AIVDM,2,1,1,A,55?MbV02;H;s<HtKR20EHE:0@T4@Dn2222222216L961O5Gf0NSQEp6ClRp8,0*1C']

    def work():
        i = 0
        while True:
            i += 1
            try:
                pyais.decode(lines[i % 2])
                M.NMEASentenceFactory.produce(lines[2])
                if i % 7 == 0:
                    ENC.encode_dict({'type': 1, 'mmsi': i % 1000})
            except Exception:  # noqa
                pass
    t = threading.Thread(target=work, daemon=True)
    t.start()
    _NOISE.append(t)


def step(line):  # noqa: F811
    if not _NOISE and os.environ.get('VERIF_NOISE') == '1':
        _start_noise()
    import decimal
    with decimal.localcontext() as dctx:
        # the application around the library may have set the decimal context to its own needs
        dctx.rounding = decimal.ROUND_DOWN
        return _step_outer(line)


def _step_outer(line):
    try:
        r = step2(line)
        if r is not None:
            return r
    except Exception as e:  # noqa
        return err(e)
    return _step1(line)
