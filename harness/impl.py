"""Tie 2, implementation side: the real pyais behind the same line protocol as lean/Driver.lean."""
import enum
from decimal import Decimal

import pyais
from pyais import messages as M
from pyais import util as U
from pyais import exceptions as X
from bitarray import bitarray

ERR_NAMES = {
    'InvalidNMEAMessageException', 'InvalidNMEAChecksum', 'UnknownMessageException',
    'MissingMultipartMessageException', 'TooManyMessagesException', 'UnknownPartNoException',
    'InvalidDataTypeException', 'NonPrintableCharacterException', 'MissingPayloadException',
    'TagBlockNotInitializedException', 'ValueError', 'UnicodeDecodeError', 'IndexError', 'KeyError',
    'TypeError', 'OverflowError',
}


def err(e):
    n = type(e).__name__
    if n not in ERR_NAMES:
        for c in type(e).__mro__:
            if c.__name__ in ERR_NAMES:
                n = c.__name__
                break
    return 'ERR:' + n


def canon_val(v):
    if v is None:
        return 'N'
    if isinstance(v, enum.Enum):
        val = v.value
        if isinstance(val, float) and val == int(val):
            val = int(val)
        return 'e:%s:%s' % (type(v).__name__, val)
    if isinstance(v, bool):
        return 'b:1' if v else 'b:0'
    if isinstance(v, int):
        return 'i:%d' % v
    if isinstance(v, float):
        d = Decimal(repr(v)) * 1000000
        if d == d.to_integral_value():
            return 'f:%d' % int(d)
        return 'f?%r' % v
    if isinstance(v, str):
        return 's:' + ''.join('%02x' % (ord(c) if ord(c) < 256 else 0xff) for c in v)
    if isinstance(v, (bytes, bytearray)):
        return 'y:' + bytes(v).hex()
    return '?%r' % (v,)


def canon_msg(msg):
    d = msg.asdict()
    d.pop('full_name', None)
    return type(msg).__name__ + '|' + ';'.join('%s=%s' % (k, canon_val(v)) for k, v in d.items())


def parse_bits(s):
    return bitarray('' if s == '-' else s)


def show_bits(b):
    s = b.to01()
    return s if s else '-'


def show_opt(v):
    return 'N' if v is None else str(int(v))


CS_KEYS = [('rs', 'received_stations'), ('sn', 'slot_number'), ('uh', 'utc_hour'), ('um', 'utc_minute'),
           ('so', 'slot_offset'), ('st', 'slot_timeout'), ('ss', 'sync_state'), ('kf', 'keep_flag'),
           ('si', 'slot_increment'), ('ns', 'num_slots')]


def show_cs(d):
    return ','.join('%s=%s' % (a, show_opt(d.get(k))) for a, k in CS_KEYS)


class _Radio(M.CommunicationStateMixin):
    def __init__(self, t, r):
        self.msg_type = t
        self.radio = r


def decode_bits(bits):
    """MSG_CLASS[ais_id].from_bitarray with the KeyError translation of AISSentence.decode"""
    ais_id = U.get_int(bits, 0, 6)
    try:
        return M.MSG_CLASS[ais_id].from_bitarray(bits)
    except KeyError as e:
        raise X.UnknownMessageException('unknown') from e


def step(line):
    p = line.split()
    try:
        cmd = p[0]
        if cmd == 'frombits':
            return canon_msg(decode_bits(parse_bits(p[1])))
        if cmd == 'frombits_cls':
            return canon_msg(getattr(M, p[1]).from_bitarray(parse_bits(p[2])))
        if cmd == 'dearmor':
            data = b'' if p[1] == '-' else bytes.fromhex(p[1])
            return show_bits(U.decode_into_bit_array(data, int(p[2])))
        if cmd == 'armor':
            s, f = U.encode_ascii_6(parse_bits(p[1]))
            return '%s %d' % (s.encode().hex(), f)
        if cmd == 'sotdma':
            return show_cs(U.get_sotdma_comm_state(int(p[1])))
        if cmd == 'itdma':
            return show_cs(U.get_itdma_comm_state(int(p[1])))
        if cmd == 'commstate':
            m = _Radio(int(p[1]), int(p[2]))
            return '%s %s %d %s' % (str(m.is_sotdma).lower(), str(m.is_itdma).lower(),
                                    m.communication_state_raw, show_cs(m.get_communication_state()))
        return 'BAD-OP'
    except Exception as e:  # noqa
        return err(e)
