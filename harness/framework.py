"""The verdict pipeline shared by all property checks (DESIGN §4.3)."""
import hashlib
import importlib
import json
import os
import sys
import time
import traceback

from . import common
from .common import Infra, VERIF


class Ctx:
    """what a property module talks to while it runs"""

    def __init__(self, pid, tier, seed, model_available, model_partial=False):
        self.pid = pid
        self.tier = tier
        self.seed = seed
        self.model_available = model_available
        self.model_partial = model_partial     # the translator could not translate everything
        self.t0 = time.time()
        self.evaluations = 0
        self.nontrivial = set()
        self.dist = {}
        self.samples = []
        self.disagreements = []     # correspondence: model != implementation
        self.failures = []          # property violated on the implementation (oracle)
        self.corr_commands = {}
        self.notes = []
        self.budget_s = {'quick': 60, 'thorough': 600}[tier]

    # --- bookkeeping -------------------------------------------------------------------------
    def rng(self, salt=''):
        return common.rng_for(self.seed, self.pid + '/' + salt)

    def count(self, key, n=1):
        self.dist[key] = self.dist.get(key, 0) + n

    def sample(self, x, cap=6):
        if len(self.samples) < cap:
            self.samples.append(x)

    def time_left(self):
        return self.budget_s - (time.time() - self.t0)

    def nontriv(self, key):
        """register a distinct non-trivial case (hash of its canonical input)"""
        self.nontrivial.add(hashlib.sha1(repr(key).encode()).digest()[:8])

    # --- tie 2 -------------------------------------------------------------------------------
    def corr(self, lines, impl_step, label, nontrivial=None, workers=False):
        """run the same operation lines through the Lean model and the implementation and diff.

        nontrivial: optional predicate on (line, impl_output) marking a case as non-trivial
        (default: every case whose implementation output is not an error)."""
        if not lines:
            return []
        t_impl = time.time()
        impl_out = common.pmap(impl_step, lines, threshold=1 if workers else 800)
        self.dist['time_impl_s'] = round(self.dist.get('time_impl_s', 0) + time.time() - t_impl, 2)
        self.evaluations += len(lines)
        self.corr_commands[label] = self.corr_commands.get(label, 0) + len(lines)
        for l, o in zip(lines, impl_out):
            for marker in FAMILY_MARKERS:
                if marker in o:
                    # the harness's own cross-checks on the implementation (members of one reader / API family fed
                    # the same input, the same question asked twice, a second observer): a concrete failing input
                    self.fail('the implementation disagrees with itself: ' + marker, {'family_op': l},
                              'one answer', o[o.index(marker):][:600], {'kind': 'family', 'marker': marker})
                    break
            nt = nontrivial(l, o) if nontrivial else not o.startswith('ERR:')
            if nt:
                self.nontriv(l)
            self.count('%s:%s' % (label, 'err' if o.startswith('ERR:') else 'ok'))
        if not self.model_available:
            self.notes.append('model driver unavailable: correspondence for %s skipped' % label)
            return impl_out
        t_model = time.time()
        model_out = common.run_model(lines)
        self.dist['time_model_s'] = round(self.dist.get('time_model_s', 0) + time.time() - t_model, 2)
        for l, a, b in zip(lines, model_out, impl_out):
            if a != b:
                if 'OUTSIDE-MODEL' in a and os.environ.get('VERIF_ALLOW_OUTSIDE'):
                    self.count('outside-model-skipped')
                    continue
                # ('OUTSIDE-MODEL' without a declared partial model: the model regenerated from this source tree does
                # not cover an input of the property's domain - e.g. a tabulated converter that is asked for a value
                # outside its table.  The correspondence is not established for it: recorded like any disagreement.)
                self.disagreements.append({'command': label, 'line': l, 'model': a, 'impl': b})
        if len(self.samples) < 4:
            self.sample({'op': lines[0][:400], 'model': model_out[0][:400], 'impl': impl_out[0][:400]})
        return impl_out

    # --- property oracle on the implementation -----------------------------------------------
    def fail(self, what, input, expected, observed, signature=None):
        self.failures.append({'what': what, 'input': input, 'expected': expected, 'observed': observed,
                              'signature': signature or {}, 'seed': self.seed, 'tier': self.tier})


FAMILY_MARKERS = ('READERS-DIFFER', 'RESULT-DEPENDS-ON-EARLIER-RESULT', 'OBSERVER-CALLED-')


def match_known(failure, findings, pid):
    sig = failure.get('signature') or {}
    for f in findings:
        if f.get('property') != pid or f.get('status') != 'open':
            continue
        m = f.get('match') or {}
        if m and all(sig.get(k) == v for k, v in m.items()):
            return f
    return None


def write_replay(pid, kind, payload):
    h = hashlib.sha1(json.dumps(payload, sort_keys=True, default=str).encode()).hexdigest()[:12]
    path = os.path.join(VERIF, 'replays', '%s-%s-%s.json' % (pid, kind, h))
    common.write_json(path, payload)
    return os.path.relpath(path, VERIF)


# which translated parts of the source a property's model and theorems depend on (tags of
# harness/translate.py: untranslatable items of other parts do not concern the property)
ALL_TAGS = {'codec', 'frag', 'bufs', 'enc', 'streamfilter', 'armor', 'cs', 'tag', 'track', 'talker', 'filter'}
DEPENDS = {
    'C01': {'codec', 'armor', 'frag'}, 'C02': {'codec', 'armor', 'frag', 'enc'},
    'C03': {'frag', 'bufs', 'armor'}, 'C04': {'codec', 'armor', 'frag', 'talker'},
    'C05': {'codec', 'armor', 'frag', 'bufs', 'streamfilter', 'tag'},
    'C06': {'frag', 'bufs', 'streamfilter', 'armor'},
    'C07': {'codec', 'armor', 'frag', 'bufs', 'streamfilter', 'tag'}, 'C08': {'codec'},
    'C09': {'codec', 'armor', 'frag', 'enc'}, 'C10': {'armor', 'frag', 'talker'},
    'C11': {'codec', 'armor', 'frag'},
    'C12': {'codec', 'armor', 'frag', 'track'}, 'C13': {'codec', 'armor', 'frag', 'track'},
    'C14': {'codec', 'armor', 'frag', 'track'}, 'C15': {'codec', 'armor', 'frag', 'track'},
    'C16': {'tag', 'frag', 'armor'}, 'C17': {'tag', 'frag', 'bufs', 'armor', 'streamfilter'},
    'C18': {'frag', 'bufs', 'armor', 'streamfilter'}, 'C19': {'codec', 'armor', 'frag', 'filter'},
    'C20': {'cs', 'codec', 'armor'},
}


def generic_search(prop, ctx, pid):
    """failing-input search for properties without a directed one: the run's own generators and
    oracles once more, implementation only, with other seeds"""
    for k in range(1, 4):
        c2 = Ctx(pid, ctx.tier, ctx.seed * 7919 + 104729 * k, False)
        c2.budget_s = ctx.budget_s
        prop.run(c2)
        ctx.evaluations += c2.evaluations
        ctx.dist['search_round_%d_cases' % k] = c2.evaluations
        if c2.failures:
            ctx.failures.extend(c2.failures)
            break


def run_check(pid, tier, replay=None):
    t0 = time.time()
    seed = common.seed_from_env()
    mod = importlib.import_module('harness.props.' + pid.lower())
    prop = mod.PROP
    findings = common.load_known_findings()

    if replay:
        payload = json.load(open(replay))
        if 'failure' not in payload:
            # a "no longer shown" report: nothing concrete to replay; re-run the whole check instead
            print('replay %s names proof obligations / correspondences, not an input: re-running the check' % replay)
            return run_check(pid, payload.get('tier', tier))
        ok = None
        if 'family_op' in payload['failure'].get('input', {}):
            from . import impl
            o = impl.step(payload['failure']['input']['family_op'])
            print('observed:', o[:600])
            ctx = Ctx(pid, tier, seed, False)
            ok = not any(mk in o for mk in FAMILY_MARKERS)
        elif hasattr(prop, 'replay'):
            ctx = Ctx(pid, tier, seed, False)
            ok = prop.replay(ctx, payload)        # None = not handled by the property's own replay
        alone = ok
        if ok is None or ok is True:
            # generic replay: regenerate the run's cases from the recorded seed and tier (generation is
            # deterministic), run them on the implementation only, and look for the recorded input.  Also done when
            # the input passes on its own: a failure may need the history of the run (something remembered in the
            # process from earlier inputs) to show.
            fl = payload['failure']
            ctx = Ctx(pid, fl.get('tier', payload.get('tier', tier)), fl.get('seed', payload.get('seed', seed)), False)
            try:
                prop.run(ctx)
            except Exception:  # noqa
                if not any((f.get('signature') or {}).get('kind') == 'family' for f in ctx.failures):
                    raise
            target = json.dumps(payload['failure']['input'], sort_keys=True, default=str)
            same_input = [f for f in ctx.failures if json.dumps(f['input'], sort_keys=True, default=str) == target]
            same_kind = [f for f in ctx.failures if (f.get('signature') or {}) == (fl.get('signature') or {})
                         and not match_known(f, findings, pid)]
            if not same_input and same_kind:
                # which input trips over something the process remembers depends on the order of evaluation; the run
                # still fails in the same way
                print('the recorded input does not fail this time, but %d other input(s) of the same run fail in the same '
                      'way (the failure depends on what the process has seen before); first of them shown' % len(same_kind))
                same_input = same_kind[:1]
            ctx.failures = same_input
            ok = not ctx.failures
            if alone is True and not ok:
                print('the input passes on its own but fails in the course of the run it was found in (seed %s): the '
                      'failure depends on what the process has seen before' % fl.get('seed'))
        # a failure that is an open known finding is reported as such, as in a normal run
        known = [f for f in ctx.failures if match_known(f, findings, pid)]
        for f in known:
            print('KNOWN-FINDING: property=%s %s' % (pid, match_known(f, findings, pid).get('what', '')[:200]))
        fresh = [f for f in ctx.failures if not match_known(f, findings, pid)]
        if not ok and known and not fresh and payload['failure'].get('signature') != known[0].get('signature'):
            # what fails now on this input is only the known finding - not what the replay file recorded
            ok = True
        print('replay %s: %s' % (replay, 'property holds on this input now' if ok else 'STILL FAILS'))
        for f in fresh:
            print(json.dumps(f, default=str)[:2000])
        return 0 if ok else 1

    # stale replay files of earlier runs of this property would only confuse the reader
    import glob
    for old in glob.glob(os.path.join(VERIF, 'replays', pid + '-*.json')):
        try:
            os.remove(old)
        except OSError:
            pass

    # 1. regenerate + build ------------------------------------------------------------------
    info = common.ensure_built()
    broken = []          # names of theorems / correspondences that no longer check
    relevant = [u for u in info.get('untranslatable') or []
                if u.split(']')[0].lstrip('[') in DEPENDS.get(pid, ALL_TAGS)]
    if relevant:
        broken.append({'kind': 'translator', 'name': 'Generated.untranslatable = []', 'detail': relevant})
    model_available = info['build_ok'] and os.path.exists(common.DRIVER)
    if not info['build_ok']:
        broken.append({'kind': 'build', 'name': 'lake build (model + generated tables)',
                       'detail': info['build_log'][-1500:]})

    # 2. proof obligations -------------------------------------------------------------------
    obligations = []
    forbidden = common.grep_forbidden(prop.lean_files)
    if forbidden:
        broken.append({'kind': 'audit', 'name': 'forbidden tokens in Lean sources', 'detail': forbidden})
    lean_wall = 0.0
    if info['build_ok']:
        for f in prop.lean_files:
            res = common.lean_check_file(f)
            lean_wall += res['wall_s']
            for e in res['file_errors']:
                broken.append({'kind': 'lean', 'name': f, 'detail': e})
            for d in res['obligations']:
                obligations.append({'file': f, 'name': d['name'], 'kind': d['kind'], 'ok': d['ok'],
                                    'axioms': d['axioms']})
                if not d['ok']:
                    broken.append({'kind': 'theorem', 'name': '%s (%s:%d)' % (d['name'], f, d['line']),
                                   'detail': d['errors'][:2]})

    rechecks = []
    if tier == 'thorough' and info['build_ok'] and not broken:
        for f in prop.lean_files:
            rc = common.leanchecker_file(f)
            rechecks.append(rc)
            obligations.append({'file': f, 'name': 'leanchecker ' + rc.get('module', f), 'kind': 'recheck',
                                'ok': rc['ok'], 'axioms': None})
            if not rc['ok']:
                broken.append({'kind': 'leanchecker', 'name': 'leanchecker ' + f, 'detail': rc['detail']})

    # 3. correspondence + oracle on the implementation ----------------------------------------
    ctx = Ctx(pid, tier, seed, model_available, bool(relevant))
    try:
        prop.run(ctx)
    except Exception:  # noqa
        # an implementation that disagrees with itself answers with a marker line instead of a value; a property's
        # own oracle may not be able to read that.  The disagreement is already recorded as a failing input.
        if not any((f.get('signature') or {}).get('kind') == 'family' for f in ctx.failures):
            raise
        import traceback
        ctx.notes.append('the oracle stopped at a marker line: ' + traceback.format_exc().strip().splitlines()[-1])
    for d in ctx.disagreements[:50]:
        broken.append({'kind': 'correspondence', 'name': 'model.%s vs pyais' % d['command'], 'detail': d})

    # 4. search when something broke ------------------------------------------------------------
    searched = False
    if broken and not [f for f in ctx.failures if not match_known(f, findings, pid)]:
        searched = True
        if hasattr(prop, 'search'):
            prop.search(ctx, broken)
        else:
            generic_search(prop, ctx, pid)

    # 4b. obligations of one tie that a second, *complete* tie covers ---------------------------
    # (only where a property has both ties for the same code and the second one is an exhaustive enumeration of a
    # finite domain: C20's comm-state functions.  The property module decides and has to have run the complete
    # enumeration without a single disagreement or oracle failure.)
    superseded = []
    if broken and hasattr(prop, 'second_tie') and not ctx.failures:
        superseded = prop.second_tie(ctx, broken)
        if superseded:
            broken = [b for b in broken if b not in superseded]
            ctx.notes.append('tie 1 (source text) does not check for the present formulation of the source: %s; the '
                             'property is decided by the theorems about the model and the complete enumeration of the '
                             'finite domain (tie 2), which found no difference'
                             % ', '.join(b['name'] for b in superseded)[:1500])

    # 5. verdict -------------------------------------------------------------------------------
    new_failures, known_hits = [], {}
    for f in ctx.failures:
        k = match_known(f, findings, pid)
        if k:
            known_hits.setdefault(k['id'], (k, f))
        else:
            new_failures.append(f)

    lines = []
    exit_code = 0
    replay_paths = []
    if new_failures:
        # report the (first few) distinct failing inputs
        seen = set()
        for f in new_failures:
            key = json.dumps(f.get('signature') or f['what'], sort_keys=True, default=str)
            if key in seen:
                continue
            seen.add(key)
            p = write_replay(pid, 'fail', {'property': pid, 'kind': 'failing-input', 'failure': f,
                                           'broken': broken[:10], 'seed': seed, 'tier': tier, 'searched': searched,
                                           'rerun': './check %s --replay <this file>' % pid})
            replay_paths.append(p)
            lines.append('VIOLATION property=%s replay=%s' % (pid, p))
            if len(seen) >= 5:
                break
        exit_code = 1
    elif broken:
        p = write_replay(pid, 'unproved', {'property': pid, 'kind': 'no-longer-shown',
                                            'no_longer_checks': broken[:40], 'seed': seed, 'tier': tier,
                                            'searched': searched,
                                            'note': 'a proof obligation / the correspondence broke and the '
                                                    'failing-input search found no concrete counterexample'})
        replay_paths.append(p)
        lines.append('VIOLATION property=%s replay=%s no-failing-input-found' % (pid, p))
        exit_code = 1
    for kid, (k, f) in sorted(known_hits.items()):
        lines.append('KNOWN-FINDING: property=%s %s' % (pid, k['what']))

    # 6. evidence ------------------------------------------------------------------------------
    n_obl = len(obligations)
    n_ok = sum(1 for o in obligations if o['ok'])
    axioms = sorted({a for o in obligations for a in (o['axioms'] or [])})
    ev = {
        'property_id': pid,
        'tier': tier,
        'seed': seed,
        'level': 'proof',
        'coverage': {
            'obligations': n_obl,
            'discharged': n_ok,
            'checker_cmd': 'cd lean && lake build && ' + ' && '.join('lake env lean --json ' + f for f in prop.lean_files),
            'trusted_base': common.TRUSTED_BASE + list(getattr(prop, 'trusted_extra', [])),
            'axioms_used': axioms,
            'theorems': [{'name': o['name'], 'ok': o['ok'], 'axioms': o['axioms']} for o in obligations],
            'forbidden_token_hits': forbidden,
            'translator': {k: info.get(k) for k in ('changed', 'untranslatable', 'explored', 'classes')},
            'evaluations': ctx.evaluations,
            'distinct_nontrivial': len(ctx.nontrivial),
            'rule': getattr(prop, 'rule', ''),
            'samples': ctx.samples or [{'note': 'no correspondence samples'}],
            'correspondence_commands': ctx.corr_commands,
            'correspondence_disagreements': len(ctx.disagreements),
            'distribution': dict(sorted(ctx.dist.items())),
            'oracle_failures': len(ctx.failures),
            'known_findings_reproduced': sorted(known_hits),
            'search_ran': searched,
            'no_longer_checks': [b['name'] for b in broken][:40],
            'superseded_by_complete_enumeration': [b['name'] for b in superseded][:40],
            'translator_functions': info.get('functions'),
            'replays': replay_paths,
            'notes': ctx.notes[:20],
            'lean_wall_s': lean_wall,
            'leanchecker': rechecks,
            'build_s': info.get('build_s'),
        },
        'assumptions': list(getattr(prop, 'assumptions', [])),
        'wall_s': round(time.time() - t0, 2),
        'violations': len(new_failures) if new_failures else (1 if broken else 0),
    }
    common.write_json(os.path.join(VERIF, 'evidence', pid + '.json'), ev)
    for l in lines:
        print(l)
    print('%s %s: obligations %d/%d, correspondence %d cases (%d disagreements), oracle failures %d (%d known), %.1fs'
          % (pid, tier, n_ok, n_obl, ctx.evaluations, len(ctx.disagreements), len(ctx.failures),
             len(ctx.failures) - len(new_failures), time.time() - t0))
    return exit_code


def main(argv):
    import argparse
    ap = argparse.ArgumentParser()
    ap.add_argument('prop', nargs='?')
    ap.add_argument('--tier', default=os.environ.get('VERIF_TIER', 'quick'), choices=['quick', 'thorough'])
    ap.add_argument('--replay')
    ap.add_argument('--setup', action='store_true')
    a = ap.parse_args(argv)
    try:
        if a.setup:
            info = common.ensure_built()
            if not info['build_ok']:
                print(info['build_log'])
                return 2
            print('setup ok: %s' % {k: info[k] for k in ('changed', 'classes', 'build_s')})
            return 0
        if not a.prop:
            ap.error('property id required')
        return run_check(a.prop.upper(), a.tier, a.replay)
    except Infra as e:
        print('INFRASTRUCTURE FAILURE: %s' % e, file=sys.stderr)
        return 2
    except Exception:  # noqa
        traceback.print_exc()
        return 2
