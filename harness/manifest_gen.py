#!/usr/bin/env python3
"""Writes MANIFEST.json from the table below (kept in one place so that it is always valid)."""
import json
import os

HERE = os.path.dirname(os.path.dirname(os.path.abspath(__file__)))
BASELINE = 'cd /repo && env -u PYAIS_VERIF /venv/bin/python -m pytest -ra -q -p no:cacheprovider --timeout=900 --continue-on-collection-errors'

# property -> (technique, level text, level note, design ref)
CLAIMED = {}
PENDING = {}


def claim(pid, technique, text, note, ref):
    CLAIMED[pid] = (technique, text, note, ref)


exec(open(os.path.join(HERE, 'harness', 'manifest_table.py')).read())

checks = []
for pid in sorted(CLAIMED):
    technique, text, note, ref = CLAIMED[pid]
    checks.append({
        'property_id': pid,
        'quick_cmd': './check %s --tier quick' % pid,
        'thorough_cmd': './check %s --tier thorough' % pid,
        'evidence_file': 'evidence/%s.json' % pid,
        'replay_cmd_template': './check %s --replay {path}' % pid,
        'engine': 'lean-proof+correspondence',
        'level_claimed': {'category': 'proof', 'text': text, 'design_ref': ref},
        'level_note': note,
        'technique': technique,
    })

manifest = {
    'version': 1,
    'setup_cmd': './check --setup',
    'hooks': {
        'guard': 'PYAIS_VERIF',
        'enable': 'no instrumentation is needed: the checks import pyais from /repo in-process and observe it through '
                  'its public API (PYAIS_VERIF=1 is exported by ./check but no source line depends on it)',
        'baseline_off_cmd': BASELINE,
        'source_commits': [],
        'add_only': True,
    },
    'engines': [{
        'name': 'lean-proof+correspondence',
        'path': 'lean/ (Lean 4 model, specifications, theorems, driver) + harness/ (translator, correspondence, oracles)',
        'serves_properties': sorted(CLAIMED),
        'kind_free_text': 'machine-checked proof in Lean 4 about an executable model; the data part of the model is '
                          'regenerated from the pyais source on every run (translator), the hand-written part is tied '
                          'to pyais by differential execution through a line protocol (correspondence)',
    }],
    'checks': checks,
    'not_applicable': [{'property_id': p, 'reason': r} for p, r in sorted(PENDING.items())],
    'notes': 'See DESIGN.md. Exit codes: 0 property held, 1 VIOLATION (see replay), 2 infrastructure failure.',
}
with open(os.path.join(HERE, 'MANIFEST.json'), 'w') as f:
    json.dump(manifest, f, indent=1)
print('claimed', sorted(CLAIMED), 'pending', sorted(PENDING))
