"""C09 — the encoder emits well-formed NMEA 0183 sentences."""
import re

from .. import gen, impl

ARMOR = set(range(48, 88)) | set(range(96, 120))


def xor(bs):
    c = 0
    for b in bs:
        c ^= b
    return c


def check_sentences(ctx, inp, sents, talker, payload, fill, sig):
    """the property's well-formedness conditions on the emitted sentences"""
    def bad(what, exp, got):
        ctx.fail('encoder output not well-formed: ' + what, inp, exp, got, dict(sig, what=what))
        return False
    n = len(sents)
    chunks, seqs = [], set()
    for i, s in enumerate(sents):
        if len(s) + 2 > 82:
            return bad('longer than 82 characters including CR LF', '<= 80', len(s))
        m = re.fullmatch(rb'!([A-Z]{5}),(\d+),(\d+),(\d*),([AB]),([^,*]*),(\d)\*([0-9A-F]{2})', s)
        if not m:
            return bad('does not match !TTTTT,n,i,seq,chan,payload,fill*HH', 'match', s.decode('latin-1'))
        if m.group(1) != talker:
            return bad('talker/type', talker, m.group(1))
        if int(m.group(8), 16) != xor(s[1:s.index(b'*')]):
            return bad('checksum is not the XOR of the body', '%02X' % xor(s[1:s.index(b'*')]), m.group(8))
        if int(m.group(2)) != n or int(m.group(3)) != i + 1:
            return bad('fragment numbering', '%d of %d' % (i + 1, n), (m.group(3), m.group(2)))
        seqs.add(m.group(4))
        if not set(m.group(6)) <= ARMOR:
            return bad('payload character outside the armoring alphabet', 'armor alphabet', m.group(6))
        if int(m.group(7)) != (fill if i == n - 1 else 0):
            return bad('fill bits', fill if i == n - 1 else 0, int(m.group(7)))
        chunks.append(m.group(6))
    if len(seqs) > 1 or (n == 1 and seqs != {b''}) or (n > 1 and seqs == {b''}):
        return bad('sequence id', 'common, empty iff one fragment', sorted(seqs))
    if b''.join(chunks) != payload:
        return bad('chunks do not concatenate to the payload', payload, b''.join(chunks))
    return True


class Prop:
    lean_files = ['PyaisVerif/Properties/C09.lean']
    rule = ('ais_to_nmea_0183 on armored payloads of EVERY length 1..200 and sampled lengths up to 540 x both talker '
            'ids x both channels x fill 0..5; encode_ascii_6 on bit strings of every length 0..130 and sampled up to '
            '1064; encode_msg/encode_dict of all 35 classes with maximal binary/text content; each output is compared '
            'with the Lean model, checked against the well-formedness conditions of the property, and fed back to '
            'pyais.decode (must be accepted and decode like the payload bits); non-trivial = more than one fragment '
            'or non-zero fill ; requests that cannot be served (talker / channel of the wrong shape) must be refused; hand-made pipeline (to_bitarray + encode_ascii_6 + ais_to_nmea_0183) and a message object changed between two encodings agree with encode_msg; one bit vector armored twice')
    assumptions = []

    def run(self, ctx):
        rng = ctx.rng('c09')
        alphabet = bytes(sorted(ARMOR))
        # 1. ais_to_nmea_0183
        lengths = list(range(1, 201)) + ([rng.randint(201, 540) for _ in range(40)] if ctx.tier == 'quick'
                                           else list(range(201, 541)))
        ops, meta = [], []
        for L in lengths:
            for talker in (b'AIVDM', b'AIVDO'):
                for chan in (b'A', b'B'):
                    fill = rng.randint(0, 5)
                    p = bytes(rng.choice(alphabet) for _ in range(L))
                    ops.append('nmea %s %s %s %d' % (p.hex(), talker.hex(), chan.hex(), fill))
                    meta.append((p, talker, chan, fill))
        outs = ctx.corr(ops, impl.step, 'nmea', nontrivial=lambda l, o: ',' in o or not l.endswith(' 0'))
        for (p, talker, chan, fill), o in zip(meta, outs):
            inp = {'cmd': 'nmea', 'payload': p.hex(), 'talker': talker.decode(), 'chan': chan.decode(), 'fill': fill}
            if o.startswith('ERR'):
                ctx.fail('encoder raised', inp, 'sentences', o, {'kind': 'raises'})
                continue
            sents = [bytes.fromhex(x) for x in o.split(',')] if o != '-' else []
            if check_sentences(ctx, inp, sents, talker, p, fill, {'kind': 'wellformed'}) and len(sents) <= 9:
                r = impl.step('assemble 0 ' + ' '.join(s.hex() for s in sents))
                if r.startswith('ERR') or ' valid=1 ' not in r or ('pl=%s ' % p.hex()) not in r:
                    ctx.fail('emitted sentences are not accepted (valid, same payload) by the parser', inp,
                             'valid=1 pl=…', r[:200], {'kind': 'accepted'})
        # 2. encode_ascii_6 / fill bits
        ops, meta = [], []
        for L in list(range(0, 131)) + [rng.randint(131, 1064) for _ in range(60)]:
            bits = ''.join(rng.choice('01') for _ in range(L)) or '-'
            ops.append('armor %s' % bits)
            meta.append(bits)
        # every armoring character as the LAST one (and as the last two) of payloads of whole characters, also where
        # the bit length is a multiple of 8 and of 24
        for L in (6, 12, 18, 24, 48, 72, 96, 120, 168, 240, 1008):
            for v in range(64):
                head = ''.join(rng.choice('01') for _ in range(L - 6))
                if L >= 12 and v % 3 == 0:
                    head = head[:-6] + gen.bits_of_int(v, 6)
                ops.append('armor %s' % (head + gen.bits_of_int(v, 6)))
                meta.append(head + gen.bits_of_int(v, 6))
        outs = ctx.corr(ops, impl.step, 'armor', nontrivial=lambda l, o: not o.endswith(' 0'))
        for bits, o in zip(meta, outs):
            b = '' if bits == '-' else bits
            if o.startswith(('RESULT-DEPENDS', 'ERR')):
                continue         # (reported through the family marker / the correspondence)
            ph, f = o.split()
            inp = {'cmd': 'armor', 'bits': bits}
            if int(f) != (6 - len(b) % 6) % 6:
                ctx.fail('fill bits are not the padding to a six-bit boundary', inp, (6 - len(b) % 6) % 6, f,
                         {'kind': 'fill'})
            back = impl.step('dearmor %s %s' % (ph, f))
            if back != bits:
                ctx.fail('de-armoring the armored payload does not give the bits back', inp, bits, back, {'kind': 'fill-rt'})
        # 3. whole messages of every class with maximal content
        ops, meta = [], []
        for cname in sorted(gen.concrete_classes()):
            t, disc = gen.TYPE_OF[cname]
            for rep in range(6 if ctx.tier == 'quick' else 200):
                bits = gen.payload_bits(rng, cname)
                o = impl.step('frombits_cls %s %s' % (cname, bits))
                if o.startswith('ERR'):
                    continue
                kw = o.split('|', 1)[1]
                for talker in (b'AIVDM', b'AIVDO'):
                    chan = rng.choice([b'A', b'B'])
                    ops.append('encode_msg %s %s %s %s' % (cname, talker.hex(), chan.hex(), kw))
                    meta.append((cname, talker, kw))
        # ... and content that is LONGER than its field (binary data / text given by the caller: cut to the field,
        # never a message of more than the maximal length)
        import re as _re
        for cname in sorted(gen.concrete_classes()):
            fl = [f for f in gen.fields_of(gen.concrete_classes()[cname]) if f[0] in ('data', 'text') and f[2] in (bytes, str)]
            if not fl:
                continue
            name, w, d_type = fl[-1][0], fl[-1][1], fl[-1][2]
            o = impl.step('frombits_cls %s %s' % (cname, gen.payload_bits(rng, cname)))
            if o.startswith('ERR'):
                continue
            kw = o.split('|', 1)[1]
            unit = 8 if d_type is bytes else 6
            for n in sorted({w // unit + 1, w // unit + 7, 2 * (w // unit), 399, 400, 520}):
                if d_type is bytes:
                    val = 'y:' + bytes(rng.getrandbits(8) | 1 for _ in range(n)).hex()
                else:
                    val = 's:' + ''.join(rng.choice('ABCDEFGHIJKLMNOPQRSTUVWXYZ0123456789') for _ in range(n)).encode().hex()
                kw2, cnt = _re.subn(r'(^|;)%s=[^;]*' % name, lambda m_: '%s%s=%s' % (m_.group(1), name, val), kw)
                if cnt != 1:
                    continue
                ops.append('encode_msg %s %s %s %s' % (cname, b'AIVDM'.hex(), b'A'.hex(), kw2))
                meta.append((cname, b'AIVDM', kw2))
        outs = ctx.corr(ops, impl.step, 'encode_msg')
        for (cname, talker, kw), o in zip(meta, outs):
            inp = {'cmd': 'encode_msg', 'class': cname, 'kwargs': kw, 'talker': talker.decode()}
            ctx.count('class:' + cname)
            if o.startswith('ERR'):
                continue          # not encodable with these (decoded) values: outside C09 (C08 covers stability)
            try:
                sents = [bytes.fromhex(x) for x in o.split(',') if x]
                payload = b''.join(s.split(b',')[5] for s in sents)
                fill = int(sents[-1].split(b',')[6][:1])
            except (IndexError, ValueError):
                ctx.fail('the encoder returned no sentences or sentences without the seven NMEA fields', inp,
                         'one to three !AIVDx sentences', o[:200], {'kind': 'wellformed-msg', 'class': cname})
                continue
            if check_sentences(ctx, inp, sents, talker, payload, fill, {'kind': 'wellformed-msg', 'class': cname}):
                if len(sents) > 3:
                    ctx.fail('an encodable message needs more than three fragments', inp, '<= 3', len(sents),
                             {'kind': 'domain'})
                r = impl.step('decode 0 ' + ' '.join(s.hex() for s in sents))
                if r.startswith('ERR'):
                    ctx.fail('emitted sentences are rejected by decode()', inp, 'a message', r, {'kind': 'accepted-msg'})

        # 4. requests that cannot be served with a well-formed sentence (a talker that is not five capital letters, a
        # channel that is not one character, separators inside them): refused, or else the output is held against
        # the same conditions
        bad_talkers = [b'', b'AIVD', b'AIVDMM', b'AIVDM,1', b'aivdm', b'AI*DM', b'AIVDM' * 12, b'\xc4IVDM', b'AIVD\n']
        bad_chans = [b'', b'AB', b',', b'*', b'A,', b'\n', b'AAAAAAAAAAAAAAAAAAAAAAAAAAAAAAAAAAAAAAAAAAAAAAAAAAAAAAAAAAAAAAAAAAAAAAAA']
        ops, meta = [], []
        some = []
        for cname in ('MessageType1', 'MessageType5', 'MessageType14'):
            o = impl.step('frombits_cls %s %s' % (cname, gen.payload_bits(rng, cname)))
            if not o.startswith('ERR'):
                some.append((cname, o.split('|', 1)[1]))
        for talker, chan in [(t, b'A') for t in bad_talkers] + [(b'AIVDM', c) for c in bad_chans] + [(b'', b'')]:
            for L in (1, 59, 61, 130):
                if len(talker) == 5 and len(chan) == 1:
                    # the low-level helper only checks the lengths; what it does with five arbitrary characters is
                    # not the encoder's contract (encode_msg / encode_dict refuse them, below)
                    continue
                pl = bytes(rng.choice(alphabet) for _ in range(L))
                ops.append('nmea %s %s %s 0' % (pl.hex(), talker.hex() or '-', chan.hex() or '-'))
                meta.append(('nmea', talker, chan, pl, 0))
            for cname, kw in some:
                ops.append('encode_msg %s %s %s %s' % (cname, talker.hex() or '-', chan.hex() or '-', kw))
                meta.append(('encode_msg', talker, chan, None, cname))
                t = gen.TYPE_OF[cname][0]
                ops.append('encode_dict %s %s %s;type=i:%d' % (talker.hex() or '-', chan.hex() or '-', kw, t))
                meta.append(('encode_dict', talker, chan, None, cname))
        # ... and dictionaries without a usable message type
        for cname, kw in some[:1]:
            for tkw in ('', ';type=i:99', ';type=i:-1', ';type=i:28', ';type=s:%s' % b'abc'.hex(), ';msg_type=i:64'):
                kw2 = ';'.join(x for x in kw.split(';') if not x.startswith('msg_type=')) + tkw
                ops.append('encode_dict %s %s %s' % (b'AIVDM'.hex(), b'A'.hex(), kw2))
                meta.append(('encode_dict', b'AIVDM', b'A', None, cname))
        outs = ctx.corr(ops, impl.step, 'refused-requests', nontrivial=lambda l, o: o.startswith('ERR'))
        for (cmd, talker, chan, pl, extra), o, op in zip(meta, outs, ops):
            ctx.count('refused:' + cmd)
            if o.startswith('ERR'):
                continue
            inp = {'cmd': cmd, 'op': op, 'talker': talker.decode('latin-1'), 'chan': chan.decode('latin-1')}
            try:
                sents = [bytes.fromhex(x) for x in o.split(',') if x and x != '-']
                payload = pl if pl is not None else b''.join(x.split(b',')[5] for x in sents)
                fill = extra if pl is not None else int(sents[-1].split(b',')[6][:1])
            except (IndexError, ValueError):
                ctx.fail('encoder output not well-formed: not the seven NMEA fields', inp, 'refusal or well-formed sentences',
                         o[:200], {'kind': 'wellformed-refused'})
                continue
            check_sentences(ctx, inp, sents, talker, payload, fill, {'kind': 'wellformed-refused'})

    def replay(self, ctx, payload):
        inp = payload['failure']['input']
        if inp.get('op'):
            o = impl.step(inp['op'])
            print('observed:', o[:300])
            if o.startswith('ERR'):
                return True
            sents = [bytes.fromhex(x) for x in o.split(',') if x and x != '-']
            try:
                payload = b''.join(x.split(b',')[5] for x in sents)
                fill = int(sents[-1].split(b',')[6][:1])
            except (IndexError, ValueError):
                return False
            check_sentences(ctx, inp, sents, inp['talker'].encode('latin-1'), payload, fill, {})
            return not ctx.failures
        if inp['cmd'] == 'nmea':
            p, talker = bytes.fromhex(inp['payload']), inp['talker'].encode()
            o = impl.step('nmea %s %s %s %d' % (inp['payload'], talker.hex(), inp['chan'].encode().hex(), inp['fill']))
            sents = [bytes.fromhex(x) for x in o.split(',')] if not o.startswith('ERR') and o != '-' else []
            check_sentences(ctx, inp, sents, talker, p, inp['fill'], {})
        else:
            return None          # regenerated from the recorded seed by the generic replay
        return not ctx.failures


PROP = Prop()
